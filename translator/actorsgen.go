package main

import (
	"fmt"
	"go/ast"
	"strings"
)

// Gen_Actors.v, from actor/player_runner.go, actor/bot_runner.go, actor/observer_runner.go and
// actor/table_engine_adapter.go: the shape of the decision chains the actor models are written after.

// the `if gs.HasAction(playerIdx, "x") { return <recv>.actions.Y(...) } else if ...` chain at the top of a function
func hasActionChain(fd *ast.FuncDecl, recv string) []string {
	var out []string
	if len(fd.Body.List) == 0 {
		return out
	}
	var walk func(st ast.Stmt)
	walk = func(st ast.Stmt) {
		ifs, ok := st.(*ast.IfStmt)
		if !ok {
			return
		}
		c := src(ifs.Cond)
		if !strings.HasPrefix(c, "gs.HasAction(playerIdx, \"") {
			return
		}
		a := strings.TrimSuffix(strings.TrimPrefix(c, "gs.HasAction(playerIdx, "), ")")
		body := squash(src(ifs.Body))
		call := ""
		for _, m := range []string{"Ready", "Pass", "Check", "Fold", "Call", "Allin", "Bet", "Raise", "Pay"} {
			if strings.HasPrefix(body, "{return"+recv+".actions."+m+"(") {
				call = m
			}
		}
		if call == "" && strings.Contains(body, "switchgs.Status.CurrentEvent") {
			call = "PaySwitch"
		}
		out = append(out, fmt.Sprintf("(%s, \"%s\")", actConst[a], call))
		if ifs.Else != nil {
			walk(ifs.Else.(ast.Stmt))
		}
	}
	for _, st := range fd.Body.List {
		if ifs, ok := st.(*ast.IfStmt); ok && strings.HasPrefix(src(ifs.Cond), "gs.HasAction(playerIdx, \"") {
			walk(st)
			break
		}
	}
	return out
}

// the mandatory payment switch: ante -> Meta.Ante; blinds -> sb ? Blind.SB : bb ? Blind.BB : Blind.Dealer
func paySwitchOK(body, recv string) bool {
	s := squash(body)
	return strings.Contains(s, squash("case pokerface.GameEventSymbols[pokerface.GameEvent_AnteRequested]:")) &&
		strings.Contains(s, squash("return "+recv+".actions.Pay(gs.Meta.Ante)")) &&
		strings.Contains(s, squash("case pokerface.GameEventSymbols[pokerface.GameEvent_BlindsRequested]:")) &&
		strings.Contains(s, squash("if gs.HasPosition(playerIdx, \"sb\") { return "+recv+".actions.Pay(gs.Meta.Blind.SB) } else if gs.HasPosition(playerIdx, \"bb\") { return "+recv+".actions.Pay(gs.Meta.Blind.BB) } return "+recv+".actions.Pay(gs.Meta.Blind.Dealer)"))
}

func actionCalls(n ast.Node, recv string) []string {
	seen := map[string]bool{}
	var out []string
	ast.Inspect(n, func(x ast.Node) bool {
		if c, ok := x.(*ast.CallExpr); ok {
			f := src(c.Fun)
			if strings.HasPrefix(f, recv+".actions.") {
				m := strings.TrimPrefix(f, recv+".actions.")
				if !seen[m] {
					seen[m] = true
					out = append(out, "\""+m+"\"")
				}
			}
		}
		return true
	})
	return out
}

func genActors(repo, out string) {
	var b strings.Builder
	b.WriteString("From Coq Require Import List ZArith Bool String.\nImport ListNotations.\nFrom PT Require Import Spec.Hand_spec.\nOpen Scope string_scope.\n\n")
	actConst[`"pass"`], actConst[`"check"`], actConst[`"fold"`] = "APass", "ACheck", "AFold"

	// ---- player runner
	pf := parse(repo, "actor/player_runner.go")
	auto := findFunc(pf, "automate")
	b.WriteString("Definition automate_chain : list (act * string) := [" + strings.Join(hasActionChain(auto, "pr"), "; ") + "].\n")
	b.WriteString("Definition automate_calls : list string := [" + strings.Join(actionCalls(auto.Body, "pr"), "; ") + "].\n")
	b.WriteString(fmt.Sprintf("Definition automate_pay_is_mandatory_size : bool := %v.\n", paySwitchOK(src(auto.Body), "pr")))
	rm := findFunc(pf, "requestMove")
	rs := squash(src(rm.Body))
	b.WriteString(fmt.Sprintf("Definition player_passes_at_once : bool := %v.\n", strings.HasPrefix(rs, squash("{ // x\nif gs.HasAction(playerIdx, \"pass\") { return pr.actions.Pass() }")[1:]) ||
		strings.Contains(rs, squash("if gs.HasAction(playerIdx, \"pass\") { return pr.actions.Pass() }"))))
	b.WriteString(fmt.Sprintf("Definition player_suspended_automates_at_once : bool := %v.\n", strings.Contains(rs, squash("if pr.status == PlayerStatus_Suspend { return pr.automate(gs, playerIdx) }"))))
	b.WriteString(fmt.Sprintf("Definition player_waits_action_time : bool := %v.\n",
		strings.Contains(rs, squash("thinkingTime := time.Duration(pr.tableInfo.Meta.ActionTime) * time.Second")) &&
			strings.Contains(rs, squash("return pr.timebank.NewTask(thinkingTime, func(isCancelled bool) { if isCancelled { return }")) &&
			strings.Contains(rs, squash("pr.automate(gs, playerIdx) })"))))
	// nothing but pass / automate submits an action from requestMove
	b.WriteString("Definition player_request_calls : list string := [" + strings.Join(actionCalls(rm.Body, "pr"), "; ") + "].\n\n")

	// ---- bot runner
	bf := parse(repo, "actor/bot_runner.go")
	brm := findFunc(bf, "requestMove")
	b.WriteString("Definition bot_chain : list (act * string) := [" + strings.Join(hasActionChain(brm, "br"), "; ") + "].\n")
	b.WriteString(fmt.Sprintf("Definition bot_pay_is_mandatory_size : bool := %v.\n", paySwitchOK(src(brm.Body), "br")))
	ai := squash(src(findFunc(bf, "requestAI").Body))
	b.WriteString(fmt.Sprintf("Definition bot_bet_clamped : bool := %v.\n",
		strings.Contains(ai, squash("minBet := gs.Status.MiniBet if player.InitialStackSize <= minBet { return br.actions.Bet(player.InitialStackSize) } chips = rand.Int63n(player.InitialStackSize-minBet) + minBet err := br.actions.Bet(chips)"))))
	b.WriteString(fmt.Sprintf("Definition bot_raise_clamped : bool := %v.\n",
		strings.Contains(ai, squash("maxChipLevel := player.InitialStackSize minChipLevel := gs.Status.CurrentWager + gs.Status.PreviousRaiseSize if maxChipLevel <= minChipLevel { err := br.actions.Raise(maxChipLevel)")) &&
			strings.Contains(ai, squash("chips = rand.Int63n(maxChipLevel-minChipLevel) + minChipLevel err := br.actions.Raise(chips)"))))
	b.WriteString(fmt.Sprintf("Definition bot_picks_among_allowed : bool := %v.\n",
		strings.Contains(ai, squash("action := player.AllowedActions[0] if len(player.AllowedActions) > 1 { action = br.calcAction(player.AllowedActions) }"))))
	up := squash(src(findFunc(bf, "UpdateTableState").Body))
	b.WriteString(fmt.Sprintf("Definition bot_filters_stale_views : bool := %v.\n",
		strings.Contains(up, squash("if gs.GameID != br.curGameID { br.curGameID = gs.GameID } else if br.lastGameStateTime >= gs.UpdatedAt {")) &&
			strings.Contains(up, squash("if table.State.Status != pokertable.TableStateStatus_TableGamePlaying { return nil }")) &&
			strings.Contains(up, squash("if gamePlayerIdx == -1 {")) && strings.Contains(up, squash("if len(player.AllowedActions) > 0 {")) &&
			strings.Contains(up, squash("br.requestMove(table.State.GameState, gamePlayerIdx)"))))
	b.WriteString("\n")

	// ---- observer runner
	of := parse(repo, "actor/observer_runner.go")
	var statuses []string
	guarded := false
	ast.Inspect(findFunc(of, "UpdateTableState").Body, func(n ast.Node) bool {
		if ifs, ok := n.(*ast.IfStmt); ok && src(ifs.Cond) == "!obr.systemMode" {
			guarded = true
			ast.Inspect(ifs.Body, func(m ast.Node) bool {
				if cc, ok := m.(*ast.CaseClause); ok {
					for _, e := range cc.List {
						statuses = append(statuses, "\""+strings.TrimPrefix(src(e), "pokertable.TableStateStatus_")+"\"")
					}
				}
				return true
			})
		}
		return true
	})
	os := squash(src(findFunc(of, "UpdateTableState").Body))
	b.WriteString("Definition observer_filtered_statuses : list string := [" + strings.Join(statuses, "; ") + "].\n")
	// (after the repair recorded as F24) the filter is applied whenever a hand is attached, whatever the table's status
	b.WriteString(fmt.Sprintf("Definition observer_filters_whenever_a_hand_is_attached : bool := %v.\n",
		guarded && len(statuses) == 0 && strings.Contains(os, squash("if tableInfo.State.GameState != nil { tableInfo.State.GameState.AsObserver() }"))))
	b.WriteString(fmt.Sprintf("Definition observer_filter_skipped_only_in_system_mode : bool := %v.\n", guarded && strings.Contains(os, squash("tableInfo.State.GameState.AsObserver()"))))
	b.WriteString(fmt.Sprintf("Definition observer_filters_before_publishing : bool := %v.\n",
		strings.Index(os, squash("tableInfo.State.GameState.AsObserver()")) >= 0 && strings.Index(os, squash("tableInfo.State.GameState.AsObserver()")) < strings.Index(os, squash("obr.onTableStateUpdated(tableInfo)"))))

	// ---- adapter
	af := parse(repo, "actor/table_engine_adapter.go")
	as := squash(src(findFunc(af, "UpdateTableState").Body))
	b.WriteString(fmt.Sprintf("Definition adapter_hands_out_a_copy : bool := %v.\n",
		strings.Contains(as, squash("data, err := tableInfo.GetJSON()")) && strings.Contains(as, squash("var t pokertable.Table err = json.Unmarshal([]byte(data), &t)")) &&
			strings.Contains(as, squash("tea.table = &t return tea.actor.UpdateTableState(&t)")) && !strings.Contains(as, squash("UpdateTableState(tableInfo)"))))
	write(out, "Gen_Actors.v", b.String())
}

package main

import (
	"fmt"
	"go/ast"
	"strings"
)

// Gen_Positions.v, from position.go: the table  newPositions(playerCount)  (the switch), and the
// rotation offset used by updatePlayerPositions.
func genPositions(repo, out string) {
	f := parse(repo, "position.go")
	np := findFunc(f, "newPositions")
	consts := map[string]string{"Position_Dealer": "LDealer", "Position_SB": "LSB", "Position_BB": "LBB", "Position_UG": "LUG",
		"Position_UG2": "LUG2", "Position_UG3": "LUG3", "Position_MP": "LMP", "Position_MP2": "LMP2", "Position_HJ": "LHJ", "Position_CO": "LCO"}
	sw, ok := np.Body.List[0].(*ast.SwitchStmt)
	if !ok || src(sw.Tag) != "playerCount" {
		die("%s: newPositions: not a switch on playerCount", pos(np))
	}
	var rows []string
	hasDefaultEmpty := false
	for _, c := range sw.Body.List {
		cc := c.(*ast.CaseClause)
		if cc.List == nil {
			// default
			if len(cc.Body) == 1 && src(cc.Body[0]) == "return make([]string, 0)" {
				hasDefaultEmpty = true
			}
			continue
		}
		if len(cc.List) != 1 || len(cc.Body) != 1 {
			die("%s: newPositions: unrecognised case", pos(cc))
		}
		ret, ok := cc.Body[0].(*ast.ReturnStmt)
		if !ok {
			die("%s: newPositions: case does not return", pos(cc))
		}
		cl, ok := ret.Results[0].(*ast.CompositeLit)
		if !ok {
			die("%s: newPositions: case does not return a literal", pos(cc))
		}
		var labels []string
		for _, e := range cl.Elts {
			l, ok := consts[src(e)]
			if !ok {
				die("%s: newPositions: unknown label %s", pos(e), src(e))
			}
			labels = append(labels, l)
		}
		rows = append(rows, fmt.Sprintf("  | %s => [%s]", src(cc.List[0]), strings.Join(labels, "; ")))
	}
	if !hasDefaultEmpty {
		die("%s: newPositions: no empty default", pos(np))
	}
	// rotation offset in updatePlayerPositions:  positions = rotateStringArray(positions, K)
	up := findFunc(f, "updatePlayerPositions")
	offset := ""
	ast.Inspect(up.Body, func(n ast.Node) bool {
		if c, ok := n.(*ast.CallExpr); ok && src(c.Fun) == "rotateStringArray" && len(c.Args) == 2 {
			offset = src(c.Args[1])
		}
		return true
	})
	if offset == "" {
		die("%s: updatePlayerPositions: rotation not found", pos(up))
	}
	b := "From Coq Require Import List.\nImport ListNotations.\nFrom PT Require Import Model.Labels.\n\n" +
		"Definition new_positions (n : nat) : list label :=\n  match n with\n" + strings.Join(rows, "\n") + "\n  | _ => []\n  end.\n\n" +
		"Definition rotation_offset : nat := " + offset + ".\n"
	write(out, "Gen_Positions.v", b)
}

package main

import (
	"fmt"
	"go/ast"
	"strings"
)

// Gen_Manager.v: for every forwarding method of *manager
//   name, engine method called, forwarded argument positions (indexes into the
//   manager method's own parameter list, tableID being 0), what is returned when
//   the lookup fails, whether the registry entry is deleted afterwards, and whether
//   the body does anything else.
//
// Recognised body shape (anything else aborts the translation):
//   tableEngine, err := m.GetTableEngine(tableID)
//   if err != nil { return [zero,] ErrManagerTableNotFound }
//   then one of
//     return tableEngine.X(args)
//     tableEngine.X(args); return nil
//     if err := tableEngine.X(args); err != nil { return err }; m.tableEngines.Delete(tableID); return nil
func genManager(repo, out string) {
	f := parse(repo, "manager.go")
	special := map[string]bool{"Reset": true, "GetTableEngine": true, "CreateTable": true}
	var rows []string
	var names []string
	for _, fd := range methodsOf(f, "manager") {
		name := fd.Name.Name
		if special[name] {
			continue
		}
		params := paramNames(fd)
		if len(params) == 0 || params[0] != "tableID" {
			die("%s: manager method %s: first parameter is not tableID", pos(fd), name)
		}
		body := fd.Body.List
		if len(body) < 3 {
			die("%s: manager method %s: unrecognised body", pos(fd), name)
		}
		// statement 0: tableEngine, err := m.GetTableEngine(tableID)
		as, ok := body[0].(*ast.AssignStmt)
		if !ok || len(as.Lhs) != 2 || src(as.Rhs[0]) != "m.GetTableEngine(tableID)" {
			die("%s: manager method %s: does not start with the engine lookup on tableID: %s", pos(fd), name, src(body[0]))
		}
		engVar := src(as.Lhs[0])
		// statement 1: if err != nil { return ..., ErrManagerTableNotFound }
		ifs, ok := body[1].(*ast.IfStmt)
		if !ok || src(ifs.Cond) != "err != nil" || len(ifs.Body.List) != 1 {
			die("%s: manager method %s: unrecognised lookup-failure branch", pos(fd), name)
		}
		ret, ok := ifs.Body.List[0].(*ast.ReturnStmt)
		if !ok {
			die("%s: manager method %s: lookup failure does not return", pos(fd), name)
		}
		notFound := src(ret.Results[len(ret.Results)-1]) == "ErrManagerTableNotFound"
		rest := body[2:]
		var call *ast.CallExpr
		deletes := false
		other := false
		switch {
		case len(rest) == 1:
			r, ok := rest[0].(*ast.ReturnStmt)
			if !ok || len(r.Results) != 1 {
				die("%s: manager method %s: unrecognised tail %s", pos(fd), name, src(rest[0]))
			}
			call, ok = r.Results[0].(*ast.CallExpr)
			if !ok {
				die("%s: manager method %s: does not return an engine call", pos(fd), name)
			}
		case len(rest) == 2:
			es, ok := rest[0].(*ast.ExprStmt)
			r, ok2 := rest[1].(*ast.ReturnStmt)
			if !ok || !ok2 || len(r.Results) != 1 || src(r.Results[0]) != "nil" {
				die("%s: manager method %s: unrecognised tail", pos(fd), name)
			}
			call, ok = es.X.(*ast.CallExpr)
			if !ok {
				die("%s: manager method %s: unrecognised tail", pos(fd), name)
			}
		case len(rest) == 3:
			i2, ok := rest[0].(*ast.IfStmt)
			del, ok2 := rest[1].(*ast.ExprStmt)
			r, ok3 := rest[2].(*ast.ReturnStmt)
			if !ok || !ok2 || !ok3 || i2.Init == nil || src(i2.Cond) != "err != nil" || src(r.Results[0]) != "nil" {
				die("%s: manager method %s: unrecognised tail", pos(fd), name)
			}
			ia, ok := i2.Init.(*ast.AssignStmt)
			if !ok || len(ia.Rhs) != 1 {
				die("%s: manager method %s: unrecognised tail", pos(fd), name)
			}
			call, ok = ia.Rhs[0].(*ast.CallExpr)
			if !ok {
				die("%s: manager method %s: unrecognised tail", pos(fd), name)
			}
			if len(i2.Body.List) != 1 || src(i2.Body.List[0]) != "return err" {
				die("%s: manager method %s: engine error is not returned as is", pos(fd), name)
			}
			if src(del.X) == "m.tableEngines.Delete(tableID)" {
				deletes = true
			} else {
				other = true
			}
		default:
			die("%s: manager method %s: unrecognised body (%d statements)", pos(fd), name, len(body))
		}
		sel, ok := call.Fun.(*ast.SelectorExpr)
		if !ok || src(sel.X) != engVar {
			die("%s: manager method %s: the call %s is not on the looked-up engine", pos(fd), name, src(call))
		}
		var idxs []string
		for _, a := range call.Args {
			id, ok := a.(*ast.Ident)
			k := -1
			if ok {
				for i, p := range params {
					if p == id.Name {
						k = i
					}
				}
			}
			if k < 0 {
				die("%s: manager method %s: argument %s is not one of the method's own parameters", pos(fd), name, src(a))
			}
			idxs = append(idxs, fmt.Sprint(k))
		}
		rows = append(rows, fmt.Sprintf("  {| mm_name := %q; mm_engine := %q; mm_nparams := %d; mm_args := [%s]; mm_notfound := %v; mm_deletes := %v; mm_other := %v |}",
			name, sel.Sel.Name, len(params), strings.Join(idxs, "; "), notFound, deletes, other))
		names = append(names, name)
	}
	// CreateTable: every write to the registry, whether it comes after the success check of the
	// engine's CreateTable, and under which key
	var stores []string
	for _, fd := range methodsOf(f, "manager") {
		if fd.Name.Name != "CreateTable" {
			continue
		}
		seenCreate, seenCheck := false, false
		for _, st := range fd.Body.List {
			text := src(st)
			if as, ok := st.(*ast.AssignStmt); ok && len(as.Rhs) == 1 && strings.Contains(src(as.Rhs[0]), ".CreateTable(setting)") {
				seenCreate = true
				continue
			}
			if ifs, ok := st.(*ast.IfStmt); ok && seenCreate && src(ifs.Cond) == "err != nil" && len(ifs.Body.List) == 1 {
				if r, ok := ifs.Body.List[0].(*ast.ReturnStmt); ok && len(r.Results) == 2 && src(r.Results[1]) == "err" {
					seenCheck = true
					continue
				}
			}
			if strings.Contains(text, "m.tableEngines.") {
				es, ok := st.(*ast.ExprStmt)
				if !ok {
					die("%s: CreateTable: unrecognised use of the registry: %s", pos(st), text)
				}
				call, ok := es.X.(*ast.CallExpr)
				if !ok || src(call.Fun) != "m.tableEngines.Store" || len(call.Args) != 2 {
					die("%s: CreateTable: unrecognised use of the registry: %s", pos(st), text)
				}
				key := src(call.Args[0])
				stores = append(stores, fmt.Sprintf("(%v, %v)", seenCreate && seenCheck, key == "table.ID" || key == "setting.TableID"))
			}
		}
		if !seenCreate {
			die("%s: CreateTable does not call the engine's CreateTable(setting)", pos(fd))
		}
	}
	// Reset: replaces the registry by an empty one
	resetClears := false
	for _, fd := range methodsOf(f, "manager") {
		if fd.Name.Name == "Reset" && len(fd.Body.List) == 1 && src(fd.Body.List[0]) == "m.tableEngines = sync.Map{}" {
			resetClears = true
		}
	}
	// the interface must list exactly these methods plus the special ones
	b := "From Coq Require Import List String Bool.\nImport ListNotations.\nOpen Scope string_scope.\n\n" +
		"Record mmethod := { mm_name : string; mm_engine : string; mm_nparams : nat; mm_args : list nat;\n" +
		"                    mm_notfound : bool; mm_deletes : bool; mm_other : bool }.\n\n" +
		"Definition manager_table : list mmethod := [\n" + strings.Join(rows, ";\n") + "\n].\n\n" +
		"(* CreateTable: registry writes as (after the engine's create succeeded, key is the table's id) *)\n" +
		"Definition create_stores : list (bool * bool) := [" + strings.Join(stores, "; ") + "].\n" +
		fmt.Sprintf("Definition reset_clears : bool := %v.\n", resetClears)
	write(out, "Gen_Manager.v", b)
}

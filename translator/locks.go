package main

import (
	"fmt"
	"go/ast"
	"strings"
)

// Gen_Locks.v: for every method of the table engine and of the seat manager, whether its body starts by
// taking the object's mutex and deferring its release (the whole body is then one critical section).
func lockTable(f *ast.File, recv, lock string) []string {
	var rows []string
	for _, m := range methodsOf(f, recv) {
		b := m.Body.List
		r := m.Recv.List[0].Names[0].Name
		locked := len(b) >= 2 && src(b[0]) == r+"."+lock+".Lock()" && src(b[1]) == "defer "+r+"."+lock+".Unlock()"
		// an Unlock anywhere else in a locked method would end the critical section early
		if locked {
			n := strings.Count(src(m.Body), r+"."+lock+".Unlock()")
			if n != 1 {
				locked = false
			}
		}
		rows = append(rows, fmt.Sprintf("(\"%s\", %v)", m.Name.Name, locked))
	}
	return rows
}

func genLocks(repo, out string) {
	var b strings.Builder
	b.WriteString("From Coq Require Import List Bool String.\nImport ListNotations.\nOpen Scope string_scope.\n\n")
	var eng []string
	for _, file := range []string{"table_engine.go", "table_engine_stage.go", "table_engine_internal.go", "game_statistics.go", "event.go"} {
		eng = append(eng, lockTable(parse(repo, file), "tableEngine", "lock")...)
	}
	b.WriteString("Definition engine_methods : list (string * bool) := [\n  " + strings.Join(eng, ";\n  ") + "\n].\n\n")
	sm := lockTable(parse(repo, "seat_manager/seat_manager_impl.go"), "seatManager", "mu")
	b.WriteString("Definition seat_manager_methods : list (string * bool) := [\n  " + strings.Join(sm, ";\n  ") + "\n].\n")
	write(out, "Gen_Locks.v", b.String())
}

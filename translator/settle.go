package main

import (
	"go/ast"
	"go/token"
	"strings"
)

// Gen_Settle.v, from table_engine_stage.go:
//   settleGame : how a result entry is written back to the bankroll, and through which index
//   startGame  : which field becomes the starting stack of a hand entry, iterating over which list
func genSettle(repo, out string) {
	f := parse(repo, "table_engine_stage.go")
	sg := findFunc(f, "settleGame")
	var loop *ast.RangeStmt
	for _, st := range sg.Body.List {
		if r, ok := st.(*ast.RangeStmt); ok && src(r.X) == "te.table.State.GameState.Result.Players" {
			// the loop that writes bankrolls is the one containing an assignment to playerState.Bankroll
			found := false
			ast.Inspect(r.Body, func(n ast.Node) bool {
				if as, ok := n.(*ast.AssignStmt); ok && len(as.Lhs) == 1 && src(as.Lhs[0]) == "playerState.Bankroll" {
					found = true
				}
				return true
			})
			if found {
				loop = r
			}
		}
	}
	if loop == nil {
		die("%s: settleGame: no loop over the result entries that writes playerState.Bankroll", pos(sg))
	}
	entry := src(loop.Value)
	vars := map[string]string{entry + ".Final": "final", entry + ".Changed": "changed", "playerState.Bankroll": "old"}
	var expr, idxExpr, stateExpr string
	for _, st := range loop.Body.List {
		as, ok := st.(*ast.AssignStmt)
		if !ok || len(as.Lhs) != 1 {
			continue
		}
		switch src(as.Lhs[0]) {
		case "playerIdx":
			idxExpr = src(as.Rhs[0])
		case "playerState":
			stateExpr = src(as.Rhs[0])
		case "playerState.Bankroll":
			if expr != "" {
				die("%s: settleGame: the bankroll is written twice", pos(as))
			}
			switch as.Tok {
			case token.ASSIGN:
				expr = zexpr(as.Rhs[0], vars)
			case token.ADD_ASSIGN:
				expr = "(old + " + zexpr(as.Rhs[0], vars) + ")"
			case token.SUB_ASSIGN:
				expr = "(old - " + zexpr(as.Rhs[0], vars) + ")"
			default:
				die("%s: settleGame: unrecognised bankroll update %s", pos(as), src(as))
			}
		}
	}
	if expr == "" {
		die("%s: settleGame: bankroll update not found at the top level of the loop", pos(loop))
	}
	viaGPI := idxExpr == "te.table.State.GamePlayerIndexes["+entry+".Idx]" && stateExpr == "te.table.State.PlayerStates[playerIdx]"

	// startGame: stacks
	st := findFunc(f, "startGame")
	stackFromBankroll, overGPI := false, false
	ast.Inspect(st.Body, func(n ast.Node) bool {
		r, ok := n.(*ast.RangeStmt)
		if !ok {
			return true
		}
		if src(r.X) == "te.table.State.GamePlayerIndexes" {
			body := src(r.Body)
			if strings.Contains(body, "player := te.table.State.PlayerStates[playerIdx]") && strings.Contains(body, "Bankroll:") {
				overGPI = true
				ast.Inspect(r.Body, func(m ast.Node) bool {
					if kv, ok := m.(*ast.KeyValueExpr); ok && src(kv.Key) == "Bankroll" {
						stackFromBankroll = src(kv.Value) == "player.Bankroll"
					}
					return true
				})
			}
		}
		return true
	})
	var b strings.Builder
	b.WriteString("From Coq Require Import ZArith Bool.\nOpen Scope Z_scope.\n\n")
	b.WriteString("(* settleGame: new bankroll of the player a result entry is mapped to *)\n")
	b.WriteString("Definition settle_bank (old changed final : Z) : Z := " + expr + ".\n")
	b.WriteString("(* the entry is mapped through GamePlayerIndexes[entry.Idx] into PlayerStates *)\n")
	if viaGPI {
		b.WriteString("Definition settle_via_gpi : bool := true.\n")
	} else {
		b.WriteString("Definition settle_via_gpi : bool := false.\n")
	}
	b.WriteString("(* startGame: entry i of the hand gets the bankroll of PlayerStates[GamePlayerIndexes[i]] as its stack *)\n")
	if stackFromBankroll && overGPI {
		b.WriteString("Definition stack_is_bankroll_of_gpi : bool := true.\n")
	} else {
		b.WriteString("Definition stack_is_bankroll_of_gpi : bool := false.\n")
	}
	write(out, "Gen_Settle.v", b.String())
}

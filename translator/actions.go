package main

import (
	"fmt"
	"go/ast"
	"go/token"
	"strings"
)

// Gen_Actions.v, from table_engine.go (Player<Action> methods), game.go (the table-side hand wrapper),
// table_engine_internal.go (deadline) and table_engine_stage.go (wiring of hand callbacks):
//
//   action_table : per player game action: locking, validation, which wrapper call it makes, what it
//                  publishes and which statistics it updates - and that all of this sits inside `if err == nil`
//   game_table   : per wrapper call: the validation it performs before touching anything, and that the
//                  state is replaced only after the backend succeeded
//   auto_steps   : the steps the engine makes by itself and whether a failure reaches the error callback
//   asks_*       : whom each collection point asks
//   deadline_*   : when the action deadline is set, cleared and extended

var actNames = map[string]string{
	"PlayerReady": "AReady", "PlayerPay": "APay", "PlayerPass": "APass", "PlayerFold": "AFold", "PlayerCheck": "ACheck",
	"PlayerCall": "ACall", "PlayerAllin": "AAllin", "PlayerBet": "ABet", "PlayerRaise": "ARaise",
}
var actOrder = []string{"PlayerReady", "PlayerPay", "PlayerPass", "PlayerFold", "PlayerCheck", "PlayerCall", "PlayerAllin", "PlayerBet", "PlayerRaise"}

var actConst = map[string]string{
	`"ready"`: "AReady", `"pay"`: "APay", `"pass"`: "APass", "WagerAction_Fold": "AFold", "WagerAction_Check": "ACheck",
	"WagerAction_Call": "ACall", "WagerAction_AllIn": "AAllin", "WagerAction_Bet": "ABet", "WagerAction_Raise": "ARaise",
	"Action_Ready": "AReady", "Action_Pay": "APay",
}

var statField = map[string]string{
	"ActionTimes": "CActions", "RaiseTimes": "CRaises", "CallTimes": "CCalls", "CheckTimes": "CChecks",
}
var flagField = map[string]string{
	"IsVPIPChance": "FVpipC", "IsVPIP": "FVpip", "IsPFRChance": "FPfrC", "IsPFR": "FPfr", "IsATSChance": "FAtsC", "IsATS": "FAts",
	"Is3BChance": "F3bC", "Is3B": "F3b", "IsFt3BChance": "FFt3bC", "IsFt3B": "FFt3b", "IsCheckRaiseChance": "FCrC", "IsCheckRaise": "FCr",
	"IsCBetChance": "FCbC", "IsCBet": "FCb", "IsFtCBChance": "FFtcbC", "IsFtCB": "FFtcb",
	"ShowdownWinningChance": "FSdC", "IsShowdownWinning": "FSd",
}

const gsPrefix = "playerState.GameStatistics."

// statistics updates inside the success block, flattened to guarded primitives:
//   ([guards], primitive)  - the primitive runs when every guard holds at that moment.
// Flattening `if g { a; b }` to `(g,a); (g,b)` is exact as long as no statement of the body writes the
// flag g reads; the translator refuses a body that does.
func statUpdates(stmts []ast.Stmt, where string, guards []string) []string {
	var out []string
	emit := func(prim string) {
		out = append(out, "(["+strings.Join(guards, "; ")+"], "+prim+")")
	}
	for _, st := range stmts {
		s := src(st)
		switch n := st.(type) {
		case *ast.IncDecStmt:
			x := src(n.X)
			f, ok := statField[strings.TrimPrefix(x, gsPrefix)]
			if !ok || n.Tok != token.INC || !strings.HasPrefix(x, gsPrefix) {
				die("%s: %s: unrecognised counter update %s", pos(st), where, s)
			}
			emit("SInc " + f)
		case *ast.AssignStmt:
			if len(n.Lhs) != 1 {
				die("%s: %s: unrecognised assignment %s", pos(st), where, s)
			}
			l, r := src(n.Lhs[0]), src(n.Rhs[0])
			switch {
			case l == "playerState" && r == "te.table.State.PlayerStates[playerIdx]" && n.Tok == token.DEFINE:
				// local alias
			case l == gsPrefix+"IsFold" && r == "true" && n.Tok == token.ASSIGN:
				emit("SSetFold")
			case l == gsPrefix+"FoldRound" && r == "round" && n.Tok == token.ASSIGN:
				// `round` must be the hand's round read BEFORE the hand call (checked by the caller)
				emit("SSetFoldRound")
			case strings.HasPrefix(l, gsPrefix) && r == "true" && n.Tok == token.ASSIGN && flagField[strings.TrimPrefix(l, gsPrefix)] != "":
				f := flagField[strings.TrimPrefix(l, gsPrefix)]
				for _, g := range guards {
					if g == "GFlag "+f {
						die("%s: %s: the body of a conditional writes the flag it tests (%s)", pos(st), where, f)
					}
				}
				emit("SSet " + f)
			default:
				die("%s: %s: unrecognised assignment %s", pos(st), where, s)
			}
		case *ast.IfStmt:
			if n.Init != nil || n.Else != nil {
				die("%s: %s: unrecognised conditional %s", pos(st), where, s)
			}
			c := src(n.Cond)
			var g string
			switch {
			case c == "te.game.GetGameState().Status.CurrentRaiser == gamePlayerIdx":
				g = "GRaiser"
			case strings.HasPrefix(c, gsPrefix) && flagField[strings.TrimPrefix(c, gsPrefix)] != "":
				g = "GFlag " + flagField[strings.TrimPrefix(c, gsPrefix)]
			default:
				die("%s: %s: unrecognised condition %s", pos(st), where, c)
			}
			inner := statUpdates(n.Body.List, where, append(append([]string{}, guards...), g))
			if strings.HasPrefix(g, "GFlag") {
				for _, u := range inner {
					if strings.HasSuffix(u, "SRefresh3B)") && g == "GFlag F3b" {
						die("%s: %s: refreshThreeBet under a test of the 3-bet flag", pos(st), where)
					}
				}
			}
			out = append(out, inner...)
		case *ast.ExprStmt:
			if s == "te.refreshThreeBet(playerState, playerIdx)" {
				emit("SRefresh3B")
			} else {
				die("%s: %s: unrecognised call %s", pos(st), where, s)
			}
		default:
			die("%s: %s: unrecognised statement %s", pos(st), where, s)
		}
	}
	return out
}

func genActions(repo, out string) {
	var b strings.Builder
	b.WriteString("From Coq Require Import List ZArith Bool String.\nImport ListNotations.\nFrom PT Require Import Model.ActionTypes.\nOpen Scope string_scope.\n\n")

	// ---- table_engine.go: Player<Action>
	f := parse(repo, "table_engine.go")
	ms := map[string]*ast.FuncDecl{}
	for _, m := range methodsOf(f, "tableEngine") {
		ms[m.Name.Name] = m
	}
	var rows []string
	for _, name := range actOrder {
		m := ms[name]
		if m == nil {
			die("table_engine.go: method %s not found", name)
		}
		body := m.Body.List
		locks := len(body) >= 2 && src(body[0]) == "te.lock.Lock()" && src(body[1]) == "defer te.lock.Unlock()"
		validates, finds, guarded := false, false, true
		gameCall, setsLast, emits, lastAct, emitsLast := "", false, false, "", false
		var stats []string
		seenCall := false
		returnsErr := false
		roundBefore := false
		for i, st := range body {
			s := src(st)
			if i < 2 && locks {
				continue
			}
			switch n := st.(type) {
			case *ast.AssignStmt:
				l := src(n.Lhs[0])
				switch {
				case s == "gamePlayerIdx := te.table.FindGamePlayerIdx(playerID)":
				case s == "playerIdx := te.table.FindPlayerIndexFromGamePlayerIndex(gamePlayerIdx)":
				case l == "wager" && n.Tok == token.DEFINE:
				case l == "round" && n.Tok == token.DEFINE && src(n.Rhs[0]) == `""` && !seenCall:
					roundBefore = true
				case len(n.Lhs) == 2 && src(n.Lhs[1]) == "err" && strings.HasPrefix(src(n.Rhs[0]), "te.game."):
					if seenCall {
						die("%s: %s makes two hand calls", pos(st), name)
					}
					seenCall = true
					call := n.Rhs[0].(*ast.CallExpr)
					gameCall = call.Fun.(*ast.SelectorExpr).Sel.Name
					if len(call.Args) == 0 || src(call.Args[0]) != "gamePlayerIdx" {
						die("%s: %s: the hand call is not made for gamePlayerIdx", pos(st), name)
					}
				default:
					guarded = false
				}
			case *ast.IfStmt:
				c := src(n.Cond)
				switch {
				case n.Init != nil && src(n.Init) == "err := te.validateGameMove(gamePlayerIdx)" && c == "err != nil" && !seenCall:
					validates = strings.TrimSpace(src(n.Body)) == "{\n\treturn err\n}"
				case c == "playerIdx == UnsetValue" && !seenCall:
					finds = true
				case n.Init != nil && src(n.Init) == "cur := te.game.GetGameState()" && c == "cur != nil" && !seenCall:
					// reads the round of the hand before the action
					if squash(src(n.Body)) != squash("{ round = cur.Status.Round }") {
						guarded = false
					}
				case c == "te.table.State.GameState != nil && gamePlayerIdx < len(te.table.State.GameState.Players)" && !seenCall:
					// computes the local `wager` only
					for _, x := range n.Body.List {
						if as, ok := x.(*ast.AssignStmt); !ok || src(as.Lhs[0]) != "wager" {
							guarded = false
						}
					}
				case c == "err == nil" && seenCall && n.Else == nil && n.Init == nil:
					var rest []ast.Stmt
					for _, x := range n.Body.List {
						xs := src(x)
						if as, ok := x.(*ast.AssignStmt); ok && src(as.Lhs[0]) == "te.table.State.LastPlayerGameAction" {
							call, ok := as.Rhs[0].(*ast.CallExpr)
							if !ok || src(call.Fun) != "te.createPlayerGameAction" || len(call.Args) != 5 ||
								src(call.Args[0]) != "playerID" || src(call.Args[1]) != "playerIdx" {
								die("%s: %s: unrecognised last-action record %s", pos(x), name, xs)
							}
							setsLast = true
							lastAct = actConst[src(call.Args[2])]
							if lastAct == "" {
								die("%s: %s: unknown action constant %s", pos(x), name, src(call.Args[2]))
							}
							continue
						}
						if xs == "te.emitGamePlayerActionEvent(*te.table.State.LastPlayerGameAction)" {
							emits = true
							emitsLast = setsLast // published after it was recorded
							continue
						}
						rest = append(rest, x)
					}
					stats = statUpdates(rest, name, nil)
				default:
					guarded = false
				}
			case *ast.ReturnStmt:
				returnsErr = s == "return err" && i == len(body)-1
			default:
				guarded = false
			}
		}
		if !returnsErr {
			die("%s: %s does not end with `return err`", pos(m), name)
		}
		for _, u := range stats {
			if strings.HasSuffix(u, "SSetFoldRound)") && !roundBefore {
				die("%s: %s: the fold round is not the round read before the hand call", pos(m), name)
			}
		}
		if lastAct == "" {
			lastAct = actNames[name]
		}
		rows = append(rows, fmt.Sprintf("  {| ar_act := %s; ar_locks := %v; ar_validates := %v; ar_finds_player := %v; ar_game_call := \"%s\";\n     ar_guarded := %v; ar_sets_last := %v; ar_last_act := %s; ar_emits := %v;\n     ar_stats := [%s] |}",
			actNames[name], locks, validates, finds, gameCall, guarded, setsLast, lastAct, emits && emitsLast, strings.Join(stats, "; ")))
	}
	b.WriteString("Definition action_table : list arow := [\n" + strings.Join(rows, ";\n") + "\n].\n\n")

	// PlayerExtendActionDeadline
	ext := ms["PlayerExtendActionDeadline"]
	if ext == nil {
		die("table_engine.go: PlayerExtendActionDeadline not found")
	}
	es := src(ext.Body)
	extendOK := strings.Contains(es, "endAt := time.Unix(te.table.State.CurrentActionEndAt, 0)") &&
		strings.Contains(es, "currentActionEndAt := endAt.Add(time.Duration(duration) * time.Second).Unix()") &&
		strings.Contains(es, "te.table.State.CurrentActionEndAt = currentActionEndAt") &&
		strings.Contains(es, "return currentActionEndAt, nil")
	b.WriteString(fmt.Sprintf("(* PlayerExtendActionDeadline: new deadline = old + duration seconds, stored and returned *)\nDefinition extend_adds_duration : bool := %v.\n\n", extendOK))

	// ---- game.go
	g := parse(repo, "game.go")
	gm := map[string]*ast.FuncDecl{}
	for _, m := range methodsOf(g, "game") {
		gm[m.Name.Name] = m
	}
	var grows []string
	for _, name := range []string{"Ready", "Pay", "Pass", "Fold", "Check", "Call", "Allin", "Bet", "Raise"} {
		m := gm[name]
		if m == nil {
			die("game.go: method %s not found", name)
		}
		body := m.Body.List
		val, extra, backend, okOnly, group := "GNone", "None", "", true, false
		first, ok := body[0].(*ast.IfStmt)
		if ok && first.Init != nil && src(first.Cond) == "err != nil" {
			init := src(first.Init)
			switch {
			case init == "err := g.validatePlayMove(playerIdx)":
				val = "GPlay"
			case strings.HasPrefix(init, "err := g.validateActionMove(playerIdx, "):
				a := strings.TrimSuffix(strings.TrimPrefix(init, "err := g.validateActionMove(playerIdx, "), ")")
				if actConst[a] == "" {
					die("%s: %s: unknown action %s", pos(first), name, a)
				}
				val = "(GAction " + actConst[a] + ")"
			}
			if !strings.Contains(src(first.Body), "return g.GetGameState(), err") {
				val = "GNone"
			}
		}
		updated := false
		for _, st := range body[1:] {
			s := src(st)
			switch n := st.(type) {
			case *ast.IfStmt:
				c := src(n.Cond)
				if strings.HasPrefix(c, "!g.gs.HasAction(playerIdx, ") && !updated && backend == "" {
					a := strings.TrimSuffix(strings.TrimPrefix(c, "!g.gs.HasAction(playerIdx, "), ")")
					if actConst[a] == "" || !strings.Contains(src(n.Body), "ErrGameInvalidAction") {
						die("%s: %s: unrecognised allowed-action check %s", pos(st), name, s)
					}
					extra = "(Some " + actConst[a] + ")"
				} else if c == "err != nil" && backend != "" && !updated {
					if !strings.Contains(src(n.Body), "return g.GetGameState(), err") {
						okOnly = false
					}
				} else if c == "!ok" && name == "Pay" {
				} else {
					die("%s: %s: unrecognised conditional %s", pos(st), name, s)
				}
			case *ast.AssignStmt:
				r := src(n.Rhs[0])
				if strings.HasPrefix(r, "g.backend.") {
					if updated {
						okOnly = false
					}
					backend = n.Rhs[0].(*ast.CallExpr).Fun.(*ast.SelectorExpr).Sel.Name
				} else if name == "Pay" && strings.HasPrefix(s, "event, ok :=") {
				} else {
					die("%s: %s: unrecognised assignment %s", pos(st), name, s)
				}
			case *ast.ExprStmt:
				switch s {
				case "g.updateGameState(gs)":
					if backend == "" {
						okOnly = false
					}
					updated = true
				case "g.rg.Ready(int64(playerIdx))":
					group = true
				default:
					die("%s: %s: unrecognised call %s", pos(st), name, s)
				}
			case *ast.SwitchStmt:
				if name != "Pay" || !strings.Contains(s, "g.rg.Ready(int64(playerIdx))") {
					die("%s: %s: unrecognised switch", pos(st), name)
				}
				group = true
			case *ast.ReturnStmt:
			default:
				die("%s: %s: unrecognised statement %s", pos(st), name, s)
			}
		}
		grows = append(grows, fmt.Sprintf("  {| gr_name := \"%s\"; gr_validation := %s; gr_allowed_check := %s; gr_backend := \"%s\"; gr_state_replaced_on_success_only := %v; gr_answers_group := %v |}",
			name, val, extra, backend, okOnly, group))
	}
	b.WriteString("Definition game_table : list grow := [\n" + strings.Join(grows, ";\n") + "\n].\n\n")

	// validatePlayMove / validateActionMove
	vp, va := src(gm["validatePlayMove"].Body), src(gm["validateActionMove"].Body)
	b.WriteString(fmt.Sprintf("Definition play_move_requires_current : bool := %v.\n", strings.Contains(vp, "g.gs.Status.CurrentPlayer != playerIdx") && strings.Contains(vp, "return ErrGameInvalidAction") && strings.Contains(vp, "g.gs.GetPlayer(playerIdx); p == nil")))
	b.WriteString(fmt.Sprintf("Definition action_move_requires_allowed : bool := %v.\n\n", strings.Contains(va, "!g.gs.HasAction(playerIdx, action)") && strings.Contains(va, "return ErrGameInvalidAction")))

	// validateGameMove (table_engine_internal.go)
	ti := parse(repo, "table_engine_internal.go")
	vg := src(findFunc(ti, "validateGameMove").Body)
	b.WriteString(fmt.Sprintf("Definition game_move_requires_playing : bool := %v.\nDefinition game_move_requires_entry : bool := %v.\n\n",
		strings.Contains(vg, "te.table.State.Status != TableStateStatus_TableGamePlaying") && strings.Contains(vg, "return ErrTablePlayerInvalidGameAction"),
		strings.Contains(vg, "gamePlayerIdx == UnsetValue") && strings.Contains(vg, "return ErrTablePlayerNotFound")))

	// auto steps: a failure reaches onGameErrorUpdated
	var autos []string
	for _, h := range [][2]string{{"onReadyRequested", "ReadyForAll"}, {"onAnteRequested", "PayAnte"}, {"onBlindsRequested", "PayBlinds"}, {"onRoundClosed", "Next"}} {
		m := gm[h[0]]
		if m == nil {
			die("game.go: %s not found", h[0])
		}
		reported := false
		ast.Inspect(m.Body, func(n ast.Node) bool {
			ifs, ok := n.(*ast.IfStmt)
			if !ok {
				return true
			}
			c := src(ifs.Cond)
			init := ""
			if ifs.Init != nil {
				init = src(ifs.Init)
			}
			if c == "err != nil" && strings.Contains(src(ifs.Body), "g.onGameErrorUpdated(gs, err)") {
				reported = reported || strings.Contains(init, h[1]+"()") || strings.Contains(src(m.Body), ":= g."+h[1]+"()") || strings.Contains(src(m.Body), "g.backend."+h[1]+"(")
			}
			return true
		})
		autos = append(autos, fmt.Sprintf("(\"%s\", %v)", h[1], reported))
	}
	b.WriteString("Definition auto_steps : list (string * bool) := [" + strings.Join(autos, "; ") + "].\n")
	stg := parse(repo, "table_engine_stage.go")
	sgs := src(findFunc(stg, "startGame").Body)
	wired := false
	if i := strings.Index(sgs, "te.game.OnGameErrorUpdated("); i >= 0 {
		rest := sgs[i:]
		if j := strings.Index(rest, "})"); j >= 0 {
			wired = strings.Contains(rest[:j], "te.emitErrorEvent(")
		}
	}
	b.WriteString(fmt.Sprintf("Definition hand_errors_reach_error_callback : bool := %v.\n\n", wired))

	// whom the collection points ask
	asksAll := func(name string) bool {
		s := src(gm[name].Body)
		return strings.Contains(s, "for _, p := range gs.Players {\n\t\tg.rg.Add(int64(p.Idx), false)")
	}
	b.WriteString(fmt.Sprintf("Definition ready_asks_all : bool := %v.\nDefinition ante_asks_all : bool := %v.\n", asksAll("onReadyRequested"), asksAll("onAnteRequested")))
	b.WriteString(fmt.Sprintf("Definition ante_skipped_when_zero : bool := %v.\n", strings.Contains(src(gm["onAnteRequested"].Body), "if gs.Meta.Ante == 0 {\n\t\treturn\n\t}")))
	var rules []string
	ast.Inspect(gm["onBlindsRequested"].Body, func(n ast.Node) bool {
		ifs, ok := n.(*ast.IfStmt)
		if !ok {
			return true
		}
		c := src(ifs.Cond)
		for _, k := range [][3]string{{"BB", "Position_BB", "BlBB"}, {"SB", "Position_SB", "BlSB"}, {"Dealer", "Position_Dealer", "BlDealer"}} {
			if c == "gs.Meta.Blind."+k[0]+" > 0 && gs.HasPosition(p.Idx, "+k[1]+")" && strings.Contains(src(ifs.Body), "g.rg.Add(int64(p.Idx), false)") {
				rules = append(rules, k[2])
			}
		}
		return true
	})
	b.WriteString("Definition blind_ask_rules : list blind_kind := [" + strings.Join(rules, "; ") + "].\n")
	to := ""
	ast.Inspect(findFunc(g, "NewGame").Body, func(n ast.Node) bool {
		if c, ok := n.(*ast.CallExpr); ok && src(c.Fun) == "syncsaga.WithTimeout" {
			to = src(c.Args[0])
		}
		return true
	})
	if to == "" {
		die("game.go: NewGame: response timeout not found")
	}
	b.WriteString("Definition response_timeout : Z := " + to + "%Z.\n")
	rc := src(gm["onRoundClosed"].Body)
	b.WriteString(fmt.Sprintf("Definition round_closed_calls_next : bool := %v.\n\n", strings.Contains(rc, "g.backend.Next(gs)") && strings.Contains(rc, "g.updateGameState(gs)")))

	// deadline
	ud := findFunc(ti, "updateCurrentActionEndAt")
	us := src(ud.Body)
	var vacts []string
	ast.Inspect(ud.Body, func(n ast.Node) bool {
		as, ok := n.(*ast.AssignStmt)
		if ok && src(as.Lhs[0]) == "validActions" {
			for _, e := range as.Rhs[0].(*ast.CompositeLit).Elts {
				if actConst[src(e)] == "" {
					die("%s: unknown action %s", pos(e), src(e))
				}
				vacts = append(vacts, actConst[src(e)])
			}
		}
		return true
	})
	b.WriteString("Definition deadline_valid_actions : list act := [" + strings.Join(vacts, "; ") + "].\n")
	b.WriteString(fmt.Sprintf("Definition deadline_on_round_started_while_playing : bool := %v.\n", strings.Contains(us, "validRoundState := te.table.State.Status == TableStateStatus_TableGamePlaying && event == pokerface.GameEvent_RoundStarted && funk.Contains(validRounds, gs.Status.Round)") && strings.Contains(us, "validRounds := []string{GameRound_Preflop, GameRound_Flop, GameRound_Turn, GameRound_River}")))
	b.WriteString(fmt.Sprintf("Definition deadline_requires_unmoved : bool := %v.\n", strings.Contains(us, "playerUnmoved := len(p.AllowedActions) > 0 && !p.Acted") && strings.Contains(us, "if validRoundState && playerUnmoved && isActionValid {")))
	b.WriteString(fmt.Sprintf("Definition deadline_is_now_plus_action_time : bool := %v.\n", strings.Contains(us, "te.table.State.CurrentActionEndAt = time.Now().Add(time.Second * time.Duration(te.table.Meta.ActionTime)).Unix()")))
	rcClears := false
	if i := strings.Index(sgs, "te.game.OnGameRoundClosed("); i >= 0 {
		rest := sgs[i:]
		if j := strings.Index(rest, "})"); j >= 0 {
			rcClears = strings.Contains(rest[:j], "te.table.State.CurrentActionEndAt = 0")
		}
	}
	b.WriteString(fmt.Sprintf("Definition round_closed_clears_deadline : bool := %v.\n", rcClears))
	cg := findFunc(stg, "continueGame")
	contClears := false
	for _, st := range cg.Body.List {
		if src(st) == "te.table.State.CurrentActionEndAt = 0" {
			contClears = true
		}
	}
	b.WriteString(fmt.Sprintf("Definition continue_clears_deadline : bool := %v.\n", contClears))
	// continueGame resets the statistics block of every player: an unconditional statement at the top level of a
	// loop over all player states
	resets := false
	for _, st := range cg.Body.List {
		var body *ast.BlockStmt
		switch l := st.(type) {
		case *ast.RangeStmt:
			if src(l.X) == "te.table.State.PlayerStates" {
				body = l.Body
			}
		case *ast.ForStmt:
			if l.Cond != nil && src(l.Cond) == "i < len(te.table.State.PlayerStates)" && l.Init != nil && src(l.Init) == "i := 0" && l.Post != nil && src(l.Post) == "i++" {
				body = l.Body
			}
		}
		if body == nil {
			continue
		}
		for _, x := range body.List {
			if as, ok := x.(*ast.AssignStmt); ok && strings.HasSuffix(src(as.Lhs[0]), ".GameStatistics") && src(as.Rhs[0]) == "NewPlayerGameStatistics()" {
				resets = true
			}
		}
	}
	b.WriteString(fmt.Sprintf("Definition continue_resets_statistics : bool := %v.\n", resets))
	// game_statistics.go: which 'had the chance' flags sit behind validateGameStatisticGameState, and what that gate needs
	gsf := parse(repo, "game_statistics.go")
	chanceFn := map[string]string{"isVPIPChance": "FVpipC", "isPFRChance": "FPfrC", "isATSChance": "FAtsC", "is3BChance": "F3bC", "IsFt3BChance": "FFt3bC",
		"isCheckRaiseChance": "FCrC", "isCBetChance": "FCbC", "isFtCBChance": "FFtcbC"}
	up := src(findFunc(gsf, "updateCurrentPlayerGameStatistics").Body)
	var gated, marked []string
	for _, fn := range []string{"isVPIPChance", "isPFRChance", "isATSChance", "is3BChance", "IsFt3BChance", "isCheckRaiseChance", "isCBetChance", "isFtCBChance"} {
		fd := findFunc(gsf, fn)
		fl := chanceFn[fn]
		field := ""
		for k, v := range flagField {
			if v == fl {
				field = k
			}
		}
		if !strings.Contains(up, "te."+fn+"(") || !strings.Contains(up, "currentPlayer.GameStatistics."+field+" = true") {
			die("game_statistics.go: updateCurrentPlayerGameStatistics does not mark %s through %s", field, fn)
		}
		marked = append(marked, fl)
		first := src(fd.Body.List[0])
		if squash(first) == squash("if !te.validateGameStatisticGameState(gamePlayerIdx, gs) { return false }") {
			gated = append(gated, fl)
		}
	}
	// nothing else in updateCurrentPlayerGameStatistics writes the statistics block
	if n := strings.Count(up, ".GameStatistics."); n != len(marked) {
		die("game_statistics.go: updateCurrentPlayerGameStatistics writes %d statistics fields, %d recognised", n, len(marked))
	}
	b.WriteString("Definition marked_chances : list flag := [" + strings.Join(marked, "; ") + "].\n")
	b.WriteString("Definition gated_chances : list flag := [" + strings.Join(gated, "; ") + "].\n")
	gate := src(findFunc(gsf, "validateGameStatisticGameState").Body)
	b.WriteString(fmt.Sprintf("(* the gate holds only for a betting event named \"Started\" and a current player whose Acted flag is already set *)\nDefinition gate_requires_started_and_acted : bool := %v.\n",
		strings.Contains(squash(gate), squash("validEvent := pokerface.GameEventSymbols[pokerface.GameEvent_Started]")) &&
			strings.Contains(squash(gate), squash("if !(gs.Status.CurrentEvent == validEvent && funk.Contains(validRounds, gs.Status.Round)) { return false }")) &&
			strings.Contains(squash(gate), squash("player := gs.Players[gamePlayerIdx] if !player.Acted { return false }"))))
	// settleGame: showdown flags
	sg := src(findFunc(stg, "settleGame").Body)
	b.WriteString(fmt.Sprintf("Definition showdown_win_set_with_chance : bool := %v.\n",
		strings.Contains(sg, "playerState.GameStatistics.ShowdownWinningChance = true") && strings.Count(sg, "playerState.GameStatistics.IsShowdownWinning = true") == 1 &&
			strings.Index(sg, "playerState.GameStatistics.ShowdownWinningChance = true") < strings.Index(sg, "playerState.GameStatistics.IsShowdownWinning = true")))
	write(out, "Gen_Actions.v", b.String())
}

func squash(s string) string {
	return strings.Join(strings.Fields(s), "")
}

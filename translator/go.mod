module veriftranslator

go 1.18

package main

import (
	"fmt"
	"go/ast"
	"go/token"
	"strings"
)

// Gen_Seat.v, from seat_manager/seat_mamager.go and seat_manager/seat_manager_internal.go:
//   - SeatPlayer.Active() as a Coq predicate
//   - for each of the four circular scans: the index expression  seatID := f(start, i, MaxSeat),
//     the loop bounds, and the acceptance predicate on the seat's occupant
//   - the defaults of newSeatPlayer
// Integer expressions become Z expressions (Go's % is Z.rem); boolean expressions over a
// *SeatPlayer become bool expressions over the record sp of Model/SeatTypes.v.

func zexpr(e ast.Expr, vars map[string]string) string {
	switch x := e.(type) {
	case *ast.BasicLit:
		if x.Kind == token.INT {
			return x.Value
		}
	case *ast.Ident:
		if v, ok := vars[x.Name]; ok {
			return v
		}
	case *ast.SelectorExpr:
		if v, ok := vars[src(x)]; ok {
			return v
		}
	case *ast.ParenExpr:
		return "(" + zexpr(x.X, vars) + ")"
	case *ast.BinaryExpr:
		l, r := zexpr(x.X, vars), zexpr(x.Y, vars)
		switch x.Op {
		case token.ADD:
			return "(" + l + " + " + r + ")"
		case token.SUB:
			return "(" + l + " - " + r + ")"
		case token.MUL:
			return "(" + l + " * " + r + ")"
		case token.REM:
			return "(Z.rem " + l + " " + r + ")"
		case token.QUO:
			return "(Z.quot " + l + " " + r + ")"
		}
	}
	die("%s: cannot translate integer expression %s", pos(e), src(e))
	return ""
}

func bexpr(e ast.Expr, recv string, extra map[string]string) string {
	switch x := e.(type) {
	case *ast.ParenExpr:
		return "(" + bexpr(x.X, recv, extra) + ")"
	case *ast.UnaryExpr:
		if x.Op == token.NOT {
			return "(negb " + bexpr(x.X, recv, extra) + ")"
		}
	case *ast.BinaryExpr:
		switch x.Op {
		case token.LAND:
			return "(" + bexpr(x.X, recv, extra) + " && " + bexpr(x.Y, recv, extra) + ")"
		case token.LOR:
			return "(" + bexpr(x.X, recv, extra) + " || " + bexpr(x.Y, recv, extra) + ")"
		}
	case *ast.Ident:
		if v, ok := extra[x.Name]; ok {
			return v
		}
	case *ast.SelectorExpr:
		if src(x.X) == recv {
			switch x.Sel.Name {
			case "IsIn":
				return "(sp_in p)"
			case "HasChips":
				return "(sp_chips p)"
			case "IsBetweenDealerBB":
				return "(sp_btw p)"
			}
		}
	case *ast.CallExpr:
		if sel, ok := x.Fun.(*ast.SelectorExpr); ok && src(sel.X) == recv && sel.Sel.Name == "Active" && len(x.Args) == 0 {
			return "(active p)"
		}
	}
	die("%s: cannot translate boolean expression %s", pos(e), src(e))
	return ""
}

func findFunc(f *ast.File, name string) *ast.FuncDecl {
	for _, d := range f.Decls {
		if fd, ok := d.(*ast.FuncDecl); ok && fd.Name.Name == name {
			return fd
		}
	}
	die("function %s not found", name)
	return nil
}

// strip the leading  exist && sp != nil  conjuncts of a condition; returns the rest (or nil)
func stripExist(e ast.Expr) (ast.Expr, bool) {
	var conj []ast.Expr
	var flat func(ast.Expr)
	flat = func(x ast.Expr) {
		if b, ok := x.(*ast.BinaryExpr); ok && b.Op == token.LAND {
			flat(b.X)
			flat(b.Y)
			return
		}
		conj = append(conj, x)
	}
	flat(e)
	if len(conj) < 2 || src(conj[0]) != "exist" || src(conj[1]) != "sp != nil" {
		return nil, false
	}
	rest := conj[2:]
	if len(rest) == 0 {
		return nil, true
	}
	out := rest[0]
	for _, c := range rest[1:] {
		out = &ast.BinaryExpr{X: out, Op: token.LAND, Y: c}
	}
	return out, true
}

func genSeat(repo, out string) {
	f1 := parse(repo, "seat_manager/seat_mamager.go")
	f2 := parse(repo, "seat_manager/seat_manager_internal.go")
	var b strings.Builder
	b.WriteString("From Coq Require Import ZArith Bool.\nFrom PT Require Import Model.SeatTypes.\nOpen Scope Z_scope.\nOpen Scope bool_scope.\n\n")

	// SeatPlayer.Active
	act := findFunc(f1, "Active")
	if len(act.Body.List) != 1 {
		die("%s: Active(): unrecognised body", pos(act))
	}
	ret, ok := act.Body.List[0].(*ast.ReturnStmt)
	if !ok || len(ret.Results) != 1 {
		die("%s: Active(): unrecognised body", pos(act))
	}
	recv := act.Recv.List[0].Names[0].Name
	// inside Active the receiver's own Active() cannot appear; translate with a local name
	b.WriteString("Definition active (p : sp) : bool := " + strings.ReplaceAll(bexpr(ret.Results[0], recv, nil), "(active p)", "false") + ".\n\n")

	// newSeatPlayer defaults
	nsp := findFunc(f2, "newSeatPlayer")
	defIn, defChips, defBtw := "false", "false", "false"
	ok = false
	if len(nsp.Body.List) == 1 {
		if r, ok1 := nsp.Body.List[0].(*ast.ReturnStmt); ok1 && len(r.Results) == 1 {
			if cl, ok2 := r.Results[0].(*ast.CompositeLit); ok2 {
				ok = true
				for _, el := range cl.Elts {
					kv := el.(*ast.KeyValueExpr)
					switch src(kv.Key) {
					case "IsIn":
						defIn = src(kv.Value)
					case "HasChips":
						defChips = src(kv.Value)
					case "IsBetweenDealerBB":
						defBtw = src(kv.Value)
					case "ID":
					default:
						die("%s: newSeatPlayer: unknown field %s", pos(kv), src(kv.Key))
					}
				}
			}
		}
	}
	if !ok {
		die("%s: newSeatPlayer: unrecognised body", pos(nsp))
	}
	b.WriteString(fmt.Sprintf("Definition new_seat_player (id : nat) : sp := {| sp_id := id; sp_in := %s; sp_btw := %s; sp_chips := %s |}.\n\n", defIn, defBtw, defChips))

	vars := map[string]string{"startSeatID": "start", "i": "i", "sm.MaxSeat": "max"}
	for _, sc := range []struct{ goName, coq string }{
		{"nextOccupiedSeatID", "next_occupied"},
		{"nextInAndHasChipsSeatID", "next_in_chips"},
		{"previousOccupiedSeatID", "prev_occupied"},
		{"previousOccupiedAliveSeatID", "prev_alive"},
	} {
		fd := findFunc(f2, sc.goName)
		loop, ok := fd.Body.List[0].(*ast.ForStmt)
		if !ok {
			die("%s: %s does not start with its scan loop", pos(fd), sc.goName)
		}
		init, ok := loop.Init.(*ast.AssignStmt)
		if !ok || src(init.Lhs[0]) != "i" {
			die("%s: %s: unrecognised loop init", pos(loop), sc.goName)
		}
		if inc, ok := loop.Post.(*ast.IncDecStmt); !ok || inc.Tok != token.INC || src(inc.X) != "i" {
			die("%s: %s: loop does not step i++", pos(loop), sc.goName)
		}
		cond, ok := loop.Cond.(*ast.BinaryExpr)
		if !ok || src(cond.X) != "i" {
			die("%s: %s: unrecognised loop condition", pos(loop), sc.goName)
		}
		hi := zexpr(cond.Y, vars)
		switch cond.Op {
		case token.LSS:
		case token.LEQ:
			hi = "(" + hi + " + 1)"
		default:
			die("%s: %s: unrecognised loop condition %s", pos(loop), sc.goName, src(cond))
		}
		body := loop.Body.List
		as, ok := body[0].(*ast.AssignStmt)
		if !ok || src(as.Lhs[0]) != "seatID" {
			die("%s: %s: loop body does not start with seatID := ...", pos(loop), sc.goName)
		}
		if len(body) != 2 {
			die("%s: %s: unrecognised loop body", pos(loop), sc.goName)
		}
		ifs, ok := body[1].(*ast.IfStmt)
		if !ok || ifs.Init == nil || src(ifs.Init) != "sp, exist := sm.SeatData[seatID]" {
			die("%s: %s: unrecognised seat lookup %s", pos(loop), sc.goName, src(body[1]))
		}
		rest, ok := stripExist(ifs.Cond)
		if !ok {
			die("%s: %s: lookup condition does not start with exist && sp != nil", pos(ifs), sc.goName)
		}
		extra := map[string]string{"shouldActive": "should_active"}
		var pred string
		returnsSeat := func(s ast.Stmt) bool { return src(s) == "return seatID" }
		if len(ifs.Body.List) == 1 && returnsSeat(ifs.Body.List[0]) {
			if rest == nil {
				pred = "true"
			} else {
				pred = bexpr(rest, "sp", extra)
			}
		} else {
			// a sequence of  if c { return seatID }
			var alts []string
			for _, s := range ifs.Body.List {
				in, ok := s.(*ast.IfStmt)
				if !ok || in.Init != nil || in.Else != nil || len(in.Body.List) != 1 || !returnsSeat(in.Body.List[0]) {
					die("%s: %s: unrecognised acceptance block", pos(s), sc.goName)
				}
				alts = append(alts, bexpr(in.Cond, "sp", extra))
			}
			pred = "(" + strings.Join(alts, " || ") + ")"
			if rest != nil {
				pred = "(" + bexpr(rest, "sp", extra) + " && " + pred + ")"
			}
		}
		shouldParam := ""
		if strings.Contains(pred, "should_active") {
			shouldParam = " (should_active : bool)"
		}
		b.WriteString(fmt.Sprintf("(* %s *)\n", sc.goName))
		b.WriteString(fmt.Sprintf("Definition %s_idx (max start i : Z) : Z := %s.\n", sc.coq, zexpr(as.Rhs[0], vars)))
		b.WriteString(fmt.Sprintf("Definition %s_lo : Z := %s.\n", sc.coq, zexpr(init.Rhs[0], vars)))
		b.WriteString(fmt.Sprintf("Definition %s_hi (max : Z) : Z := %s.\n", sc.coq, hi))
		b.WriteString(fmt.Sprintf("Definition %s_accepts%s (p : sp) : bool := %s.\n\n", sc.coq, shouldParam, pred))
		// what follows the loop must be the failure return
		last := fd.Body.List[len(fd.Body.List)-1]
		if src(last) != "return UnsetSeatID" {
			die("%s: %s: does not end with return UnsetSeatID", pos(last), sc.goName)
		}
	}
	write(out, "Gen_Seat.v", b.String())
}

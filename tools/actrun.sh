#!/bin/sh
cd /verif && rm -rf .work/acttest && timeout 600 .work/bin/hx actor -seed $1 -n $2 -out .work/acttest -chunk 3 ${3:+-mode $3} 2>&1 | tail -3
cd .work/acttest && for f in cases_0*.v; do echo "$f: $(timeout 300 coqc -noglob -Q /verif/coq PT $f 2>&1 | tr -d '\n ' | sed 's/%nat//g' | head -c 500)"; done

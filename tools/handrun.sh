#!/bin/sh
# debug: run the hand harness and evaluate every chunk; usage: handrun.sh seed n [mode]
cd /verif && rm -rf .work/handtest && .work/bin/hx hand -seed $1 -n $2 -out .work/handtest -chunk 6 ${3:+-mode $3} 2>&1 | tail -3
cd .work/handtest && for f in cases_0*.v; do echo "$f: $(coqc -noglob -Q /verif/coq PT $f 2>&1 | tr -d '\n ' | sed 's/%nat//g' | python3 -c "
import sys,re,collections
s=sys.stdin.read()
items=re.findall(r'\((\d+),\((\d+),(\d+)\)\)',s)
c=collections.Counter()
ex={}
for a,b,d in items:
    k=(int(b), int(d)%10 if int(b) in (3,4,5,6,7) else 0)
    c[k]+=1; ex.setdefault(k,(int(a),int(d)//10 if int(b) not in (2,8) else int(d)))
print({k:(v,ex[k]) for k,v in sorted(c.items()) if k!=(3,6)}, 'ready-noevent', c[(3,6)], 'ERR' if 'Error' in s else '')
")"; done

#!/usr/bin/env python3
"""Confirm a seeded mutant in a scratch worktree and run a check against it.
usage: tools/seed.py <PROP> <mutdir> <demo_rel_path> [--name NAME] [--checks C03,C04] [--notests] [--what 'one line']
 mutdir holds patch.diff, demo_test.go, notes.md; demo_rel_path e.g. actor/zz_demo_test.go"""
import json, os, shutil, subprocess, sys, time

ENV = dict(os.environ, GOFLAGS="-mod=mod", GOPROXY="off", GOSUMDB="off", GOTOOLCHAIN="local")
FLAKY = "TestTableGame_Preflop_Settlement|TestTableGame_Preflop_Walk|TestTableGame_River_Settlement"


def sh(cmd, cwd=None, timeout=1800):
    p = subprocess.run(cmd, cwd=cwd, env=ENV, shell=isinstance(cmd, str), stdout=subprocess.PIPE, stderr=subprocess.STDOUT, text=True, timeout=timeout)
    return p.returncode, p.stdout


def main():
    a = sys.argv[1:]
    prop, mutdir, demo_rel = a[0], a[1], a[2]
    name = a[a.index("--name") + 1] if "--name" in a else os.path.basename(os.path.dirname(mutdir.rstrip("/") + "/")) 
    checks = a[a.index("--checks") + 1].split(",") if "--checks" in a else [prop]
    wt = "/tmp/seedwt_%s" % name
    sh("git -C /repo worktree remove --force %s" % wt)
    rc, out = sh("git -C /repo worktree add -q --detach %s HEAD" % wt)
    assert rc == 0, out
    meta = {"property": prop, "name": name, "ran": []}
    try:
        demo_dst = os.path.join(wt, demo_rel)
        pkg = "./" + os.path.dirname(demo_rel) if os.path.dirname(demo_rel) else "."
        shutil.copy(os.path.join(mutdir, "demo_test.go"), demo_dst)
        import re
        names = re.findall(r"^func (Test\w+)\(", open(demo_dst).read(), flags=re.M)
        runpat = "^(" + "|".join(names) + ")$" if names else "."
        rc0, out0b = sh("go test -vet=off -count=1 -timeout 10m -run '%s' %s > /tmp/seed_demo_clean.log 2>&1; echo rc=$?" % (runpat, pkg), cwd=wt)
        clean_ok = "rc=0" in out0b
        meta["ran"].append({"cmd": "demo on unchanged tree (go test %s)" % pkg, "passes": clean_ok})
        rc, out = sh("git apply %s" % os.path.join(mutdir, "patch.diff"), cwd=wt)
        assert rc == 0, "patch does not apply: " + out
        rc, out = sh("go build ./... && go vet -tags verif . >/dev/null 2>&1; go build -tags verif ./...", cwd=wt)
        meta["ran"].append({"cmd": "go build ./... with the change", "ok": rc == 0})
        assert rc == 0, out
        rc1, out1 = sh("go test -vet=off -count=1 -timeout 10m -run '%s' %s > /tmp/seed_demo_mut.log 2>&1; echo rc=$?" % (runpat, pkg), cwd=wt)
        mut_fails = "rc=0" not in out1
        meta["ran"].append({"cmd": "demo with the change (go test %s)" % pkg, "fails": mut_fails})
        suite_ok = None
        if "--notests" not in a:
            os.remove(demo_dst)
            rc2, out2 = sh("(go test -vet=off -count=1 -timeout 25m . ./actor/ ./open_game_manager/ ./seat_manager/ ; go test -vet=off -count=1 -timeout 10m -run 'TestTableGame_Flop_Settlement$' ./testcases/) 2>&1 | grep '^ok\\|^FAIL\\|^---\\|^panic' | tail -12", cwd=wt)
            suite_ok = "FAIL" not in out2 and "panic" not in out2
            if not suite_ok and "FAIL\tgithub.com/weedbox/pokertable/actor" in out2 and out2.count("FAIL\t") == 1:
                # TestActor_* occasionally dies with "negative WaitGroup counter" on the unchanged tree too: retry that package
                rc3, out3 = sh("go test -vet=off -count=1 -timeout 25m ./actor/ 2>&1 | grep '^ok\\|^FAIL\\|^panic' | tail -3", cwd=wt)
                out2 += "\nretry actor: " + out3
                suite_ok = "FAIL" not in out3 and "panic" not in out3
            meta["ran"].append({"cmd": "the 51 baseline tests with the change (packages ., actor, open_game_manager, seat_manager; testcases/TestTableGame_Flop_Settlement)", "passes": suite_ok, "tail": out2[-600:]})
        print("demo clean passes:", clean_ok, "| demo with change fails:", mut_fails, "| suite with change passes:", suite_ok)
    finally:
        sh("git -C /repo worktree remove --force %s" % wt)
    # run the checks against /repo with the change applied
    rc, out = sh("git -C /repo status --porcelain")
    assert out.strip() == "", "/repo not clean: " + out
    rc, out = sh("git -C /repo apply %s" % os.path.join(mutdir, "patch.diff"))
    assert rc == 0, out
    results = {}
    try:
        for c in checks:
            t0 = time.time()
            rc, out = sh("./check %s --tier quick" % c, cwd="/verif", timeout=3000)
            lines = [l for l in out.split("\n") if l.startswith("VIOLATION") or l.startswith("KNOWN-FINDING")]
            results[c] = {"exit": rc, "wall_s": round(time.time() - t0, 1), "lines": [l[:300] for l in lines[:6]]}
            print(c, "exit", rc, "in %.0fs" % (time.time() - t0))
            for l in lines[:6]:
                print("   ", l[:220])
    finally:
        sh("git -C /repo checkout -- .")
        sh("git -C /repo clean -fd -e verif_hooks.go")
        # evidence written while the mutant was applied is not evidence about the tree: restore the committed files
        sh("git -C /verif checkout -- evidence")
    meta["checks"] = results
    meta["caught_by"] = [c for c, r in results.items() if r["exit"] == 1 and any(l.startswith("VIOLATION") for l in r["lines"])]
    dst = "/verif/seeded/%s" % name
    os.makedirs(dst, exist_ok=True)
    shutil.copy(os.path.join(mutdir, "patch.diff"), dst)
    shutil.copy(os.path.join(mutdir, "demo_test.go"), os.path.join(dst, "demo_test.go"))
    if os.path.exists(os.path.join(mutdir, "notes.md")):
        shutil.copy(os.path.join(mutdir, "notes.md"), dst)
    meta["demo_path"] = demo_rel
    old_path = os.path.join(dst, "meta.json")
    if "--what" in a:
        meta["what"] = a[a.index("--what") + 1]
    elif os.path.exists(old_path):
        w = json.load(open(old_path)).get("what")
        if w:
            meta["what"] = w
    if "--notests" in a and os.path.exists(old_path):
        old = json.load(open(old_path))
        if any("baseline tests" in r.get("cmd", "") for r in old.get("ran", [])):
            meta["ran"] = old["ran"]
            meta["ran_note"] = "confirmation (demo, build, baseline suite) carried over from the first run of this seeded change; only the checks were re-run"
    json.dump(meta, open(os.path.join(dst, "meta.json"), "w"), indent=1)
    print("caught by:", meta["caught_by"])


if __name__ == "__main__":
    main()

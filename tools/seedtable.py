#!/usr/bin/env python3
"""Regenerate the table of DESIGN.md section 13.6 from seeded/*/meta.json (field `what` is the one-line description)."""
import json, os, re, sys
ROOT = os.path.dirname(os.path.dirname(os.path.abspath(__file__)))

def row(name):
    m = json.load(open(os.path.join(ROOT, "seeded", name, "meta.json")))
    caught = m.get("caught_by") or []
    concrete = [p for p in caught if any(l.startswith("VIOLATION") and "no-failing-input-found" not in l for l in m["checks"][p]["lines"])]
    if not caught:
        how = "MISSED"
    elif concrete:
        how = "concrete replay" + ("" if set(concrete) == set(caught) else " (%s); obligation only in %s" % (", ".join(concrete), ", ".join(p for p in caught if p not in concrete)))
    else:
        how = "obligation only (no-failing-input-found)"
    if m.get("note"):
        how += " - but see the note in meta.json (not caught on the final tree)"
    return "| %s | %s | %s | %s |" % (name, m.get("what", "?"), ", ".join(caught) or "-", how)

def main():
    names = sorted(os.listdir(os.path.join(ROOT, "seeded")))
    lines = ["| seeded change | what it does | caught by | how |", "|---|---|---|---|"] + [row(n) for n in names if os.path.exists(os.path.join(ROOT, "seeded", n, "meta.json"))]
    if "--write" in sys.argv:
        p = os.path.join(ROOT, "DESIGN.md")
        s = open(p).read()
        s2 = re.sub(r"\| seeded change \| what it does \| caught by \| how \|\n(\|.*\n)+", "\n".join(lines) + "\n", s)
        open(p, "w").write(s2)
    else:
        print("\n".join(lines))

if __name__ == "__main__":
    main()

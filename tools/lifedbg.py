import json,sys
f,ci,si=sys.argv[1],int(sys.argv[2]),int(sys.argv[3])
cs=json.load(open(f))
c=cs[ci]
print('case',c['index'],'min',c['min'],'mode',c['mode'],'init',c['init_blind'],'note',c.get('note'))
def sh(o): return "%s gc=%d hg=%s gid=%d ev=%s blind=%s gb=%s meta=(%d,%d,%d,%d) empty=%s alive=%d livein=%d rel=%s gate=(%d,%d,%s)"%(o['status'].replace('table_',''),o['gc'],o['has_game'],o['game_id'],o.get('event'),tuple(o['blind'].values()),tuple(o['game_blind'].values()) if o.get('game_blind') else None,o['meta_ante'],o['meta_dealer'],o['meta_sb'],o['meta_bb'],o['hand_fields_empty'],o['alive'],o['live_in'],o['released'],o['gate_count'],o['gate_n'],o['gate_all_ready'])
for k in range(max(0,si-2),min(len(c['steps']),si+1)):
    s=c['steps'][k]
    print('--step',k,s['op'],s.get('blind'),'closed',s['hand_closed'],'wedged',s['wedged'],'opts',(s['opt_ante'],s['opt_dealer'],s['opt_sb'],s['opt_bb']),'setup_n',s.get('setup_n'),'arm',s.get('update_inside_create_game'))
    print('   pre ',sh(s['pre']))
    for e in s['events'] or []: print('   ev  ',sh(e))
    print('   post',sh(s['post']))

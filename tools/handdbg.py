#!/usr/bin/env python3
"""print steps of a hand case: handdbg.py <dir> <chunk> <case> <step> [n]"""
import json,sys
d,ch,ci,si=sys.argv[1],int(sys.argv[2]),int(sys.argv[3]),int(sys.argv[4])
n=int(sys.argv[5]) if len(sys.argv)>5 else 1
cs=json.load(open(f"{d}/cases_{ch:03d}.json"))
c=cs[ci]
print({k:v for k,v in c.items() if k!='steps'})
def snap(h):
    es=[(e['id'],e['allowed'],'A' if e['acted'] else '-', 'F' if e['fold'] else '-', e['stack'],e['wager'],e['pos']) for e in h['entries'] or []]
    return f"{h['status']} gc={h['gc']} gid={h['game_id']} ev={h['event']} rnd={h['round']} cur={h['cur']} end={h['end_at']} hash={h['hash']}/{h['hand_hash']} grp={h['group']}/{h['group_n']} last={h['last']}\n      entries={es}"
for i in range(max(0,si-n+1),si+1):
    s=c['steps'][i]
    print(f"--- step {i}: {s['call']} ok={s['ok']} err={s.get('err')}")
    print("  pre  ",snap(s['pre']))
    print("  post ",snap(s['post']))
    print("  quiet",snap(s['quiet']))
    print("  acts",s.get('action_events'),"errs",s.get('error_events'),"be",s.get('backend_calls'),"seen",s.get('events_seen'),s.get('events_end_at'),"closed",s.get('hand_closed'),"wedged",s.get('wedged'), "now",s['now_before'],s['now_after'],s['now_quiet'],"ret",s.get('returned'))

#!/bin/sh
# debug: run the conc harness and evaluate; usage: concrun.sh seed n [mode]
cd /verif && rm -rf .work/conctest && .work/bin/hx conc -seed $1 -n $2 -out .work/conctest -chunk 40 ${3:+-mode $3} 2>&1 | tail -3
cd .work/conctest && for f in cases_0*.v; do echo "$f: $(timeout 300 coqc -noglob -Q /verif/coq PT $f 2>&1 | tr -d '\n ' | sed 's/%nat//g' | head -c 600)"; done

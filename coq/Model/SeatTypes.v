(* Types shared by the generated and the hand-written parts of the seat-manager model. *)
From Coq Require Import ZArith Bool.

(* seat_manager.SeatPlayer; ids are numbers (the harness maps Go string ids) *)
Record sp := { sp_id : nat; sp_in : bool; sp_btw : bool; sp_chips : bool }.

Inductive rule := RDefault | RShortDeck | ROther.   (* "default", "short_deck", anything else (e.g. "omaha") *)

Definition rule_eqb (a b : rule) : bool :=
  match a, b with
  | RDefault, RDefault | RShortDeck, RShortDeck | ROther, ROther => true
  | _, _ => false
  end.

(* C18 / C19 / C20: the actors' decision functions (actor/bot_runner.go, actor/player_runner.go,
   actor/observer_runner.go, actor/table_engine_adapter.go) and the fragment of the hand engine they rely on
   (pokerface v0.1.10 GetAvailableActions / Raise / Bet / AsObserver, hand-written from its source; the
   harness validates both against the running code). *)
From Coq Require Import List ZArith Bool Arith Lia.
Import ListNotations.
From PT Require Export Spec.Hand_spec.
Open Scope Z_scope.

(* what an actor looks at when its player is asked *)
Record pview := {
  pv_allowed : list act; pv_event : hev; pv_sb : bool; pv_bb : bool;
  pv_ante : Z; pv_bd : Z; pv_bsb : Z; pv_bbb : Z;
  pv_minibet : Z; pv_cw : Z; pv_prs : Z;          (* minimum bet, current wager, previous raise size *)
  pv_init : Z; pv_stack : Z; pv_wager : Z; pv_fold : bool
}.

Inductive move := MvReady | MvPass | MvPay (c : Z) | MvCheck | MvCall | MvFold | MvAllin | MvBet (c : Z) | MvRaise (level : Z).

Definition mandatory_pay (v : pview) : option move :=
  match pv_event v with
  | EAnte => Some (MvPay (pv_ante v))
  | EBlinds => Some (MvPay (if pv_sb v then pv_bsb v else if pv_bb v then pv_bbb v else pv_bd v))
  | _ => None
  end.

(* ---------------- the bot ---------------- *)
(* requestAI: [pick] is the random draw among the allowed actions, [k] the random draw of the amount *)
Definition bot_ai (v : pview) (pick : act) (k : Z) : option move :=
  match pv_allowed v with
  | [] => None
  | a0 :: rest =>
      let a := match rest with [] => a0 | _ => pick end in
      Some (match a with
            | ABet => if pv_init v <=? pv_minibet v then MvBet (pv_init v) else MvBet (pv_minibet v + k)
            | ARaise => let lo := pv_cw v + pv_prs v in
                        if pv_init v <=? lo then MvRaise (pv_init v) else MvRaise (lo + k)
            | ACall => MvCall
            | ACheck => MvCheck
            | AAllin => MvAllin
            | _ => MvFold
            end)
  end.
(* the draws the bot can make *)
Definition draw_ok (v : pview) (pick : act) (k : Z) : Prop :=
  In pick (pv_allowed v) /\ 0 <= k /\
  (pick = ABet -> pv_minibet v < pv_init v -> k < pv_init v - pv_minibet v) /\
  (pick = ARaise -> pv_cw v + pv_prs v < pv_init v -> k < pv_init v - (pv_cw v + pv_prs v)).

Definition bot_move (v : pview) (pick : act) (k : Z) : option move :=
  if has_act AReady (pv_allowed v) then Some MvReady
  else if has_act APass (pv_allowed v) then Some MvPass
  else match (if has_act APay (pv_allowed v) then mandatory_pay v else None) with
       | Some m => Some m
       | None => bot_ai v pick k
       end.

(* when the bot looks at a snapshot at all (UpdateTableState) *)
Record bview := { bv_at_table : bool; bv_sat_in : bool; bv_has_game : bool; bv_new_game : bool; bv_fresher : bool;
                  bv_playing : bool; bv_dealt_in : bool }.
Inductive bot_reaction := BNothing | BAutoJoin | BMove.
Definition bot_reacts (b : bview) (allowed : list act) : bot_reaction :=
  if negb (bv_at_table b) then BNothing
  else if negb (bv_sat_in b) then BAutoJoin
  else if bv_has_game b && negb (bv_new_game b) && negb (bv_fresher b) then BNothing      (* stale or repeated view *)
  else if negb (bv_playing b) then BNothing
  else if negb (bv_dealt_in b) then BNothing
  else match allowed with [] => BNothing | _ => BMove end.

(* ---------------- the hand engine's side (pokerface v0.1.10) ---------------- *)
(* GetAvailableActions for the player to act in a betting round *)
Definition pf_available (v : pview) : list act :=
  if pv_fold v then [APass]
  else if pv_stack v =? 0 then [APass]
  else AAllin ::
       (if pv_wager v <? pv_cw v
        then AFold :: (if pv_cw v <? pv_init v then ACall :: (if pv_cw v + pv_prs v <? pv_init v then [ARaise] else []) else [])
        else ACheck :: (if pv_minibet v <=? pv_init v then (if pv_cw v =? 0 then [ABet] else [ARaise]) else [])).

(* does the engine accept the move (player.go Pass / Check / Bet / Raise / Allin ..., pokertable game.go for ready / pay / pass) *)
Definition pf_accepts (v : pview) (m : move) : bool :=
  match m with
  | MvReady => has_act AReady (pv_allowed v)
  | MvPay _ => has_act APay (pv_allowed v)
  | MvPass => has_act APass (pv_allowed v)
  | MvCheck => has_act ACheck (pv_allowed v)
  | MvCall => has_act ACall (pv_allowed v)
  | MvFold => has_act AFold (pv_allowed v)
  | MvAllin => has_act AAllin (pv_allowed v)
  | MvBet _ => has_act ABet (pv_allowed v)
  | MvRaise c =>
      has_act ARaise (pv_allowed v) && negb (c =? 0) && (pv_cw v <=? c)
      && (if c =? pv_cw v then has_act ACall (pv_allowed v)
          else if (pv_init v <=? c) || (c - pv_cw v <? pv_prs v) then has_act AAllin (pv_allowed v) else true)
  end.

(* a legal amount: the right mandatory payment; a wager within the stack *)
Definition amount_ok (v : pview) (m : move) : bool :=
  match m with
  | MvPay c => match mandatory_pay v with Some (MvPay c') => c =? c' | _ => false end
  | MvBet c => (0 <? c) && (c <=? pv_init v)
  | MvRaise c => (pv_cw v <=? c) && (c <=? pv_init v)
  | _ => true
  end.

Fixpoint acts_eqb (a b : list act) : bool :=
  match a, b with
  | [], [] => true
  | x :: a', y :: b' => act_eqb x y && acts_eqb a' b'
  | _, _ => false
  end.

(* the situations in which a player is asked *)
Definition asked_ok (v : pview) : bool :=
  match pv_event v with
  | EReady => acts_eqb (pv_allowed v) [AReady]
  | EAnte | EBlinds => acts_eqb (pv_allowed v) [APay]
  | ERoundStarted =>
      acts_eqb (pv_allowed v) (pf_available v)
      && (0 <=? pv_wager v) && (pv_wager v <=? pv_init v) && (pv_stack v =? pv_init v - pv_wager v)
      && (0 <=? pv_cw v) && (0 <? pv_minibet v) && (0 <=? pv_prs v) && ((pv_cw v =? 0) || (0 <? pv_prs v))
  | _ => false
  end.

(* ---------------- the player runner ---------------- *)
Inductive pstatus := PRunning | PIdle | PSuspended.
(* automate: ready > check > fold > mandatory payment; nothing else *)
Definition automate (v : pview) : option move :=
  if has_act AReady (pv_allowed v) then Some MvReady
  else if has_act ACheck (pv_allowed v) then Some MvCheck
  else if has_act AFold (pv_allowed v) then Some MvFold
  else mandatory_pay v.
(* requestMove: what is submitted and after how many seconds (0 = at once) *)
Definition player_move (st : pstatus) (action_time : Z) (v : pview) : option (move * Z) :=
  if has_act APass (pv_allowed v) then Some (MvPass, 0)
  else match automate v with
       | Some m => Some (m, match st with PSuspended => 0 | _ => action_time end)
       | None => None
       end.

(* the runner's status machine (player_runner.go Idle / Resume / Suspend, and the time-out callback): an idle player whose
   thinking time runs out a second time in a row is suspended; Resume takes anybody back to running and forgets the count *)
Inductive revent := RIdle | RResume | RSuspend | RTimeout.
Definition suspend_threshold : nat := 2.
Definition idle_step (s : pstatus * nat) : pstatus * nat :=
  let c := match fst s with PIdle => S (snd s) | _ => O end in
  if Nat.eqb c suspend_threshold then (PSuspended, c) else (PIdle, c).
Definition rstep (s : pstatus * nat) (e : revent) : pstatus * nat :=
  match e with
  | RIdle => idle_step s
  | RResume => match fst s with PRunning => s | _ => (PRunning, O) end
  | RSuspend => (PSuspended, snd s)
  | RTimeout => match fst s with PIdle => idle_step s | _ => s end
  end.
(* a request arms the thinking-time wait unless it is answered at once (a pass, or a suspended player) *)
Definition arms_wait (st : pstatus) (v : pview) : bool :=
  negb (has_act APass (pv_allowed v)) && match st with PSuspended => false | _ => true end.

(* ---------------- the observer ---------------- *)
Record oplayer := { op_hole : list nat; op_combo : bool; op_fold : bool }.
Record ogame := { og_deck : list nat; og_burned : list nat; og_closed : bool; og_players : list oplayer }.
(* pokerface AsObserver *)
Definition as_observer (g : ogame) : ogame :=
  {| og_deck := []; og_burned := []; og_closed := og_closed g;
     og_players := map (fun p => if og_closed g && negb (op_fold p) then p else {| op_hole := []; op_combo := false; op_fold := op_fold p |}) (og_players g) |}.
(* observer_runner.go: filter in the two statuses in which a hand state is attached *)
Definition observer_view (system : bool) (filtered_status : bool) (g : option ogame) : option ogame :=
  match g with
  | None => None
  | Some g0 => if negb system && filtered_status then Some (as_observer g0) else Some g0
  end.
Definition hides_private (g : ogame) : bool :=
  match og_deck g, og_burned g with
  | [], [] => forallb (fun p => (og_closed g && negb (op_fold p)) || (match op_hole p with [] => negb (op_combo p) | _ => false end)) (og_players g)
  | _, _ => false
  end.

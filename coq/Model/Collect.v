(* C11 / C15: the collection points of a hand (ready group of game.go over syncsaga.ReadyGroup) and the
   published action deadline (table_engine_internal.go updateCurrentActionEndAt, table_engine_stage.go,
   table_engine.go PlayerExtendActionDeadline), driven by the regenerated facts of Gen_Actions.v. *)
From Coq Require Import List ZArith Bool Arith.
Import ListNotations.
From PT Require Export Model.HandRules.
Local Close Scope Z_scope.
Local Open Scope nat_scope.

(* ---------------- ready group ---------------- *)
(* participants with their answer so far; completed = the completion callback has been started *)
Record rgroup := { rg_parts : list (nat * bool); rg_completed : bool }.

Definition rg_open (asked : list nat) : rgroup := {| rg_parts := map (fun i => (i, false)) asked; rg_completed := false |}.
Definition all_ready (ps : list (nat * bool)) : bool := forallb snd ps.

(* syncsaga: updateState (only a participant's answer is recorded), then validate -> Done (once) *)
Definition rg_answer (g : rgroup) (i : nat) : rgroup * bool :=
  let ps := map (fun kp => if Nat.eqb (fst kp) i then (fst kp, true) else kp) (rg_parts g) in
  let fires := all_ready ps && negb (rg_completed g) in
  ({| rg_parts := ps; rg_completed := rg_completed g || fires |}, fires).

Fixpoint rg_run (g : rgroup) (l : list nat) : rgroup * nat :=      (* number of completions started *)
  match l with
  | [] => (g, 0)
  | i :: t => let '(g1, f) := rg_answer g i in let '(g2, n) := rg_run g1 t in (g2, (if f then 1 else 0) + n)
  end.

(* the response timeout answers for everybody who has not *)
Definition rg_timeout (g : rgroup) : rgroup * nat := rg_run g (map fst (filter (fun kp => negb (snd kp)) (rg_parts g))).

(* whom a collection point asks (game.go onReadyRequested / onAnteRequested / onBlindsRequested) *)
Definition idxs {A} (l : list A) : list nat := seq 0 (length l).
Definition blind_asked (q : hsnap) (e : hentry) : bool :=
  existsb (fun k => match k with
                    | BlBB => Z.ltb 0 (h_bbb q) && he_bb e
                    | BlSB => Z.ltb 0 (h_bsb q) && he_sb e
                    | BlDealer => Z.ltb 0 (h_bd q) && he_dealer e
                    end) blind_ask_rules.
Definition asked_at (ev : hev) (q : hsnap) : list nat :=
  match ev with
  | EReady => if ready_asks_all then idxs (h_entries q) else []
  | EAnte => if ante_asks_all then idxs (h_entries q) else []
  | EBlinds => filter (fun i => match nth_error (h_entries q) i with Some e => blind_asked q e | None => false end) (idxs (h_entries q))
  | _ => []
  end.

(* ---------------- deadline ---------------- *)
Inductive dev :=
| DHandEvent (ev : hev) (now : Z) (playing : bool) (r : rnd) (allowed : list act) (acted : bool)   (* a hand state delivered to the table *)
| DRoundClosed          (* the hand wrapper's round-closed callback *)
| DContinue             (* continueGame: between hands *)
| DExtend (secs : Z).   (* PlayerExtendActionDeadline *)

Definition asks_unmoved (allowed : list act) (acted : bool) : bool :=
  match allowed with [] => false | _ => true end && negb acted && forallb (fun a => has_act a deadline_valid_actions) allowed.

Definition dstep (action_time : Z) (d : Z) (e : dev) : Z * option Z :=
  match e with
  | DHandEvent ev now playing r allowed acted =>
      if playing && hev_eqb ev ERoundStarted && negb (rnd_eqb r RNoRound) && asks_unmoved allowed acted then ((now + action_time)%Z, None) else (d, None)
  | DRoundClosed => (0%Z, None)
  | DContinue => (0%Z, None)
  | DExtend s => ((d + s)%Z, Some (d + s)%Z)
  end.
Definition drun (action_time : Z) (d : Z) (l : list dev) : Z := fold_left (fun d e => fst (dstep action_time d e)) l d.

Definition deadline_ok : bool :=
  deadline_on_round_started_while_playing && deadline_requires_unmoved && deadline_is_now_plus_action_time
  && round_closed_clears_deadline && continue_clears_deadline && extend_adds_duration
  && forallb (fun a => has_act a deadline_valid_actions) [AFold; ACheck; ACall; AAllin; ABet; ARaise]
  && forallb wager_act deadline_valid_actions.

Definition collect_ok : bool :=
  ready_asks_all && ante_asks_all && ante_skipped_when_zero && round_closed_calls_next && Z.eqb response_timeout 17
  && Nat.eqb (length blind_ask_rules) 3
  && existsb (fun k => match k with BlBB => true | _ => false end) blind_ask_rules
  && existsb (fun k => match k with BlSB => true | _ => false end) blind_ask_rules
  && existsb (fun k => match k with BlDealer => true | _ => false end) blind_ask_rules.

(* Model of everything that moves chips at a table: buy-in, re-buy / add-on, departure, and the
   write-back of a hand's result (settleGame).  How a result entry is written back is read from
   Gen/Gen_Settle.v (translated from table_engine_stage.go on every run). *)
From Coq Require Import List ZArith Bool Arith Lia.
Import ListNotations.
From PT Require Export Gen.Gen_Settle.
Open Scope Z_scope.

Record cstate := {
  cs_players : list (nat * Z);    (* seated players: id, bankroll *)
  cs_brought : Z;                 (* everything brought in so far *)
  cs_taken : Z                    (* what departing players took with them *)
}.

Record rentry := { r_idx : nat; r_changed : Z; r_final : Z }.   (* GameState.Result.Players[i] *)

Inductive cev :=
| CIn (id : nat) (chips : Z)                                 (* a new player bought in *)
| CTopUp (id : nat) (chips : Z)                              (* re-buy / add-on of a seated player *)
| COut (ids : list nat)                                      (* players removed from the table *)
| CSettle (hand : list nat) (results : list rentry)          (* hand: ids of the hand's entries, in order *)
| CMark.                                                     (* an observation point; nothing happens *)

Definition cinit : cstate := {| cs_players := []; cs_brought := 0; cs_taken := 0 |}.

Definition total (ps : list (nat * Z)) : Z := fold_right (fun p acc => snd p + acc) 0 ps.

Definition bank_of (ps : list (nat * Z)) (id : nat) : Z :=
  match find (fun p => Nat.eqb (fst p) id) ps with Some p => snd p | None => 0 end.

Definition upd_bank (ps : list (nat * Z)) (id : nat) (f : Z -> Z) : list (nat * Z) :=
  map (fun p => if Nat.eqb (fst p) id then (fst p, f (snd p)) else p) ps.

Definition mem_id (id : nat) (l : list nat) : bool := existsb (Nat.eqb id) l.

(* settleGame's loop over the result entries *)
Definition settle_one (hand : list nat) (ps : list (nat * Z)) (r : rentry) : list (nat * Z) :=
  match nth_error hand (r_idx r) with
  | Some id => upd_bank ps id (fun old => settle_bank old (r_changed r) (r_final r))
  | None => ps        (* the code would index out of range: excluded by the guard *)
  end.

Definition cstep (s : cstate) (e : cev) : cstate :=
  match e with
  | CIn id chips =>
      {| cs_players := cs_players s ++ [(id, chips)]; cs_brought := cs_brought s + chips; cs_taken := cs_taken s |}
  | CTopUp id chips =>
      {| cs_players := upd_bank (cs_players s) id (fun b => b + chips); cs_brought := cs_brought s + chips; cs_taken := cs_taken s |}
  | COut ids =>
      {| cs_players := filter (fun p => negb (mem_id (fst p) ids)) (cs_players s);
         cs_brought := cs_brought s;
         cs_taken := cs_taken s + total (filter (fun p => mem_id (fst p) ids) (cs_players s)) |}
  | CSettle hand results =>
      {| cs_players := fold_left (settle_one hand) results (cs_players s); cs_brought := cs_brought s; cs_taken := cs_taken s |}
  | CMark => s
  end.

Fixpoint crun (s : cstate) (es : list cev) : list cstate :=
  match es with [] => [] | e :: t => let s' := cstep s e in s' :: crun s' t end.

(* Model of seat_manager/*.go.  Seat ids are integers (Z) because the code uses -1 for
   "unset" and does signed arithmetic on them.  The four circular scans take their index
   expression, loop bounds and acceptance predicate from Gen/Gen_Seat.v, which the translator
   regenerates from the Go source on every run; everything else is hand-written and tied to
   the code by the correspondence check.

   Random choices (RandomAssignSeats' seats, InitPositions(true)'s first seat) are oracle
   arguments carried by the operation: the harness passes what the implementation chose. *)
From Coq Require Import List ZArith Bool Arith Lia.
Import ListNotations.
From PT Require Export Base.ZScan Model.SeatTypes Gen.Gen_Seat.
Open Scope Z_scope.

Record sm := {
  sm_max : nat;
  sm_seats : list (option sp);       (* index = seat id, length = sm_max *)
  sm_dealer : Z; sm_sb : Z; sm_bb : Z;   (* -1 = UnsetSeatID *)
  sm_rule : rule;
  sm_init : bool
}.

Definition unset : Z := -1.

Definition new_sm (max : nat) (r : rule) : sm :=
  {| sm_max := max; sm_seats := repeat None max; sm_dealer := unset; sm_sb := unset; sm_bb := unset;
     sm_rule := r; sm_init := false |}.

Definition with_seats (s : sm) (l : list (option sp)) : sm :=
  {| sm_max := sm_max s; sm_seats := l; sm_dealer := sm_dealer s; sm_sb := sm_sb s; sm_bb := sm_bb s;
     sm_rule := sm_rule s; sm_init := sm_init s |}.

Definition with_pos (s : sm) (d sb bb : Z) : sm :=
  {| sm_max := sm_max s; sm_seats := sm_seats s; sm_dealer := d; sm_sb := sb; sm_bb := bb;
     sm_rule := sm_rule s; sm_init := sm_init s |}.

(* sp, exist := SeatData[z]; exist && sp != nil *)
Definition seat_at (l : list (option sp)) (z : Z) : option sp :=
  if (0 <=? z) && (z <? Z.of_nat (length l)) then nth (Z.to_nat z) l None else None.

(* for i := lo; i < hi; i++ { seatID := idx i; if accepts (seat seatID) { return seatID } }; return -1 *)
Definition scan (l : list (option sp)) (idx : Z -> Z) (lo hi : Z) (accepts : sp -> bool) : Z :=
  match find (fun i => match seat_at l (idx i) with Some p => accepts p | None => false end)
             (zrange lo (Z.to_nat (hi - lo))) with
  | Some i => idx i
  | None => unset
  end.

Definition mx (s : sm) : Z := Z.of_nat (sm_max s).

Definition next_occupied (s : sm) (start : Z) : Z :=
  scan (sm_seats s) (next_occupied_idx (mx s) start) next_occupied_lo (next_occupied_hi (mx s)) next_occupied_accepts.
Definition next_in_chips (s : sm) (start : Z) : Z :=
  scan (sm_seats s) (next_in_chips_idx (mx s) start) next_in_chips_lo (next_in_chips_hi (mx s)) next_in_chips_accepts.
Definition prev_occupied (s : sm) (start : Z) (should_active : bool) : Z :=
  scan (sm_seats s) (prev_occupied_idx (mx s) start) prev_occupied_lo (prev_occupied_hi (mx s)) (prev_occupied_accepts should_active).
Definition prev_alive (s : sm) (start : Z) : Z :=
  scan (sm_seats s) (prev_alive_idx (mx s) start) prev_alive_lo (prev_alive_hi (mx s)) prev_alive_accepts.

(* isBetweenDealerBB *)
Definition between (r : rule) (max d b t : Z) : bool :=
  if rule_eqb r RShortDeck then false else
  (if b - d <? 0
   then existsb (fun i => Z.rem i max =? t) (zrange (d + 1) (Z.to_nat (b + max - (d + 1))))
   else false)
  || ((t <? b) && (d <? t)).

Definition active_count (l : list (option sp)) : nat :=
  length (filter (fun o => match o with Some p => active p | None => false end) l).

Definition set_btw (p : sp) (b : bool) : sp :=
  {| sp_id := sp_id p; sp_in := sp_in p; sp_btw := b; sp_chips := sp_chips p |}.
Definition set_in (p : sp) (b : bool) : sp :=
  {| sp_id := sp_id p; sp_in := b; sp_btw := sp_btw p; sp_chips := sp_chips p |}.
Definition set_chips (p : sp) (b : bool) : sp :=
  {| sp_id := sp_id p; sp_in := sp_in p; sp_btw := sp_btw p; sp_chips := b |}.

(* for seatID, sp := range seats { if sp != nil && !sp.Active() { sp.IsBetweenDealerBB = between(d, b, seatID) } } *)
Fixpoint reflag_from (r : rule) (max d b : Z) (i : Z) (l : list (option sp)) : list (option sp) :=
  match l with
  | [] => []
  | o :: t =>
      (match o with
       | Some p => if active p then Some p else Some (set_btw p (between r max d b i))
       | None => None
       end) :: reflag_from r max d b (i + 1) t
  end.
Definition reflag (s : sm) (d b : Z) : list (option sp) :=
  reflag_from (sm_rule s) (mx s) d b 0 (sm_seats s).

Definition is_hu (s : sm) : bool := (sm_dealer s =? sm_sb s) && negb (sm_bb s =? sm_dealer s).

Inductive res := Ok | Err.

(* rotatePositions *)
Definition rotate_default (s : sm) : res * sm :=
  let prev_hu := is_hu s in
  let prev_sb := sm_sb s in
  let prev_bb := sm_bb s in
  let new_bb := next_in_chips s prev_bb in
  let s1 := with_seats s (reflag s prev_sb new_bb) in
  let ac := active_count (sm_seats s1) in
  if (ac <? 2)%nat then (Err, s1)
  else if (ac =? 2)%nat then
    let d := next_occupied (with_pos s1 (sm_dealer s1) (sm_sb s1) new_bb) new_bb in
    (Ok, with_pos s1 d d new_bb)
  else if prev_hu then
    let d := prev_alive s1 prev_bb in
    let s2 := with_seats s1 (reflag s1 d new_bb) in
    (Ok, with_pos s2 d prev_bb new_bb)
  else (Ok, with_pos s1 prev_sb prev_bb new_bb).

Definition rotate_short (s : sm) : res * sm :=
  if (active_count (sm_seats s) <? 2)%nat then (Err, s)
  else (Ok, with_pos s (next_occupied s (sm_dealer s)) unset unset).

Definition rotate (s : sm) : res * sm :=
  if negb (sm_init s) then (Err, s) else
  match sm_rule s with
  | RDefault => rotate_default s
  | RShortDeck => rotate_short s
  | ROther => (Err, s)
  end.

(* ---- lookups by player id ---- *)
Fixpoint find_seat_from (i : Z) (l : list (option sp)) (id : nat) : option Z :=
  match l with
  | [] => None
  | Some p :: t => if Nat.eqb (sp_id p) id then Some i else find_seat_from (i + 1) t id
  | None :: t => find_seat_from (i + 1) t id
  end.
Definition find_seat (s : sm) (id : nat) : option Z := find_seat_from 0 (sm_seats s) id.

Fixpoint upd {A} (l : list A) (n : nat) (x : A) : list A :=
  match l, n with
  | [], _ => []
  | _ :: t, O => x :: t
  | h :: t, S k => h :: upd t k x
  end.

Definition upd_seat (s : sm) (z : Z) (o : option sp) : sm := with_seats s (upd (sm_seats s) (Z.to_nat z) o).

Definition empty_count (l : list (option sp)) : nat :=
  length (filter (fun o => match o with None => true | Some _ => false end) l).

Definition player_between (s : sm) (z : Z) : bool :=
  if negb (sm_init s) then false else between (sm_rule s) (mx s) (sm_dealer s) (sm_bb s) z.

(* place a new seat player *)
Definition place (s : sm) (id : nat) (z : Z) : sm :=
  let s1 := upd_seat s z (Some (new_seat_player id)) in
  upd_seat s1 z (Some (set_btw (new_seat_player id) (player_between s1 z))).

Definition in_range (s : sm) (z : Z) : bool := (0 <=? z) && (z <? mx s).

Fixpoint nodupb {A} (eqb : A -> A -> bool) (l : list A) : bool :=
  match l with [] => true | x :: t => negb (existsb (eqb x) t) && nodupb eqb t end.


(* AssignSeats(map id -> seat): all checks first, then all writes.  Which of several applicable
   errors Go reports depends on map order; the model distinguishes only ok / error. *)
Definition assign_ok (s : sm) (ps : list (nat * Z)) : bool :=
  (length ps <=? empty_count (sm_seats s))%nat
  && forallb (fun iz => in_range s (snd iz)) ps
  && nodupb Z.eqb (map snd ps)
  && forallb (fun iz => match seat_at (sm_seats s) (snd iz) with
                        | Some q => Nat.eqb (sp_id q) (fst iz)   (* occupied by somebody else -> taken *)
                        | None => true end) ps
  && forallb (fun iz => match find_seat s (fst iz) with Some _ => false | None => true end) ps.

Definition assign (s : sm) (ps : list (nat * Z)) : res * sm :=
  if assign_ok s ps then (Ok, fold_left (fun acc iz => place acc (fst iz) (snd iz)) ps s) else (Err, s).

(* RandomAssignSeats(ids) with the seats the implementation drew *)
Definition random_assign (s : sm) (ids : list nat) (drawn : list Z) : res * sm :=
  if negb (nodupb Nat.eqb ids && forallb (fun id => match find_seat s id with Some _ => false | None => true end) ids)
  then (Err, s)
  else if (empty_count (sm_seats s) <? length ids)%nat then (Err, s)
  else (Ok, fold_left (fun acc iz => place acc (fst iz) (snd iz)) (combine ids drawn) s).

Fixpoint all_some {A} (l : list (option A)) : option (list A) :=
  match l with
  | [] => Some []
  | None :: _ => None
  | Some x :: t => match all_some t with Some r => Some (x :: r) | None => None end
  end.

Definition remove_seats (s : sm) (ids : list nat) : res * sm :=
  match all_some (map (find_seat s) ids) with
  | None => (Err, s)
  | Some zs => (Ok, fold_left (fun acc z => upd_seat acc z None) zs s)
  end.

Definition map_seat (s : sm) (z : Z) (f : sp -> sp) : sm :=
  match seat_at (sm_seats s) z with Some p => upd_seat s z (Some (f p)) | None => s end.

Definition join_players (s : sm) (ids : list nat) : res * sm :=
  match all_some (map (find_seat s) ids) with
  | None => (Err, s)
  | Some zs => (Ok, fold_left (fun acc z => map_seat acc z (fun p => set_in p true)) zs s)
  end.

Definition update_chips (s : sm) (id : nat) (b : bool) : res * sm :=
  match find_seat s id with
  | None => (Err, s)
  | Some z => (Ok, map_seat s z (fun p => set_chips p b))
  end.

(* getOccupiedSeatIDs: sorted ids of ACTIVE seats *)
Fixpoint active_seats_from (i : Z) (l : list (option sp)) : list Z :=
  match l with
  | [] => []
  | Some p :: t => if active p then i :: active_seats_from (i + 1) t else active_seats_from (i + 1) t
  | None :: t => active_seats_from (i + 1) t
  end.
Definition active_seats (s : sm) : list Z := active_seats_from 0 (sm_seats s).

(* InitPositions(isRandom); `first` is the seat the implementation picked when random *)
Definition init_positions (s : sm) (random : bool) (first : Z) : res * sm :=
  match sm_rule s with
  | ROther => (Err, s)
  | _ =>
    if sm_init s then (Err, s) else
    let ac := active_count (sm_seats s) in
    if (ac <? 2)%nat then (Err, s) else
    let f := if random then first else hd unset (active_seats s) in
    let done (x : sm) : sm :=
      {| sm_max := sm_max x; sm_seats := sm_seats x; sm_dealer := sm_dealer x; sm_sb := sm_sb x;
         sm_bb := sm_bb x; sm_rule := sm_rule x; sm_init := true |} in
    match sm_rule s with
    | RDefault =>
        let s1 := with_pos s (sm_dealer s) (sm_sb s) f in
        if (ac =? 2)%nat then
          match filter (fun z => negb (z =? f)) (active_seats s) with
          | o :: _ => (Ok, done (with_pos s1 o o f))
          | [] => (Ok, done s1)
          end
        else
          let sbs := prev_occupied s1 f true in
          if sbs =? unset then (Err, s1) else
          let s2 := with_pos s1 (sm_dealer s1) sbs f in
          let ds := prev_occupied s2 sbs true in
          if ds =? unset then (Err, s2) else (Ok, done (with_pos s2 ds sbs f))
    | _ => (Ok, done (with_pos s f unset unset))
    end
  end.

(* ---- operations and one step ---- *)
Inductive op :=
| OAssign (ps : list (nat * Z))
| ORandom (ids : list nat) (drawn : list Z)
| ORemove (ids : list nat)
| OJoin (ids : list nat)
| OChips (id : nat) (b : bool)
| OInit (random : bool) (first : Z)
| ORotate.

Definition step (s : sm) (o : op) : res * sm :=
  match o with
  | OAssign ps => assign s ps
  | ORandom ids drawn => random_assign s ids drawn
  | ORemove ids => remove_seats s ids
  | OJoin ids => join_players s ids
  | OChips id b => update_chips s id b
  | OInit r f => init_positions s r f
  | ORotate => rotate s
  end.

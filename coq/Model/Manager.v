(* Model of manager.go: a registry of table engines and 24 forwarding methods.
   What each method forwards to is not written here: it is read from
   Gen/Gen_Manager.v, which the translator regenerates from manager.go on every run.
   The engine's own semantics is a parameter (a Section variable): the theorems hold
   for every engine, in particular for the real one. *)
From Coq Require Import List String Bool Arith.
Import ListNotations.
From PT Require Import Gen.Gen_Manager.
Open Scope string_scope.

Fixpoint nat_list_eqb (a b : list nat) : bool :=
  match a, b with
  | [], [] => true
  | x :: a', y :: b' => Nat.eqb x y && nat_list_eqb a' b'
  | _, _ => false
  end.

Section Manager.
  Variable estate : Type.                 (* state of one table engine *)
  Variable arg : Type.                    (* an argument value *)
  Variable eres : Type.                   (* result of an engine call *)
  Variable is_err : eres -> bool.         (* the call returned a non-nil error *)
  (* the engine: method name, arguments -> new state, result *)
  Variable estep : estate -> string -> list arg -> estate * eres.

  Definition registry := list (string * estate).   (* table id -> engine *)

  Inductive mres :=
  | MNotFound                              (* ErrManagerTableNotFound *)
  | MRes (r : eres)                        (* whatever the engine returned *)
  | MNoMethod.                             (* not a manager method (never for generated names) *)

  Fixpoint lookup (reg : registry) (id : string) : option estate :=
    match reg with
    | [] => None
    | (k, e) :: t => if String.eqb k id then Some e else lookup t id
    end.

  Fixpoint update (reg : registry) (id : string) (e : estate) : registry :=
    match reg with
    | [] => []
    | (k, e0) :: t => if String.eqb k id then (k, e) :: t else (k, e0) :: update t id e
    end.

  Fixpoint remove (reg : registry) (id : string) : registry :=
    match reg with
    | [] => []
    | (k, e0) :: t => if String.eqb k id then remove t id else (k, e0) :: remove t id
    end.

  Definition find_method (tbl : list mmethod) (name : string) : option mmethod :=
    find (fun m => String.eqb (mm_name m) name) tbl.

  (* the manager's own parameter list is tableID :: args; forwarded arguments are picked
     by position *)
  Definition pick (params : list arg) (idxs : list nat) : list (option arg) :=
    map (fun i => match i with 0 => None | S j => nth_error params j end) idxs.

  Fixpoint all_some {A} (l : list (option A)) : option (list A) :=
    match l with
    | [] => Some []
    | None :: _ => None
    | Some x :: t => match all_some t with Some r => Some (x :: r) | None => None end
    end.

  (* one manager call  m.<name>(id, args...) *)
  Definition mstep (tbl : list mmethod) (reg : registry) (name id : string) (args : list arg)
    : registry * mres * list (string * string * list arg) (* engine calls made: table, method, args *) :=
    match find_method tbl name with
    | None => (reg, MNoMethod, [])
    | Some m =>
        match lookup reg id with
        | None => (reg, (if mm_notfound m then MNotFound else MNoMethod), [])
        | Some e =>
            match all_some (pick args (mm_args m)) with
            | None => (reg, MNoMethod, [])
            | Some fw =>
                let '(e', r) := estep e (mm_engine m) fw in
                let reg1 := update reg id e' in
                let reg2 := if mm_deletes m && negb (is_err r) then remove reg1 id else reg1 in
                (reg2, MRes r, [(id, mm_engine m, fw)])
            end
        end
    end.

  (* m.tableEngines.Store *)
  Fixpoint insert (reg : registry) (id : string) (e : estate) : registry :=
    match reg with
    | [] => [(id, e)]
    | (k, e0) :: t => if String.eqb k id then (k, e) :: t else (k, e0) :: insert t id e
    end.

  (* m.CreateTable(...): `ok` and the fresh engine `e` are what the engine's CreateTable produced;
     which registry writes happen, and whether before or after the success check, is read from
     the generated list create_stores *)
  Definition mcreate (stores : list (bool * bool)) (reg : registry) (id : string) (ok : bool) (e : estate) : registry :=
    fold_left (fun r st => let '(after_ok, key_is_id) := st in
                           if (negb after_ok || ok) && key_is_id then insert r id e else r) stores reg.

  Definition mreset (clears : bool) (reg : registry) : registry := if clears then [] else reg.

  (* ---------- the specification: what the property demands, independent of the table ---------- *)
  (* a table exists from its successful creation until it is closed, released or the manager is
     reset; a refused creation leaves no trace *)
  Definition spec_create (reg : registry) (id : string) (ok : bool) (e : estate) : registry :=
    if ok then insert reg id e else reg.
  Definition spec_reset (reg : registry) : registry := [].

  Definition closes (name : string) : bool := String.eqb name "CloseTable" || String.eqb name "ReleaseTable".

  Definition spec_step (reg : registry) (name id : string) (args : list arg) : registry * mres :=
    match lookup reg id with
    | None => (reg, MNotFound)
    | Some e =>
        let '(e', r) := estep e name args in          (* the SAME-NAMED engine operation, same arguments *)
        let reg1 := update reg id e' in
        (if closes name && negb (is_err r) then remove reg1 id else reg1, MRes r)
    end.

  (* the generated table is well-formed: every method forwards to its namesake with its own
     arguments in order, reports not-found, deletes exactly on close/release, nothing else *)
  Definition wf_method (m : mmethod) : bool :=
    String.eqb (mm_engine m) (mm_name m)
    && nat_list_eqb (mm_args m) (seq 1 (mm_nparams m - 1))
    && mm_notfound m
    && Bool.eqb (mm_deletes m) (closes (mm_name m))
    && negb (mm_other m).

  Definition wf_table (tbl : list mmethod) : bool := forallb wf_method tbl.
End Manager.

(* the 22 forwarding methods of the Manager interface (manager.go), excluding
   Reset / GetTableEngine / CreateTable which do not forward *)
Definition manager_methods : list string :=
  ["ReleaseTable"; "PauseTable"; "CloseTable"; "StartTableGame"; "SetUpTableGame"; "UpdateBlind";
   "UpdateTablePlayers"; "PlayerReserve"; "PlayerJoin"; "PlayerSettlementFinish"; "PlayerRedeemChips";
   "PlayersLeave"; "PlayerExtendActionDeadline"; "PlayerReady"; "PlayerPay"; "PlayerBet"; "PlayerRaise";
   "PlayerCall"; "PlayerAllin"; "PlayerCheck"; "PlayerFold"; "PlayerPass"].

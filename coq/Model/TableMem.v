(* Model of the membership operations of the table engine (table_engine.go: PlayerReserve,
   PlayerJoin, PlayerRedeemChips, PlayersLeave, UpdateTablePlayers; table_engine_internal.go:
   batchAddPlayers, batchRemovePlayers, calcLeavePlayers) over the seat-manager model.
   The state is the bookkeeping slice of TableState: seat map, player list, hand player list,
   status, and the seat manager.  Random seats are oracle arguments (what the implementation
   drew). *)
From Coq Require Import List ZArith Bool Arith Lia.
Import ListNotations.
From PT Require Export Model.SeatManager.
Open Scope Z_scope.

Record tplayer := { tp_id : nat; tp_seat : Z; tp_in : bool; tp_bank : Z; tp_part : bool }.

Inductive tstatus := SCreated | SPausing | SRestoring | SBalancing | SClosed
                   | SOpened | SPlaying | SSettled | SStandby.

Definition in_hand (s : tstatus) : bool :=
  match s with SOpened | SPlaying | SSettled => true | _ => false end.

Record tbl := {
  t_max : nat;
  t_seatmap : list Z;          (* seat -> index into t_players, -1 = empty *)
  t_players : list tplayer;
  t_gpi : list Z;              (* hand index -> index into t_players *)
  t_status : tstatus;
  t_sm : sm
}.

Record join_player := { jp_id : nat; jp_chips : Z; jp_seat : Z }.   (* seat -1 = any *)

Definition with_sm (t : tbl) (s : sm) : tbl :=
  {| t_max := t_max t; t_seatmap := t_seatmap t; t_players := t_players t; t_gpi := t_gpi t;
     t_status := t_status t; t_sm := s |}.
Definition with_players (t : tbl) (ps : list tplayer) : tbl :=
  {| t_max := t_max t; t_seatmap := t_seatmap t; t_players := ps; t_gpi := t_gpi t;
     t_status := t_status t; t_sm := t_sm t |}.

Fixpoint find_idx_from (i : nat) (ps : list tplayer) (id : nat) : option nat :=
  match ps with
  | [] => None
  | p :: t => if Nat.eqb (tp_id p) id then Some i else find_idx_from (S i) t id
  end.
Definition find_idx (t : tbl) (id : nat) : option nat := find_idx_from 0 (t_players t) id.

Definition new_player (id : nat) (seat chips : Z) : tplayer :=
  {| tp_id := id; tp_seat := seat; tp_in := false; tp_bank := chips; tp_part := false |}.

Definition mem_id (id : nat) (l : list nat) : bool := existsb (Nat.eqb id) l.

(* batchAddPlayers.  `drawn`: the seats the seat manager drew for the players who asked for any
   seat, in their order.  The whole batch is validated first (distinct new ids, enough empty
   seats); then fixed seats, then random seats are assigned; then players are appended. *)
Definition batch_add (t : tbl) (jps : list join_player) (drawn : list Z) : res * tbl :=
  let ids := map jp_id jps in
  if negb (nodupb Nat.eqb ids) then (Err, t)
  else if existsb (fun id => match find_idx t id with Some _ => true | None => false end) ids then (Err, t)
  else if (t_max t <? length (t_players t) + length jps)%nat then (Err, t)
  else
    let fixed := filter (fun j => negb (jp_seat j =? -1)) jps in
    let rnd := filter (fun j => jp_seat j =? -1) jps in
    let '(r1, s1) := match fixed with [] => (Ok, t_sm t) | _ => assign (t_sm t) (map (fun j => (jp_id j, jp_seat j)) fixed) end in
    match r1 with Err => (Err, t) | Ok =>
      let '(r2, s2) := match rnd with [] => (Ok, s1) | _ => random_assign s1 (map jp_id rnd) drawn end in
      match r2 with Err => (Err, t) | Ok =>
        (* append the new players in batch order, patching the seat map *)
        let step (acc : list Z * list tplayer) (j : join_player) :=
          let '(smap, ps) := acc in
          match find_seat s2 (jp_id j) with
          | Some z => (upd smap (Z.to_nat z) (Z.of_nat (length ps)), ps ++ [new_player (jp_id j) z (jp_chips j)])
          | None => acc
          end in
        let '(smap', ps') := fold_left step jps (t_seatmap t, t_players t) in
        (Ok, {| t_max := t_max t; t_seatmap := smap'; t_players := ps'; t_gpi := t_gpi t;
                t_status := t_status t; t_sm := s2 |})
      end
    end.

(* calcLeavePlayers + batchRemovePlayers: the seat manager validates the whole list first *)
Fixpoint index_of_id (ps : list tplayer) (id : nat) (i : Z) : Z :=
  match ps with
  | [] => -1
  | p :: t => if Nat.eqb (tp_id p) id then i else index_of_id t id (i + 1)
  end.

Fixpoint build_seatmap (smap : list Z) (ps : list tplayer) (i : Z) : list Z :=
  match ps with
  | [] => smap
  | p :: t => build_seatmap (upd smap (Z.to_nat (tp_seat p)) i) t (i + 1)
  end.

Definition id_at (ps : list tplayer) (i : Z) : option nat :=
  if i <? 0 then None else option_map tp_id (nth_error ps (Z.to_nat i)).

Definition batch_remove (t : tbl) (ids : list nat) : res * tbl :=
  match remove_seats (t_sm t) ids with
  | (Err, _) => (Err, t)
  | (Ok, s') =>
      let ps' := filter (fun p => negb (mem_id (tp_id p) ids)) (t_players t) in
      let smap' := build_seatmap (repeat (-1) (t_max t)) ps' 0 in
      let gpi' :=
        if in_hand (t_status t)
        then flat_map (fun gi => match id_at (t_players t) gi with
                                 | Some id => let k := index_of_id ps' id 0 in if k <? 0 then [] else [k]
                                 | None => [] end) (t_gpi t)
        else t_gpi t in
      (Ok, {| t_max := t_max t; t_seatmap := smap'; t_players := ps'; t_gpi := gpi';
              t_status := t_status t; t_sm := s' |})
  end.

Fixpoint map_nth {A} (l : list A) (n : nat) (f : A -> A) : list A :=
  match l, n with
  | [], _ => []
  | h :: t, O => f h :: t
  | h :: t, S k => h :: map_nth t k f
  end.

Definition add_bank (p : tplayer) (c : Z) : tplayer :=
  {| tp_id := tp_id p; tp_seat := tp_seat p; tp_in := tp_in p; tp_bank := tp_bank p + c; tp_part := tp_part p |}.
Definition set_tin (p : tplayer) : tplayer :=
  {| tp_id := tp_id p; tp_seat := tp_seat p; tp_in := true; tp_bank := tp_bank p; tp_part := tp_part p |}.

Inductive mop :=
| MReserve (j : join_player) (drawn : list Z)
| MJoin (id : nat)
| MRedeem (id : nat) (chips : Z)
| MLeave (ids : list nat)
| MUpdate (joins : list join_player) (drawn : list Z) (leaves : list nat).

Definition mstep (t : tbl) (o : mop) : res * tbl :=
  match o with
  | MReserve j drawn =>
      match find_idx t (jp_id j) with
      | None =>
          if Nat.eqb (length (t_players t)) (t_max t) then (Err, t)      (* ErrTableNoEmptySeats *)
          else batch_add t [j] drawn
      | Some i =>
          (* re-buy *)
          let t1 := with_players t (map_nth (t_players t) i (fun p => add_bank p (jp_chips j))) in
          match update_chips (t_sm t) (jp_id j) true with
          | (Ok, s') => (Ok, with_sm t1 s')
          | (Err, _) => (Err, t1)
          end
      end
  | MJoin id =>
      match find_idx t id with
      | None => (Err, t)
      | Some i =>
          match nth_error (t_players t) i with
          | Some p =>
              if tp_seat p =? -1 then (Err, t)
              else if tp_in p then (Ok, t)
              else
                let t1 := with_players t (map_nth (t_players t) i set_tin) in
                match join_players (t_sm t) [id] with
                | (Ok, s') => (Ok, with_sm t1 s')
                | (Err, _) => (Err, t1)
                end
          | None => (Err, t)
          end
      end
  | MRedeem id chips =>
      match find_idx t id with
      | None => (Err, t)
      | Some i =>
          (* add-on; a player who has chips now can be dealt in again, as after a re-buy *)
          let t1 := with_players t (map_nth (t_players t) i (fun p => add_bank p chips)) in
          match nth_error (t_players t1) i with
          | Some p =>
              if 0 <? tp_bank p then
                match update_chips (t_sm t) id true with
                | (Ok, s') => (Ok, with_sm t1 s')
                | (Err, _) => (Err, t1)
                end
              else (Ok, t1)
          | None => (Ok, t1)
          end
      end
  | MLeave ids => batch_remove t ids
  | MUpdate joins drawn leaves =>
      let '(r1, t1) := match leaves with [] => (Ok, t) | _ => batch_remove t leaves end in
      match r1 with
      | Err => (Err, t1)
      | Ok => match joins with [] => (Ok, t1) | _ => batch_add t1 joins drawn end
      end
  end.

(* Model of the table's life cycle at the grain of macro steps between quiescent points
   (table_engine.go: StartTableGame, PauseTable, CloseTable, ReleaseTable, UpdateBlind,
   SetUpTableGame; table_engine_stage.go: tableGameOpen, openGame, startGame, settleGame,
   continueGame with GameContinueInterval = 0; the OnOpenGameReady callback of CreateTable).
   What the model cannot know by itself enters each step as an observed oracle value: how many
   players have chips / are seated-in with chips, and whether the hand reached settlement. *)
From Coq Require Import List ZArith Bool Arith Lia.
Import ListNotations.
From PT Require Export Model.TableMem.
Open Scope Z_scope.

Record blind := { b_level : Z; b_ante : Z; b_dealer : Z; b_sb : Z; b_bb : Z }.
Definition is_set (b : blind) : bool :=
  negb (b_level b =? 0) && negb (b_ante b =? -1) && negb (b_dealer b =? -1) && negb (b_sb b =? -1) && negb (b_bb b =? -1).
Definition is_break (b : blind) : bool := b_level b =? -1.

Record lstate := {
  l_status : tstatus; l_gc : Z; l_has_game : bool;
  l_blind : blind; l_gblind : option blind;
  l_released : bool; l_started : bool;
  l_gate_count : Z; l_gate_n : nat; l_gate_ready : bool;   (* the open-game gate: count, participants, all ready *)
  l_armed : option blind                                    (* a blind update that will arrive from inside CreateGame *)
}.

Record oracle := {
  o_players : nat;       (* players at the table *)
  o_alive : nat;         (* players with chips, after the step's hand (if any) settled *)
  o_live_in : nat;       (* seated-in players with chips, before the step *)
  o_live_in_after : nat; (* ... after the step's hand settled *)
  o_hand_closed : bool   (* the hand reached settlement within this step *)
}.

Inductive lop :=
| LStart | LFinish | LTimeout | LPlay | LUpdateBlind (b : blind) | LPause | LClose | LRelease
| LSetup (n : nat) | LMember | LArm (b : blind)
| LRetry.   (* tableGameOpen's own retry (every 3 s for 30 s) after an open that was refused because the blinds were not set *)

Definition set_status (s : lstate) (st : tstatus) : lstate :=
  {| l_status := st; l_gc := l_gc s; l_has_game := l_has_game s; l_blind := l_blind s; l_gblind := l_gblind s;
     l_released := l_released s; l_started := l_started s; l_gate_count := l_gate_count s; l_gate_n := l_gate_n s;
     l_gate_ready := l_gate_ready s; l_armed := l_armed s |}.

Definition set_gate (s : lstate) (c : Z) (n : nat) (r : bool) : lstate :=
  {| l_status := l_status s; l_gc := l_gc s; l_has_game := l_has_game s; l_blind := l_blind s; l_gblind := l_gblind s;
     l_released := l_released s; l_started := l_started s; l_gate_count := c; l_gate_n := n; l_gate_ready := r; l_armed := l_armed s |}.

Definition status_eqb (a b : tstatus) : bool :=
  match a, b with
  | SCreated, SCreated | SPausing, SPausing | SRestoring, SRestoring | SBalancing, SBalancing | SClosed, SClosed
  | SOpened, SOpened | SPlaying, SPlaying | SSettled, SSettled | SStandby, SStandby => true
  | _, _ => false
  end.

(* may tableGameOpen open a hand now? *)
Definition can_open (s : lstate) (live_in : nat) : bool :=
  negb (l_has_game s) && negb (status_eqb (l_status s) SClosed) && negb (l_released s)
  && is_set (l_blind s) && negb (is_break (l_blind s)) && (2 <=? live_in)%nat.

(* the gate completes (everyone signalled, or its timeout elapsed): OnOpenGameReady *)
Definition fire (s : lstate) (live_in : nat) : lstate :=
  let s1 := set_gate s (l_gate_count s) (l_gate_n s) true in
  if (l_gate_n s <=? 1)%nat then s1
  else if can_open s live_in then
    {| l_status := SPlaying; l_gc := l_gc s + 1; l_has_game := true;
       l_blind := match l_armed s with Some b => b | None => l_blind s end;
       l_gblind := Some (l_blind s);                      (* the level in force when the hand opened *)
       l_released := l_released s; l_started := l_started s;
       l_gate_count := l_gate_count s; l_gate_n := l_gate_n s; l_gate_ready := true; l_armed := None |}
  else s1.

(* the hand closed: settleGame; continueGame *)
Definition settle_continue (s : lstate) (min : nat) (o : oracle) : lstate :=
  let s1 := {| l_status := SStandby; l_gc := l_gc s; l_has_game := false; l_blind := l_blind s; l_gblind := l_gblind s;
               l_released := l_released s; l_started := l_started s; l_gate_count := l_gate_count s; l_gate_n := l_gate_n s;
               l_gate_ready := l_gate_ready s; l_armed := l_armed s |} in
  if l_released s then s1
  else if is_break (l_blind s) || (o_alive o <? min)%nat then set_status s1 SPausing
  else set_gate s1 (l_gc s + 1) (o_live_in_after o) false.

Definition lstep (min : nat) (s : lstate) (op : lop) (o : oracle) : lstate :=
  match op with
  | LStart =>
      if l_started s then s
      else let s1 := {| l_status := l_status s; l_gc := l_gc s; l_has_game := l_has_game s; l_blind := l_blind s; l_gblind := l_gblind s;
                        l_released := l_released s; l_started := true; l_gate_count := l_gate_count s; l_gate_n := l_gate_n s;
                        l_gate_ready := l_gate_ready s; l_armed := l_armed s |} in
           set_gate s1 (l_gc s) (o_players o) false       (* the competition layer answers with SetUpTableGame *)
  | LFinish | LTimeout => if l_gate_ready s then s else fire s (o_live_in o)
  | LPlay =>
      if status_eqb (l_status s) SPlaying && l_has_game s && o_hand_closed o then settle_continue s min o else s
  | LUpdateBlind b =>
      {| l_status := l_status s; l_gc := l_gc s; l_has_game := l_has_game s; l_blind := b; l_gblind := l_gblind s;
         l_released := l_released s; l_started := l_started s; l_gate_count := l_gate_count s; l_gate_n := l_gate_n s;
         l_gate_ready := l_gate_ready s; l_armed := l_armed s |}
  | LPause => set_status s SPausing
  | LClose =>
      {| l_status := SClosed; l_gc := l_gc s; l_has_game := l_has_game s; l_blind := l_blind s; l_gblind := l_gblind s;
         l_released := true; l_started := l_started s; l_gate_count := l_gate_count s; l_gate_n := l_gate_n s;
         l_gate_ready := l_gate_ready s; l_armed := l_armed s |}
  | LRelease =>
      {| l_status := l_status s; l_gc := l_gc s; l_has_game := l_has_game s; l_blind := l_blind s; l_gblind := l_gblind s;
         l_released := true; l_started := l_started s; l_gate_count := l_gate_count s; l_gate_n := l_gate_n s;
         l_gate_ready := l_gate_ready s; l_armed := l_armed s |}
  | LSetup n => set_gate s (l_gc s + 1) n false
  | LMember => s
  | LRetry =>
      (* only a refusal for missing blinds is retried (ErrTableOpenGameFailed); a break level is not *)
      if l_gate_ready s && l_started s && negb (is_break (l_blind s)) && (2 <=? l_gate_n s)%nat then fire (set_gate s (l_gate_count s) (l_gate_n s) false) (o_live_in o) else s
  | LArm b =>
      {| l_status := l_status s; l_gc := l_gc s; l_has_game := l_has_game s; l_blind := l_blind s; l_gblind := l_gblind s;
         l_released := l_released s; l_started := l_started s; l_gate_count := l_gate_count s; l_gate_n := l_gate_n s;
         l_gate_ready := l_gate_ready s; l_armed := Some b |}
  end.

(* a table as CreateTable leaves it *)
Definition linit (mtt_with_players : bool) (b : blind) : lstate :=
  {| l_status := if b_level b =? -1 then SPausing else if mtt_with_players then SBalancing else SCreated;
     l_gc := 0; l_has_game := false; l_blind := b; l_gblind := None; l_released := false; l_started := false;
     l_gate_count := 0; l_gate_n := 0; l_gate_ready := false; l_armed := None |}.

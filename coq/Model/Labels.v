(* position labels (constants.go) *)
Inductive label := LDealer | LSB | LBB | LUG | LUG2 | LUG3 | LMP | LMP2 | LHJ | LCO.

Definition label_eqb (a b : label) : bool :=
  match a, b with
  | LDealer, LDealer | LSB, LSB | LBB, LBB | LUG, LUG | LUG2, LUG2 | LUG3, LUG3
  | LMP, LMP | LMP2, LMP2 | LHJ, LHJ | LCO, LCO => true
  | _, _ => false
  end.

(* Model of open_game_manager/*.go over syncsaga.ReadyGroup as it is used there.

   One model step = one externally visible atomic action:
     Setup gc parts | Ready id | Timeout (the timebank task firing) | Restore st
   The ready group's action goroutine, its validator and the completion callback
   are run to quiescence inside the step (the correspondence harness waits for
   quiescence before it observes).

   Ids and indexes are natural numbers; the harness maps the Go string ids to
   numbers.  Participants are an association list in ascending id order (the Go
   code keeps a map; observation sorts by id). *)
From Coq Require Import List Arith ZArith Bool Lia.
Import ListNotations.

Record part := { p_id : nat; p_idx : nat; p_ready : bool }.

(* syncsaga.ReadyGroup, the fields that matter *)
Record rgroup := {
  rg_parts : list (nat * bool);   (* participant index -> ready; keys distinct *)
  rg_running : bool;              (* actionCh <> nil *)
  rg_completed : bool;            (* isCompleted *)
  rg_timer : bool                 (* a timebank task is armed *)
}.

Record gate := {
  g_timeout : nat;                (* configured timeout in seconds; 0 = none *)
  g_count : Z;
  g_parts : list part;            (* OpenGameState.Participants *)
  g_rg : rgroup
}.

Inductive op :=
| Setup (gc : Z) (ps : list (nat * nat))   (* (id, index) *)
| Ready (id : nat)
| Timeout
| Restore (tmo : nat) (gc : Z) (ps : list part).

Inductive out :=
| ONone
| OErr                                    (* ErrParticipantNotFound *)
| OFire (gc : Z) (ps : list part)         (* OnOpenGameReady(state) *)
| OMany (n : nat).                        (* only ever observed, never produced by the model:
                                             the callback ran n >= 2 times within one step *)

(* ---------- ready group ---------- *)
Definition rg_empty : rgroup :=
  {| rg_parts := []; rg_running := false; rg_completed := false; rg_timer := false |}.

(* updateState: write the entry for key k if there is one (keys are distinct) *)
Definition rg_set (l : list (nat * bool)) (k : nat) (v : bool) : list (nat * bool) :=
  map (fun kv => if Nat.eqb (fst kv) k then (fst kv, v) else kv) l.

(* ReadyGroup.Add: map insert *)
Fixpoint rg_add (l : list (nat * bool)) (k : nat) (v : bool) : list (nat * bool) :=
  match l with
  | [] => [(k, v)]
  | (k', v') :: t => if Nat.eqb k' k then (k', v) :: t else (k', v') :: rg_add t k v
  end.

Definition all_ready (l : list (nat * bool)) : bool := forallb snd l.

(* one action processed by the group's goroutine: updateState; validate.
   Returns the new group and whether Done() ran its body (completion fired). *)
Definition rg_ready (g : rgroup) (k : nat) : rgroup * bool :=
  if negb (rg_running g) then (g, false) else
  let ps := rg_set (rg_parts g) k true in
  if all_ready ps then
    if rg_completed g
    then ({| rg_parts := ps; rg_running := true; rg_completed := true; rg_timer := rg_timer g |}, false)
    else ({| rg_parts := ps; rg_running := true; rg_completed := true; rg_timer := false |}, true)
  else ({| rg_parts := ps; rg_running := true; rg_completed := rg_completed g; rg_timer := rg_timer g |}, false).

(* the timeout callback: Ready every participant that is not ready, in turn *)
Fixpoint rg_ready_all (g : rgroup) (ks : list nat) : rgroup * bool :=
  match ks with
  | [] => (g, false)
  | k :: t => let '(g1, f1) := rg_ready g k in
              let '(g2, f2) := rg_ready_all g1 t in (g2, f1 || f2)
  end.

Definition not_ready_keys (l : list (nat * bool)) : list nat :=
  map fst (filter (fun kv => negb (snd kv)) l).

(* Stop; ResetParticipants; Add...; Start *)
Definition rg_start (tmo : nat) (ps : list (nat * bool)) : rgroup :=
  {| rg_parts := ps; rg_running := true; rg_completed := false;
     rg_timer := negb (Nat.eqb tmo 0) |}.

(* ---------- the gate ---------- *)
Definition init (tmo : nat) : gate :=
  {| g_timeout := tmo; g_count := 0%Z; g_parts := []; g_rg := rg_empty |}.

Definition find_part (ps : list part) (id : nat) : option part :=
  find (fun p => Nat.eqb (p_id p) id) ps.

Definition set_ready (ps : list part) (id : nat) : list part :=
  map (fun p => if Nat.eqb (p_id p) id
                then {| p_id := p_id p; p_idx := p_idx p; p_ready := true |} else p) ps.

Definition all_set_ready (ps : list part) : list part :=
  map (fun p => {| p_id := p_id p; p_idx := p_idx p; p_ready := true |}) ps.

Definition mk_parts (ps : list (nat * nat)) : list part :=
  map (fun ii => {| p_id := fst ii; p_idx := snd ii; p_ready := false |}) ps.

Definition mk_rg (ps : list (nat * nat)) : list (nat * bool) :=
  fold_left (fun acc ii => rg_add acc (snd ii) false) ps [].

(* readyGroupOnCompleted: mark everybody ready, then call back with the state *)
Definition complete (g : gate) (rg' : rgroup) : gate * out :=
  let ps := all_set_ready (g_parts g) in
  ({| g_timeout := g_timeout g; g_count := g_count g; g_parts := ps; g_rg := rg' |},
   OFire (g_count g) ps).

Definition step (g : gate) (o : op) : gate * out :=
  match o with
  | Setup gc ps =>
      ({| g_timeout := g_timeout g; g_count := gc; g_parts := mk_parts ps;
          g_rg := rg_start (g_timeout g) (mk_rg ps) |}, ONone)
  | Ready id =>
      match find_part (g_parts g) id with
      | None => (g, OErr)
      | Some p =>
          let '(rg', fired) := rg_ready (g_rg g) (p_idx p) in
          let g1 := {| g_timeout := g_timeout g; g_count := g_count g;
                       g_parts := set_ready (g_parts g) id; g_rg := rg' |} in
          if fired then complete g1 rg' else (g1, ONone)
      end
  | Timeout =>
      if rg_timer (g_rg g) then
        let rg0 := {| rg_parts := rg_parts (g_rg g); rg_running := rg_running (g_rg g);
                      rg_completed := rg_completed (g_rg g); rg_timer := false |} in
        let '(rg', fired) := rg_ready_all rg0 (not_ready_keys (rg_parts rg0)) in
        let g1 := {| g_timeout := g_timeout g; g_count := g_count g;
                     g_parts := g_parts g; g_rg := rg' |} in
        if fired then complete g1 rg' else (g1, ONone)
      else (g, ONone)
  | Restore tmo gc ps =>
      (* NewOpenGameManagerFromState: add all not-ready, Start, then Add the ready
         ones as ready (a plain map write: no validation happens) *)
      let base := fold_left (fun acc p => rg_add acc (p_idx p) false) ps [] in
      let rgp := fold_left (fun acc p => if p_ready p then rg_add acc (p_idx p) true else acc) ps base in
      ({| g_timeout := tmo; g_count := gc;
          g_parts := map (fun p => {| p_id := p_id p; p_idx := p_idx p; p_ready := p_ready p |}) ps;
          g_rg := rg_start tmo rgp |}, ONone)
  end.

Fixpoint run (g : gate) (os : list op) : list (op * out * gate) :=
  match os with
  | [] => []
  | o :: t => let '(g', r) := step g o in (o, r, g') :: run g' t
  end.

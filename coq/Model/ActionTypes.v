(* Types of the tables the translator regenerates from table_engine.go / game.go (Gen_Actions.v). *)
From Coq Require Import List ZArith Bool String.
Import ListNotations.
From PT Require Export Spec.Hand_spec.

Inductive counter := CActions | CRaises | CCalls | CChecks.
Inductive flag := FVpipC | FVpip | FPfrC | FPfr | FAtsC | FAts | F3bC | F3b | FFt3bC | FFt3b | FCrC | FCr | FCbC | FCb | FFtcbC | FFtcb | FSdC | FSd.

(* a statistics update statement inside the success block of a Player<Action> method, flattened by the
   translator: the primitive runs when every guard holds at that moment *)
Inductive sprim := SInc (c : counter) | SSetFold | SSetFoldRound | SSet (f : flag) | SRefresh3B.
Inductive guard := GRaiser                  (* the hand's current raiser is this player *)
                 | GFlag (f : flag).         (* playerState.GameStatistics.<f> *)
Definition supd := (list guard * sprim)%type.

Record arow := {
  ar_act : act; ar_locks : bool; ar_validates : bool; ar_finds_player : bool; ar_game_call : string;
  ar_guarded : bool;       (* every effect on the table sits inside `if err == nil` *)
  ar_sets_last : bool; ar_last_act : act; ar_emits : bool;
  ar_stats : list supd
}.

Inductive gval := GNone | GPlay | GAction (a : act).
Record grow := {
  gr_name : string; gr_validation : gval; gr_allowed_check : option act; gr_backend : string;
  gr_state_replaced_on_success_only : bool; gr_answers_group : bool
}.

Inductive blind_kind := BlBB | BlSB | BlDealer.

Definition counter_eqb (a b : counter) : bool :=
  match a, b with CActions, CActions | CRaises, CRaises | CCalls, CCalls | CChecks, CChecks => true | _, _ => false end.

Definition flag_idx (f : flag) : nat :=
  match f with FVpipC => 0 | FVpip => 1 | FPfrC => 2 | FPfr => 3 | FAtsC => 4 | FAts => 5 | F3bC => 6 | F3b => 7 | FFt3bC => 8 | FFt3b => 9
             | FCrC => 10 | FCr => 11 | FCbC => 12 | FCb => 13 | FFtcbC => 14 | FFtcb => 15 | FSdC => 16 | FSd => 17 end.
Definition flag_eqb (a b : flag) : bool := Nat.eqb (flag_idx a) (flag_idx b).
Definition all_flags : list flag := [FVpipC; FVpip; FPfrC; FPfr; FAtsC; FAts; F3bC; F3b; FFt3bC; FFt3b; FCrC; FCr; FCbC; FCb; FFtcbC; FFtcb; FSdC; FSd].

(* the 'had the chance' flag of a 'did' flag *)
Definition chance_of (f : flag) : option flag :=
  match f with
  | FVpip => Some FVpipC | FPfr => Some FPfrC | FAts => Some FAtsC | F3b => Some F3bC | FFt3b => Some FFt3bC
  | FCr => Some FCrC | FCb => Some FCbC | FFtcb => Some FFtcbC | FSd => Some FSdC
  | _ => None
  end.

Lemma flag_eqb_eq a b : flag_eqb a b = true <-> a = b.
Proof. split; [destruct a, b; cbn; congruence | intros ->; destruct b; reflexivity]. Qed.

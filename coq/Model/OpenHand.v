(* Model of opening a hand (table_engine_stage.go: openGame, startGame; table_engine_internal.go:
   calcGamePlayerIndexes; position.go: updatePlayerPositions) AFTER the seat manager has
   initialised or rotated its positions.  Inputs: the table's player list and seat map, the seat
   manager's state.  Outputs: who is dealt in, the hand's player list (indexes into the player
   list, first entry at the - possibly fake - dealer), the position labels, and what the hand
   engine is given (stack and labels per entry).  A Go panic (index out of range) is an explicit
   outcome.  newPositions and the rotation offset come from Gen/Gen_Positions.v. *)
From Coq Require Import List ZArith Bool Arith Lia.
Import ListNotations.
From PT Require Export Model.TableMem Model.Labels Gen.Gen_Positions.
Open Scope Z_scope.

Inductive outcome (A : Type) := Done (a : A) | Failed | Panic.
Arguments Done {A} a. Arguments Failed {A}. Arguments Panic {A}.

(* sm.IsPlayerActive(id) *)
Definition is_player_active (s : sm) (id : nat) : option bool :=
  match find_seat s id with
  | Some z => match seat_at (sm_seats s) z with Some p => Some (active p) | None => None end
  | None => None
  end.

(* step 5 of openGame: IsParticipated := seat manager's Active() *)
Fixpoint set_participated (s : sm) (ps : list tplayer) : option (list tplayer) :=
  match ps with
  | [] => Some []
  | p :: t =>
      match is_player_active s (tp_id p), set_participated s t with
      | Some a, Some t' => Some ({| tp_id := tp_id p; tp_seat := tp_seat p; tp_in := tp_in p; tp_bank := tp_bank p; tp_part := a |} :: t')
      | _, _ => None
      end
  end.

(* seatMap[seat] with Go's index check *)
Definition seatmap_at (smap : list Z) (seat : Z) : outcome Z :=
  if (0 <=? seat) && (seat <? Z.of_nat (length smap)) then Done (nth (Z.to_nat seat) smap (-1)) else Panic.

Definition player_at (ps : list tplayer) (i : Z) : outcome tplayer :=
  if (0 <=? i) && (i <? Z.of_nat (length ps))
  then match nth_error ps (Z.to_nat i) with Some p => Done p | None => Panic end
  else Panic.

(* for i := start; i < n + start; i++ { seat := i % n; pi := seatMap[seat]; if pi >= 0 && players[pi].IsParticipated { append pi } } *)
Fixpoint walk_from (smap : list Z) (ps : list tplayer) (n : Z) (is : list Z) : outcome (list Z) :=
  match is with
  | [] => Done []
  | i :: t =>
      match seatmap_at smap (Z.rem i n) with
      | Done pi =>
          if 0 <=? pi then
            match player_at ps pi with
            | Done p => match walk_from smap ps n t with
                        | Done r => Done (if tp_part p then pi :: r else r)
                        | x => x end
            | Failed => Failed | Panic => Panic
            end
          else walk_from smap ps n t
      | Failed => Failed | Panic => Panic
      end
  end.

Definition seat_active (s : sm) (z : Z) : bool :=
  match seat_at (sm_seats s) z with Some p => active p | None => false end.

(* default / omaha branch of calcGamePlayerIndexes *)
Definition gpi_default (s : sm) (max : Z) (smap : list Z) (ps : list tplayer) : outcome (list Z) :=
  let d := sm_dealer s in let sb := sm_sb s in let bb := sm_bb s in
  let has_at (seat : Z) := existsb (fun p => tp_part p && (tp_seat p =? seat)) ps in
  let n := Z.of_nat (length smap) in
  if has_at d then walk_from smap ps n (zrange d (length smap))
  else
    let start := if has_at sb then sb else bb in
    (* for i := start+max-1; i >= start; i-- : first active seat going backwards *)
    let cands := rev (zrange start (Z.to_nat max)) in
    match find (fun i => seat_active s (Z.rem i max)) cands with
    | Some i => let fake := Z.rem i max in walk_from smap ps n (zrange fake (length smap))
    | None => walk_from smap ps n (zrange (-1) (length smap))     (* fakeDealerSeatID stays -1 *)
    end.

(* short-deck branch: player-list order starting at the dealer seat's player *)
Definition gpi_short (s : sm) (smap : list Z) (ps : list tplayer) : outcome (list Z) :=
  match seatmap_at smap (sm_dealer s) with
  | Done dpi =>
      let n := Z.of_nat (length ps) in
      let fix go (is : list Z) : outcome (list Z) :=
        match is with
        | [] => Done []
        | i :: t => match player_at ps (Z.rem i n) with
                    | Done p => match go t with Done r => Done (if tp_part p then Z.rem i n :: r else r) | x => x end
                    | Failed => Failed | Panic => Panic
                    end
        end in
      if n =? 0 then Done [] else go (zrange dpi (length ps))
  | Failed => Failed | Panic => Panic
  end.

Definition calc_gpi (s : sm) (max : Z) (smap : list Z) (ps : list tplayer) : outcome (list Z) :=
  match sm_rule s with
  | RShortDeck => gpi_short s smap ps
  | _ => gpi_default s max smap ps
  end.

(* ---- position labels ---- *)
Definition z_in3 (x a b c : Z) : bool := (x =? a) || (x =? b) || (x =? c).

(* number of position slots: walking the seats from the dealer, the seats dealer/sb/bb always
   count, the others when their occupant is dealt in *)
Definition slot_count (s : sm) (max : Z) : nat :=
  length (filter (fun k => let seat := Z.rem (k + sm_dealer s) max in
                           z_in3 seat (sm_dealer s) (sm_sb s) (sm_bb s) || seat_active s seat)
                 (zrange 0 (Z.to_nat max))).

Definition rotate_list {A} (l : list A) (k : nat) : list A := skipn k l ++ firstn k l.

Definition position_slots (count : nat) : list (list label) :=
  if Nat.eqb count 2 then [[LBB]; [LDealer; LSB]]
  else if (2 <? count)%nat then map (fun l => [l]) (rotate_list (new_positions count) (if (length (new_positions count) <? rotation_offset)%nat then Nat.modulo rotation_offset (length (new_positions count)) else rotation_offset))
  else [].

Definition has_label (l : label) (ls : list label) : bool := existsb (label_eqb l) ls.

(* the walk from the big-blind seat handing labels out; result: player id -> labels, in walk order *)
Fixpoint hand_out (s : sm) (max : Z) (is : list Z) (slots : list (list label)) (acc : list (nat * list label))
  : outcome (list (nat * list label)) :=
  match is with
  | [] => Done acc
  | i :: t =>
      let seat := Z.rem i max in
      (* after the seat has been handled: `if len(playerPositions) == 0 { break }` *)
      let after (slots' : list (list label)) (acc' : list (nat * list label)) :=
        match slots' with [] => Done acc' | _ => hand_out s max t slots' acc' end in
      if (0 <=? seat) && (seat <? Z.of_nat (length (sm_seats s))) then
        match slots with
        | [] => Panic                                     (* playerPositions[0] of an empty slice *)
        | sl :: rest =>
            match nth (Z.to_nat seat) (sm_seats s) None with
            | Some p =>
                if active p then after rest (acc ++ [(sp_id p, sl)])
                else if (has_label LDealer sl || has_label LSB sl) && ((seat =? sm_dealer s) || (seat =? sm_sb s))
                     then after rest acc else after slots acc
            | None =>
                if (has_label LDealer sl || has_label LSB sl) && ((seat =? sm_dealer s) || (seat =? sm_sb s))
                then after rest acc else after slots acc
            end
        end
      else after slots acc
  end.

(* updatePlayerPositions: labels for the players of the table (by id); players not reached keep none *)
Definition update_positions (s : sm) (max : Z) : outcome (list (nat * list label)) :=
  hand_out s max (zrange (sm_bb s) (Z.to_nat max)) (position_slots (slot_count s max)) [].

Definition labels_of (lab : list (nat * list label)) (id : nat) : list label :=
  match find (fun x => Nat.eqb (fst x) id) (rev lab) with Some x => snd x | None => [] end.

(* ---- the whole open: openGame (after the seat manager moved) + what startGame hands over ---- *)
Record opened := {
  o_players : list tplayer;              (* with IsParticipated set *)
  o_gpi : list Z;
  o_labels : list (nat * list label);    (* table-side labels per player id *)
  o_settings : list (Z * list label)     (* hand engine: (stack, labels) per entry, entry 0 carrying dealer *)
}.

Definition open_hand (t : tbl) : outcome opened :=
  let s := t_sm t in
  let max := Z.of_nat (t_max t) in
  match set_participated s (t_players t) with
  | None => Failed
  | Some ps =>
      match calc_gpi s max (t_seatmap t) ps with
      | Done gpi =>
          match update_positions s max with
          | Done lab =>
              (* startGame: PlayerSetting per entry *)
              let entry (gi : Z) : option (Z * list label) :=
                match nth_error ps (Z.to_nat gi) with
                | Some p => if 0 <=? gi then Some (tp_bank p, labels_of lab (tp_id p)) else None
                | None => None
                end in
              match all_some (map entry gpi) with
              | Some (e0 :: rest) =>
                  let e0' := if has_label LDealer (snd e0) then e0 else (fst e0, snd e0 ++ [LDealer]) in
                  Done {| o_players := ps; o_gpi := gpi; o_labels := lab; o_settings := e0' :: rest |}
              | Some [] => Panic              (* playerSettings[0] of an empty list *)
              | None => Panic
              end
          | Failed => Failed | Panic => Panic
          end
      | Failed => Failed | Panic => Panic
      end
  end.

(* refreshNextBBOrderPlayerIDs (at settlement): the players with chips, walking the seat map
   clockwise from the seat after the big blind (the big-blind seat itself comes last) *)
Definition next_bb_order (bb : Z) (max : Z) (smap : list Z) (ps : list tplayer) : outcome (list nat) :=
  let ps' := map (fun p => {| tp_id := tp_id p; tp_seat := tp_seat p; tp_in := tp_in p; tp_bank := tp_bank p; tp_part := 0 <? tp_bank p |}) ps in
  match walk_from smap ps' max (zrange (bb + 1) (Z.to_nat max)) with
  | Done l => Done (flat_map (fun i => match nth_error ps (Z.to_nat i) with Some p => [tp_id p] | None => [] end) l)
  | Failed => Failed | Panic => Panic
  end.

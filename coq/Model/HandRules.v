(* Model of a player's game action at the table (table_engine.go Player<Action>,
   table_engine_internal.go validateGameMove, game.go validatePlayMove / validateActionMove / <Action>),
   driven by the tables the translator regenerates from those sources (Gen_Actions.v).
   The hand engine's own verdict on a betting action (pokerface refuses a bet, raise, call, check,
   fold or all-in it does not allow; it does NOT refuse a pass) enters as an observed oracle:
   whether the backend call made for the action succeeded. *)
From Coq Require Import List ZArith Bool Arith String.
Import ListNotations.
From PT Require Export Model.ActionTypes Gen.Gen_Actions.
Open Scope Z_scope.

Inductive verdict := Accepted | Refused.

Definition is_group_act (a : act) : bool := match a with AReady | APay => true | _ => false end.

Definition row_of (a : act) : option arow := find (fun r => act_eqb (ar_act r) a) action_table.
Definition grow_of (a : act) : option grow :=
  match row_of a with
  | Some r => find (fun g => String.eqb (gr_name g) (ar_game_call r)) game_table
  | None => None
  end.

(* game.go: the wrapper's validation of one call *)
Definition wrapper_accepts (g : grow) (gp : nat) (e : hentry) (pre : hsnap) : bool :=
  (match gr_validation g with
   | GNone => true
   | GPlay => negb play_move_requires_current || (Z.of_nat gp =? h_cur pre)
   | GAction a => negb action_move_requires_allowed || has_act a (he_allowed e)
   end)
  && match gr_allowed_check g with Some a => has_act a (he_allowed e) | None => true end.

(* be_ok: the backend call made for this attempt (if any) succeeded *)
Definition decide (pre : hsnap) (c : hcall) (be_ok : bool) : verdict :=
  match row_of (hc_action c), grow_of (hc_action c) with
  | Some r, Some g =>
      if ar_validates r && game_move_requires_playing && negb (is_playing (h_status pre)) then Refused   (* ErrTablePlayerInvalidGameAction *)
      else match index_of (hc_player c) 0 (h_entries pre) with
           | None => Refused                                                                          (* ErrTablePlayerNotFound *)
           | Some gp =>
               match nth_error (h_entries pre) gp with
               | None => Refused
               | Some e => if wrapper_accepts g gp e pre && (gr_answers_group g || be_ok) then Accepted else Refused
               end
           end
  | _, _ => Refused
  end.

(* what an accepted action publishes *)
Definition published (pre : hsnap) (c : hcall) : hlast :=
  {| hl_id := hc_player c; hl_action := hc_action c; hl_round := h_round pre; hl_gid := h_gid pre; hl_gc := h_gc pre; hl_chips := hc_chips c |}.

(* ---------------- per-hand statistics ---------------- *)
Record pstat := { ps_actions : nat; ps_raises : nat; ps_calls : nat; ps_checks : nat; ps_fold : bool; ps_fold_round : rnd; ps_flags : flag -> bool }.
Definition pstat0 : pstat := {| ps_actions := 0; ps_raises := 0; ps_calls := 0; ps_checks := 0; ps_fold := false; ps_fold_round := RNoRound; ps_flags := fun _ => false |}.
Definition tstats := list (nat * pstat).      (* PlayerStates order, keyed by player id *)

Definition set_flag (p : pstat) (f : flag) (v : bool) : pstat :=
  {| ps_actions := ps_actions p; ps_raises := ps_raises p; ps_calls := ps_calls p; ps_checks := ps_checks p; ps_fold := ps_fold p;
     ps_fold_round := ps_fold_round p; ps_flags := fun g => if flag_eqb g f then v else ps_flags p g |}.
Definition inc (p : pstat) (c : counter) : pstat :=
  {| ps_actions := (if counter_eqb c CActions then S (ps_actions p) else ps_actions p);
     ps_raises := (if counter_eqb c CRaises then S (ps_raises p) else ps_raises p);
     ps_calls := (if counter_eqb c CCalls then S (ps_calls p) else ps_calls p);
     ps_checks := (if counter_eqb c CChecks then S (ps_checks p) else ps_checks p);
     ps_fold := ps_fold p; ps_fold_round := ps_fold_round p; ps_flags := ps_flags p |}.
Definition set_fold (p : pstat) : pstat :=
  {| ps_actions := ps_actions p; ps_raises := ps_raises p; ps_calls := ps_calls p; ps_checks := ps_checks p; ps_fold := true;
     ps_fold_round := ps_fold_round p; ps_flags := ps_flags p |}.
Definition set_fold_round (p : pstat) (r : rnd) : pstat :=
  {| ps_actions := ps_actions p; ps_raises := ps_raises p; ps_calls := ps_calls p; ps_checks := ps_checks p; ps_fold := ps_fold p;
     ps_fold_round := r; ps_flags := ps_flags p |}.

Definition get (st : tstats) (id : nat) : pstat :=
  match find (fun kp => Nat.eqb (fst kp) id) st with Some kp => snd kp | None => pstat0 end.
Definition upd (st : tstats) (id : nat) (f : pstat -> pstat) : tstats :=
  map (fun kp => if Nat.eqb (fst kp) id then (fst kp, f (snd kp)) else kp) st.

(* game_statistics.go refreshThreeBet *)
Definition refresh3b (st : tstats) (me : nat) : tstats :=
  let st1 := if existsb (fun kp => ps_flags (snd kp) F3b) st then map (fun kp => (fst kp, set_flag (snd kp) F3b false)) st else st in
  if ps_flags (get st1 me) F3bC then map (fun kp => (fst kp, set_flag (snd kp) F3b (Nat.eqb (fst kp) me))) st1 else st1.

Definition guard_holds (me : nat) (raiser : bool) (st : tstats) (g : guard) : bool :=
  match g with GRaiser => raiser | GFlag f => ps_flags (get st me) f end.
Definition apply_prim (me : nat) (r : rnd) (p : sprim) (st : tstats) : tstats :=
  match p with
  | SInc c => upd st me (fun p => inc p c)
  | SSetFold => upd st me set_fold
  | SSetFoldRound => upd st me (fun p => set_fold_round p r)
  | SSet f => upd st me (fun p => set_flag p f true)
  | SRefresh3B => refresh3b st me
  end.
Definition apply_upd (me : nat) (raiser : bool) (r : rnd) (u : supd) (st : tstats) : tstats :=
  if forallb (guard_holds me raiser st) (fst u) then apply_prim me r (snd u) st else st.
Fixpoint apply_upds (me : nat) (raiser : bool) (r : rnd) (l : list supd) (st : tstats) : tstats :=
  match l with [] => st | x :: t => apply_upds me raiser r t (apply_upd me raiser r x st) end.

(* ---------------- one attempt at the table ---------------- *)
(* the part of the table an action can touch: last published action, statistics, the hand (abstract) *)
Record tview := { tv_last : option hlast; tv_stats : tstats; tv_hand : nat }.

(* what the hand engine answers: success or not, the hand state after it, whether the player is the raiser now,
   and the round the hand is in after it *)
Record oracle := { o_ok : bool; o_hand : nat; o_raiser : bool; o_round : rnd }.

Definition effects (r : arow) (pre : hsnap) (c : hcall) (o : oracle) (v : tview) : tview * list hlast :=
  ({| tv_last := if ar_sets_last r then Some (published pre c) else tv_last v;
      tv_stats := apply_upds (hc_player c) (o_raiser o) (o_round o) (ar_stats r) (tv_stats v);
      tv_hand := o_hand o |},
   if ar_emits r then [published pre c] else []).

Definition astep (pre : hsnap) (c : hcall) (o : oracle) (v : tview) : tview * list hlast * verdict :=
  match decide pre c (o_ok o) with
  | Accepted => match row_of (hc_action c) with
                | Some r => (effects r pre c o v, Accepted)
                | None => (v, [], Refused)
                end
  | Refused => match row_of (hc_action c) with
               | Some r => if ar_guarded r then (v, [], Refused)
                           else (fst (effects r pre c o v), snd (effects r pre c o v), Refused)   (* an effect outside `if err == nil` *)
               | None => (v, [], Refused)
               end
  end.

(* a history of attempts *)
Record attempt := { at_pre : hsnap; at_call : hcall; at_oracle : oracle }.
Fixpoint run (v : tview) (l : list attempt) : tview * list hlast :=
  match l with
  | [] => (v, [])
  | a :: t => let '(v1, ev, _) := astep (at_pre a) (at_call a) (at_oracle a) v in
              let '(v2, ev2) := run v1 t in (v2, app ev ev2)
  end.
Definition accepted (a : attempt) : bool := match decide (at_pre a) (at_call a) (o_ok (at_oracle a)) with Accepted => true | Refused => false end.

(* ---------------- the tables say what the model needs ---------------- *)
Definition all_acts : list act := [AReady; APay; APass; AFold; ACheck; ACall; AAllin; ABet; ARaise].

Definition row_ok (a : act) : bool :=
  match row_of a, grow_of a with
  | Some r, Some g =>
      ar_locks r && ar_validates r && ar_finds_player r && ar_guarded r && ar_sets_last r && act_eqb (ar_last_act r) a
      && gr_state_replaced_on_success_only g
      && (if is_group_act a then (match gr_validation g with GAction b => act_eqb a b | _ => false end) && gr_answers_group g
          else (match gr_validation g with GPlay => true | _ => false end) && negb (gr_answers_group g)
               && (negb (act_eqb a APass) || match gr_allowed_check g with Some b => act_eqb b APass | None => false end))
  | _, _ => false
  end.
Definition rules_ok : bool :=
  forallb row_ok all_acts && play_move_requires_current && action_move_requires_allowed && game_move_requires_playing && game_move_requires_entry.

(* betting actions and pass are published as events as soon as they are accepted *)
Definition emits_ok : bool :=
  forallb (fun a => match row_of a with Some r => ar_emits r | None => false end) [APass; AFold; ACheck; ACall; AAllin; ABet; ARaise].
(* every accepted game action is *)
Definition emits_all_ok : bool := forallb (fun a => match row_of a with Some r => ar_emits r | None => false end) all_acts.

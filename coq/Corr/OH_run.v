(* Opened-hand correspondence (C02, C05, C06): the model recomputes who is dealt in, the hand's
   player list, the labels and the hand engine's settings from the table's players / seat map and
   the seat manager's (already rotated) state, and is compared with what the implementation
   published; the three specifications are evaluated on the published snapshot. *)
From Coq Require Import List ZArith Bool Arith.
Import ListNotations.
From PT Require Export Model.OpenHand Spec.Open_spec.
Open Scope Z_scope.

Record ocase := {
  c_max : nat; c_seatmap : list Z; c_players : list oplayer; c_gpi : list Z;
  c_dealer : Z; c_sb : Z; c_bb : Z; c_sm : sm; c_settings : list (Z * list label);
  c_labels_stable : bool    (* no later snapshot of the same hand (playing, settled) showed a player with other labels *)
}.

(* a settlement snapshot: seat map, players (id, seat, bankroll), big-blind seat, published order *)
Record ncase := { n_max : nat; n_seatmap : list Z; n_players : list (nat * Z * Z); n_bb : Z; n_next : list nat }.

Inductive case := COpen (c : ocase) | CNext (c : ncase).

Definition snap (c : ocase) : osnap :=
  {| os_max := c_max c; os_players := c_players c; os_gpi := c_gpi c; os_dealer := c_dealer c; os_sb := c_sb c; os_bb := c_bb c;
     os_settings := c_settings c |}.

Definition to_tbl (c : ocase) : tbl :=
  {| t_max := c_max c; t_seatmap := c_seatmap c;
     t_players := map (fun p => {| tp_id := op_id p; tp_seat := op_seat p; tp_in := op_in p; tp_bank := op_bank p; tp_part := false |}) (c_players c);
     t_gpi := []; t_status := SStandby; t_sm := c_sm c |}.

Fixpoint list_eqb {A} (e : A -> A -> bool) (a b : list A) : bool :=
  match a, b with [], [] => true | x :: a', y :: b' => e x y && list_eqb e a' b' | _, _ => false end.

Fixpoint settings_eqb (a b : list (Z * list label)) : bool :=
  match a, b with
  | [], [] => true
  | x :: a', y :: b' => (fst x =? fst y) && labels_eqb (snd x) (snd y) && settings_eqb a' b'
  | _, _ => false
  end.

Definition model_agrees (c : ocase) : bool :=
  match open_hand (to_tbl c) with
  | Done o =>
      list_eqb Z.eqb (o_gpi o) (c_gpi c)
      && list_eqb Bool.eqb (map tp_part (o_players o)) (map op_part (c_players c))
      && forallb (fun p => labels_eqb (labels_of (o_labels o) (op_id p)) (op_labels p)) (c_players c)
      && (match c_settings c with [] => true | _ => settings_eqb (o_settings o) (c_settings c) end)
      && (sm_dealer (c_sm c) =? c_dealer c) && (sm_sb (c_sm c) =? c_sb c) && (sm_bb (c_sm c) =? c_bb c)
  | _ => false
  end.

Definition is_default (c : ocase) : bool := rule_eqb (sm_rule (c_sm c)) RDefault.

(* codes: 2 model/implementation differ; 3 C02 (step = clause); 4 C05; 6 C06 *)
Definition check_open (c : ocase) : list (nat * nat) :=
  (if model_agrees c then [] else [(2%nat, 0%nat)]) ++
  (if C02_ok (snap c) then [] else [(3%nat, C02_diag (snap c))]) ++
  (if C05_ok (is_default c) (snap c) then [] else [(4%nat, C05_diag (is_default c) (snap c))]) ++
  (if negb (is_default c) || C06_labels_ok (snap c) then [] else [(6%nat, C06_diag (snap c))]) ++
  (if c_labels_stable c then [] else [(6%nat, 5%nat)]).

Definition check_next (c : ncase) : list (nat * nat) :=
  let ps := map (fun p => let '(id, s, b) := p in {| tp_id := id; tp_seat := s; tp_in := true; tp_bank := b; tp_part := false |}) (n_players c) in
  (match next_bb_order (n_bb c) (Z.of_nat (n_max c)) (n_seatmap c) ps with
   | Done l => if nats_eqb l (n_next c) then [] else [(7%nat, 0%nat)]       (* model / implementation *)
   | _ => [(7%nat, 1%nat)] end) ++
  (if C06_next_bb_ok {| ns_max := n_max c; ns_bb := n_bb c; ns_players := n_players c; ns_next := n_next c |} then [] else [(6%nat, 4%nat)]).

Definition check_case (c : case) : list (nat * nat) :=
  match c with COpen o => check_open o | CNext n => check_next n end.

Fixpoint check_all (i : nat) (cs : list case) : list (nat * (nat * nat)) :=
  match cs with
  | [] => []
  | c :: t => map (fun e => (i, e)) (check_case c) ++ check_all (S i) t
  end.

Definition mksp (id : nat) (i b c : bool) : option sp := Some {| sp_id := id; sp_in := i; sp_btw := b; sp_chips := c |}.
Definition mksm (max : nat) (l : list (option sp)) (d sb bb : Z) (r : rule) (i : bool) : sm :=
  {| sm_max := max; sm_seats := l; sm_dealer := d; sm_sb := sb; sm_bb := bb; sm_rule := r; sm_init := i |}.
Definition mkop (id : nat) (seat : Z) (i : bool) (bank : Z) (part : bool) (ls : list label) (fr wt : bool) (ms : nat) : oplayer :=
  {| op_id := id; op_seat := seat; op_in := i; op_bank := bank; op_part := part; op_labels := ls; op_fresh := fr; op_waiting := wt; op_missed := ms |}.
Definition mkoc (max : nat) (smap : list Z) (ps : list oplayer) (gpi : list Z) (d sb bb : Z) (s : sm) (st : list (Z * list label)) (stable : bool) : case :=
  COpen {| c_max := max; c_seatmap := smap; c_players := ps; c_gpi := gpi; c_dealer := d; c_sb := sb; c_bb := bb; c_sm := s; c_settings := st;
           c_labels_stable := stable |}.
Definition mknc (max : nat) (smap : list Z) (ps : list (nat * Z * Z)) (bb : Z) (nx : list nat) : case :=
  CNext {| n_max := max; n_seatmap := smap; n_players := ps; n_bb := bb; n_next := nx |}.

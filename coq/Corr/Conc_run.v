(* C16 correspondence: bursts of concurrent operations on the real engine, decided inside Coq. *)
From Coq Require Import List ZArith Bool Arith.
Import ListNotations.
From PT Require Export Corr.TM_run.
Open Scope Z_scope.

Inductive sop := SORandom (ids : list nat) | SOAssign (id seat : nat) | SORemove (ids : list nat).
Record bec := { be_kind : nat; be_in : Z; be_out : Z; be_cur : Z }.
Record turn := { tu_cur : nat; tu_subs : list (nat * nat * bool); tu_be : list bec }.
Inductive ccase :=
| CMembers (pre : tbl) (ops : list mop) (rs : list res) (post : tbl)
| COpenMembers (pre : tbl) (ops : list mop) (rs : list res) (post : tbl)    (* membership calls released together with the signals that open the next hand *)
| CSeats (pre : sm) (ops : list sop) (rs : list res) (post : sm)
| CActions (turns : list turn) (sum_pre sum_post : Z) (settled hands : nat)
| CNothing.

Definition mkbe (k : nat) (i o c : Z) : bec := {| be_kind := k; be_in := i; be_out := o; be_cur := c |}.
Definition mkturn (c : nat) (subs : list (nat * nat * bool)) (be : list bec) : turn := {| tu_cur := c; tu_subs := subs; tu_be := be |}.

(* ---------- all orders of a small burst ---------- *)
Fixpoint inserts {A} (x : A) (l : list A) : list (list A) :=
  match l with
  | [] => [[x]]
  | y :: t => (x :: l) :: map (cons y) (inserts x t)
  end.
Fixpoint perms {A} (l : list A) : list (list A) :=
  match l with
  | [] => [[]]
  | x :: t => flat_map (inserts x) (perms t)
  end.

Definition nmem (x : nat) (l : list nat) : bool := existsb (Nat.eqb x) l.
Fixpoint nodupb (l : list nat) : bool := match l with [] => true | x :: t => negb (nmem x t) && nodupb t end.
Definition same_set (a b : list nat) : bool := forallb (fun x => nmem x b) a && forallb (fun x => nmem x a) b.

(* ---------- members ---------- *)
Definition ids_of (t : tbl) : list nat := map tp_id (t_players t).

(* the operations in the given order on the model, results compared as we go *)
Fixpoint lin_run (t : tbl) (l : list (mop * res)) : option tbl :=
  match l with
  | [] => Some t
  | (o, r) :: rest => let '(r', t') := mstep t o in if res_eqb r r' then lin_run t' rest else None
  end.
Definition linearizable (pre : tbl) (l : list (mop * res)) (post : tbl) : bool :=
  existsb (fun order => match lin_run pre order with Some t => book_eqb t post | None => false end) (perms l).

(* larger bursts: search for an order instead of trying them all.  A refused operation leaves the table as it was, so an
   operation that was refused and that the model refuses in the current state can be placed right here without loss of
   generality; only the accepted operations branch.  (Fuel 2n+2 is never exhausted: every call removes an operation.) *)
Definition is_err (r : res) : bool := match r with Err => true | Ok => false end.
Fixpoint picks {A} (l : list A) : list (A * list A) :=
  match l with
  | [] => []
  | x :: t => (x, t) :: map (fun p => (fst p, x :: snd p)) (picks t)
  end.
(* (a refused batch update may still have applied its departures - finding F19 - so "refused" means "changes nothing" only when
   the model's state after it equals the state before it; the others branch like the accepted ones) *)
Definition refused_noop (t : tbl) (x : mop * res) : bool :=
  is_err (snd x) && (let '(r', t') := mstep t (fst x) in is_err r' && book_eqb t t').
Fixpoint lin_dfs (fuel : nat) (t : tbl) (rem : list (mop * res)) (post : tbl) : bool :=
  match fuel with
  | O => true
  | S f =>
      let rem' := filter (fun x => negb (refused_noop t x)) rem in
      if (length rem' <? length rem)%nat then lin_dfs f t rem' post
      else match rem with
           | [] => book_eqb t post
           | _ => existsb (fun p => let '(r', t') := mstep t (fst (fst p)) in
                                    if res_eqb r' (snd (fst p)) then lin_dfs f t' (snd p) post else false) (picks rem)
           end
  end.
Definition is_half_update (o : mop) : bool := match o with MUpdate (_ :: _) _ (_ :: _) => true | _ => false end.
Definition accepted_n (l : list (mop * res)) : nat := length (filter (fun x => negb (is_err (snd x)) || is_half_update (fst x)) l).

Definition joins_of (o : mop) : list nat :=
  match o with MReserve j _ => [jp_id j] | MUpdate js _ _ => map jp_id js | _ => [] end.
Definition leaves_of (o : mop) : list nat := match o with MLeave ids => ids | MUpdate _ _ ls => ls | _ => [] end.

(* nobody lost or duplicated: a newcomer is at the table iff its call succeeded; somebody who was there is
   gone only if a call naming them as leaving was made; nobody else appears *)
Definition accounting_ok (pre : tbl) (l : list (mop * res)) (post : tbl) : bool :=
  let okj := flat_map (fun x => match snd x with Ok => joins_of (fst x) | Err => [] end) l in
  let allj := flat_map (fun x => joins_of (fst x)) l in
  let allleave := flat_map (fun x => leaves_of (fst x)) l in
  let okleave := flat_map (fun x => match snd x with Ok => leaves_of (fst x) | Err => [] end) l in
  nodupb (ids_of post)
  && forallb (fun id => nmem id (ids_of pre) || nmem id okj) (ids_of post)
  && forallb (fun id => negb (nmem id (ids_of pre)) || nmem id (ids_of post) || nmem id allleave) (ids_of pre)
  && forallb (fun id => nmem id (ids_of pre) || nmem id (ids_of post) || nmem id allleave) okj
  && forallb (fun id => negb (nmem id (ids_of post)) || nmem id okj) (filter (fun id => negb (nmem id (ids_of pre))) allj)
  && forallb (fun id => negb (nmem id (ids_of post)) || nmem id allj) okleave.

(* chips: whoever is at the table afterwards and was not named as leaving holds what they had plus every accepted
   reservation (buy-in or re-buy) made for them *)
Definition chips_for (id : nat) (o : mop) : Z :=
  match o with
  | MReserve j _ => if Nat.eqb (jp_id j) id then jp_chips j else 0
  | MUpdate js _ _ => fold_right Z.add 0 (map (fun j => if Nat.eqb (jp_id j) id then jp_chips j else 0) js)
  | _ => 0
  end.
Definition bank_of (t : tbl) (id : nat) : Z := match find (fun p => Nat.eqb (tp_id p) id) (t_players t) with Some p => tp_bank p | None => 0 end.
Definition bank_ok (pre : tbl) (l : list (mop * res)) (post : tbl) : bool :=
  let allleave := flat_map (fun x => leaves_of (fst x)) l in
  forallb (fun p => nmem (tp_id p) allleave
                    || (tp_bank p =? bank_of pre (tp_id p) + fold_right Z.add 0 (map (fun x => match snd x with Ok => chips_for (tp_id p) (fst x) | Err => 0 end) l)))
          (t_players post).

Definition members_diag (pre : tbl) (ops : list mop) (rs : list res) (post : tbl) : nat :=
  if negb (seat_inv pre) then 0%nat
  else if negb (Nat.eqb (length ops) (length rs)) then 9%nat
  else if negb (seat_inv post) then 1%nat
  else if negb (accounting_ok pre (combine ops rs) post) then 2%nat
  else if negb (bank_ok pre (combine ops rs) post) then 5%nat
  else if (length ops <=? 6)%nat then (if linearizable pre (combine ops rs) post then 0%nat else 3%nat)   (* lazily: only small bursts *)
  else if (accepted_n (combine ops rs) <=? 7)%nat
       then (if lin_dfs (2 * length ops + 2) pre (combine ops rs) post then 0%nat else 3%nat)
  else 0%nat.

(* while a hand opens: the opening itself moves buttons and waiting flags, so the orders are not replayed; what must hold is the
   bookkeeping invariant and the accounting of players and chips *)
Definition open_members_diag (pre : tbl) (ops : list mop) (rs : list res) (post : tbl) : nat :=
  if negb (seat_inv pre) then 0%nat
  else if negb (Nat.eqb (length ops) (length rs)) then 9%nat
  else if negb (seat_inv post) then 1%nat
  else if negb (accounting_ok pre (combine ops rs) post) then 2%nat
  else if negb (bank_ok pre (combine ops rs) post) then 5%nat
  else 0%nat.

(* ---------- seat manager ---------- *)
Definition sm_ids (s : sm) : list nat := flat_map (fun o => match o with Some p => [sp_id p] | None => [] end) (sm_seats s).
Definition sjoins (o : sop) : list nat := match o with SORandom ids => ids | SOAssign id _ => [id] | SORemove _ => [] end.
Definition sleaves (o : sop) : list nat := match o with SORemove ids => ids | _ => [] end.
Definition seats_diag (pre : sm) (ops : list sop) (rs : list res) (post : sm) : nat :=
  let l := combine ops rs in
  let okj := flat_map (fun x => match snd x with Ok => sjoins (fst x) | Err => [] end) l in
  let okl := flat_map (fun x => match snd x with Ok => sleaves (fst x) | Err => [] end) l in
  let alll := flat_map (fun x => sleaves (fst x)) l in
  if negb (nodupb (sm_ids pre)) then 0%nat
  else if negb (Nat.eqb (length (sm_seats post)) (sm_max post)) then 4%nat
  else if negb (nodupb (sm_ids post)) then 4%nat                                            (* a player on two seats *)
  else if negb (forallb (fun id => nmem id (sm_ids pre) || nmem id okj) (sm_ids post)) then 5%nat
  else if negb (forallb (fun id => nmem id (sm_ids post)) okj) then 5%nat                   (* an accepted assignment got no seat *)
  else if negb (forallb (fun id => nmem id (sm_ids post) || nmem id alll) (sm_ids pre)) then 5%nat
  else if negb (forallb (fun id => negb (nmem id (sm_ids post))) okl) then 5%nat
  (* an explicit seat request that was accepted holds that seat *)
  else if negb (forallb (fun x => match fst x, snd x with
                                 | SOAssign id seat, Ok => match nth_error (sm_seats post) seat with Some (Some p) => Nat.eqb (sp_id p) id | _ => false end
                                 | _, _ => true end) l) then 4%nat
  else 0%nat.

(* ---------- actions ---------- *)
Definition is_action_kind (k : nat) : bool := (5 <=? k)%nat && (k <=? 12)%nat.
(* every successful call is made on the state the previous successful call returned: one hand, one chain *)
Fixpoint chain_ok (prev : option Z) (l : list bec) : bool :=
  match l with
  | [] => true
  | b :: t => if be_out b =? 0 then chain_ok prev t      (* a refused / failed call changes nothing *)
              else (match prev with Some p => be_in b =? p | None => true end) && chain_ok (Some (be_out b)) t
  end.
Fixpoint remove_first (gk : nat * nat) (l : list (nat * nat)) : option (list (nat * nat)) :=
  match l with
  | [] => None
  | x :: t => if Nat.eqb (fst x) (fst gk) && Nat.eqb (snd x) (snd gk) then Some t
              else match remove_first gk t with Some t' => Some (x :: t') | None => None end
  end.
Fixpoint multiset_eq (a b : list (nat * nat)) : bool :=
  match a with
  | [] => match b with [] => true | _ => false end
  | x :: t => match remove_first x b with Some b' => multiset_eq t b' | None => false end
  end.
Definition turn_diag (t : turn) : nat :=
  let accepted := flat_map (fun s => match s with (gp, k, true) => [(gp, k)] | _ => [] end) (tu_subs t) in
  let applied := flat_map (fun b => if is_action_kind (be_kind b) && negb (be_out b =? 0) then [(Z.to_nat (be_cur b), be_kind b)] else []) (tu_be t) in
  if negb (chain_ok None (tu_be t)) then 6%nat
  else if negb (multiset_eq accepted applied) then 7%nat      (* accepted for somebody whose turn it was not / applied twice / not applied *)
  else 0%nat.
Fixpoint turns_diag (i : nat) (l : list turn) : option (nat * nat) :=
  match l with [] => None | t :: r => match turn_diag t with O => turns_diag (S i) r | d => Some (i, d) end end.

Definition check_case (c : ccase) : list (nat * nat) :=
  match c with
  | CMembers pre ops rs post => match members_diag pre ops rs post with O => [] | d => [(3%nat, d)] end
  | COpenMembers pre ops rs post => match open_members_diag pre ops rs post with O => [] | d => [(3%nat, d)] end
  | CSeats pre ops rs post => match seats_diag pre ops rs post with O => [] | d => [(3%nat, d)] end
  | CActions turns s0 s1 settled hands =>
      (match turns_diag 0 turns with Some (i, d) => [(3%nat, (i * 10 + d)%nat)] | None => [] end)
      ++ (if (1 <=? settled)%nat && negb (s0 =? s1) then [(3%nat, 8%nat)] else [])
  | CNothing => []
  end.

Fixpoint check_all (i : nat) (cs : list ccase) : list (nat * (nat * nat)) :=
  match cs with
  | [] => []
  | c :: t => map (fun e => (i, e)) (check_case c) ++ check_all (S i) t
  end.
Definition case := ccase.

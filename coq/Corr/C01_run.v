(* C01 correspondence: the chip model is run on the observed events and compared, event by event,
   with the bankrolls the implementation shows; the conservation monitor runs on the observations. *)
From Coq Require Import List ZArith Bool Arith.
Import ListNotations.
From PT Require Export Model.Chips Spec.C01_spec.
Open Scope Z_scope.

Definition case := list cobs.

Definition pl_eqb (a b : nat * Z) : bool := Nat.eqb (fst a) (fst b) && (snd a =? snd b).
Fixpoint pls_eqb (a b : list (nat * Z)) : bool :=
  match a, b with [], [] => true | x :: a', y :: b' => pl_eqb x y && pls_eqb a' b' | _, _ => false end.

Fixpoint model_diff (i : nat) (s : cstate) (tr : list cobs) : option nat :=
  match tr with
  | [] => None
  | o :: t => let s' := cstep s (co_ev o) in
              if pls_eqb (cs_players s') (co_after o) then model_diff (S i) s' t else Some i
  end.

(* first index at which the monitor fails, with the clause: 1 conservation, 2 hand-locality *)
Fixpoint mon_fail (i : nat) (prev : list (nat * Z)) (brought taken : Z) (tr : list cobs) : option (nat * nat) :=
  match tr with
  | [] => None
  | o :: t =>
      let '(b', k') :=
        match co_ev o with
        | CIn _ c | CTopUp _ c => (brought + c, taken)
        | COut ids => (brought, taken + total (filter (fun p => mem_id (fst p) ids) prev))
        | CSettle _ _ | CMark => (brought, taken)
        end in
      if negb (if co_between_hands o then total (co_after o) =? b' - k' else true) then Some (i, 1%nat)
      else if negb (match co_ev o with
                    | CSettle hand rs => negb (result_ok hand rs) || hand_local prev (co_after o) hand rs
                    | _ => true end) then Some (i, 2%nat)
      else mon_fail (S i) (co_after o) b' k' t
  end.

(* the hand engine's side of the contract, evaluated on every observed settlement *)
Fixpoint contract_fail (i : nat) (tr : list cobs) : option nat :=
  match tr with
  | [] => None
  | o :: t => match co_ev o with
              | CSettle hand rs => if result_ok hand rs then contract_fail (S i) t else Some i
              | _ => contract_fail (S i) t
              end
  end.

(* codes: 2 model/implementation differ (step = event index); 3 monitor (step = 100*clause + event index... kept small:
   clause in the hundreds); 5 result contract broken (pokerface side) *)
Definition check_case (c : case) : list (nat * nat) :=
  (match model_diff 0 cinit c with Some i => [(2%nat, i)] | None => [] end) ++
  (match mon_fail 0 [] 0 0 c with Some (i, cl) => [(3%nat, (cl * 1000 + i)%nat)] | None => [] end) ++
  (match contract_fail 0 c with Some i => [(5%nat, i)] | None => [] end).

Fixpoint check_all (i : nat) (cs : list case) : list (nat * (nat * nat)) :=
  match cs with
  | [] => []
  | c :: t => map (fun e => (i, e)) (check_case c) ++ check_all (S i) t
  end.

Definition mkr (i : nat) (c f : Z) : rentry := {| r_idx := i; r_changed := c; r_final := f |}.
Definition mko (e : cev) (a : list (nat * Z)) (b : bool) : cobs := {| co_ev := e; co_after := a; co_between_hands := b |}.

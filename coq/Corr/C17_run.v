(* C17 correspondence: the manager model, driven by the table generated from manager.go and
   by the observed engine results (oracle), must predict every observed manager call. *)
From Coq Require Import List String Bool Arith.
Import ListNotations.
From PT Require Export Gen.Gen_Manager Model.Manager Spec.C17_spec.
Open Scope string_scope.

Record case := { c_tables : list string; c_steps : list step }.

Definition mks m t a k c nf me mr ee er p : step :=
  {| st_method := m; st_table := t; st_args := a; st_known := k; st_calls := c; st_notfound := nf;
     st_mgr_err := me; st_mgr_res := mr; st_eng_err := ee; st_eng_res := er; st_present := p |}.

(* engine oracle: state-free, returns what the real engine returned on this step *)
Definition oracle (s : step) : unit -> string -> list string -> unit * (bool * string) :=
  fun _ _ _ => (tt, (st_eng_err s, st_eng_res s)).

Definition present (reg : registry unit) (id : string) : bool :=
  match lookup unit reg id with Some _ => true | None => false end.

Fixpoint model_diff (i : nat) (reg : registry unit) (tr : list step) : option nat :=
  match tr with
  | [] => None
  | s :: t =>
      let '(reg', r, calls) := mstep unit string (bool * string) fst (oracle s) manager_table reg
                                     (st_method s) (st_table s) (st_args s) in
      let res_ok :=
        match r with
        | MNotFound _ => st_notfound s && negb (st_known s)
        | MRes _ (e, txt) => st_known s && Bool.eqb (st_mgr_err s) e && String.eqb (st_mgr_res s) txt
        | MNoMethod _ => false
        end in
      if res_ok && calls_eqb calls (st_calls s) && Bool.eqb (present reg' (st_table s)) (st_present s)
         && Bool.eqb (present reg (st_table s)) (st_known s)
      then model_diff (S i) reg' t else Some i
  end.

Fixpoint mon_fail (i : nat) (tr : list step) : option nat :=
  match tr with
  | [] => None
  | s :: t => if C17_step_ok s then mon_fail (S i) t else Some i
  end.

Definition check_case (c : case) : list (nat * nat) :=
  (match model_diff 0 (map (fun t => (t, tt)) (c_tables c)) (c_steps c) with Some i => [(2, i)] | None => [] end) ++
  (match mon_fail 0 (c_steps c) with Some i => [(3, i)] | None => [] end).

Fixpoint check_all (i : nat) (cs : list case) : list (nat * (nat * nat)) :=
  match cs with
  | [] => []
  | c :: t => map (fun e => (i, e)) (check_case c) ++ check_all (S i) t
  end.

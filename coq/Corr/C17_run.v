(* C17 correspondence: the manager model, driven by the table generated from manager.go and
   by the observed engine results (oracle), must predict every observed manager call. *)
From Coq Require Import List String Bool Arith ZArith.
Import ListNotations.
From PT Require Export Gen.Gen_Manager Model.Manager Spec.C17_spec.
Open Scope string_scope.

Record case := { c_tables : list string; c_steps : list step }.

Definition mks m t a k c nf me mr ee er p g1 g2 ng : step :=
  {| st_method := m; st_table := t; st_args := a; st_known := k; st_calls := c; st_notfound := nf;
     st_mgr_err := me; st_mgr_res := mr; st_eng_err := ee; st_eng_res := er; st_present := p;
     st_gen_pre := g1; st_gen_post := g2; st_new_gen := ng |}.

(* engine oracle: an engine is identified by its generation number; a forwarded call returns
   what the real engine returned on this step and leaves the generation alone *)
Definition oracle (s : step) : nat -> string -> list string -> nat * (bool * string) :=
  fun g _ _ => (g, (st_eng_err s, st_eng_res s)).

Definition gen_of (reg : registry nat) (id : string) : Z :=
  match lookup nat reg id with Some g => Z.of_nat g | None => (-1)%Z end.

Fixpoint model_diff (i : nat) (reg : registry nat) (tr : list step) : option nat :=
  match tr with
  | [] => None
  | s :: t =>
      let pre_ok := Z.eqb (gen_of reg (st_table s)) (st_gen_pre s) in
      if String.eqb (st_method s) "CreateTable" then
        let reg' := mcreate nat create_stores reg (st_table s) (negb (st_mgr_err s)) (st_new_gen s) in
        if pre_ok && Z.eqb (gen_of reg' (st_table s)) (st_gen_post s) && calls_eqb [] (st_calls s)
        then model_diff (S i) reg' t else Some i
      else if String.eqb (st_method s) "Reset" then
        let reg' := mreset nat reset_clears reg in
        if Z.eqb (gen_of reg' (st_table s)) (st_gen_post s) && calls_eqb [] (st_calls s)
        then model_diff (S i) reg' t else Some i
      else if String.eqb (st_method s) "GetTableEngine" then
        if pre_ok && Z.eqb (gen_of reg (st_table s)) (st_gen_post s)
           && Bool.eqb (st_notfound s) (Z.eqb (gen_of reg (st_table s)) (-1)) && calls_eqb [] (st_calls s)
        then model_diff (S i) reg t else Some i
      else
      let '(reg', r, calls) := mstep nat string (bool * string) fst (oracle s) manager_table reg
                                     (st_method s) (st_table s) (st_args s) in
      let res_ok :=
        match r with
        | MNotFound _ => st_notfound s && negb (st_known s)
        | MRes _ (e, txt) => st_known s && Bool.eqb (st_mgr_err s) e && String.eqb (st_mgr_res s) txt
        | MNoMethod _ => false
        end in
      if res_ok && pre_ok && calls_eqb calls (st_calls s) && Z.eqb (gen_of reg' (st_table s)) (st_gen_post s)
      then model_diff (S i) reg' t else Some i
  end.

Fixpoint mon_fail (i : nat) (tr : list step) : option nat :=
  match tr with
  | [] => None
  | s :: t => if C17_step_ok s then mon_fail (S i) t else Some i
  end.

Definition check_case (c : case) : list (nat * nat) :=
  (match model_diff 0 (combine (c_tables c) (seq 1 (List.length (c_tables c)))) (c_steps c) with Some i => [(2, i)] | None => [] end) ++
  (match mon_fail 0 (c_steps c) with Some i => [(3, i)] | None => [] end).

Fixpoint check_all (i : nat) (cs : list case) : list (nat * (nat * nat)) :=
  match cs with
  | [] => []
  | c :: t => map (fun e => (i, e)) (check_case c) ++ check_all (S i) t
  end.

(* Actors correspondence (C18, C19, C20): what bots, player runners and observers did with the snapshots they
   were handed, decided by the models of Model/Actors.v. *)
From Coq Require Import List ZArith Bool Arith.
Import ListNotations.
From PT Require Export Gen.Gen_Actors Model.Actors.
Open Scope Z_scope.

Definition call := (move * Z * bool)%type.     (* move, delay in ms, accepted by the real hand engine on a copy of the state *)
Inductive obs :=
| OBot (b : bview) (v : option pview) (calls : list call) (autojoin : nat)
| OPlayer (st : pstatus) (action_time : Z) (v : pview) (calls : list call)
| OPlayerSeq (action_time : Z) (reqs : list (list revent * pview * list call))   (* one runner: status calls, then a request left to run its course, ... *)
| OSuperseded (v : pview) (calls : list call)     (* a running player's wait, called off by a newer request before the thinking time was over *)
| OObserver (system filtered : bool) (pre view : option ogame) (engine_same others_same : bool).
Record case := { ac_bots_only : bool; ac_obs : list obs; ac_hands : nat; ac_settled : nat; ac_calls : nat; ac_refused : nat; ac_noted : bool }.

Definition mkpv (al : list act) (ev : hev) (sb bb : bool) (ante bd bsb bbb mb cw prs init stack wager : Z) (fold : bool) : pview :=
  {| pv_allowed := al; pv_event := ev; pv_sb := sb; pv_bb := bb; pv_ante := ante; pv_bd := bd; pv_bsb := bsb; pv_bbb := bbb;
     pv_minibet := mb; pv_cw := cw; pv_prs := prs; pv_init := init; pv_stack := stack; pv_wager := wager; pv_fold := fold |}.
Definition mkbv (a s g n f p d : bool) : bview :=
  {| bv_at_table := a; bv_sat_in := s; bv_has_game := g; bv_new_game := n; bv_fresher := f; bv_playing := p; bv_dealt_in := d |}.
Definition mkog (deck burned : nat) (closed : bool) (ps : list (nat * bool * bool)) : ogame :=
  {| og_deck := repeat 0%nat deck; og_burned := repeat 0%nat burned; og_closed := closed;
     og_players := map (fun x => match x with (h, c, f) => {| op_hole := repeat 0%nat h; op_combo := c; op_fold := f |} end) ps |}.
Definition mkac (b : bool) (o : list obs) (h s c r : nat) (n : bool) : case :=
  {| ac_bots_only := b; ac_obs := o; ac_hands := h; ac_settled := s; ac_calls := c; ac_refused := r; ac_noted := n |}.

Definition move_eqb (a b : move) : bool :=
  match a, b with
  | MvReady, MvReady | MvPass, MvPass | MvCheck, MvCheck | MvCall, MvCall | MvFold, MvFold | MvAllin, MvAllin => true
  | MvPay x, MvPay y | MvBet x, MvBet y | MvRaise x, MvRaise y => x =? y
  | _, _ => false
  end.

(* is the observed move one the bot model can make for SOME draw? (the draws are the bot's own math/rand) *)
Definition bot_possible (v : pview) (m : move) : bool :=
  existsb (fun pick =>
    match bot_move v pick 0 with
    | Some (MvBet c0) =>
        match m with
        | MvBet c => if pv_init v <=? pv_minibet v then c =? pv_init v else (pv_minibet v <=? c) && (c <? pv_init v)
        | _ => false end
    | Some (MvRaise c0) =>
        match m with
        | MvRaise c => let lo := pv_cw v + pv_prs v in if pv_init v <=? lo then c =? pv_init v else (lo <=? c) && (c <? pv_init v)
        | _ => false end
    | Some m0 => move_eqb m0 m
    | None => false
    end) (match pv_allowed v with [] => [AFold] | l => l end).

Definition c19_required (v : pview) : option move :=
  if acts_eqb (pv_allowed v) [APass] then Some MvPass
  else if has_act AReady (pv_allowed v) then Some MvReady
  else if has_act ACheck (pv_allowed v) then Some MvCheck
  else if has_act AFold (pv_allowed v) then Some MvFold
  else if has_act APay (pv_allowed v) then mandatory_pay v
  else None.

Definition game_filtered (g : ogame) : ogame := as_observer g.
Definition oplayer_eqb (a b : oplayer) : bool :=
  Nat.eqb (length (op_hole a)) (length (op_hole b)) && Bool.eqb (op_combo a) (op_combo b) && Bool.eqb (op_fold a) (op_fold b).
Fixpoint oplayers_eqb (a b : list oplayer) : bool :=
  match a, b with [], [] => true | x :: a', y :: b' => oplayer_eqb x y && oplayers_eqb a' b' | _, _ => false end.
Definition ogame_eqb (a b : ogame) : bool :=
  Nat.eqb (length (og_deck a)) (length (og_deck b)) && Nat.eqb (length (og_burned a)) (length (og_burned b))
  && Bool.eqb (og_closed a) (og_closed b) && oplayers_eqb (og_players a) (og_players b).

Definition player_diag (st : pstatus) (at_ : Z) (v : pview) (calls : list call) : list (nat * nat) :=
      (* the most conservative action, as the property words it: pass when that is the only option, otherwise ready or check
         if allowed, otherwise fold, otherwise the mandatory payment - and exactly that is submitted *)
      (match c19_required v, calls with
       | Some m, [(m', _, _)] => if move_eqb m m' then [] else [(4%nat, 5%nat)]
       | Some _, [] => [(4%nat, 5%nat)]
       | Some _, _ :: _ :: _ => [(4%nat, 6%nat)]       (* answered more than once: whatever the second submission is, nobody asked for it *)
       | _, _ => []
       end) ++
      match player_move st at_ v, calls with
      | None, [] => []
      | Some (m, d), [(m', ms, accepted)] =>
          (if move_eqb m m' then [] else [(2%nat, 4%nat)])
          ++ (match m' with MvCall | MvBet _ | MvRaise _ | MvAllin => [(4%nat, 1%nat)] | _ => [] end)                (* volunteers chips *)
          ++ (match m' with MvPay c => if amount_ok v m' then [] else [(4%nat, 2%nat)] | _ => [] end)                 (* pays something else than the posted size *)
          ++ (if (d * 1000 <=? ms + 20) && (ms <=? d * 1000 + 450) then [] else [(4%nat, 3%nat)])                       (* too early / not at once *)
      | None, _ :: _ => [(4%nat, 4%nat)]
      | Some (m, d), _ =>
          (* not exactly one call: something was submitted before the thinking time was over, or nothing at all *)
          if existsb (fun c => match c with (_, ms, _) => ms + 20 <? d * 1000 end) calls then [(4%nat, 3%nat)] else [(2%nat, 4%nat)]
      end.

Fixpoint seq_diag (s : pstatus * nat) (at_ : Z) (reqs : list (list revent * pview * list call)) : list (nat * nat) :=
  match reqs with
  | [] => []
  | (evs, v, calls) :: t =>
      let s1 := fold_left rstep evs s in
      player_diag (fst s1) at_ v calls ++ seq_diag (if arms_wait (fst s1) v then rstep s1 RTimeout else s1) at_ t
  end.

(* codes: 2 model/implementation differ; 3 C18; 4 C19; 5 C20; step = observation index * 10 + clause *)
Definition obs_diag (o : obs) : list (nat * nat) :=
  match o with
  | OBot b v calls aj =>
      let allowed := match v with Some pv => pv_allowed pv | None => [] end in
      match bot_reacts b allowed with
      | BNothing => (match calls with [] => [] | _ => [(3%nat, 1%nat)] end) ++ (if Nat.eqb aj 0 then [] else [(2%nat, 1%nat)])     (* silent *)
      | BAutoJoin => (match calls with [] => [] | _ => [(3%nat, 1%nat)] end) ++ (if Nat.eqb aj 1 then [] else [(2%nat, 1%nat)])
      | BMove =>
          match v, calls with
          | Some pv, [(m, _, accepted)] =>
              (if asked_ok pv then [] else [(1%nat, 0%nat)])                               (* outside the theorem's premise *)
              ++ (if bot_possible pv m then [] else [(2%nat, 2%nat)])                       (* not a move of the bot model *)
              ++ (if Bool.eqb (pf_accepts pv m) accepted then [] else [(2%nat, 3%nat)])     (* hand-engine fragment differs from the hand engine *)
              ++ (if accepted && amount_ok pv m then [] else [(3%nat, 2%nat)])              (* an illegal move *)
          | _, _ => [(3%nat, 3%nat)]                                                       (* not exactly one action *)
          end
      end
  | OPlayer st at_ v calls => player_diag st at_ v calls
  | OPlayerSeq at_ reqs => seq_diag (PRunning, 0%nat) at_ reqs
  | OSuperseded v calls => match calls with [] => [] | _ => [(4%nat, 3%nat)] end      (* acted although the wait was called off *)
  | OObserver system filtered pre view same others =>
      (if same then [] else [(5%nat, 3%nat)])                                                                          (* the engine's own table changed *)
      ++ (if others then [] else [(5%nat, 4%nat)])                                                                     (* another actor's view was affected *)
      ++ match pre, view with
         | Some g, Some w =>
             (match observer_view system (filtered || observer_filters_whenever_a_hand_is_attached) (Some g) with Some e => if ogame_eqb e w then [] else [(2%nat, 5%nat)] | None => [(2%nat, 5%nat)] end)
             ++ (if system || hides_private w then [] else [(5%nat, 1%nat)])                                           (* private cards shown *)
         | None, None => []
         | _, _ => [(2%nat, 5%nat)]
         end
  end.

Fixpoint obs_all (i : nat) (l : list obs) : list (nat * nat) :=
  match l with [] => [] | o :: t => map (fun cd => (fst cd, (i * 10 + snd cd)%nat)) (obs_diag o) ++ obs_all (S i) t end.

Definition check_case (c : case) : list (nat * nat) :=
  obs_all 0 (ac_obs c)
  ++ (if ac_bots_only c && negb (Nat.eqb (ac_refused c) 0) then [(3%nat, 4%nat)] else [])          (* a bot's call was refused by the table *)
  ++ (if ac_bots_only c && ac_noted c then [(3%nat, 5%nat)] else [])                               (* a bots-only hand did not reach settlement *)
  ++ (if negb (ac_bots_only c) && ac_noted c then [(2%nat, 9%nat)] else []).                       (* an actor panicked on a snapshot, or the history could not be played *)

Fixpoint check_all (i : nat) (cs : list case) : list (nat * (nat * nat)) :=
  match cs with
  | [] => []
  | c :: t => map (fun e => (i, e)) (check_case c) ++ check_all (S i) t
  end.

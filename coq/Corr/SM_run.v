(* Seat-manager correspondence (serves C04 and the seat-manager halves of C03/C05): every
   observed transition (state, operation, result, state') of the real seat manager is
   re-run through the model from the SAME pre-state, and the specification monitors are
   evaluated on the observed transition. *)
From Coq Require Import List ZArith Bool Arith.
Import ListNotations.
From PT Require Export Model.SeatManager Spec.C04_spec.
Open Scope Z_scope.

Record case := {
  c_pre : sm; c_op : op; c_res : res; c_post : sm;
  c_extra : bool       (* the implementation's seat map has keys outside 0..max-1 afterwards *)
}.

Definition sp_eqb (p q : sp) : bool :=
  Nat.eqb (sp_id p) (sp_id q) && Bool.eqb (sp_in p) (sp_in q) && Bool.eqb (sp_btw p) (sp_btw q) && Bool.eqb (sp_chips p) (sp_chips q).
Definition osp_eqb (a b : option sp) : bool :=
  match a, b with None, None => true | Some p, Some q => sp_eqb p q | _, _ => false end.
Fixpoint seats_eqb (a b : list (option sp)) : bool :=
  match a, b with [], [] => true | x :: a', y :: b' => osp_eqb x y && seats_eqb a' b' | _, _ => false end.
Definition res_eqb (a b : res) : bool := match a, b with Ok, Ok | Err, Err => true | _, _ => false end.
Definition sm_eqb (a b : sm) : bool :=
  Nat.eqb (sm_max a) (sm_max b) && seats_eqb (sm_seats a) (sm_seats b)
  && (sm_dealer a =? sm_dealer b) && (sm_sb a =? sm_sb b) && (sm_bb a =? sm_bb b)
  && rule_eqb (sm_rule a) (sm_rule b) && Bool.eqb (sm_init a) (sm_init b).

(* codes: 2 model/implementation differ; 3 C04 monitor; 4 C03 seat-level monitor *)
Definition ids_of (l : list (option sp)) : list nat :=
  flat_map (fun o => match o with Some p => [sp_id p] | None => [] end) l.

(* seat-manager half of C03: one seat per player within the configured seats; an operation
   that reports an error changes nothing *)
Definition C03_sm_ok (c : case) : bool :=
  nodupb Nat.eqb (ids_of (sm_seats (c_post c))) && negb (c_extra c)
  && Nat.eqb (length (sm_seats (c_post c))) (sm_max (c_post c))
  && match c_res c with
     | Err => match c_op c with ORotate | OInit _ _ => true | _ => sm_eqb (c_pre c) (c_post c) end
     | Ok => true
     end.

(* the pre-state is well-formed: one seat per player, as many seats as configured.  Reachable
   states are (C03); the harness leaves a history as soon as the implementation breaks this,
   and the transition that broke it is reported by C03_sm_ok. *)
Definition wf_state (s : sm) : bool :=
  nodupb Nat.eqb (ids_of (sm_seats s)) && Nat.eqb (length (sm_seats s)) (sm_max s).

Definition check_case (c : case) : list (nat * nat) :=
  if negb (wf_state (c_pre c)) then [] else
  let '(r, s') := step (c_pre c) (c_op c) in
  (if res_eqb r (c_res c) && sm_eqb s' (c_post c) && negb (c_extra c) then [] else [(2%nat, 0%nat)]) ++
  (if C04_ok (c_pre c) (c_op c) (c_res c) (c_post c) then []
   else [(3%nat, (C04_diag (c_pre c) (c_op c) (c_res c) (c_post c)
                  + (if sig_bb_reaches_old_sb (c_pre c) (c_post c) then 100 else 0)
                  + (if sig_live_waiting (c_post c) then 200 else 0))%nat)]) ++
  (if C03_sm_ok c then [] else [(4%nat, 0%nat)]).

Fixpoint check_all (i : nat) (cs : list case) : list (nat * (nat * nat)) :=
  match cs with
  | [] => []
  | c :: t => map (fun e => (i, e)) (check_case c) ++ check_all (S i) t
  end.

Definition mksp (id : nat) (i b c : bool) : option sp := Some {| sp_id := id; sp_in := i; sp_btw := b; sp_chips := c |}.
Definition mksm (max : nat) (l : list (option sp)) (d sb bb : Z) (r : rule) (i : bool) : sm :=
  {| sm_max := max; sm_seats := l; sm_dealer := d; sm_sb := sb; sm_bb := bb; sm_rule := r; sm_init := i |}.
Definition mkc (pre : sm) (o : op) (r : res) (post : sm) (x : bool) : case :=
  {| c_pre := pre; c_op := o; c_res := r; c_post := post; c_extra := x |}.

(* Life-cycle correspondence (C07, C08, C12): the macro-step model is run from the observed
   quiescent state before each step and compared with the observed quiescent state after it. *)
From Coq Require Import List ZArith Bool Arith.
Import ListNotations.
From PT Require Export Model.Life Spec.Life_spec.
Open Scope Z_scope.

Record case := { c_min : nat; c_init : blind; c_mtt_players : bool; c_created : option tstatus; c_steps : list lstepobs }.

Definition abs_state (o : lobs) (armed : option blind) : lstate :=
  {| l_status := lo_status o; l_gc := lo_gc o; l_has_game := lo_has_game o; l_blind := lo_blind o; l_gblind := lo_gblind o;
     l_released := lo_released o; l_started := lo_started o; l_gate_count := lo_gate_count o; l_gate_n := lo_gate_n o;
     l_gate_ready := lo_gate_ready o; l_armed := armed |}.

Definition oblind_eqb (a b : option blind) : bool :=
  match a, b with Some x, Some y => blind_eqb x y | None, None => true | _, _ => false end.

(* projection compared: status, count, running hand, levels, released, and the gate when one is pending *)
Definition proj_eqb (m : lstate) (o : lobs) : bool :=
  status_eqb (l_status m) (lo_status o) && (l_gc m =? lo_gc o) && Bool.eqb (l_has_game m) (lo_has_game o)
  && blind_eqb (l_blind m) (lo_blind o) && oblind_eqb (l_gblind m) (lo_gblind o) && Bool.eqb (l_released m) (lo_released o)
  && Bool.eqb (l_started m) (lo_started o)
  && (l_gate_count m =? lo_gate_count o) && Nat.eqb (l_gate_n m) (lo_gate_n o) && Bool.eqb (l_gate_ready m) (lo_gate_ready o).

Fixpoint run_steps (min : nat) (i : nat) (armed : option blind) (seen : list nat) (prev : nat) (l : list lstepobs)
  : list (nat * nat) :=
  match l with
  | [] => []
  | s :: t =>
      let pre := abs_state (ls_pre s) armed in
      let o := {| o_players := lo_alive (ls_pre s) (* every player of the driven tables has chips at start *);
                  o_alive := lo_alive (ls_post s); o_live_in := lo_live_in (ls_pre s);
                  o_live_in_after := lo_live_in (ls_post s); o_hand_closed := ls_closed s |} in
      let m := lstep min pre (ls_op s) o in
      let '(fresh, seen', prev') := fresh_ids seen prev (seq_of s) in
      (if proj_eqb m (ls_post s) then [] else [(2%nat, i)]) ++
      (if C07_step_ok s && fresh then [] else [(3%nat, (i * 10 + (if fresh then C07_diag s else 6))%nat)]) ++
      (if C08_step_ok min s then [] else [(4%nat, (i * 10 + C08_diag min s)%nat)]) ++
      (if C12_step_ok s then [] else [(5%nat, (i * 10 + C12_diag s)%nat)]) ++
      run_steps min (S i) (l_armed m) seen' prev' t
  end.

Definition check_case (c : case) : list (nat * nat) :=
  (* the status right after CreateTable is the model's initial status (a table created on a break starts paused) *)
  (match c_created c with
   | Some st => if status_eqb st (l_status (linit (c_mtt_players c) (c_init c))) then [] else [(5%nat, 9%nat)]
   | None => []
   end) ++
  run_steps (c_min c) 0 None [] 0 (c_steps c).

Fixpoint check_all (i : nat) (cs : list case) : list (nat * (nat * nat)) :=
  match cs with
  | [] => []
  | c :: t => map (fun e => (i, e)) (check_case c) ++ check_all (S i) t
  end.

Definition mkb (l a d s b : Z) : blind := {| b_level := l; b_ante := a; b_dealer := d; b_sb := s; b_bb := b |}.
Definition mklo (ev : bool) (st : tstatus) (gc : Z) (hg : bool) (gid : nat) (b : blind) (gb : option blind) (meta : blind)
  (he : bool) (alive livein : nat) (rel strt : bool) (gcnt : Z) (gn : nat) (gr : bool) : lobs :=
  {| lo_event := ev; lo_status := st; lo_gc := gc; lo_has_game := hg; lo_game_id := gid; lo_blind := b; lo_gblind := gb; lo_meta := meta;
     lo_hand_empty := he; lo_alive := alive; lo_live_in := livein; lo_released := rel; lo_started := strt; lo_gate_count := gcnt; lo_gate_n := gn; lo_gate_ready := gr |}.
Definition mkls (o : lop) (pre : lobs) (evs : list lobs) (post : lobs) (closed wedged : bool) (opts : blind) : lstepobs :=
  {| ls_op := o; ls_pre := pre; ls_events := evs; ls_post := post; ls_closed := closed; ls_wedged := wedged; ls_opts := opts |}.
Definition mklc (min : nat) (b : blind) (mp : bool) (cr : option tstatus) (l : list lstepobs) : case :=
  {| c_min := min; c_init := b; c_mtt_players := mp; c_created := cr; c_steps := l |}.

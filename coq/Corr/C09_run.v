(* C09 correspondence: run the model on the operations the implementation ran and compare
   observations; evaluate the specification monitor on the implementation's trace. *)
From Coq Require Import List Arith ZArith Bool.
Import ListNotations.
From PT Require Export Model.OpenGame Spec.C09_spec.

Record case := { c_tmo : nat; c_trace : list obs }.

Definition obs_eqb (a b : obs) : bool :=
  out_eqb (o_out a) (o_out b) && Z.eqb (o_gc a) (o_gc b) && list_eqb part_eqb (o_parts a) (o_parts b).

Fixpoint first_diff (i : nat) (a b : list obs) : option nat :=
  match a, b with
  | [], [] => None
  | x :: a', y :: b' => if obs_eqb x y then first_diff (S i) a' b' else Some i
  | _, _ => Some i
  end.

(* step index of the first monitor failure *)
Fixpoint mon_fail (i : nat) (s : spec) (tr : list obs) : option nat :=
  match tr with
  | [] => None
  | x :: t =>
      let '(s', r) := spec_step s (o_op x) in
      if out_eqb (o_out x) r && Z.eqb (o_gc x) (s_gc s') && list_eqb part_eqb (o_parts x) (obs_parts s')
      then mon_fail (S i) s' t else Some i
  end.

(* codes: 1 guard violated by the generator, 2 model/implementation differ, 3 monitor fails *)
Definition check_case (c : case) : list (nat * nat) :=
  let ops := map o_op (c_trace c) in
  (if forallb valid_op ops then [] else [(1, 0)]) ++
  (match first_diff 0 (model_trace (c_tmo c) ops) (c_trace c) with Some i => [(2, i)] | None => [] end) ++
  (match mon_fail 0 (spec_init (c_tmo c)) (c_trace c) with Some i => [(3, i)] | None => [] end).

Fixpoint check_all (i : nat) (cs : list case) : list (nat * (nat * nat)) :=
  match cs with
  | [] => []
  | c :: t => map (fun e => (i, e)) (check_case c) ++ check_all (S i) t
  end.

Definition mkp (id idx : nat) (r : bool) : part := {| p_id := id; p_idx := idx; p_ready := r |}.
Definition mko (o : op) (r : out) (gc : Z) (ps : list part) : obs :=
  {| o_op := o; o_out := r; o_gc := gc; o_parts := ps |}.

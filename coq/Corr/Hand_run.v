(* In-hand correspondence (C10, C11, C13, C14, C15). *)
From Coq Require Import List ZArith Bool Arith.
Import ListNotations.
From PT Require Export Model.TableMem Model.HandRules.
Open Scope Z_scope.

Record case := {
  c_action_time : Z; c_steps : list hstep;
  c_final : list (nat * Z); c_twin_final : list (nat * Z); c_has_twin : bool;
  c_stranded : bool   (* the history ended because the hand could not go on, though nothing was made to fail and nobody left *)
}.

(* the hand engine's own verdict on the player's action: no backend call of the action's kind failed *)
Definition be_all_ok (s : hstep) : bool :=
  negb (existsb (fun kb => Nat.eqb (fst kb) (be_kind_of (hc_action (st_call s))) && snd kb) (st_be s)).
Definition verdict_eqb (v : verdict) (ok : bool) : bool := match v with Accepted => ok | Refused => negb ok end.

(* statistics: the implementation's block before the action, pushed through the model's interpretation of the
   regenerated update statements, equals the implementation's block after it *)
Definition pstat_of (s : hstat) : pstat :=
  {| ps_actions := hs_action s; ps_raises := hs_raise s; ps_calls := hs_call s; ps_checks := hs_check s; ps_fold := hs_fold s;
     ps_fold_round := hs_fold_round s; ps_flags := fun f => nth (flag_idx f) (hs_flags s) false |}.
Definition tstats_of (l : list hstat) : tstats := map (fun s => (hs_id s, pstat_of s)) l.
Definition pstat_matches (p : pstat) (s : hstat) : bool :=
  Nat.eqb (ps_actions p) (hs_action s) && Nat.eqb (ps_raises p) (hs_raise s) && Nat.eqb (ps_calls p) (hs_call s) && Nat.eqb (ps_checks p) (hs_check s)
  && Bool.eqb (ps_fold p) (hs_fold s) && rnd_eqb (ps_fold_round p) (hs_fold_round s)
  && forallb (fun f => match chance_of f with
                       | Some _ => Bool.eqb (ps_flags p f) (nth (flag_idx f) (hs_flags s) false)
                       | None => true   (* 'had the chance' flags are set by the engine when the NEXT player is asked, concurrently *)
                       end) all_flags.
Definition stats_step_ok (s : hstep) : bool :=
  negb (st_ok s) || negb (wager_act (hc_action (st_call s))) || st_closed s (* the block may already be cleared: the settlement tally decides *) ||
  match row_of (hc_action (st_call s)), index_of (hc_player (st_call s)) 0 (h_entries (st_pre s)) with
  | Some r, Some gp =>
      let st' := apply_upds (hc_player (st_call s)) (Z.of_nat gp =? h_raiser (st_post s)) (h_round (st_pre s)) (ar_stats r) (tstats_of (h_stats (st_pre s))) in
      forallb (fun hs => pstat_matches (get st' (hs_id hs)) hs) (h_stats (st_post s))
  | _, _ => false
  end.

Fixpoint per_step (at_ : Z) (i : nat) (l : list hstep) : list (nat * nat) :=
  match l with
  | [] => []
  | s :: t =>
      (if negb (is_action_step s) || verdict_eqb (decide (st_pre s) (st_call s) (be_all_ok s)) (st_ok s) then [] else [(2%nat, i)]) ++
      (match (if is_action_step s then C10_diag s else O) with O => [] | d => [(3%nat, (i * 10 + d)%nat)] end) ++
      (match (if is_action_step s then C13_diag s else O) with O => [] | d => [(4%nat, (i * 10 + d)%nat)] end) ++
      (if negb (is_action_step s) || stats_step_ok s then [] else [(2%nat, (5000 + i)%nat)]) ++
      (if st_panic s then [(3%nat, (i * 10 + 8)%nat); (9%nat, i)] else if entries_stable s then [] else [(9%nat, i)]) ++
      (match C15_diag at_ s with O => [] | d => [(6%nat, (i * 10 + d)%nat)] end) ++
      (match C11_diag s with O => [] | d => [(7%nat, (i * 10 + d)%nat)] end) ++
      per_step at_ (S i) t
  end.

Fixpoint fin_eqb (a b : list (nat * Z)) : bool :=
  match a, b with
  | [], [] => true
  | x :: a', y :: b' => Nat.eqb (fst x) (fst y) && (snd x =? snd y) && fin_eqb a' b'
  | _, _ => false
  end.

Definition check_case (c : case) : list (nat * nat) :=
  per_step (c_action_time c) 0 (c_steps c) ++
  (match c10_pays 0 (c_steps c) with Some i => [(3%nat, (i * 10 + 7)%nat)] | None => [] end) ++
  (match c13_retry 0 (c_steps c) with Some i => [(4%nat, (i * 10 + 3)%nat)] | None => [] end) ++
  (if negb (c_has_twin c) || fin_eqb (c_final c) (c_twin_final c) then [] else [(4%nat, 4%nat)]) ++
  (match c14_run 0 [] (c_steps c) with Some (i, d) => [(5%nat, (i * 10 + d)%nat)] | None => [] end) ++
  (* C11: the hand always goes on to settlement *)
  (if c_stranded c then [(7%nat, (Nat.pred (List.length (c_steps c)) * 10 + 6)%nat)] else []).

Fixpoint check_all (i : nat) (cs : list case) : list (nat * (nat * nat)) :=
  match cs with
  | [] => []
  | c :: t => map (fun e => (i, e)) (check_case c) ++ check_all (S i) t
  end.

Definition mke (id : nat) (al : list act) (acted fold : bool) (stack init wager : Z) (sb bb dl : bool) : hentry :=
  {| he_id := id; he_allowed := al; he_acted := acted; he_fold := fold; he_stack := stack; he_init := init; he_wager := wager;
     he_sb := sb; he_bb := bb; he_dealer := dl |}.
Definition mkst (id a r c k : nat) (f : bool) (fr : rnd) (fl : list bool) : hstat :=
  {| hs_id := id; hs_action := a; hs_raise := r; hs_call := c; hs_check := k; hs_fold := f; hs_fold_round := fr; hs_flags := fl |}.
Definition mkl (id : nat) (a : act) (r : rnd) (gid : nat) (gc chips : Z) : hlast :=
  {| hl_id := id; hl_action := a; hl_round := r; hl_gid := gid; hl_gc := gc; hl_chips := chips |}.
Definition mkh (st : tstatus) (gc : Z) (gid : nat) (ev : hev) (r : rnd) (cur rz : Z) (wr : rnd) (es : list hentry) (endat : Z) (last : option hlast)
  (stats : list hstat) (hash hh : nat) (grp : list nat) (gn : nat) (ante bd bsb bbb : Z) : hsnap :=
  {| h_status := st; h_gc := gc; h_gid := gid; h_event := ev; h_round := r; h_cur := cur; h_raiser := rz; h_wround := wr; h_entries := es; h_end_at := endat; h_last := last;
     h_stats := stats; h_hash := hash; h_hand_hash := hh; h_group := grp; h_group_n := gn; h_ante := ante; h_bd := bd; h_bsb := bsb; h_bbb := bbb |}.
Definition mkcall (p : nat) (a : act) (chips : Z) (w : why) (f : bool) : hcall :=
  {| hc_player := p; hc_action := a; hc_chips := chips; hc_why := w; hc_fail := f |}.
Definition mkstep (c : hcall) (pre : hsnap) (ok : bool) (post quiet : hsnap) (acts : list hlast) (errs : nat) (be : list (nat * bool))
  (n0 n1 n2 : Z) (seen : list (hev * Z)) (closed wedged : bool) (ss : list hstat) (ret : Z) (rn hn : nat) (xi pn : bool) : hstep :=
  {| st_call := c; st_pre := pre; st_ok := ok; st_post := post; st_quiet := quiet; st_acts := acts; st_errs := errs; st_be := be;
     st_now0 := n0; st_now1 := n1; st_now2 := n2; st_seen := seen; st_closed := closed; st_wedged := wedged; st_settle_stats := ss;
     st_ret := ret; st_result_n := rn; st_hand_n := hn; st_ext_injected := xi; st_panic := pn |}.
Definition mkcase (at_ : Z) (steps : list hstep) (fin tw : list (nat * Z)) (ht stranded : bool) : case :=
  {| c_action_time := at_; c_steps := steps; c_final := fin; c_twin_final := tw; c_has_twin := ht; c_stranded := stranded |}.

(* Table-membership correspondence (C03 table level; also used by C01 and C16). *)
From Coq Require Import List ZArith Bool Arith.
Import ListNotations.
From PT Require Export Model.TableMem Spec.C03_spec Proofs.C03_inv.
Open Scope Z_scope.

Record case := { c_pre : tbl; c_op : mop; c_res : res; c_panic : bool; c_post : tbl }.

Definition res_eqb (a b : res) : bool := match a, b with Ok, Ok | Err, Err => true | _, _ => false end.
Definition tstatus_eqb (a b : tstatus) : bool :=
  match a, b with
  | SCreated, SCreated | SPausing, SPausing | SRestoring, SRestoring | SBalancing, SBalancing | SClosed, SClosed
  | SOpened, SOpened | SPlaying, SPlaying | SSettled, SSettled | SStandby, SStandby => true
  | _, _ => false
  end.
Definition sm_pos_eqb (a b : sm) : bool :=
  (sm_dealer a =? sm_dealer b) && (sm_sb a =? sm_sb b) && (sm_bb a =? sm_bb b) && Bool.eqb (sm_init a) (sm_init b).
Definition tbl_eqb (a b : tbl) : bool :=
  book_eqb a b && list_eqb Z.eqb (t_gpi a) (t_gpi b) && sm_pos_eqb (t_sm a) (t_sm b).

(* signature of the recorded finding F19: a batch update whose departures were applied although its
   arrivals were refused (the error is returned after the first half has been done) *)
Definition sig_update_half_done (pre : tbl) (o : mop) (r : res) (post : tbl) : bool :=
  match o, r with
  | MUpdate (_ :: _) _ (l :: ls), Err =>
      match batch_remove pre (l :: ls) with
      | (Ok, t1) => book_eqb t1 post
      | _ => false
      end
  | _, _ => false
  end.

(* codes: 2 model/implementation differ; 3 C03 monitor (step = clause, +100 under the F19 signature) *)
Definition check_case (c : case) : list (nat * nat) :=
  (* the model is claimed faithful on states that satisfy the bookkeeping invariant *)
  if negb (seat_inv (c_pre c)) then [] else
  let '(r, t') := mstep (c_pre c) (c_op c) in
  (* the premise of the invariant theorem: the seats the implementation drew are distinct empty seats (code 1: outside the guard) *)
  (if draws_ok_op (c_pre c) (c_op c) || match c_res c with Err => true | Ok => false end then [] else [(1%nat, 0%nat)]) ++
  (if negb (c_panic c) && res_eqb r (c_res c) && tbl_eqb t' (c_post c) then [] else [(2%nat, 0%nat)]) ++
  (if c_panic c then [(3%nat, 3%nat)]
   else if C03_ok (c_pre c) (c_op c) (c_res c) (c_post c) then []
   else [(3%nat, (C03_diag (c_pre c) (c_op c) (c_res c) (c_post c)
                  + (if sig_update_half_done (c_pre c) (c_op c) (c_res c) (c_post c) then 100 else 0))%nat)]).

Fixpoint check_all (i : nat) (cs : list case) : list (nat * (nat * nat)) :=
  match cs with
  | [] => []
  | c :: t => map (fun e => (i, e)) (check_case c) ++ check_all (S i) t
  end.

Definition mksp (id : nat) (i b c : bool) : option sp := Some {| sp_id := id; sp_in := i; sp_btw := b; sp_chips := c |}.
Definition mksm (max : nat) (l : list (option sp)) (d sb bb : Z) (r : rule) (i : bool) : sm :=
  {| sm_max := max; sm_seats := l; sm_dealer := d; sm_sb := sb; sm_bb := bb; sm_rule := r; sm_init := i |}.
Definition mkp (id : nat) (seat : Z) (i : bool) (bank : Z) (part : bool) : tplayer :=
  {| tp_id := id; tp_seat := seat; tp_in := i; tp_bank := bank; tp_part := part |}.
Definition mkt (max : nat) (smap : list Z) (ps : list tplayer) (gpi : list Z) (st : tstatus) (s : sm) : tbl :=
  {| t_max := max; t_seatmap := smap; t_players := ps; t_gpi := gpi; t_status := st; t_sm := s |}.
Definition mkj (id : nat) (chips seat : Z) : join_player := {| jp_id := id; jp_chips := chips; jp_seat := seat |}.
Definition mkc (pre : tbl) (o : mop) (r : res) (pn : bool) (post : tbl) : case :=
  {| c_pre := pre; c_op := o; c_res := r; c_panic := pn; c_post := post |}.

(* C04: decidable specification of a rotation / an initialisation of the button seats,
   written against observable state only: "next live seat clockwise" is defined by minimal
   clockwise distance, not by any scan loop. *)
From Coq Require Import List ZArith Bool Arith Lia.
Import ListNotations.
From PT Require Import Model.SeatManager.
Open Scope Z_scope.

(* cwd n a b (Base/ZScan.v): clockwise distance from seat a to seat b on n seats, in 0..n-1 *)

Definition seats_idx (s : sm) : list Z := zrange 0 (sm_max s).

Definition holds (s : sm) (P : sp -> bool) (z : Z) : bool :=
  match seat_at (sm_seats s) z with Some p => P p | None => false end.

Definition live_p (p : sp) : bool := sp_in p && sp_chips p.     (* seated-in with chips *)
Definition live (s : sm) (z : Z) : bool := holds s live_p z.
Definition act (s : sm) (z : Z) : bool := holds s active z.     (* dealt in *)

Definition count (s : sm) (P : Z -> bool) : nat := length (filter P (seats_idx s)).

(* r is the seat satisfying P at minimal positive clockwise distance from a *)
Definition is_next_cw (s : sm) (P : Z -> bool) (a r : Z) : bool :=
  P r && negb (r =? a) && (0 <=? r) && (r <? mx s)
  && forallb (fun c => negb (P c) || (c =? a) || (cwd (mx s) a r <=? cwd (mx s) a c)) (seats_idx s).

(* ... at minimal positive counter-clockwise distance *)
Definition is_next_ccw (s : sm) (P : Z -> bool) (a r : Z) : bool :=
  P r && negb (r =? a) && (0 <=? r) && (r <? mx s)
  && forallb (fun c => negb (P c) || (c =? a) || (cwd (mx s) r a <=? cwd (mx s) c a)) (seats_idx s).

Definition occ_eqb (a b : option sp) : bool :=
  match a, b with
  | None, None => true
  | Some p, Some q => Nat.eqb (sp_id p) (sp_id q) && Bool.eqb (sp_in p) (sp_in q) && Bool.eqb (sp_chips p) (sp_chips q)
  | _, _ => false
  end.
Fixpoint occs_eqb (a b : list (option sp)) : bool :=
  match a, b with
  | [], [] => true
  | x :: a', y :: b' => occ_eqb x y && occs_eqb a' b'
  | _, _ => false
  end.

Definition same_buttons (s s' : sm) : bool :=
  (sm_dealer s =? sm_dealer s') && (sm_sb s =? sm_sb s') && (sm_bb s =? sm_bb s').

(* the occupants (who sits where, seated-in, chips) never change in a rotation *)
Definition same_occupants (s s' : sm) : bool := occs_eqb (sm_seats s) (sm_seats s').

(* ---- the clauses of the property, for a default-rule rotation from s to s' with result r ---- *)

(* refused only when fewer than two seated-in players have chips; never refused otherwise *)
Definition cl_refusal (s : sm) (r : res) : bool :=
  match r with Err => (count s (live s) <? 2)%nat | Ok => (2 <=? count s (live s))%nat end.

(* a refused rotation moves nothing *)
Definition cl_refused_noop (s : sm) (r : res) (s' : sm) : bool :=
  match r with Err => same_buttons s s' && same_occupants s s' | Ok => true end.

(* the big blind moves to the next seated-in player with chips clockwise, who is dealt in *)
Definition cl_bb (s : sm) (r : res) (s' : sm) : bool :=
  match r with Err => true | Ok => is_next_cw s (live s) (sm_bb s) (sm_bb s') && act s' (sm_bb s') end.

(* three or more dealt in: sb' = old bb, dealer' = old sb (from heads-up: nearest live seat
   before the small blind), the three differ *)
Definition cl_ring (s : sm) (r : res) (s' : sm) : bool :=
  match r with
  | Err => true
  | Ok =>
      if (3 <=? count s' (act s'))%nat then
        (sm_sb s' =? sm_bb s)
        && (if is_hu s then is_next_ccw s' (live s') (sm_sb s') (sm_dealer s') else sm_dealer s' =? sm_sb s)
        && negb (sm_dealer s' =? sm_sb s') && negb (sm_sb s' =? sm_bb s') && negb (sm_dealer s' =? sm_bb s')
      else true
  end.

(* exactly two dealt in: dealer and small blind are the other player *)
Definition cl_headsup (s : sm) (r : res) (s' : sm) : bool :=
  match r with
  | Err => true
  | Ok =>
      if (count s' (act s') =? 2)%nat then
        (sm_dealer s' =? sm_sb s') && act s' (sm_dealer s') && negb (sm_dealer s' =? sm_bb s')
      else true
  end.

Definition C04_rotate_default_ok (s : sm) (r : res) (s' : sm) : bool :=
  cl_refusal s r && cl_refused_noop s r s' && same_occupants s s' && cl_bb s r s' && cl_ring s r s' && cl_headsup s r s'.

(* short deck: the dealer simply passes to the next dealt-in seat; refused iff fewer than two *)
Definition C04_rotate_short_ok (s : sm) (r : res) (s' : sm) : bool :=
  match r with
  | Err => (count s (live s) <? 2)%nat && same_buttons s s' && same_occupants s s'
  | Ok => (2 <=? count s (live s))%nat && same_occupants s s'
          && is_next_cw s (act s) (sm_dealer s) (sm_dealer s') && (sm_sb s' =? unset) && (sm_bb s' =? unset)
  end.

(* initialisation (the first hand): bb on a dealt-in seat; heads-up: dealer = sb = the other
   player; ring: three distinct seats *)
Definition C04_init_default_ok (s : sm) (r : res) (s' : sm) : bool :=
  match r with
  | Err => true
  | Ok =>
      sm_init s' && same_occupants s s' && act s' (sm_bb s')
      && (if (count s' (act s') =? 2)%nat
          then (sm_dealer s' =? sm_sb s') && act s' (sm_dealer s') && negb (sm_dealer s' =? sm_bb s')
          else negb (sm_dealer s' =? sm_sb s') && negb (sm_sb s' =? sm_bb s') && negb (sm_dealer s' =? sm_bb s'))
  end.

(* diagnosis: number of the first failing clause (0 = none), for replays and for matching
   recorded findings.  1 refusal, 2 refused-noop, 3 occupants, 4 bb, 5 ring, 6 heads-up,
   7 short-deck, 8 init *)
Definition C04_diag (s : sm) (o : op) (r : res) (s' : sm) : nat :=
  match o with
  | ORotate =>
      if sm_init s then
        match sm_rule s with
        | RDefault =>
            if negb (cl_refusal s r) then 1 else if negb (cl_refused_noop s r s') then 2
            else if negb (same_occupants s s') then 3 else if negb (cl_bb s r s') then 4
            else if negb (cl_ring s r s') then 5 else if negb (cl_headsup s r s') then 6 else 0
        | RShortDeck => if C04_rotate_short_ok s r s' then 0 else 7
        | ROther => 0
        end
      else 0
  | OInit _ _ =>
      match sm_rule s with RDefault => if sm_init s then 0 else if C04_init_default_ok s r s' then 0 else 8 | _ => 0 end
  | _ => 0
  end%nat.

(* which clause applies to a transition *)
Definition C04_ok (s : sm) (o : op) (r : res) (s' : sm) : bool :=
  match o with
  | ORotate =>
      if sm_init s then
        match sm_rule s with
        | RDefault => C04_rotate_default_ok s r s'
        | RShortDeck => C04_rotate_short_ok s r s'
        | ROther => true
        end
      else true
  | OInit _ _ =>
      match sm_rule s with RDefault => if sm_init s then true else C04_init_default_ok s r s' | _ => true end
  | _ => true
  end.

(* ---- signatures of recorded findings (exclusion predicates of the _partial theorems) ---- *)
(* F7: the rotation wraps all the way round to the previous small-blind seat *)
Definition sig_bb_reaches_old_sb (s : sm) (s' : sm) : bool := sm_bb s' =? sm_sb s.
(* F8: a seated-in player with chips is a waiting newcomer (flag set) after the refusal *)
Definition sig_live_waiting (s' : sm) : bool :=
  existsb (fun z => live s' z && negb (act s' z)) (seats_idx s').

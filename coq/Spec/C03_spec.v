(* C03: decidable specification of the seat bookkeeping, on observable state only. *)
From Coq Require Import List ZArith Bool Arith Lia.
Import ListNotations.
From PT Require Import Model.TableMem.
Open Scope Z_scope.

Definition seat_of_sm (s : sm) (z : Z) : option sp := seat_at (sm_seats s) z.

(* every seat: the seat map, the player list and the seat manager name the same occupant with
   the same seated-in flag *)
Definition seat_consistent (t : tbl) (z : Z) : bool :=
  let i := nth (Z.to_nat z) (t_seatmap t) (-1) in
  match seat_of_sm (t_sm t) z with
  | None => i =? -1
  | Some q =>
      (0 <=? i) &&
      match nth_error (t_players t) (Z.to_nat i) with
      | Some p => Nat.eqb (tp_id p) (sp_id q) && (tp_seat p =? z) && Bool.eqb (tp_in p) (sp_in q)
      | None => false
      end
  end.

(* every player: sits on a seat of the table, and the seat map points back at them *)
Definition player_consistent (t : tbl) (i : nat) (p : tplayer) : bool :=
  (0 <=? tp_seat p) && (tp_seat p <? Z.of_nat (t_max t))
  && (nth (Z.to_nat (tp_seat p)) (t_seatmap t) (-1) =? Z.of_nat i).

Fixpoint forallb_i {A} (f : nat -> A -> bool) (i : nat) (l : list A) : bool :=
  match l with [] => true | x :: t => f i x && forallb_i f (S i) t end.

Definition seat_inv (t : tbl) : bool :=
  Nat.eqb (length (t_seatmap t)) (t_max t)
  && Nat.eqb (length (sm_seats (t_sm t))) (t_max t) && Nat.eqb (sm_max (t_sm t)) (t_max t)
  && nodupb Nat.eqb (map tp_id (t_players t))
  && forallb (seat_consistent t) (zrange 0 (t_max t))
  && forallb_i (player_consistent t) 0 (t_players t)
  && (length (t_players t) <=? t_max t)%nat.

(* the bookkeeping projection compared across a refused operation *)
Definition tp_eqb (p q : tplayer) : bool :=
  Nat.eqb (tp_id p) (tp_id q) && (tp_seat p =? tp_seat q) && Bool.eqb (tp_in p) (tp_in q) && (tp_bank p =? tp_bank q).
Fixpoint list_eqb {A} (e : A -> A -> bool) (a b : list A) : bool :=
  match a, b with [], [] => true | x :: a', y :: b' => e x y && list_eqb e a' b' | _, _ => false end.
Definition osp_eqb (a b : option sp) : bool :=
  match a, b with
  | None, None => true
  | Some p, Some q => Nat.eqb (sp_id p) (sp_id q) && Bool.eqb (sp_in p) (sp_in q) && Bool.eqb (sp_btw p) (sp_btw q) && Bool.eqb (sp_chips p) (sp_chips q)
  | _, _ => false
  end.
Definition book_eqb (a b : tbl) : bool :=
  list_eqb Z.eqb (t_seatmap a) (t_seatmap b) && list_eqb tp_eqb (t_players a) (t_players b)
  && list_eqb osp_eqb (sm_seats (t_sm a)) (sm_seats (t_sm b)).

(* a vacated (or never used) seat can be taken: reserving for a player who is not at the table,
   on a table that is not full, naming an empty seat of the table or no seat at all, is not refused *)
Definition must_succeed (pre : tbl) (o : mop) : bool :=
  match o with
  | MReserve j _ =>
      match find_idx pre (jp_id j) with
      | Some _ => false
      | None => (length (t_players pre) <? t_max pre)%nat
                && ((jp_seat j =? -1)
                    || ((0 <=? jp_seat j) && (jp_seat j <? Z.of_nat (t_max pre))
                        && (nth (Z.to_nat (jp_seat j)) (t_seatmap pre) 0 =? -1)))
      end
  | _ => false
  end.

(* a transition (pre, op, result, post) of the bookkeeping *)
Definition C03_ok (pre : tbl) (o : mop) (r : res) (post : tbl) : bool :=
  seat_inv post && match r with Err => book_eqb pre post && negb (must_succeed pre o) | Ok => true end.

(* which clause fails: 1 exclusivity/consistency after the operation, 2 a refused operation changed something *)
Definition C03_diag (pre : tbl) (o : mop) (r : res) (post : tbl) : nat :=
  if negb (seat_inv post) then 1
  else match r with Err => if negb (book_eqb pre post) then 2 else if must_succeed pre o then 4 else 0 | Ok => 0 end.

(* C01: decidable specification of chip conservation, on observable quantities only. *)
From Coq Require Import List ZArith Bool Arith Lia.
Import ListNotations.
From PT Require Import Model.Chips.
Open Scope Z_scope.

(* the table never creates or destroys chips *)
Definition conserved (s : cstate) : bool := total (cs_players s) =? cs_brought s - cs_taken s.

(* contract on a hand result (pokerface's side): one entry per hand entry, entry i has index i,
   the changes sum to zero *)
Fixpoint idx_in_order (i : nat) (rs : list rentry) : bool :=
  match rs with [] => true | r :: t => Nat.eqb (r_idx r) i && idx_in_order (S i) t end.
Definition result_ok (hand : list nat) (rs : list rentry) : bool :=
  Nat.eqb (length rs) (length hand) && idx_in_order 0 rs
  && (fold_right (fun r acc => r_changed r + acc) 0 rs =? 0).

(* a completed hand only moves chips between its players: entry i's player gains exactly
   changed_i, everybody else keeps what they had *)
Definition changed_of (hand : list nat) (rs : list rentry) (id : nat) : Z :=
  fold_right (fun r acc => match nth_error hand (r_idx r) with
                           | Some h => if Nat.eqb h id then r_changed r + acc else acc
                           | None => acc end) 0 rs.
Definition hand_local (before after : list (nat * Z)) (hand : list nat) (rs : list rentry) : bool :=
  Nat.eqb (length before) (length after)
  && forallb (fun p => bank_of after (fst p) =? snd p + changed_of hand rs (fst p)) before.

(* one observed event: the event and the seated players' bankrolls after it *)
Record cobs := { co_ev : cev; co_after : list (nat * Z); co_between_hands : bool }.

(* the monitor: running totals of brought / taken from the observed events; conservation is
   demanded at the between-hands points; hand-locality at every settlement *)
Fixpoint C01_ok_from (prev : list (nat * Z)) (brought taken : Z) (tr : list cobs) : bool :=
  match tr with
  | [] => true
  | o :: t =>
      let '(b', k') :=
        match co_ev o with
        | CIn _ c | CTopUp _ c => (brought + c, taken)
        | COut ids => (brought, taken + total (filter (fun p => mem_id (fst p) ids) prev))
        | CSettle _ _ | CMark => (brought, taken)
        end in
      (if co_between_hands o then total (co_after o) =? b' - k' else true)
      && (match co_ev o with
          | CSettle hand rs => negb (result_ok hand rs) || hand_local prev (co_after o) hand rs
          | _ => true end)
      && C01_ok_from (co_after o) b' k' t
  end.
Definition C01_ok (tr : list cobs) : bool := C01_ok_from [] 0 0 tr.

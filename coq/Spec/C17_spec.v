(* C17: decidable specification evaluated on observed manager calls.  The engines in the
   real manager's registry are recording proxies, so each observed step tells which engine
   calls the manager made (table, method, arguments), what the engine returned and what the
   manager returned. *)
From Coq Require Import List String Bool Arith ZArith.
Import ListNotations.
From PT Require Import Model.Manager.
Open Scope string_scope.

Record step := {
  st_method : string; st_table : string; st_args : list string;
  st_known : bool;                                   (* registry held the id before the call *)
  st_calls : list (string * string * list string);   (* engine calls observed *)
  st_notfound : bool;                                (* manager returned ErrManagerTableNotFound *)
  st_mgr_err : bool; st_mgr_res : string;
  st_eng_err : bool; st_eng_res : string;
  st_present : bool;                                 (* registry holds the id after the call *)
  st_gen_pre : Z; st_gen_post : Z;                   (* which engine is registered under the id before/after:
                                                        its generation number, -1 none, -2 a foreign engine *)
  st_new_gen : nat                                   (* CreateTable: generation of the engine being created *)
}.

Fixpoint strs_eqb (a b : list string) : bool :=
  match a, b with
  | [], [] => true
  | x :: a', y :: b' => String.eqb x y && strs_eqb a' b'
  | _, _ => false
  end.

Definition call_eqb (a b : string * string * list string) : bool :=
  let '(t1, m1, a1) := a in let '(t2, m2, a2) := b in
  String.eqb t1 t2 && String.eqb m1 m2 && strs_eqb a1 a2.

Fixpoint calls_eqb (a b : list (string * string * list string)) : bool :=
  match a, b with
  | [], [] => true
  | x :: a', y :: b' => call_eqb x y && calls_eqb a' b'
  | _, _ => false
  end.

(* The property, step by step:
   known id   -> exactly one engine call, on that table, the same-named method, the same
                 arguments; the manager returns what the engine returned; the registry keeps
                 the table unless the call was a successful close/release;
   unknown id -> no engine call at all, table-not-found, registry unchanged. *)
(* the three methods that do not forward *)
Definition C17_special_ok (s : step) : option bool :=
  if String.eqb (st_method s) "CreateTable" then
    (* success registers exactly the new engine under the id; a refused creation leaves the
       registry entry for that id exactly as it was (absent stays absent) *)
    Some (calls_eqb (st_calls s) []
          && (if st_mgr_err s then Z.eqb (st_gen_post s) (st_gen_pre s)
              else Z.eqb (st_gen_post s) (Z.of_nat (st_new_gen s))))
  else if String.eqb (st_method s) "Reset" then
    Some (calls_eqb (st_calls s) [] && Z.eqb (st_gen_post s) (-1))
  else if String.eqb (st_method s) "GetTableEngine" then
    Some (calls_eqb (st_calls s) [] && Z.eqb (st_gen_post s) (st_gen_pre s)
          && Bool.eqb (st_notfound s) (Z.eqb (st_gen_pre s) (-1)))
  else None.

Definition C17_step_ok (s : step) : bool :=
  match C17_special_ok s with Some b => b | None =>
  if st_known s then
    calls_eqb (st_calls s) [(st_table s, st_method s, st_args s)]
    && Bool.eqb (st_mgr_err s) (st_eng_err s) && String.eqb (st_mgr_res s) (st_eng_res s)
    && negb (st_notfound s && negb (st_eng_err s))
    && Bool.eqb (st_present s) (negb (closes (st_method s) && negb (st_eng_err s)))
  else
    calls_eqb (st_calls s) [] && st_notfound s && negb (st_present s)
  end.

Definition C17_ok (tr : list step) : bool := forallb C17_step_ok tr.

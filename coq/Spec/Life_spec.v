(* Decidable specifications for the table's life cycle (C07, C08, C12), evaluated on one macro
   step: the quiescent observation before, every notification in between, the quiescent
   observation after. *)
From Coq Require Import List ZArith Bool Arith Lia.
Import ListNotations.
From PT Require Import Model.Life.
Open Scope Z_scope.

Record lobs := {
  lo_event : bool;                 (* a notification (true) or a quiescent read (false) *)
  lo_status : tstatus; lo_gc : Z; lo_has_game : bool; lo_game_id : nat;
  lo_blind : blind; lo_gblind : option blind; lo_meta : blind;   (* ante/blinds the running hand charges *)
  lo_hand_empty : bool; lo_alive : nat; lo_live_in : nat; lo_released : bool; lo_started : bool;
  lo_gate_count : Z; lo_gate_n : nat; lo_gate_ready : bool
}.

Record lstepobs := { ls_op : lop; ls_pre : lobs; ls_events : list lobs; ls_post : lobs; ls_closed : bool; ls_wedged : bool; ls_opts : blind }.

Definition blind_eqb (a b : blind) : bool :=
  (b_level a =? b_level b) && (b_ante a =? b_ante b) && (b_dealer a =? b_dealer b) && (b_sb a =? b_sb b) && (b_bb a =? b_bb b).
Definition charges_eqb (a b : blind) : bool :=    (* ante and the three blinds, not the level *)
  (b_ante a =? b_ante b) && (b_dealer a =? b_dealer b) && (b_sb a =? b_sb b) && (b_bb a =? b_bb b).

Definition external (o : lop) : bool := match o with LPause | LClose => true | _ => false end.

(* ---------------- C07 ---------------- *)
(* status edges of the table left to itself *)
Definition edge_ok (a b : tstatus) : bool :=
  status_eqb a b ||
  match a, b with
  | SCreated, SOpened | SBalancing, SOpened | SPausing, SOpened | SStandby, SOpened => true
  | SOpened, SPlaying => true
  | SPlaying, SSettled => true
  | SSettled, SStandby => true
  | SStandby, SPausing => true
  | SSettled, SPausing => true      (* standby is not notified when the table pauses right after the hand *)
  | _, _ => false
  end.

Fixpoint pairs_ok {A} (f : A -> A -> bool) (l : list A) : bool :=
  match l with
  | a :: ((b :: _) as t) => f a b && pairs_ok f t
  | _ => true
  end.

Definition seq_of (s : lstepobs) : list lobs := ls_pre s :: ls_events s ++ [ls_post s].

Definition c07_edges (s : lstepobs) : bool :=
  external (ls_op s) || pairs_ok (fun a b => edge_ok (lo_status a) (lo_status b)) (seq_of s).

(* the count changes only by +1, and only on an observation that shows the hand just opened *)
Definition c07_count (s : lstepobs) : bool :=
  pairs_ok (fun a b => (lo_gc a =? lo_gc b) || ((lo_gc b =? lo_gc a + 1) && status_eqb (lo_status b) SOpened)) (seq_of s).

(* a new hand never opens while another is unsettled *)
Definition c07_one_hand (s : lstepobs) : bool :=
  pairs_ok (fun a b => negb (status_eqb (lo_status b) SOpened && negb (status_eqb (lo_status a) SOpened)) || negb (lo_has_game a)) (seq_of s).

(* between hands the per-hand fields are reset *)
Definition c07_reset (s : lstepobs) : bool :=
  negb (ls_closed s) || external (ls_op s)
  || negb (status_eqb (lo_status (ls_post s)) SStandby || status_eqb (lo_status (ls_post s)) SPausing)
  || (lo_hand_empty (ls_post s) && negb (lo_has_game (ls_post s))).
(* ... and no notification published while the table stands by carries a hand (the finished one must be gone by then) *)
Definition c07_standby_clean (s : lstepobs) : bool :=
  forallb (fun e => negb (status_eqb (lo_status e) SStandby) || negb (lo_has_game e)) (ls_events s).

(* no hand opens after close / release between hands, on a break level, or before blinds are set *)
Definition opened_in (s : lstepobs) : bool := lo_gc (ls_pre s) <? lo_gc (ls_post s).
Definition c07_no_open (s : lstepobs) : bool :=
  negb (opened_in s)
  || (negb (lo_released (ls_pre s)) && negb (status_eqb (lo_status (ls_pre s)) SClosed)
      && is_set (lo_blind (ls_pre s)) && negb (is_break (lo_blind (ls_pre s)))).

(* game ids: a hand that just opened carries an id not seen before in this history *)
Fixpoint fresh_ids (seen : list nat) (prev : nat) (l : list lobs) : bool * list nat * nat :=
  match l with
  | [] => (true, seen, prev)
  | o :: t =>
      let id := lo_game_id o in
      if Nat.eqb id 0 then fresh_ids seen prev t
      else if Nat.eqb id prev then fresh_ids seen prev t
      else if existsb (Nat.eqb id) seen then (false, seen, prev)
      else fresh_ids (id :: seen) id t
  end.

(* the level in force is the one last announced (UpdateBlind), whatever it is: a level, a break, a break without amounts *)
Definition upd_in_force (s : lstepobs) : bool :=
  match ls_op s with LUpdateBlind b => blind_eqb (lo_blind (ls_post s)) b | _ => true end.

Definition C07_step_ok (s : lstepobs) : bool :=
  c07_edges s && c07_count s && c07_one_hand s && c07_reset s && c07_standby_clean s && c07_no_open s && upd_in_force s.
Definition C07_diag (s : lstepobs) : nat :=
  if negb (c07_edges s) then 1 else if negb (c07_count s) then 2 else if negb (c07_one_hand s) then 3
  else if negb (c07_reset s) then 4 else if negb (c07_standby_clean s) then 8 else if negb (c07_no_open s) then 5 else if negb (upd_in_force s) then 7 else 0.

(* ---------------- C08 ---------------- *)
Definition is_gate_step (o : lop) : bool := match o with LFinish | LTimeout => true | _ => false end.

(* after the hand: pause iff break or fewer players than the minimum have chips *)
Definition c08_decide (min : nat) (s : lstepobs) : bool :=
  negb (ls_closed s) || external (ls_op s) || lo_released (ls_post s) || status_eqb (lo_status (ls_post s)) SClosed
  || Bool.eqb (status_eqb (lo_status (ls_post s)) SPausing)
              (is_break (lo_blind (ls_post s)) || (lo_alive (ls_post s) <? min)%nat).

(* ... otherwise the next hand is set up for everybody who can be dealt in: with two seated-in
   players with chips the gate is not left with fewer than two participants *)
Definition c08_gate (s : lstepobs) : bool :=
  negb (ls_closed s) || external (ls_op s) || lo_released (ls_post s)
  || negb (status_eqb (lo_status (ls_post s)) SStandby)
  || negb (2 <=? lo_live_in (ls_post s))%nat
  || ((lo_gate_count (ls_post s) =? lo_gc (ls_post s) + 1) && (2 <=? lo_gate_n (ls_post s))%nat).

(* when the expected players have signalled (or the gate timed out) the next hand opens, without
   further external calls, provided two seated-in players have chips *)
Definition c08_opens (s : lstepobs) : bool :=
  negb (is_gate_step (ls_op s))
  || lo_gate_ready (ls_pre s) || (lo_gate_n (ls_pre s) <=? 1)%nat
  || lo_released (ls_pre s) || status_eqb (lo_status (ls_pre s)) SClosed || lo_has_game (ls_pre s)
  || negb (is_set (lo_blind (ls_pre s))) || is_break (lo_blind (ls_pre s)) || negb (2 <=? lo_live_in (ls_pre s))%nat
  || (opened_in s && negb (ls_wedged s) && status_eqb (lo_status (ls_post s)) SPlaying).

Definition C08_step_ok (min : nat) (s : lstepobs) : bool := c08_decide min s && c08_gate s && c08_opens s && upd_in_force s.
Definition C08_diag (min : nat) (s : lstepobs) : nat :=
  if negb (c08_decide min s) then 1 else if negb (c08_gate s) then 2 else if negb (c08_opens s) then 3 else if negb (upd_in_force s) then 4 else 0.

(* ---------------- C12 ---------------- *)
(* a hand is played at the level in force when it opened *)
Definition c12_at_open (s : lstepobs) : bool :=
  negb (opened_in s)
  || (match lo_gblind (ls_post s) with Some g => blind_eqb g (lo_blind (ls_pre s)) | None => false end
      && charges_eqb (ls_opts s) (lo_blind (ls_pre s))
      && charges_eqb (lo_meta (ls_post s)) (lo_blind (ls_pre s))).

(* while the hand runs, nothing about it changes when the table's level is updated *)
Definition c12_stable (s : lstepobs) : bool :=
  negb (lo_has_game (ls_pre s) && lo_has_game (ls_post s) && Nat.eqb (lo_game_id (ls_pre s)) (lo_game_id (ls_post s)))
  || (match lo_gblind (ls_pre s), lo_gblind (ls_post s) with
      | Some a, Some b => blind_eqb a b | None, None => true | _, _ => false end
      && charges_eqb (lo_meta (ls_pre s)) (lo_meta (ls_post s))).

Definition C12_step_ok (s : lstepobs) : bool := c12_at_open s && c12_stable s && upd_in_force s.
Definition C12_diag (s : lstepobs) : nat := if negb (c12_at_open s) then 1 else if negb (c12_stable s) then 2 else if negb (upd_in_force s) then 3 else 0.

(* Decidable specifications for what happens inside a hand (C10, C11, C13, C14, C15), evaluated on
   single attempts: the table before the call, the call, its result, the table right after, the
   table at the next quiescent point, the events, the backend calls and the clock. *)
From Coq Require Import List ZArith Bool Arith Lia.
Import ListNotations.
From PT Require Import Model.TableMem.
Open Scope Z_scope.

Inductive act := AReady | APay | APass | AFold | ACheck | ACall | AAllin | ABet | ARaise | AExtend | ALeave.
Inductive hev := EReady | EAnte | EBlinds | ERoundStarted | ERoundClosed | EGameClosed | ENone | EOther.
Inductive rnd := RPreflop | RFlop | RTurn | RRiver | RNoRound.

Definition act_eqb (a b : act) : bool :=
  match a, b with
  | AReady, AReady | APay, APay | APass, APass | AFold, AFold | ACheck, ACheck | ACall, ACall | AAllin, AAllin | ABet, ABet | ARaise, ARaise | AExtend, AExtend | ALeave, ALeave => true
  | _, _ => false end.
Definition hev_eqb (a b : hev) : bool :=
  match a, b with
  | EReady, EReady | EAnte, EAnte | EBlinds, EBlinds | ERoundStarted, ERoundStarted | ERoundClosed, ERoundClosed
  | EGameClosed, EGameClosed | ENone, ENone | EOther, EOther => true
  | _, _ => false end.
Definition rnd_eqb (a b : rnd) : bool :=
  match a, b with RPreflop, RPreflop | RFlop, RFlop | RTurn, RTurn | RRiver, RRiver | RNoRound, RNoRound => true | _, _ => false end.

Definition wager_act (a : act) : bool :=
  match a with AFold | ACheck | ACall | AAllin | ABet | ARaise => true | _ => false end.

Record hentry := { he_id : nat; he_allowed : list act; he_acted : bool; he_fold : bool; he_stack : Z; he_init : Z; he_wager : Z;
                   he_sb : bool; he_bb : bool; he_dealer : bool }.
Record hstat := { hs_id : nat; hs_action : nat; hs_raise : nat; hs_call : nat; hs_check : nat; hs_fold : bool; hs_fold_round : rnd;
                  hs_flags : list bool }.   (* 9 pairs (chance, did): vpip pfr ats 3b ft3b cr cbet ftcb showdown *)
Record hlast := { hl_id : nat; hl_action : act; hl_round : rnd; hl_gid : nat; hl_gc : Z; hl_chips : Z }.

Record hsnap := {
  h_status : tstatus; h_gc : Z; h_gid : nat; h_event : hev; h_round : rnd; h_cur : Z; h_raiser : Z; h_wround : rnd;   (* raiser and round as the hand wrapper holds them (the table's copy follows asynchronously) *)
 
  h_entries : list hentry; h_end_at : Z; h_last : option hlast; h_stats : list hstat;
  h_hash : nat; h_hand_hash : nat; h_group : list nat; h_group_n : nat;
  h_ante : Z; h_bd : Z; h_bsb : Z; h_bbb : Z
}.

Inductive why := WTurn | WOutOfTurn | WWrongKind | WNotDealtIn | WStranger | WNoHand | WGroup | WWithheld | WBystander | WParticipant.

Record hcall := { hc_player : nat; hc_action : act; hc_chips : Z; hc_why : why; hc_fail : bool }.

Record hstep := {
  st_call : hcall; st_pre : hsnap; st_ok : bool; st_post : hsnap; st_quiet : hsnap;
  st_acts : list hlast; st_errs : nat; st_be : list (nat * bool);   (* backend call kind (number), failed *)
  st_now0 : Z; st_now1 : Z; st_now2 : Z;
  st_seen : list (hev * Z);        (* hand events delivered up to the quiescent point, with the deadline published with each *)
  st_closed : bool; st_wedged : bool;
  st_settle_stats : list hstat;    (* statistics published with the settlement, when the hand closed in this step *)
  st_ret : Z;                      (* value returned by a deadline extension *)
  st_result_n : nat; st_hand_n : nat;  (* at settlement: result entries, participants *)
  st_ext_injected : bool;              (* a deadline extension was served inside the engine's Next step of this attempt *)
  st_panic : bool                      (* the API call panicked *)
}.

(* steps that are a player's game action (not a deadline extension, not a withheld answer) *)
Definition is_action_step (s : hstep) : bool :=
  negb (act_eqb (hc_action (st_call s)) AExtend) && negb (act_eqb (hc_action (st_call s)) ALeave)
  && match hc_why (st_call s) with WWithheld => false | _ => true end.

Fixpoint index_of (id : nat) (i : nat) (es : list hentry) : option nat :=
  match es with [] => None | e :: t => if Nat.eqb (he_id e) id then Some i else index_of id (S i) t end.
Definition has_act (a : act) (l : list act) : bool := existsb (act_eqb a) l.

(* ---------------- C10 ---------------- *)
Definition last_matches (c : hcall) (pre : hsnap) (l : hlast) : bool :=
  Nat.eqb (hl_id l) (hc_player c) && act_eqb (hl_action l) (hc_action c) && rnd_eqb (hl_round l) (h_round pre)
  && Nat.eqb (hl_gid l) (h_gid pre) && (hl_gc l =? h_gc pre).

(* a refused action leaves no trace *)
Definition c10_refused (s : hstep) : bool :=
  st_ok s || (Nat.eqb (h_hash (st_pre s)) (h_hash (st_post s)) && Nat.eqb (h_hand_hash (st_pre s)) (h_hand_hash (st_post s))
              && match st_acts s with [] => true | _ => false end).

Definition is_playing (st : tstatus) : bool := match st with SPlaying => true | _ => false end.

(* accepted only from a player the hand is waiting on, and only an action it allows them *)
Definition c10_accepted (s : hstep) : bool :=
  negb (st_ok s) ||
  (is_playing (h_status (st_pre s)) &&
   match index_of (hc_player (st_call s)) 0 (h_entries (st_pre s)) with
   | None => false
   | Some gp =>
       match nth_error (h_entries (st_pre s)) gp with
       | Some e => has_act (hc_action (st_call s)) (he_allowed e)
                   && (match hc_action (st_call s) with AReady | APay => true | _ => Z.of_nat gp =? h_cur (st_pre s) end)
       | None => false
       end
   end).

(* published as the table's last player action ... *)
Definition c10_last (s : hstep) : bool :=
  negb (st_ok s) || match h_last (st_post s) with Some l => last_matches (st_call s) (st_pre s) l | None => false end
  || existsb (fun ed => hev_eqb (fst ed) ERoundClosed || hev_eqb (fst ed) EGameClosed) (st_seen s).   (* the record is cleared when the round closes *)

(* ... and as one action event naming player, action, round and hand *)
Definition c10_event (s : hstep) : bool :=
  negb (st_ok s) || act_eqb (hc_action (st_call s)) APay || act_eqb (hc_action (st_call s)) AReady ||
  (Nat.eqb (length (filter (fun l => last_matches (st_call s) (st_pre s) l) (st_acts s))) 1).

(* a readiness signal is an accepted game action too *)
Definition c10_event_ready (s : hstep) : bool :=
  negb (st_ok s) || negb (act_eqb (hc_action (st_call s)) AReady) ||
  (Nat.eqb (length (filter (fun l => last_matches (st_call s) (st_pre s) l) (st_acts s))) 1).

(* payments are published together when the collection completes: an accepted payment is followed
   (in this step or a later one of the same hand) by a pay event naming that player and hand *)
Definition pay_event_for (c : hcall) (pre : hsnap) (l : hlast) : bool :=
  Nat.eqb (hl_id l) (hc_player c) && act_eqb (hl_action l) APay && Nat.eqb (hl_gid l) (h_gid pre) && (hl_gc l =? h_gc pre).
Fixpoint pay_published (c : hcall) (pre : hsnap) (l : list hstep) : bool :=
  match l with
  | [] => false
  | s :: t => existsb (pay_event_for c pre) (st_acts s) || pay_published c pre t
  end.
(* the collection this payment belongs to completed (its backend call was made and succeeded) *)
Fixpoint collected (l : list hstep) : bool :=
  match l with
  | [] => false
  | s :: t => existsb (fun kb => (Nat.eqb (fst kb) 2 || Nat.eqb (fst kb) 3) && negb (snd kb)) (st_be s)
              || (negb (st_closed s) && collected t)
  end.
Fixpoint c10_pays (i : nat) (l : list hstep) : option nat :=
  match l with
  | [] => None
  | s :: t =>
      if st_ok s && act_eqb (hc_action (st_call s)) APay && is_playing (h_status (st_pre s))
         && collected l && negb (pay_published (st_call s) (st_pre s) l)
      then Some i else c10_pays (S i) t
  end.

Definition be_kind_of (a : act) : nat :=
  match a with APay => 5 | AFold => 6 | ACheck => 7 | ACall => 8 | AAllin => 9 | ABet => 10 | ARaise => 11 | APass => 12 | AReady | AExtend | ALeave => 0 end.

(* applied once: an accepted betting action is exactly one successful backend call of its kind *)
Definition c10_once (s : hstep) : bool :=
  negb (st_ok s) || negb (wager_act (hc_action (st_call s)) || act_eqb (hc_action (st_call s)) APass)
  || Nat.eqb (length (filter (fun kb => Nat.eqb (fst kb) (be_kind_of (hc_action (st_call s))) && negb (snd kb)) (st_be s))) 1.

Definition C10_diag (s : hstep) : nat :=
  if negb (c10_refused s) then 1 else if negb (c10_accepted s) then 2 else if negb (c10_last s) then 3
  else if negb (c10_once s) then 5 else if negb (c10_event s) then 4 else if negb (c10_event_ready s) then 6 else 0.

(* C02 (stability) / C10: the hand's entries denote the same players as long as the hand runs, whoever else comes or goes *)
Definition same_hand (a b : hsnap) : bool := negb (Nat.eqb (h_gid a) 0) && Nat.eqb (h_gid a) (h_gid b).
Fixpoint ids_eqb (a b : list hentry) : bool :=
  match a, b with [], [] => true | x :: a', y :: b' => Nat.eqb (he_id x) (he_id y) && ids_eqb a' b' | _, _ => false end.
Definition entries_stable (s : hstep) : bool :=
  (negb (same_hand (st_pre s) (st_post s)) || ids_eqb (h_entries (st_pre s)) (h_entries (st_post s)))
  && (negb (same_hand (st_pre s) (st_quiet s)) || ids_eqb (h_entries (st_pre s)) (h_entries (st_quiet s))).

(* ---------------- C13 ---------------- *)
Definition unchanged (s : hstep) : bool :=
  Nat.eqb (h_hash (st_pre s)) (h_hash (st_post s)) && Nat.eqb (h_hand_hash (st_pre s)) (h_hand_hash (st_post s)).

(* the backend failed while applying the player's action: the caller gets the error, nothing changed *)
Definition c13_fail_noop (s : hstep) : bool :=
  negb (hc_fail (st_call s)) || negb (wager_act (hc_action (st_call s)) || act_eqb (hc_action (st_call s)) APass)
  || negb (is_playing (h_status (st_pre s)))
  || (negb (st_ok s) && unchanged s).

(* a failure in a step the engine performs by itself is reported through the error callback *)
Definition auto_kind (k : nat) : bool := (1 <=? k)%nat && (k <=? 4)%nat.
Definition c13_reported (s : hstep) : bool :=
  negb (existsb (fun kb => auto_kind (fst kb) && snd kb) (st_be s)) || (1 <=? st_errs s)%nat.

Definition C13_diag (s : hstep) : nat := if negb (c13_fail_noop s) then 1 else if negb (c13_reported s) then 2 else 0.

Definition same_call (a b : hcall) : bool :=
  Nat.eqb (hc_player a) (hc_player b) && act_eqb (hc_action a) (hc_action b) && (hc_chips a =? hc_chips b).

(* the same action can be submitted again: a failed attempt followed by the same attempt without a
   fault is accepted *)
Fixpoint c13_retry (i : nat) (l : list hstep) : option nat :=
  match l with
  | a :: ((b :: _) as t) =>
      if hc_fail (st_call a) && negb (hc_fail (st_call b)) && same_call (st_call a) (st_call b)
         && (wager_act (hc_action (st_call a)) || act_eqb (hc_action (st_call a)) APass) && negb (st_ok b)
      then Some (S i) else c13_retry (S i) t
  | _ => None
  end.

(* ---------------- C14 ---------------- *)
Record tally := { ty_id : nat; ty_actions : nat; ty_calls : nat; ty_checks : nat; ty_raise_like : nat; ty_folded : bool; ty_fold_round : rnd }.

Fixpoint tally_add (l : list tally) (id : nat) (a : act) (r : rnd) : list tally :=
  match l with
  | [] => [{| ty_id := id; ty_actions := 1; ty_calls := if act_eqb a ACall then 1 else 0; ty_checks := if act_eqb a ACheck then 1 else 0;
              ty_raise_like := 0; ty_folded := act_eqb a AFold; ty_fold_round := if act_eqb a AFold then r else RNoRound |}]
  | t :: rest =>
      if Nat.eqb (ty_id t) id then
        {| ty_id := id; ty_actions := S (ty_actions t); ty_calls := ty_calls t + (if act_eqb a ACall then 1 else 0);
           ty_checks := ty_checks t + (if act_eqb a ACheck then 1 else 0); ty_raise_like := ty_raise_like t;
           ty_folded := ty_folded t || act_eqb a AFold; ty_fold_round := if act_eqb a AFold then r else ty_fold_round t |} :: rest
      else t :: tally_add rest id a r
  end%nat.

Definition tally_of (l : list tally) (id : nat) : tally :=
  match find (fun t => Nat.eqb (ty_id t) id) l with
  | Some t => t
  | None => {| ty_id := id; ty_actions := 0; ty_calls := 0; ty_checks := 0; ty_raise_like := 0; ty_folded := false; ty_fold_round := RNoRound |}
  end.

Fixpoint pairs_imply (fl : list bool) : bool :=
  match fl with
  | chance :: did :: t => (negb did || chance) && pairs_imply t
  | _ => true
  end.

Definition stat_ok (l : list tally) (s : hstat) : bool :=
  let t := tally_of l (hs_id s) in
  Nat.eqb (hs_action s) (ty_actions t) && Nat.eqb (hs_call s) (ty_calls t) && Nat.eqb (hs_check s) (ty_checks t)
  && (hs_raise s <=? hs_action s)%nat
  && Bool.eqb (hs_fold s) (ty_folded t) && (negb (hs_fold s) || rnd_eqb (hs_fold_round s) (ty_fold_round t))
  && pairs_imply (hs_flags s).

Definition three_bet_holders (st : list hstat) : nat := length (filter (fun s => nth 7 (hs_flags s) false) st).

Definition stat_zero (s : hstat) : bool :=
  Nat.eqb (hs_action s) 0 && Nat.eqb (hs_raise s) 0 && Nat.eqb (hs_call s) 0 && Nat.eqb (hs_check s) 0 && negb (hs_fold s)
  && rnd_eqb (hs_fold_round s) RNoRound && forallb negb (hs_flags s).

(* 'had the chance' flags behind the Started/Acted gate (vpip pfr ats ft3b cr cbet ftcb): never marked by a hand
   engine with pokerface's semantics; the statistics theorem assumes it, the harness watches it *)
Definition gated_seen (s : hstat) : bool :=
  existsb (fun i => nth i (hs_flags s) false) [0; 2; 4; 8; 10; 12; 14]%nat.

(* per hand: accumulate accepted betting actions; at the settlement compare; afterwards all zero *)
Fixpoint c14_run (i : nat) (l : list tally) (steps : list hstep) : option (nat * nat) :=
  match steps with
  | [] => None
  | s :: t =>
      let l1 := if st_ok s && wager_act (hc_action (st_call s)) then tally_add l (hc_player (st_call s)) (hc_action (st_call s)) (h_round (st_pre s)) else l in
      if st_closed s then
        if negb (forallb (stat_ok l1) (st_settle_stats s)) then Some (i, 1%nat)
        else if negb (three_bet_holders (st_settle_stats s) <=? 1)%nat then Some (i, 2%nat)
        else if existsb gated_seen (st_settle_stats s) then Some (i, 4%nat)
        else if negb (forallb stat_zero (h_stats (st_quiet s))) then Some (i, 3%nat)
        else c14_run (S i) [] t
      else if negb (three_bet_holders (h_stats (st_quiet s)) <=? 1)%nat then Some (i, 2%nat)
      else c14_run (S i) l1 t
  end.

(* ---------------- C15 ---------------- *)
Definition all_wager (l : list act) : bool := forallb wager_act l.
Definition in_round (r : rnd) : bool := negb (rnd_eqb r RNoRound).

Definition last_seen (s : hstep) : option (hev * Z) := last (map Some (st_seen s)) None.

(* a betting round asks a player who has not yet acted: deadline = time of the request + action time
   (the request was delivered between the call and the quiescent point) *)
Definition c15_set (at_ : Z) (s : hstep) : bool :=
  st_ext_injected s ||
  match last_seen s with
  | Some (ERoundStarted, _) =>
      let q := st_quiet s in
      negb (is_playing (h_status q) && hev_eqb (h_event q) ERoundStarted && in_round (h_round q)) ||
      match nth_error (h_entries q) (Z.to_nat (h_cur q)) with
      | Some e => negb (negb (he_acted e) && match he_allowed e with [] => false | _ => true end && all_wager (he_allowed e))
                  || ((st_now0 s + at_ <=? h_end_at q) && (h_end_at q <=? st_now2 s + at_))
      | None => true
      end
  | _ => true
  end.

(* cleared when the betting round closes and between hands *)
Definition c15_clear (s : hstep) : bool :=
  (st_ext_injected s    (* an extension served after the round closed legitimately moves the cleared deadline again *)
   || forallb (fun ed => negb (hev_eqb (fst ed) ERoundClosed) || (snd ed =? 0)) (st_seen s))
  && (negb (st_closed s) || (h_end_at (st_quiet s) =? 0)).

(* an extension moves the deadline later by exactly the requested seconds and returns the new one *)
Definition c15_extend (s : hstep) : bool :=
  negb (act_eqb (hc_action (st_call s)) AExtend) || negb (st_ok s)
  || ((h_end_at (st_post s) =? h_end_at (st_pre s) + hc_chips (st_call s)) && (st_ret s =? h_end_at (st_post s))).

Definition C15_diag (at_ : Z) (s : hstep) : nat :=
  if negb (c15_set at_ s) then 1 else if negb (c15_clear s) then 2 else if negb (c15_extend s) then 3 else 0.

(* ---------------- C11 ---------------- *)
Definition asked_for_blinds (q : hsnap) : list nat :=
  let fix go (i : nat) (es : list hentry) : list nat :=
    match es with
    | [] => []
    | e :: t => (if ((0 <? h_bbb q) && he_bb e) || ((0 <? h_bsb q) && he_sb e) || ((0 <? h_bd q) && he_dealer e) then [i] else []) ++ go (S i) t
    end in go 0%nat (h_entries q).

(* readiness and ante are asked of everybody dealt in, blinds only of the positions whose blind is positive *)
Definition c11_asked (s : hstep) : bool :=
  match last_seen s with
  | Some (EReady, _) | Some (EAnte, _) =>
      negb (hev_eqb (h_event (st_quiet s)) EReady || hev_eqb (h_event (st_quiet s)) EAnte)
      || (Nat.eqb (h_group_n (st_quiet s)) (length (h_entries (st_quiet s))) && Nat.eqb (length (h_group (st_quiet s))) (h_group_n (st_quiet s)))
  | Some (EBlinds, _) =>
      negb (hev_eqb (h_event (st_quiet s)) EBlinds)
      || (Nat.eqb (h_group_n (st_quiet s)) (length (asked_for_blinds (st_quiet s)))
          && forallb (fun i => existsb (Nat.eqb i) (asked_for_blinds (st_quiet s))) (h_group (st_quiet s)))
  | _ => true
  end.

Definition group_kind (k : nat) : bool := (1 <=? k)%nat && (k <=? 3)%nat.

(* the hand moves on exactly when the last awaited answer arrives, not before *)
Definition c11_no_early (s : hstep) : bool :=
  match hc_why (st_call s) with
  | WGroup =>
      negb (st_ok s) ||
      match index_of (hc_player (st_call s)) 0 (h_entries (st_pre s)) with
      | Some gp =>
          let others := filter (fun i => negb (Nat.eqb i gp)) (h_group (st_pre s)) in
          match others with
          | [] => (* the last one (or a repeat after completion) *)
              negb (existsb (Nat.eqb gp) (h_group (st_pre s)))
              || existsb (fun kb => group_kind (fst kb)) (st_be s)
          | _ => negb (existsb (fun kb => group_kind (fst kb)) (st_be s)) && hev_eqb (h_event (st_quiet s)) (h_event (st_pre s))
          end
      | None => true
      end
  | _ => true
  end.

(* a closed betting round is followed by the next step without any external trigger *)
Fixpoint closed_followed (l : list (hev * Z)) : bool :=
  match l with
  | (ERoundClosed, _) :: [] => false
  | _ :: t => closed_followed t
  | [] => true
  end.
Definition c11_auto_next (s : hstep) : bool :=
  closed_followed (st_seen s) || existsb (fun kb => Nat.eqb (fst kb) 4 && snd kb) (st_be s) || st_wedged s.

(* one answer withheld: nothing moves until the response timeout, then the hand moves on by itself *)
Definition c11_withheld (s : hstep) : bool :=
  match hc_why (st_call s) with
  | WWithheld =>
      hev_eqb (h_event (st_post s)) (h_event (st_pre s)) && Nat.eqb (h_hand_hash (st_post s)) (h_hand_hash (st_pre s))
      && negb (hev_eqb (h_event (st_quiet s)) (h_event (st_pre s)))
      && existsb (fun kb => group_kind (fst kb) && negb (snd kb)) (st_be s)
      && (10 <=? st_now2 s - st_now0 s) && (st_now2 s - st_now0 s <=? 19)
  | _ => true
  end.

(* settlement carries a result entry for each participant *)
Definition c11_results (s : hstep) : bool := negb (st_closed s) || (Nat.eqb (st_result_n s) (st_hand_n s) && (2 <=? st_hand_n s)%nat).

Definition C11_diag (s : hstep) : nat :=
  if negb (c11_asked s) then 1 else if negb (c11_no_early s) then 2 else if negb (c11_auto_next s) then 3
  else if negb (c11_withheld s) then 4 else if negb (c11_results s) then 5 else 0.

(* C09: decidable specification of the open-game gate, written against observable
   behaviour only (sets of participant ids that have signalled), independently of
   the ready-group mechanism.  Used twice: as the statement of the refinement
   theorem in Props/C09.v, and as the monitor evaluated on implementation traces. *)
From Coq Require Import List Arith ZArith Bool Lia.
Import ListNotations.
From PT Require Import Model.OpenGame.

Record spec := {
  s_tmo : nat;                   (* configured timeout, 0 = none *)
  s_gc : Z;                      (* game count of the current set-up *)
  s_parts : list (nat * nat);    (* (id, index) of the current set-up *)
  s_sig : list nat;              (* ids that have signalled in this set-up *)
  s_fired : bool;                (* the callback has fired for this set-up *)
  s_timer : bool                 (* the timeout can still elapse *)
}.

Definition spec_init (tmo : nat) : spec :=
  {| s_tmo := tmo; s_gc := 0%Z; s_parts := []; s_sig := []; s_fired := false; s_timer := false |}.

Definition mem (x : nat) (l : list nat) : bool := existsb (Nat.eqb x) l.
Definition known (s : spec) (id : nat) : bool := mem id (map fst (s_parts s)).
Definition flag (sig : list nat) (fired : bool) (id : nat) : bool := mem id sig || fired.

(* what GetState() shows *)
Definition obs_parts (s : spec) : list part :=
  map (fun ii => {| p_id := fst ii; p_idx := snd ii; p_ready := flag (s_sig s) (s_fired s) (fst ii) |}) (s_parts s).

Definition fired_parts (s : spec) : list part :=
  map (fun ii => {| p_id := fst ii; p_idx := snd ii; p_ready := true |}) (s_parts s).

Definition everyone (s : spec) (sig : list nat) : bool :=
  forallb (fun ii => mem (fst ii) sig) (s_parts s).

Definition snapshot_fired (ps : list part) : bool :=
  match ps with [] => false | _ => forallb p_ready ps end.

Definition spec_step (s : spec) (o : op) : spec * out :=
  match o with
  | Setup gc ps =>
      (* a new set-up supersedes whatever was pending; nothing fires *)
      ({| s_tmo := s_tmo s; s_gc := gc; s_parts := ps; s_sig := []; s_fired := false;
          s_timer := negb (Nat.eqb (s_tmo s) 0) |}, ONone)
  | Ready id =>
      if negb (known s id) then (s, OErr)           (* rejected, nothing changes *)
      else
        let sig' := if mem id (s_sig s) then s_sig s else id :: s_sig s in  (* repeats change nothing *)
        if negb (s_fired s) && everyone s sig'
        then ({| s_tmo := s_tmo s; s_gc := s_gc s; s_parts := s_parts s; s_sig := sig';
                 s_fired := true; s_timer := false |}, OFire (s_gc s) (fired_parts s))
        else ({| s_tmo := s_tmo s; s_gc := s_gc s; s_parts := s_parts s; s_sig := sig';
                 s_fired := s_fired s; s_timer := s_timer s |}, ONone)
  | Timeout =>
      if s_timer s then
        match s_parts s with
        | [] => ({| s_tmo := s_tmo s; s_gc := s_gc s; s_parts := []; s_sig := s_sig s;
                    s_fired := s_fired s; s_timer := false |}, ONone)   (* nobody to wait for *)
        | _ => ({| s_tmo := s_tmo s; s_gc := s_gc s; s_parts := s_parts s; s_sig := s_sig s;
                   s_fired := true; s_timer := false |}, OFire (s_gc s) (fired_parts s))
        end
      else (s, ONone)
  | Restore tmo gc ps =>
      (* a saved set-up in which everybody is ready is one that has fired (the original
         gate stays silent from then on); anything else is still pending *)
      let fired := snapshot_fired ps in
      ({| s_tmo := tmo; s_gc := gc; s_parts := map (fun p => (p_id p, p_idx p)) ps;
          s_sig := map p_id (filter p_ready ps); s_fired := fired;
          s_timer := negb (Nat.eqb tmo 0) && negb fired |}, ONone)
  end.

(* ----- equality tests on observations ----- *)
Definition part_eqb (a b : part) : bool :=
  Nat.eqb (p_id a) (p_id b) && Nat.eqb (p_idx a) (p_idx b) && Bool.eqb (p_ready a) (p_ready b).

Fixpoint list_eqb {A} (e : A -> A -> bool) (a b : list A) : bool :=
  match a, b with
  | [], [] => true
  | x :: a', y :: b' => e x y && list_eqb e a' b'
  | _, _ => false
  end.

Definition out_eqb (a b : out) : bool :=
  match a, b with
  | ONone, ONone => true
  | OErr, OErr => true
  | OFire g1 p1, OFire g2 p2 => Z.eqb g1 g2 && list_eqb part_eqb p1 p2
  | OMany n1, OMany n2 => Nat.eqb n1 n2
  | _, _ => false
  end.

(* guard on operations: set-up and restore name participants by distinct ids with
   distinct indexes (the ready group is keyed by index) *)
Fixpoint nodupb (l : list nat) : bool :=
  match l with [] => true | x :: t => negb (mem x t) && nodupb t end.

Definition valid_op (o : op) : bool :=
  match o with
  | Setup _ ps => nodupb (map fst ps) && nodupb (map snd ps)
  | Restore _ _ ps =>
      (* the snapshot of a pending set-up: somebody has not signalled yet.  A snapshot
         taken after the callback fired does not record that fact (OpenGameState has no
         field for it); see C09_restore_fired_refuted in Props/C09.v *)
      nodupb (map p_id ps) && nodupb (map p_idx ps)
      && negb (snapshot_fired ps)
  | _ => true
  end.

(* the monitor: an observed trace of (operation, callback/err outcome, GetState) *)
Record obs := { o_op : op; o_out : out; o_gc : Z; o_parts : list part }.

Fixpoint C09_ok_from (s : spec) (tr : list obs) : bool :=
  match tr with
  | [] => true
  | x :: t =>
      let '(s', r) := spec_step s (o_op x) in
      out_eqb (o_out x) r && Z.eqb (o_gc x) (s_gc s') && list_eqb part_eqb (o_parts x) (obs_parts s')
      && C09_ok_from s' t
  end.

Definition C09_ok (tmo : nat) (tr : list obs) : bool := C09_ok_from (spec_init tmo) tr.

(* the trace the model produces *)
Definition model_trace (tmo : nat) (os : list op) : list obs :=
  map (fun x => let '(o, r, g) := x in
                {| o_op := o; o_out := r; o_gc := g_count g; o_parts := g_parts g |})
      (run (init tmo) os).

(* Decidable specifications evaluated on the snapshot of an opened hand (C02, C05, C06), written
   against the published table state only: players (seat, seated-in, bankroll, dealt-in, labels),
   the hand's player list, the button seats, and what the hand engine was given. *)
From Coq Require Import List ZArith Bool Arith Lia.
Import ListNotations.
From PT Require Import Base.ZScan Model.Labels.
Open Scope Z_scope.

Record oplayer := {
  op_id : nat; op_seat : Z; op_in : bool; op_bank : Z; op_part : bool; op_labels : list label;
  op_fresh : bool;     (* seated, or re-bought from zero, after positions were first set; not dealt in since *)
  op_waiting : bool;   (* fresh, and at that moment the seat was strictly between the button and the big blind *)
  op_missed : nat      (* consecutive opened hands missed while seated-in with chips, this one included *)
}.

Record osnap := {
  os_max : nat; os_players : list oplayer; os_gpi : list Z;
  os_dealer : Z; os_sb : Z; os_bb : Z;
  os_settings : list (Z * list label)
}.

Definition nmax (o : osnap) : Z := Z.of_nat (os_max o).
Definition pl (o : osnap) (i : Z) : option oplayer := if i <? 0 then None else nth_error (os_players o) (Z.to_nat i).
Definition dealt_at (o : osnap) (seat : Z) : option oplayer :=
  find (fun p => op_part p && (op_seat p =? seat)) (os_players o).
Definition live (p : oplayer) : bool := op_in p && (0 <? op_bank p).

Fixpoint nodupz (l : list Z) : bool := match l with [] => true | x :: t => negb (existsb (Z.eqb x) t) && nodupz t end.
Fixpoint forallb_i {A} (f : nat -> A -> bool) (i : nat) (l : list A) : bool :=
  match l with [] => true | x :: t => f i x && forallb_i f (S i) t end.

(* ---------------- C05 ---------------- *)
Definition strictly_between (n d b t : Z) : bool := (0 <? cwd n d t) && (cwd n d t <? cwd n d b).

Definition C05_ok (default_rule : bool) (o : osnap) : bool :=
  (2 <=? length (filter op_part (os_players o)))%nat
  && forallb (fun p => negb (op_part p) || live p) (os_players o)                       (* only eligible players are dealt in *)
  && forallb (fun p => negb (live p && negb (op_part p)) || op_fresh p) (os_players o)  (* who is left out is a waiting newcomer *)
  && forallb (fun p => negb (default_rule && op_part p && op_waiting p)
                       || negb (strictly_between (nmax o) (os_dealer o) (os_bb o) (op_seat p))) (os_players o)
  && forallb (fun p => (op_missed p <=? 3)%nat) (os_players o)
  (* who waits, waits for the blind: a seated-in player with chips is left out only while strictly between the button and the big blind *)
  && forallb (fun p => negb (default_rule && live p && negb (op_part p))
                       || strictly_between (nmax o) (os_dealer o) (os_bb o) (op_seat p)) (os_players o).

Definition C05_diag (default_rule : bool) (o : osnap) : nat :=
  if negb (2 <=? length (filter op_part (os_players o)))%nat then 1
  else if negb (forallb (fun p => negb (op_part p) || live p) (os_players o)) then 2
  else if negb (forallb (fun p => negb (live p && negb (op_part p)) || op_fresh p) (os_players o)) then 3
  else if negb (forallb (fun p => negb (default_rule && op_part p && op_waiting p)
                       || negb (strictly_between (nmax o) (os_dealer o) (os_bb o) (op_seat p))) (os_players o)) then 4
  else if negb (forallb (fun p => (op_missed p <=? 3)%nat) (os_players o)) then 5
  else if negb (forallb (fun p => negb (default_rule && live p && negb (op_part p))
                       || strictly_between (nmax o) (os_dealer o) (os_bb o) (op_seat p)) (os_players o)) then 6 else 0.

(* ---------------- C02 ---------------- *)
Definition seat_of_entry (o : osnap) (gi : Z) : Z := match pl o gi with Some p => op_seat p | None => -1 end.

(* strictly increasing clockwise distance from the first entry's seat *)
Fixpoint increasing_from (n s0 : Z) (last : Z) (seats : list Z) : bool :=
  match seats with
  | [] => true
  | s :: t => (last <? cwd n s0 s) && increasing_from n s0 (cwd n s0 s) t
  end.

(* r is the dealt-in seat at minimal positive counter-clockwise distance from a (a itself if it is the only one) *)
Definition dealt_seats (o : osnap) : list Z := map op_seat (filter op_part (os_players o)).
Definition nearest_dealt_ccw (o : osnap) (a r : Z) : bool :=
  existsb (Z.eqb r) (dealt_seats o)
  && forallb (fun c => (c =? a) || (r =? c) || ((negb (r =? a)) && (cwd (nmax o) r a <? cwd (nmax o) c a))) (dealt_seats o).

Definition first_entry_ok (o : osnap) : bool :=
  match os_gpi o with
  | [] => false
  | g0 :: _ =>
      let s0 := seat_of_entry o g0 in
      match dealt_at o (os_dealer o) with
      | Some _ => s0 =? os_dealer o
      | None => let start := match dealt_at o (os_sb o) with Some _ => os_sb o | None => os_bb o end in
                nearest_dealt_ccw o start s0
      end
  end.

Definition C02_list_ok (o : osnap) : bool :=
  nodupz (os_gpi o)
  && forallb (fun gi => match pl o gi with Some p => op_part p | None => false end) (os_gpi o)
  && forallb_i (fun i p => negb (op_part p) || existsb (Z.eqb (Z.of_nat i)) (os_gpi o)) 0 (os_players o)
  && match os_gpi o with
     | [] => false
     | g0 :: rest => increasing_from (nmax o) (seat_of_entry o g0) 0 (map (seat_of_entry o) rest)
     end
  && first_entry_ok o.

(* the stack the hand engine starts with for entry i is that player's bankroll at open *)
Fixpoint stacks_ok (o : osnap) (gpi : list Z) (st : list (Z * list label)) : bool :=
  match gpi, st with
  | [], [] => true
  | g :: gt, s :: stt => match pl o g with Some p => (fst s =? op_bank p) | None => false end && stacks_ok o gt stt
  | _, _ => false
  end.

Definition C02_ok (o : osnap) : bool := C02_list_ok o && stacks_ok o (os_gpi o) (os_settings o).
Definition C02_diag (o : osnap) : nat :=
  if negb (nodupz (os_gpi o)) then 1
  else if negb (forallb (fun gi => match pl o gi with Some p => op_part p | None => false end) (os_gpi o)) then 2
  else if negb (forallb_i (fun i p => negb (op_part p) || existsb (Z.eqb (Z.of_nat i)) (os_gpi o)) 0 (os_players o)) then 3
  else if negb (match os_gpi o with [] => false | g0 :: rest => increasing_from (nmax o) (seat_of_entry o g0) 0 (map (seat_of_entry o) rest) end) then 4
  else if negb (first_entry_ok o) then 5
  else if negb (stacks_ok o (os_gpi o) (os_settings o)) then 6 else 0.

(* ---------------- C06 ---------------- *)
(* the standard order of labels clockwise from the big blind, per number of position slots -
   written out independently of newPositions/rotate *)
Definition std_order (k : nat) : list label :=
  match k with
  | 3%nat => [LBB; LDealer; LSB]
  | 4%nat => [LBB; LUG; LDealer; LSB]
  | 5%nat => [LBB; LUG; LCO; LDealer; LSB]
  | 6%nat => [LBB; LUG; LHJ; LCO; LDealer; LSB]
  | 7%nat => [LBB; LUG; LMP; LHJ; LCO; LDealer; LSB]
  | 8%nat => [LBB; LUG; LUG2; LMP; LHJ; LCO; LDealer; LSB]
  | 9%nat => [LBB; LUG; LUG2; LMP; LMP2; LHJ; LCO; LDealer; LSB]
  | 10%nat => [LBB; LUG; LUG2; LUG3; LMP; LMP2; LHJ; LCO; LDealer; LSB]
  | _ => []
  end.

Definition labels_eqb (a b : list label) : bool :=
  (fix go a b := match a, b with [], [] => true | x :: a', y :: b' => label_eqb x y && go a' b' | _, _ => false end) a b.
Fixpoint lls_eqb (a b : list (list label)) : bool :=
  match a, b with [], [] => true | x :: a', y :: b' => labels_eqb x y && lls_eqb a' b' | _, _ => false end.

Definition dealer_dead (o : osnap) : bool := match dealt_at o (os_dealer o) with Some _ => false | None => true end.
Definition sb_dead (o : osnap) : bool :=
  negb (os_sb o =? os_dealer o) && match dealt_at o (os_sb o) with Some _ => false | None => true end.
Definition slots (o : osnap) : nat :=
  (length (filter op_part (os_players o)) + (if dealer_dead o then 1 else 0) + (if sb_dead o then 1 else 0))%nat.

(* labels of the dealt-in players in clockwise order starting at the big-blind seat *)
Definition labels_clockwise (o : osnap) : list (list label) :=
  flat_map (fun i => match dealt_at o ((os_bb o + i) mod nmax o) with Some p => [op_labels p] | None => [] end)
           (zrange 0 (os_max o)).

Definition expected_labels (o : osnap) : list (list label) :=
  if Nat.eqb (slots o) 2 then [[LBB]; [LDealer; LSB]]
  else map (fun l => [l]) (filter (fun l => negb (label_eqb l LDealer && dealer_dead o) && negb (label_eqb l LSB && sb_dead o))
                                  (std_order (slots o))).

Definition entry_labels_ok (o : osnap) : bool :=
  (fix go (first : bool) (gpi : list Z) (st : list (Z * list label)) :=
     match gpi, st with
     | [], [] => true
     | g :: gt, s :: stt =>
         match pl o g with
         | Some p => (labels_eqb (snd s) (op_labels p)
                      || (first && negb (existsb (label_eqb LDealer) (op_labels p)) && labels_eqb (snd s) (op_labels p ++ [LDealer])))
         | None => false end && go false gt stt
     | _, _ => false
     end) true (os_gpi o) (os_settings o).

Definition C06_labels_ok (o : osnap) : bool :=
  lls_eqb (labels_clockwise o) (expected_labels o)
  && forallb (fun p => op_part p || match op_labels p with [] => true | _ => false end) (os_players o)
  && entry_labels_ok o.

Definition C06_diag (o : osnap) : nat :=
  if negb (lls_eqb (labels_clockwise o) (expected_labels o)) then 1
  else if negb (forallb (fun p => op_part p || match op_labels p with [] => true | _ => false end) (os_players o)) then 2
  else if negb (entry_labels_ok o) then 3 else 0.

(* ---------------- C06, second sentence: the next-big-blind order published at settlement ---------------- *)
Record nsnap := { ns_max : nat; ns_bb : Z; ns_players : list (nat * Z * Z) (* id, seat, bankroll *); ns_next : list nat }.

(* exactly the players with chips, clockwise from the seat after the current big blind *)
Definition expected_next_bb (o : nsnap) : list nat :=
  flat_map (fun i => let seat := (ns_bb o + 1 + i) mod Z.of_nat (ns_max o) in
                     flat_map (fun p => let '(id, s, b) := p in if (s =? seat) && (0 <? b) then [id] else []) (ns_players o))
           (zrange 0 (ns_max o)).
Fixpoint nats_eqb (a b : list nat) : bool :=
  match a, b with [], [] => true | x :: a', y :: b' => Nat.eqb x y && nats_eqb a' b' | _, _ => false end.
Definition C06_next_bb_ok (o : nsnap) : bool := nats_eqb (ns_next o) (expected_next_bb o).

(* C17: a manager call, as read from manager.go by the translator, is the same-named engine
   call on the addressed table and nothing else. *)
From Coq Require Import List String Bool Arith Lia.
Import ListNotations.
From PT Require Import Gen.Gen_Manager Model.Manager.
Open Scope string_scope.

Lemma nat_list_eqb_eq a : forall b, nat_list_eqb a b = true -> a = b.
Proof.
  induction a as [|x a IH]; intros [|y b] H; cbn in H; try discriminate; [reflexivity|].
  apply andb_true_iff in H. destruct H as [E H]. apply Nat.eqb_eq in E. subst. f_equal. apply IH; exact H.
Qed.

Section Proofs.
  Variable estate arg eres : Type.
  Variable is_err : eres -> bool.
  Variable estep : estate -> string -> list arg -> estate * eres.

  Notation registry := (registry estate).
  Notation mstep := (mstep estate arg eres is_err estep).
  Notation spec_step := (spec_step estate arg eres is_err estep).

  Lemma pick_seq (args : list arg) : forall k j, j + k <= List.length args ->
    pick arg args (seq (S j) k) = map Some (firstn k (skipn j args)).
  Proof.
    induction k as [|k IH]; intros j L; [reflexivity|].
    cbn [seq pick map]. specialize (IH (S j)). unfold pick in IH. rewrite IH by lia.
    destruct (nth_error args j) as [a|] eqn:N.
    - assert (skipn j args = a :: skipn (S j) args) as S.
      { clear - N. revert args N. induction j as [|j IHj]; intros [|x t] N; cbn in N; try discriminate.
        - inversion N; reflexivity.
        - cbn. apply IHj; exact N. }
      rewrite S. reflexivity.
    - apply nth_error_None in N. lia.
  Qed.

  Lemma all_some_map_some {A} (l : list A) : all_some (map Some l) = Some l.
  Proof. induction l as [|x t IH]; cbn; [reflexivity|]. rewrite IH; reflexivity. Qed.

  Lemma find_method_name tbl name m : find_method tbl name = Some m -> mm_name m = name /\ In m tbl.
  Proof.
    unfold find_method. intro H. apply find_some in H. destruct H as [Hin E]. apply String.eqb_eq in E. split; assumption.
  Qed.

  (* the central refinement: under the well-formedness of the generated table, the model of the
     manager equals the specification, and the only engine call made is the namesake on that table *)
  Lemma mstep_is_spec tbl reg name id args m :
    wf_table tbl = true -> find_method tbl name = Some m -> List.length args = mm_nparams m - 1 ->
    let '(reg', r, calls) := mstep tbl reg name id args in
    (reg', r) = spec_step reg name id args /\
    calls = match lookup estate reg id with Some _ => [(id, name, args)] | None => [] end.
  Proof.
    intros Hwf Hf Hlen. unfold mstep, Manager.mstep, spec_step, Manager.spec_step. rewrite Hf.
    destruct (find_method_name _ _ _ Hf) as [Hn Hin].
    unfold wf_table in Hwf. rewrite forallb_forall in Hwf. specialize (Hwf m Hin). unfold wf_method in Hwf.
    repeat (apply andb_true_iff in Hwf; destruct Hwf as [Hwf ?]).
    match goal with H : negb (mm_other m) = true |- _ => clear H end.
    match goal with H : Bool.eqb (mm_deletes m) _ = true |- _ => apply eqb_prop in H; rename H into Hdel end.
    match goal with H : mm_notfound m = true |- _ => rename H into Hnf end.
    match goal with H : nat_list_eqb _ _ = true |- _ => apply nat_list_eqb_eq in H; rename H into Hargs end.
    apply String.eqb_eq in Hwf. rename Hwf into Heng.
    destruct (lookup estate reg id) as [e|]; [|rewrite Hnf; split; reflexivity].
    rewrite Hargs. rewrite (pick_seq args (mm_nparams m - 1) 0) by lia. cbn [skipn]. rewrite <- Hlen, firstn_all, all_some_map_some.
    rewrite Heng, Hn. destruct (estep e name args) as [e' r]. rewrite Hdel, Hn. split; reflexivity.
  Qed.

  (* creation and reset, as generated *)
  Lemma mcreate_is_spec reg id ok e :
    mcreate estate [(true, true)] reg id ok e = Manager.spec_create estate reg id ok e.
  Proof. unfold mcreate, Manager.spec_create. cbn. destruct ok; reflexivity. Qed.

  Lemma lookup_insert_same reg id e : lookup estate (insert estate reg id e) id = Some e.
  Proof.
    induction reg as [|[k x] t IH]; cbn; [rewrite String.eqb_refl; reflexivity|].
    destruct (String.eqb k id) eqn:E; cbn; rewrite E; [reflexivity|exact IH].
  Qed.

  Lemma lookup_insert_other reg id id' e : id' <> id -> lookup estate (insert estate reg id e) id' = lookup estate reg id'.
  Proof.
    intro Hne. induction reg as [|[k x] t IH]; cbn.
    - destruct (String.eqb id id') eqn:E; [apply String.eqb_eq in E; congruence|reflexivity].
    - destruct (String.eqb k id) eqn:E; cbn.
      + apply String.eqb_eq in E. subst k. destruct (String.eqb id id') eqn:E2; [apply String.eqb_eq in E2; congruence|reflexivity].
      + destruct (String.eqb k id'); [reflexivity|exact IH].
  Qed.

  (* a refused creation leaves every id as it was; a successful one registers the new engine
     under its id and leaves every other id as it was *)
  Lemma spec_create_effect reg id ok e id' :
    lookup estate (Manager.spec_create estate reg id ok e) id' =
    if ok && String.eqb id' id then Some e else lookup estate reg id'.
  Proof.
    unfold Manager.spec_create. destruct ok; cbn [andb]; [|reflexivity].
    destruct (String.eqb id' id) eqn:E.
    - apply String.eqb_eq in E. subst. apply lookup_insert_same.
    - apply lookup_insert_other. intro H. subst. rewrite String.eqb_refl in E. discriminate.
  Qed.

  (* ---- what the specification gives: effect, isolation, not-found ---- *)
  Lemma lookup_update_same reg id e e0 : lookup estate reg id = Some e0 -> lookup estate (update estate reg id e) id = Some e.
  Proof.
    induction reg as [|[k x] t IH]; cbn; [discriminate|].
    destruct (String.eqb k id) eqn:E; cbn; rewrite E; [reflexivity|exact IH].
  Qed.

  Lemma lookup_update_other reg id id' e : id' <> id -> lookup estate (update estate reg id e) id' = lookup estate reg id'.
  Proof.
    intro Hne. induction reg as [|[k x] t IH]; cbn; [reflexivity|].
    destruct (String.eqb k id) eqn:E; cbn.
    - apply String.eqb_eq in E. subst k. destruct (String.eqb id id') eqn:E2; [apply String.eqb_eq in E2; congruence|reflexivity].
    - destruct (String.eqb k id'); [reflexivity|exact IH].
  Qed.

  Lemma lookup_remove_same reg id : lookup estate (remove estate reg id) id = None.
  Proof.
    induction reg as [|[k x] t IH]; cbn; [reflexivity|]. destruct (String.eqb k id) eqn:E; [exact IH|].
    cbn. rewrite E. exact IH.
  Qed.

  Lemma lookup_remove_other reg id id' : id' <> id -> lookup estate (remove estate reg id) id' = lookup estate reg id'.
  Proof.
    intro Hne. induction reg as [|[k x] t IH]; cbn; [reflexivity|]. destruct (String.eqb k id) eqn:E.
    - apply String.eqb_eq in E. subst k. destruct (String.eqb id id') eqn:E2; [apply String.eqb_eq in E2; congruence|exact IH].
    - cbn. destruct (String.eqb k id'); [reflexivity|exact IH].
  Qed.

  Lemma spec_not_found reg name id args :
    lookup estate reg id = None -> spec_step reg name id args = (reg, MNotFound eres).
  Proof. intro H. unfold spec_step, Manager.spec_step. rewrite H. reflexivity. Qed.

  Lemma spec_effect reg name id args e :
    lookup estate reg id = Some e ->
    let '(e', r) := estep e name args in
    snd (spec_step reg name id args) = MRes eres r /\
    lookup estate (fst (spec_step reg name id args)) id
      = if closes name && negb (is_err r) then None else Some e'.
  Proof.
    intro H. unfold spec_step, Manager.spec_step. rewrite H. destruct (estep e name args) as [e' r].
    split; [reflexivity|]. cbn [fst]. destruct (closes name && negb (is_err r)).
    - apply lookup_remove_same.
    - apply (lookup_update_same _ _ _ _ H).
  Qed.

  Lemma spec_isolation reg name id args id' :
    id' <> id -> lookup estate (fst (spec_step reg name id args)) id' = lookup estate reg id'.
  Proof.
    intro Hne. unfold spec_step, Manager.spec_step. destruct (lookup estate reg id) as [e|]; [|reflexivity].
    destruct (estep e name args) as [e' r]. cbn [fst]. destruct (closes name && negb (is_err r)).
    - rewrite lookup_remove_other by exact Hne. apply lookup_update_other; exact Hne.
    - apply lookup_update_other; exact Hne.
  Qed.
End Proofs.

(* ---- the generated table, as it is on this run ---- *)
Lemma generated_table_wf : wf_table manager_table = true.
Proof. vm_compute. reflexivity. Qed.

Definition covers (tbl : list mmethod) (names : list string) : bool :=
  forallb (fun n => existsb (fun m => String.eqb (mm_name m) n) tbl) names
  && forallb (fun m => existsb (String.eqb (mm_name m)) names) tbl
  && Nat.eqb (List.length tbl) (List.length names).

Lemma generated_create_ok : create_stores = [(true, true)] /\ reset_clears = true.
Proof. split; reflexivity. Qed.

Lemma generated_table_covers : covers manager_table manager_methods = true.
Proof. vm_compute. reflexivity. Qed.

(* C07 / C08 / C12 on the life-cycle model: every statement is for every state, every oracle
   value and every operation (or sequence of operations). *)
From Coq Require Import List ZArith Bool Arith Lia.
Import ListNotations.
From PT Require Import Model.Life.
Open Scope Z_scope.

Definition opens (min : nat) (s : lstate) (op : lop) (o : oracle) : Prop := l_gc (lstep min s op o) <> l_gc s.

Lemma fire_cases s n : fire s n = set_gate s (l_gate_count s) (l_gate_n s) true \/
  ((2 <= l_gate_n s)%nat /\ can_open s n = true /\ l_gc (fire s n) = l_gc s + 1 /\ l_status (fire s n) = SPlaying
   /\ l_has_game (fire s n) = true /\ l_gblind (fire s n) = Some (l_blind s)).
Proof.
  unfold fire. destruct (l_gate_n s <=? 1)%nat eqn:E; [left; reflexivity|].
  destruct (can_open s n) eqn:C; [|left; reflexivity].
  right. apply Nat.leb_gt in E. repeat split; try reflexivity. lia.
Qed.

Definition regate (s : lstate) : lstate := set_gate s (l_gate_count s) (l_gate_n s) false.
Lemma retry_cases min s o : lstep min s LRetry o = s \/ lstep min s LRetry o = fire (regate s) (o_live_in o).
Proof. cbn [lstep]. destruct (_ && _ && _ && _); [right; reflexivity|left; reflexivity]. Qed.

(* ---------- C07 ---------- *)
(* the hand count moves only by +1 and only when the gate's completion opens a hand, which needs:
   no unsettled hand, table neither closed nor released, blinds set, not a break *)
Theorem count_only_by_open min s op o :
  l_gc (lstep min s op o) = l_gc s \/
  (l_gc (lstep min s op o) = l_gc s + 1 /\ (op = LFinish \/ op = LTimeout \/ op = LRetry) /\
   l_has_game s = false /\ l_released s = false /\ status_eqb (l_status s) SClosed = false /\
   is_set (l_blind s) = true /\ is_break (l_blind s) = false /\ l_status (lstep min s op o) = SPlaying).
Proof.
  destruct op; cbn [lstep]; try (left; reflexivity).
  - destruct (l_started s); left; reflexivity.
  - destruct (l_gate_ready s); [left; reflexivity|].
    destruct (fire_cases s (o_live_in o)) as [E|[_ [C [G [St _]]]]]; [rewrite E; left; reflexivity|].
    right. unfold can_open in C. repeat (apply andb_true_iff in C; destruct C as [C ?]).
    repeat split; try assumption; try (left; reflexivity);
      repeat match goal with H : negb _ = true |- _ => apply negb_true_iff in H end; assumption.
  - destruct (l_gate_ready s); [left; reflexivity|].
    destruct (fire_cases s (o_live_in o)) as [E|[_ [C [G [St _]]]]]; [rewrite E; left; reflexivity|].
    right. unfold can_open in C. repeat (apply andb_true_iff in C; destruct C as [C ?]).
    repeat split; try assumption; try (right; left; reflexivity);
      repeat match goal with H : negb _ = true |- _ => apply negb_true_iff in H end; assumption.
  - destruct (_ && _ && _); [|left; reflexivity]. unfold settle_continue.
    destruct (l_released s); [left; reflexivity|]. destruct (_ || _); left; reflexivity.
  - destruct (_ && _ && _ && _); [|left; reflexivity].
    destruct (fire_cases (regate s) (o_live_in o)) as [E|[_ [C [G [St _]]]]]; [fold (regate s); rewrite E; left; reflexivity|].
    right. fold (regate s). unfold can_open in C. cbn in C. repeat (apply andb_true_iff in C; destruct C as [C ?]).
    repeat split; try assumption; try (right; right; reflexivity);
      repeat match goal with H : negb _ = true |- _ => apply negb_true_iff in H end; assumption.
Qed.

(* macro edges of the status for a table left to itself *)
Definition macro_edge (a b : tstatus) : bool :=
  status_eqb a b ||
  match a, b with
  | SCreated, SPlaying | SBalancing, SPlaying | SPausing, SPlaying | SStandby, SPlaying => true   (* opened, then playing *)
  | SPlaying, SStandby | SPlaying, SPausing => true                                               (* settled, then standby / pausing *)
  | _, _ => false
  end.

Lemma status_eqb_refl a : status_eqb a a = true. Proof. destruct a; reflexivity. Qed.

Theorem status_follows_the_cycle min s op o : op <> LPause -> op <> LClose ->
  status_eqb (l_status s) SClosed = false -> status_eqb (l_status s) SRestoring = false ->
  status_eqb (l_status s) SOpened = false -> status_eqb (l_status s) SSettled = false ->
  macro_edge (l_status s) (l_status (lstep min s op o)) = true.
Proof.
  intros NP NC Hc Hr Ho Hs. unfold macro_edge.
  destruct op; cbn [lstep]; try (rewrite status_eqb_refl; reflexivity); try contradiction.
  - destruct (l_started s); cbn; rewrite status_eqb_refl; reflexivity.
  - destruct (l_gate_ready s); [rewrite status_eqb_refl; reflexivity|].
    destruct (fire_cases s (o_live_in o)) as [E|[_ [_ [_ [St _]]]]]; [rewrite E; cbn; rewrite status_eqb_refl; reflexivity|].
    rewrite St. destruct (l_status s); cbn in *; try reflexivity; discriminate.
  - destruct (l_gate_ready s); [rewrite status_eqb_refl; reflexivity|].
    destruct (fire_cases s (o_live_in o)) as [E|[_ [_ [_ [St _]]]]]; [rewrite E; cbn; rewrite status_eqb_refl; reflexivity|].
    rewrite St. destruct (l_status s); cbn in *; try reflexivity; discriminate.
  - destruct (status_eqb (l_status s) SPlaying) eqn:P; cbn [andb]; [|rewrite status_eqb_refl; reflexivity].
    destruct (l_has_game s && o_hand_closed o); [|rewrite status_eqb_refl; reflexivity].
    destruct (l_status s) eqn:E; cbn in P; try discriminate P.
    unfold settle_continue. destruct (l_released s); [cbn; reflexivity|]. destruct (is_break (l_blind s) || (o_alive o <? min)%nat); cbn; reflexivity.
  - destruct (_ && _ && _ && _); [|rewrite status_eqb_refl; reflexivity]. fold (regate s).
    destruct (fire_cases (regate s) (o_live_in o)) as [E|[_ [_ [_ [St _]]]]]; [rewrite E; cbn; rewrite status_eqb_refl; reflexivity|].
    rewrite St. destruct (l_status s); cbn in *; try reflexivity; discriminate.
Qed.

(* after a hand has been settled no hand state is left *)
Theorem settled_hand_is_cleared s min o : l_has_game (settle_continue s min o) = false.
Proof. unfold settle_continue. destruct (l_released s); [reflexivity|]. destruct (_ || _); reflexivity. Qed.

(* ---------- C08 ---------- *)
Theorem pause_iff_break_or_too_few s min o : l_released s = false ->
  status_eqb (l_status (settle_continue s min o)) SPausing = (is_break (l_blind s) || (o_alive o <? min)%nat).
Proof. intro R. unfold settle_continue. rewrite R. destruct (_ || _); reflexivity. Qed.

Theorem otherwise_the_next_hand_is_set_up s min o : l_released s = false ->
  is_break (l_blind s) || (o_alive o <? min)%nat = false ->
  let s' := settle_continue s min o in
  l_status s' = SStandby /\ l_gate_count s' = l_gc s + 1 /\ l_gate_n s' = o_live_in_after o /\ l_gate_ready s' = false.
Proof. intros R P. unfold settle_continue. rewrite R, P. repeat split. Qed.

(* the hand after: once the expected players have signalled (or the timeout elapsed), with two
   seated-in players with chips, blinds set and no break, it opens - no other call is needed *)
Theorem the_next_hand_opens s min o o2 :
  status_eqb (l_status s) SPlaying = true -> l_has_game s = true -> o_hand_closed o = true ->
  l_released s = false -> is_set (l_blind s) = true -> is_break (l_blind s) = false -> (o_alive o <? min)%nat = false ->
  (2 <= o_live_in_after o)%nat -> (2 <= o_live_in o2)%nat ->
  let s1 := lstep min s LPlay o in
  let s2 := lstep min s1 LFinish o2 in
  l_status s2 = SPlaying /\ l_gc s2 = l_gc s + 1 /\ l_has_game s2 = true.
Proof.
  intros P G C R Bs Bb Al L1 L2. cbn zeta.
  assert (E1 : lstep min s LPlay o =
               set_gate {| l_status := SStandby; l_gc := l_gc s; l_has_game := false; l_blind := l_blind s; l_gblind := l_gblind s;
                           l_released := l_released s; l_started := l_started s; l_gate_count := l_gate_count s; l_gate_n := l_gate_n s;
                           l_gate_ready := l_gate_ready s; l_armed := l_armed s |} (l_gc s + 1) (o_live_in_after o) false).
  { cbn [lstep]. rewrite P, G, C. cbn [andb]. unfold settle_continue. rewrite R, Bb, Al. reflexivity. }
  rewrite E1. cbn [lstep set_gate l_gate_ready].
  destruct (fire_cases (set_gate {| l_status := SStandby; l_gc := l_gc s; l_has_game := false; l_blind := l_blind s; l_gblind := l_gblind s;
                           l_released := l_released s; l_started := l_started s; l_gate_count := l_gate_count s; l_gate_n := l_gate_n s;
                           l_gate_ready := l_gate_ready s; l_armed := l_armed s |} (l_gc s + 1) (o_live_in_after o) false) (o_live_in o2))
    as [E|[_ [_ [Gc [St [Hg _]]]]]].
  - (* the gate cannot have stayed shut *)
    exfalso. unfold fire in E. cbn [set_gate l_gate_n] in E.
    assert ((o_live_in_after o <=? 1)%nat = false) as X by (apply Nat.leb_gt; lia). rewrite X in E.
    unfold can_open in E. cbn in E. rewrite R, Bs, Bb in E. cbn in E.
    assert ((2 <=? o_live_in o2)%nat = true) as Y by (apply Nat.leb_le; exact L2).
    destruct (o_live_in o2) as [|[|k]]; cbn in Y; try discriminate; cbn in E; discriminate E.
  - cbn [set_gate l_gc] in Gc. repeat split; assumption.
Qed.

(* ---------- C12 ---------- *)
Theorem a_hand_opens_at_the_level_in_force min s op o :
  l_gc (lstep min s op o) <> l_gc s -> l_gblind (lstep min s op o) = Some (l_blind s).
Proof.
  intro H. destruct op; cbn [lstep] in *; try (exfalso; apply H; reflexivity).
  - destruct (l_started s); exfalso; apply H; reflexivity.
  - destruct (l_gate_ready s); [exfalso; apply H; reflexivity|].
    destruct (fire_cases s (o_live_in o)) as [E|[_ [_ [_ [_ [_ G]]]]]]; [rewrite E in H; exfalso; apply H; reflexivity|exact G].
  - destruct (l_gate_ready s); [exfalso; apply H; reflexivity|].
    destruct (fire_cases s (o_live_in o)) as [E|[_ [_ [_ [_ [_ G]]]]]]; [rewrite E in H; exfalso; apply H; reflexivity|exact G].
  - exfalso. apply H. destruct (_ && _ && _); [|reflexivity]. unfold settle_continue.
    destruct (l_released s); [reflexivity|]. destruct (_ || _); reflexivity.
  - destruct (_ && _ && _ && _); [|exfalso; apply H; reflexivity]. fold (regate s) in *.
    destruct (fire_cases (regate s) (o_live_in o)) as [E|[_ [_ [_ [_ [_ G]]]]]]; [rewrite E in H; exfalso; apply H; reflexivity|exact G].
Qed.

(* while the same hand runs, no operation - in particular no blind update - changes the level it
   was opened with *)
Theorem the_level_of_a_running_hand_is_fixed min s op o :
  l_has_game s = true -> l_gblind (lstep min s op o) = l_gblind s.
Proof.
  intro G. destruct op; cbn [lstep]; try reflexivity.
  - destruct (l_started s); reflexivity.
  - destruct (l_gate_ready s); [reflexivity|]. unfold fire. destruct (_ <=? _)%nat; [reflexivity|].
    unfold can_open. rewrite G. reflexivity.
  - destruct (l_gate_ready s); [reflexivity|]. unfold fire. destruct (_ <=? _)%nat; [reflexivity|].
    unfold can_open. rewrite G. reflexivity.
  - destruct (_ && _ && _); [|reflexivity]. unfold settle_continue. destruct (l_released s); [reflexivity|].
    destruct (_ || _); reflexivity.
  - destruct (_ && _ && _ && _); [|reflexivity]. unfold fire. cbn. destruct (_ <=? _)%nat; [reflexivity|].
    unfold can_open. cbn. rewrite G. reflexivity.
Qed.

Fixpoint lrun (min : nat) (s : lstate) (l : list (lop * oracle)) : lstate :=
  match l with [] => s | (op, o) :: t => lrun min (lstep min s op o) t end.

Theorem updates_affect_only_later_hands min l : forall s,
  l_has_game s = true -> Forall (fun x => o_hand_closed (snd x) = false) l ->
  l_gblind (lrun min s l) = l_gblind s /\ l_has_game (lrun min s l) = true.
Proof.
  induction l as [|[op o] t IH]; intros s G F; [split; [reflexivity|exact G]|].
  inversion F as [|? ? Hc Ft]; subst. cbn [snd] in Hc. cbn [lrun].
  assert (G' : l_has_game (lstep min s op o) = true).
  { destruct op; cbn [lstep]; try exact G.
    - destruct (l_started s); exact G.
    - destruct (l_gate_ready s); [exact G|]. unfold fire. destruct (_ <=? _)%nat; [exact G|]. unfold can_open. rewrite G. exact G.
    - destruct (l_gate_ready s); [exact G|]. unfold fire. destruct (_ <=? _)%nat; [exact G|]. unfold can_open. rewrite G. exact G.
    - rewrite Hc, andb_false_r. exact G.
    - destruct (_ && _ && _ && _); [|exact G]. unfold fire. cbn. destruct (_ <=? _)%nat; [exact G|]. unfold can_open. cbn. rewrite G. exact G. }
  destruct (IH _ G' Ft) as [I1 I2]. split; [|exact I2].
  rewrite I1. apply the_level_of_a_running_hand_is_fixed; exact G.
Qed.

(* a break level: no hand opens, the table pauses after the current hand, and a table created on a
   break starts paused *)
Theorem no_hand_on_a_break min s op o : is_break (l_blind s) = true -> l_gc (lstep min s op o) = l_gc s.
Proof.
  intro B. destruct (count_only_by_open min s op o) as [E|[_ [_ [_ [_ [_ [_ [Nb _]]]]]]]]; [exact E|congruence].
Qed.

Theorem created_on_a_break_starts_paused m b : b_level b = -1 -> l_status (linit m b) = SPausing.
Proof. intro H. unfold linit. rewrite H. reflexivity. Qed.

From Coq Require Import List ZArith Bool Arith Lia.
Import ListNotations.
From PT Require Import Model.Collect.
Local Close Scope Z_scope.
Local Open Scope nat_scope.

Lemma deadline_ok_holds : deadline_ok = true.  Proof. vm_compute. reflexivity. Qed.
Lemma collect_ok_holds : collect_ok = true.  Proof. vm_compute. reflexivity. Qed.

(* ---------------- ready group ---------------- *)
Definition answered (l : list nat) (i : nat) : bool := existsb (Nat.eqb i) l.
Definition keys (g : rgroup) : list nat := map fst (rg_parts g).

(* state after a run from an open group: a participant is ready iff it has answered *)
Definition parts_after (asked l : list nat) : list (nat * bool) := map (fun i => (i, answered l i)) asked.

Lemma answer_parts asked l i :
  map (fun kp : nat * bool => if Nat.eqb (fst kp) i then (fst kp, true) else kp) (parts_after asked l) = parts_after asked (l ++ [i]).
Proof.
  unfold parts_after. rewrite map_map. apply map_ext. intros k. cbn [fst]. unfold answered. rewrite existsb_app. cbn.
  rewrite orb_false_r. destruct (Nat.eqb k i) eqn:E; [rewrite orb_true_r|rewrite orb_false_r]; reflexivity.
Qed.

Definition complete (asked l : list nat) : bool := forallb (answered l) asked.
Lemma all_ready_after asked l : all_ready (parts_after asked l) = complete asked l.
Proof. unfold all_ready, parts_after, complete. induction asked as [|a t IH]; [reflexivity|]. cbn. rewrite IH. reflexivity. Qed.

Lemma complete_mono asked l i : complete asked l = true -> complete asked (l ++ [i]) = true.
Proof.
  unfold complete. rewrite !forallb_forall. intros H x Hx. specialize (H x Hx). unfold answered in *. rewrite existsb_app, H. reflexivity.
Qed.

Lemma complete_app asked l t : complete asked l = true -> complete asked (l ++ t) = true.
Proof.
  unfold complete. rewrite !forallb_forall. intros H x Hx. specialize (H x Hx). unfold answered in *. rewrite existsb_app, H. reflexivity.
Qed.

(* the run, in closed form: the completion starts exactly once, at the first moment everybody asked has answered *)
Lemma run_closed asked : forall l done,
  rg_run {| rg_parts := parts_after asked done; rg_completed := complete asked done |} l =
  ({| rg_parts := parts_after asked (done ++ l); rg_completed := complete asked (done ++ l) |},
   if complete asked done then 0 else if complete asked (done ++ l) then 1 else 0).
Proof.
  induction l as [|i t IH]; intros done.
  - cbn. rewrite app_nil_r. destruct (complete asked done); reflexivity.
  - cbn [rg_run]. unfold rg_answer. cbn [rg_parts rg_completed]. rewrite answer_parts, all_ready_after.
    assert (E : complete asked done || complete asked (done ++ [i]) && negb (complete asked done) = complete asked (done ++ [i])).
    { destruct (complete asked done) eqn:C; [rewrite (complete_mono _ _ i C); reflexivity|]. cbn. rewrite andb_true_r. reflexivity. }
    rewrite E, IH. replace ((done ++ [i]) ++ t) with (done ++ i :: t) by (rewrite <- app_assoc; reflexivity).
    f_equal. destruct (complete asked done) eqn:C.
    + rewrite (complete_mono _ _ i C). reflexivity.
    + cbn [negb andb]. rewrite andb_true_r. destruct (complete asked (done ++ [i])) eqn:C1; [|reflexivity].
      replace (done ++ i :: t) with ((done ++ [i]) ++ t) by (rewrite <- app_assoc; reflexivity). rewrite (complete_app _ _ t C1). reflexivity.
Qed.

Lemma open_is_after asked : asked <> [] -> rg_open asked = {| rg_parts := parts_after asked []; rg_completed := complete asked [] |}.
Proof. intros Hne. unfold rg_open, parts_after, complete. f_equal. destruct asked; [contradiction|reflexivity]. Qed.

(* C11: the hand moves on exactly when everyone asked has answered: not before, and once *)
Theorem advances_exactly_when_all_answered asked l : asked <> [] ->
  snd (rg_run (rg_open asked) l) = if complete asked l then 1 else 0.
Proof.
  intros Hne. rewrite (open_is_after _ Hne), run_closed. cbn [app snd].
  assert (complete asked [] = false) as -> by (destruct asked; [contradiction|reflexivity]). reflexivity.
Qed.

(* ... in particular not while a single answer is withheld, whatever else arrives and however often *)
Corollary withheld_blocks asked l i : In i asked -> ~ In i l -> snd (rg_run (rg_open asked) l) = 0.
Proof.
  intros Hin Hni. assert (Hne : asked <> []) by (destruct asked; [contradiction|discriminate]).
  rewrite (advances_exactly_when_all_answered _ _ Hne).
  assert (complete asked l = false) as ->; [|reflexivity].
  unfold complete. apply not_true_is_false. rewrite forallb_forall. intros H. specialize (H i Hin).
  unfold answered in H. apply existsb_exists in H. destruct H as (x & Hx & E). apply Nat.eqb_eq in E. subst. contradiction.
Qed.

(* ... and for every order in which the participants answer *)
Corollary any_order_completes asked l : asked <> [] -> incl asked l -> snd (rg_run (rg_open asked) l) = 1.
Proof.
  intros Hne Hinc. rewrite (advances_exactly_when_all_answered _ _ Hne).
  assert (complete asked l = true) as ->; [|reflexivity].
  unfold complete. apply forallb_forall. intros x Hx. unfold answered. apply existsb_exists. exists x. split; [apply Hinc; exact Hx|apply Nat.eqb_refl].
Qed.

(* the response timeout answers for everybody still awaited: the hand then moves on by itself *)
Theorem timeout_moves_on asked l : asked <> [] -> complete asked l = false ->
  snd (rg_timeout (fst (rg_run (rg_open asked) l))) = 1.
Proof.
  intros Hne Hc. rewrite (open_is_after _ Hne), run_closed. cbn [app fst]. unfold rg_timeout. cbn [rg_parts].
  rewrite run_closed. cbn [snd]. rewrite Hc.
  assert (complete asked (l ++ map fst (filter (fun kp : nat * bool => negb (snd kp)) (parts_after asked l))) = true) as ->; [|reflexivity].
  unfold complete. apply forallb_forall. intros x Hx. unfold answered. rewrite existsb_app.
  destruct (existsb (Nat.eqb x) l) eqn:E; [reflexivity|]. cbn [orb]. apply existsb_exists. exists x. split; [|apply Nat.eqb_refl].
  apply in_map_iff. exists (x, false). split; [reflexivity|]. apply filter_In. split; [|reflexivity].
  unfold parts_after. apply in_map_iff. exists x. unfold answered. rewrite E. auto.
Qed.

(* whom the collection points ask *)
Section Asked.
Hypothesis COK : collect_ok = true.

Lemma in_idxs {A} (l : list A) i : In i (idxs l) <-> i < length l.
Proof. unfold idxs. rewrite in_seq. lia. Qed.

Theorem ready_and_ante_ask_everybody q ev i : ev = EReady \/ ev = EAnte -> (In i (asked_at ev q) <-> i < length (h_entries q)).
Proof.
  unfold collect_ok in COK. rewrite !andb_true_iff in COK. destruct COK as [[[[[[[[Hr Ha] _] _] _] _] _] _] _].
  intros [->| ->]; cbn [asked_at]; rewrite ?Hr, ?Ha; apply in_idxs.
Qed.

Lemma rules_complete k : In k blind_ask_rules.
Proof.
  unfold collect_ok in COK. rewrite !andb_true_iff in COK. destruct COK as [[[[_ _] H1] H2] H3].
  rewrite existsb_exists in H1, H2, H3.
  destruct k; [destruct H1 as (x & Hx & E) | destruct H2 as (x & Hx & E) | destruct H3 as (x & Hx & E)]; destruct x; try discriminate; exact Hx.
Qed.

Theorem blinds_ask_only_blind_positions q i :
  In i (asked_at EBlinds q) <->
  exists e, nth_error (h_entries q) i = Some e /\
    ((Z.ltb 0 (h_bbb q) && he_bb e) || (Z.ltb 0 (h_bsb q) && he_sb e) || (Z.ltb 0 (h_bd q) && he_dealer e)) = true.
Proof.
  cbn [asked_at]. rewrite filter_In, in_idxs. split.
  - intros [Hlt H]. destruct (nth_error (h_entries q) i) as [e|] eqn:E; [|discriminate]. exists e. split; [reflexivity|].
    unfold blind_asked in H. apply existsb_exists in H. destruct H as (k & _ & Hk). destruct k; rewrite Hk; rewrite ?orb_true_r; reflexivity.
  - intros (e & E & H). split; [apply nth_error_Some; congruence|]. rewrite E. unfold blind_asked. apply existsb_exists.
    rewrite !orb_true_iff in H. destruct H as [[H|H]|H]; [exists BlBB | exists BlSB | exists BlDealer]; (split; [apply rules_complete|exact H]).
Qed.
End Asked.

(* ---------------- deadline ---------------- *)
Local Open Scope Z_scope.
Section Deadline.
Hypothesis DOK : deadline_ok = true.

Lemma wagers_valid a : wager_act a = true -> has_act a deadline_valid_actions = true.
Proof.
  unfold deadline_ok in DOK. rewrite !andb_true_iff in DOK. destruct DOK as [[_ H] _]. rewrite forallb_forall in H.
  intros Hw. apply H. destruct a; cbn in Hw; try discriminate; cbn; auto 10.
Qed.

(* a betting round asks a player who has not yet acted to choose a wager action *)
Theorem deadline_set at_ d now r allowed acted :
  r <> RNoRound -> allowed <> [] -> acted = false -> forallb wager_act allowed = true ->
  dstep at_ d (DHandEvent ERoundStarted now true r allowed acted) = (now + at_, None).
Proof.
  intros Hr Hne -> Hall. cbn [dstep hev_eqb andb].
  assert (negb (rnd_eqb r RNoRound) = true) as -> by (destruct r; try reflexivity; contradiction).
  assert (asks_unmoved allowed false = true) as ->; [|reflexivity].
  unfold asks_unmoved. destruct allowed; [contradiction|]. cbn [negb andb]. rewrite forallb_forall in Hall |- *.
  intros x Hx. apply wagers_valid, Hall, Hx.
Qed.

Theorem deadline_cleared at_ d : dstep at_ d DRoundClosed = (0, None) /\ dstep at_ d DContinue = (0, None).
Proof. split; reflexivity. Qed.

(* any number of extensions: later by exactly the requested seconds, each returning the new deadline *)
Theorem extensions_exact at_ d l :
  drun at_ d (map DExtend l) = d + fold_right Z.add 0 l /\
  forall s, dstep at_ d (DExtend s) = (d + s, Some (d + s)).
Proof.
  split; [|reflexivity]. revert d. induction l as [|s t IH]; intros d; cbn; [lia|]. unfold drun in IH. rewrite IH. lia.
Qed.

(* every other hand event leaves the deadline alone *)
Theorem deadline_unchanged_otherwise at_ d ev now playing r allowed acted :
  (playing && hev_eqb ev ERoundStarted && negb (rnd_eqb r RNoRound) && asks_unmoved allowed acted) = false ->
  dstep at_ d (DHandEvent ev now playing r allowed acted) = (d, None).
Proof. intros H. cbn [dstep]. rewrite H. reflexivity. Qed.
End Deadline.

From Coq Require Import List ZArith Bool Arith Lia.
Import ListNotations.
From PT Require Import Model.Actors.
Open Scope Z_scope.

Lemma acts_eqb_eq a b : acts_eqb a b = true -> a = b.
Proof.
  revert b. induction a as [|x a IH]; intros [|y b] H; cbn in H; try discriminate; [reflexivity|].
  apply andb_true_iff in H. destruct H as [H1 H2]. f_equal; [destruct x, y; cbn in H1; congruence | apply IH; exact H2].
Qed.

Ltac zb := repeat match goal with
  | H : (_ <=? _) = true |- _ => apply Z.leb_le in H
  | H : (_ <=? _) = false |- _ => apply Z.leb_gt in H
  | H : (_ <? _) = true |- _ => apply Z.ltb_lt in H
  | H : (_ <? _) = false |- _ => apply Z.ltb_ge in H
  | H : (_ =? _) = true |- _ => apply Z.eqb_eq in H
  | H : (_ =? _) = false |- _ => apply Z.eqb_neq in H
  end.
Ltac zg := repeat match goal with
  | |- (_ <=? _) = true => apply Z.leb_le
  | |- (_ <? _) = true => apply Z.ltb_lt
  | |- (_ =? _) = true => apply Z.eqb_eq
  | |- (_ =? _) = false => apply Z.eqb_neq
  | |- (_ <? _) = false => apply Z.ltb_ge
  | |- (_ <=? _) = false => apply Z.leb_gt
  end.

(* C18: whatever the bot draws, the move is one the hand engine accepts, with a legal amount *)
Theorem bot_move_is_legal v pick k m :
  asked_ok v = true -> draw_ok v pick k -> bot_move v pick k = Some m ->
  pf_accepts v m = true /\ amount_ok v m = true.
Proof.
  intros Hok (Hin & Hk0 & Hkb & Hkr) Hm. unfold asked_ok in Hok.
  destruct (pv_event v) eqn:Ev; try discriminate.
  - (* readiness *) apply acts_eqb_eq in Hok. unfold bot_move in Hm. rewrite Hok in Hm. cbn in Hm. inversion Hm; subst.
    unfold pf_accepts. rewrite Hok. auto.
  - (* ante *) apply acts_eqb_eq in Hok. unfold bot_move, mandatory_pay in Hm. rewrite Hok, Ev in Hm. cbn in Hm. inversion Hm; subst.
    unfold pf_accepts, amount_ok, mandatory_pay. rewrite Hok, Ev. cbn. rewrite Z.eqb_refl. auto.
  - (* blinds *) apply acts_eqb_eq in Hok. unfold bot_move, mandatory_pay in Hm. rewrite Hok, Ev in Hm. cbn in Hm. inversion Hm; subst.
    unfold pf_accepts, amount_ok, mandatory_pay. rewrite Hok, Ev. cbn. rewrite Z.eqb_refl. auto.
  - (* a betting round *)
    rewrite !andb_true_iff in Hok. destruct Hok as [[[[[[[Ha Hw0] Hwi] Hst] Hcw] Hmb] Hprs0] Hprs1]. apply acts_eqb_eq in Ha.
    apply orb_true_iff in Hprs1. assert (Hprs : pv_cw v = 0 \/ 0 < pv_prs v) by (destruct Hprs1 as [H|H]; [left; apply Z.eqb_eq; exact H | right; apply Z.ltb_lt; exact H]). clear Hprs1. zb.
    unfold bot_move, bot_ai, mandatory_pay in Hm. unfold pf_accepts, amount_ok. rewrite Ha in *. rewrite Ev in Hm.
    unfold pf_available in *.
    destruct (pv_fold v); [cbn in Hm; inversion Hm; auto|].
    destruct (pv_stack v =? 0) eqn:Es; [cbn in Hm; inversion Hm; auto|]. zb.
    destruct (pv_wager v <? pv_cw v) eqn:Ewc; zb.
    + destruct (pv_cw v <? pv_init v) eqn:Eci; zb.
      * destruct (pv_cw v + pv_prs v <? pv_init v) eqn:Er; zb.
        -- cbn in Hin. cbn in Hm. destruct Hin as [<-|[<-|[<-|[<-|[]]]]]; cbn in Hm.
           ++ injection Hm as <-. cbn. auto.
           ++ injection Hm as <-. cbn. auto.
           ++ injection Hm as <-. cbn. auto.
           ++ assert (pv_init v <=? pv_cw v + pv_prs v = false) as E by (zg; lia). rewrite E in Hm. injection Hm as <-. cbn.
              assert (k < pv_init v - (pv_cw v + pv_prs v)) by (apply Hkr; [reflexivity|lia]).
              assert (pv_cw v + pv_prs v + k =? 0 = false) as -> by (zg; lia).
              assert (pv_cw v <=? pv_cw v + pv_prs v + k = true) as -> by (zg; lia).
              assert (pv_cw v + pv_prs v + k =? pv_cw v = false) as -> by (zg; lia).
              assert (pv_init v <=? pv_cw v + pv_prs v + k = false) as -> by (zg; lia).
              assert (pv_cw v + pv_prs v + k - pv_cw v <? pv_prs v = false) as -> by (zg; lia).
              assert (pv_cw v + pv_prs v + k <=? pv_init v = true) as -> by (zg; lia). auto.
        -- cbn in Hin. cbn in Hm. destruct Hin as [<-|[<-|[<-|[]]]]; cbn in Hm; injection Hm as <-; cbn; auto.
      * cbn in Hin. cbn in Hm. destruct Hin as [<-|[<-|[]]]; cbn in Hm; injection Hm as <-; cbn; auto.
    + destruct (pv_minibet v <=? pv_init v) eqn:Emi; zb.
      * destruct (pv_cw v =? 0) eqn:Ec0; zb.
        -- cbn in Hin. cbn in Hm. destruct Hin as [<-|[<-|[<-|[]]]]; cbn in Hm.
           ++ injection Hm as <-. cbn. auto.
           ++ injection Hm as <-. cbn. auto.
           ++ destruct (pv_init v <=? pv_minibet v) eqn:Eim; zb; injection Hm as <-; cbn.
              ** assert (0 <? pv_init v = true) as -> by (zg; lia). rewrite Z.leb_refl. auto.
              ** assert (k < pv_init v - pv_minibet v) by (apply Hkb; [reflexivity|lia]).
                 assert (0 <? pv_minibet v + k = true) as -> by (zg; lia). assert (pv_minibet v + k <=? pv_init v = true) as -> by (zg; lia). auto.
        -- cbn in Hin. cbn in Hm. destruct Hin as [<-|[<-|[<-|[]]]]; cbn in Hm.
           ++ injection Hm as <-. cbn. auto.
           ++ injection Hm as <-. cbn. auto.
           ++ destruct (pv_init v <=? pv_cw v + pv_prs v) eqn:Eim; zb; injection Hm as <-; cbn.
              ** (* the whole stack as the raise level: the engine turns it into an all-in *)
                 assert (pv_init v =? 0 = false) as -> by (zg; lia).
                 assert (pv_cw v <=? pv_init v = true) as -> by (zg; lia).
                 assert (pv_init v =? pv_cw v = false) as -> by (zg; lia).
                 rewrite Z.leb_refl. cbn. auto.
              ** assert (k < pv_init v - (pv_cw v + pv_prs v)) by (apply Hkr; [reflexivity|lia]).
                 assert (pv_cw v + pv_prs v + k =? 0 = false) as -> by (zg; lia).
                 assert (pv_cw v <=? pv_cw v + pv_prs v + k = true) as -> by (zg; lia).
                 assert (pv_cw v + pv_prs v + k =? pv_cw v = false) as -> by (zg; lia).
                 assert (pv_init v <=? pv_cw v + pv_prs v + k = false) as -> by (zg; lia).
                 assert (pv_cw v + pv_prs v + k - pv_cw v <? pv_prs v = false) as -> by (zg; lia).
                 assert (pv_cw v + pv_prs v + k <=? pv_init v = true) as -> by (zg; lia). auto.
      * cbn in Hin. cbn in Hm. destruct Hin as [<-|[<-|[]]]; cbn in Hm; injection Hm as <-; cbn; auto.
Qed.

(* exactly one move whenever it is asked *)
Theorem bot_answers_when_asked v pick k : pv_allowed v <> [] -> exists m, bot_move v pick k = Some m.
Proof.
  intros Hne. unfold bot_move. destruct (has_act AReady _); [eauto|]. destruct (has_act APass _); [eauto|].
  destruct (if has_act APay (pv_allowed v) then mandatory_pay v else None); [eauto|].
  unfold bot_ai. destruct (pv_allowed v); [contradiction|eauto].
Qed.

(* it stays silent when not asked or when its view is stale *)
Theorem bot_moves_only_on_a_fresh_request b allowed :
  bot_reacts b allowed = BMove ->
  bv_at_table b = true /\ bv_sat_in b = true /\ bv_playing b = true /\ bv_dealt_in b = true /\ allowed <> []
  /\ (bv_has_game b = true -> bv_new_game b = true \/ bv_fresher b = true).
Proof.
  unfold bot_reacts. destruct (bv_at_table b); cbn; [|discriminate]. destruct (bv_sat_in b); cbn; [|discriminate].
  destruct (bv_has_game b && negb (bv_new_game b) && negb (bv_fresher b)) eqn:St; [discriminate|].
  destruct (bv_playing b); cbn; [|discriminate]. destruct (bv_dealt_in b); cbn; [|discriminate].
  destruct allowed; [discriminate|]. intros _. repeat split; try discriminate.
  intros Hg. rewrite Hg in St. cbn in St. destruct (bv_new_game b); [auto|]. destruct (bv_fresher b); [auto|discriminate].
Qed.

(* C19: auto-play never volunteers chips *)
Definition conservative (v : pview) (m : move) : Prop :=
  match m with
  | MvReady => has_act AReady (pv_allowed v) = true
  | MvCheck => has_act ACheck (pv_allowed v) = true /\ has_act AReady (pv_allowed v) = false
  | MvFold => has_act AFold (pv_allowed v) = true /\ has_act AReady (pv_allowed v) = false /\ has_act ACheck (pv_allowed v) = false
  | MvPay c => mandatory_pay v = Some (MvPay c)
  | MvPass => has_act APass (pv_allowed v) = true
  | _ => False
  end.

Theorem automate_is_conservative v m : automate v = Some m -> conservative v m.
Proof.
  unfold automate. destruct (has_act AReady _) eqn:R; [intros H; inversion H; exact R|].
  destruct (has_act ACheck _) eqn:C; [intros H; inversion H; cbn; auto|].
  destruct (has_act AFold _) eqn:F; [intros H; inversion H; cbn; auto|].
  unfold mandatory_pay. destruct (pv_event v) eqn:Ev; intros H; inversion H; subst; cbn; unfold mandatory_pay; rewrite Ev; reflexivity.
Qed.

Theorem player_move_is_conservative st at_ v m d : player_move st at_ v = Some (m, d) ->
  conservative v m /\
  (m <> MvPass -> st <> PSuspended -> d = at_) /\        (* nothing before the thinking time has elapsed *)
  (m = MvPass \/ st = PSuspended -> d = 0).
Proof.
  unfold player_move. destruct (has_act APass _) eqn:P.
  - intros H. inversion H; subst. cbn. split; [exact P|]. split; [congruence|auto].
  - destruct (automate v) as [m'|] eqn:A; [|discriminate]. intros H. inversion H; subst.
    split; [apply automate_is_conservative; exact A|]. split.
    + intros _ Hs. destruct st; congruence.
    + intros [Hm|Hs]; [|rewrite Hs; reflexivity]. rewrite Hm in A. apply automate_is_conservative in A. cbn in A. congruence.
Qed.

(* C20: what a non-system observer is shown *)
Theorem observer_never_sees_private g : hides_private (as_observer g) = true.
Proof.
  unfold hides_private, as_observer. cbn. rewrite forallb_forall. intros p Hin. apply in_map_iff in Hin. destruct Hin as (q & <- & _).
  destruct (og_closed g && negb (op_fold q)) eqn:E; [cbn; rewrite E; reflexivity|cbn; rewrite orb_true_r; reflexivity].
Qed.
Theorem observer_view_filtered system g v : system = false -> observer_view system true (Some g) = Some v -> hides_private v = true.
Proof. intros -> H. cbn in H. inversion H. apply observer_never_sees_private. Qed.

Local Close Scope Z_scope.
Local Open Scope nat_scope.
(* each actor gets its own copy: a heap of table objects; the adapter allocates a fresh object for the actor *)
Definition heap := list ogame.
Definition deliver (h : heap) (src : nat) : heap * nat := match nth_error h src with Some g => (h ++ [g], length h) | None => (h, src) end.
Fixpoint set_nth (h : heap) (a : nat) (g : ogame) : heap :=
  match h, a with [], _ => [] | _ :: t, O => g :: t | x :: t, S k => x :: set_nth t k g end.
Definition mutate (h : heap) (a : nat) (f : ogame -> ogame) : heap := match nth_error h a with Some g => set_nth h a (f g) | None => h end.

Lemma nth_set_nth_other h a b g : a <> b -> nth_error (set_nth h a g) b = nth_error h b.
Proof. revert a b. induction h as [|x t IH]; intros [|a] [|b] H; cbn; try reflexivity; [contradiction|apply IH; congruence]. Qed.

(* whatever an actor does to the table it was given, the engine's table and every other actor's copy stay as they were *)
Theorem own_copy h src f other :
  src < length h -> other < length h ->
  let '(h1, a) := deliver h src in
  nth_error (mutate h1 a f) other = nth_error h other /\ a <> other.
Proof.
  intros Hs Ho. unfold deliver. destruct (nth_error h src) as [g|] eqn:E; [|apply nth_error_None in E; lia].
  assert (Hne : length h <> other) by lia. split; [|exact Hne].
  unfold mutate. rewrite nth_error_app2 by lia. rewrite Nat.sub_diag. cbn.
  rewrite nth_set_nth_other by exact Hne. apply nth_error_app1. exact Ho.
Qed.

(* ---------- the sources have the shape the models were written after (facts regenerated on every run) ---------- *)
From Coq Require Import String.
From PT Require Import Gen.Gen_Actors.
Local Open Scope string_scope.
Definition chain_eqb (a b : list (act * string)) : bool :=
  Nat.eqb (List.length a) (List.length b) && forallb (fun xy => act_eqb (fst (fst xy)) (fst (snd xy)) && String.eqb (snd (fst xy)) (snd (snd xy))) (combine a b).
Definition subset_s (a b : list string) : bool := forallb (fun x => existsb (String.eqb x) b) a.

Definition bot_ok : bool :=
  chain_eqb bot_chain [(AReady, "Ready"); (APass, "Pass"); (APay, "PaySwitch")] && bot_pay_is_mandatory_size && bot_bet_clamped && bot_raise_clamped
  && bot_picks_among_allowed && bot_filters_stale_views.
Definition player_ok : bool :=
  chain_eqb automate_chain [(AReady, "Ready"); (ACheck, "Check"); (AFold, "Fold")] && subset_s automate_calls ["Ready"; "Check"; "Fold"; "Pay"]
  && automate_pay_is_mandatory_size && player_passes_at_once && player_suspended_automates_at_once && player_waits_action_time
  && subset_s player_request_calls ["Pass"].
Definition observer_ok : bool :=
  observer_filters_whenever_a_hand_is_attached && observer_filter_skipped_only_in_system_mode
  && observer_filters_before_publishing && adapter_hands_out_a_copy.
Lemma bot_ok_holds : bot_ok = true.  Proof. vm_compute. reflexivity. Qed.
Lemma player_ok_holds : player_ok = true.  Proof. vm_compute. reflexivity. Qed.
Lemma observer_ok_holds : observer_ok = true.  Proof. vm_compute. reflexivity. Qed.
Lemma observer_always_filters : observer_filters_whenever_a_hand_is_attached = true.  Proof. vm_compute. reflexivity. Qed.

(* Proofs about the in-hand model (Model/HandRules.v).  Every theorem is stated for ALL tables the
   translator could regenerate that pass the boolean checks [rules_ok] / [emits_ok] / [stats_ok];
   that the CURRENT sources pass them is a separate lemma proved by computation, so a source change
   that breaks a check breaks exactly that lemma. *)
From Coq Require Import List ZArith Bool Arith Lia.
Import ListNotations.
From PT Require Import Model.HandRules.
Open Scope Z_scope.

Lemma rules_ok_holds : rules_ok = true.  Proof. vm_compute. reflexivity. Qed.
Lemma emits_ok_holds : emits_ok = true.  Proof. vm_compute. reflexivity. Qed.

Lemma in_all_acts a : a <> AExtend -> a <> ALeave -> In a all_acts.
Proof. destruct a; cbn; intros H H'; try tauto; congruence. Qed.

Section Rules.
Hypothesis ROK : rules_ok = true.

Lemma row_ok_of a : In a all_acts -> row_ok a = true.
Proof.
  intros Hin. unfold rules_ok in ROK. rewrite !andb_true_iff in ROK.
  destruct ROK as [[[[Hall _] _] _] _]. rewrite forallb_forall in Hall. auto.
Qed.

Lemma flags_of_rules : play_move_requires_current = true /\ action_move_requires_allowed = true
                       /\ game_move_requires_playing = true /\ game_move_requires_entry = true.
Proof. unfold rules_ok in ROK. rewrite !andb_true_iff in ROK. tauto. Qed.

(* C10, first sentence: who can be accepted *)
Theorem accepted_only_awaited pre c ok :
  In (hc_action c) all_acts ->
  decide pre c ok = Accepted ->
  is_playing (h_status pre) = true /\
  exists gp e, index_of (hc_player c) 0 (h_entries pre) = Some gp /\ nth_error (h_entries pre) gp = Some e /\
    (is_group_act (hc_action c) = true -> has_act (hc_action c) (he_allowed e) = true) /\
    (is_group_act (hc_action c) = false ->
       Z.of_nat gp = h_cur pre /\ ok = true /\ (hc_action c = APass -> has_act APass (he_allowed e) = true)).
Proof.
  intros Hin Hd. pose proof (row_ok_of _ Hin) as Hr.
  destruct flags_of_rules as (Hcur & Hall & Hplay & Hentry).
  unfold decide in Hd. unfold row_ok in Hr.
  destruct (row_of (hc_action c)) as [r|]; [|discriminate].
  destruct (grow_of (hc_action c)) as [g|]; [|discriminate].
  rewrite !andb_true_iff in Hr. destruct Hr as [[[[[[[Hl Hv] Hf] Hg] Hs] Ha] Hrep] Hkind].
  rewrite Hv, Hplay in Hd. cbn [andb] in Hd.
  destruct (is_playing (h_status pre)); cbn [negb] in Hd; [|discriminate].
  split; [reflexivity|].
  destruct (index_of (hc_player c) 0 (h_entries pre)) as [gp|]; [|discriminate].
  destruct (nth_error (h_entries pre) gp) as [e|] eqn:Hnth; [|discriminate].
  exists gp, e. split; [reflexivity|]. split; [exact Hnth|].
  destruct (wrapper_accepts g gp e pre && (gr_answers_group g || ok)) eqn:Hw; [|discriminate].
  rewrite andb_true_iff in Hw. destruct Hw as [Hw Hok].
  unfold wrapper_accepts in Hw. rewrite andb_true_iff in Hw. destruct Hw as [Hw1 Hw2].
  destruct (is_group_act (hc_action c)) eqn:Hgrp.
  - rewrite andb_true_iff in Hkind. destruct Hkind as [Hk _].
    split; [|discriminate]. intros _.
    destruct (gr_validation g) as [| |b]; try discriminate.
    rewrite Hall in Hw1. cbn [negb orb] in Hw1.
    assert (hc_action c = b) as -> by (destruct (hc_action c), b; cbn in Hk; congruence).
    exact Hw1.
  - rewrite !andb_true_iff in Hkind. destruct Hkind as [[Hk Hng] Hpass].
    split; [discriminate|]. intros _.
    destruct (gr_validation g); try discriminate.
    rewrite Hcur in Hw1. cbn [negb orb] in Hw1. apply Z.eqb_eq in Hw1.
    apply negb_true_iff in Hng. rewrite Hng in Hok. cbn [orb] in Hok.
    split; [exact Hw1|]. split; [exact Hok|].
    intros Hp. rewrite Hp in Hpass. cbn [act_eqb negb orb] in Hpass.
    destruct (gr_allowed_check g) as [b|]; [|discriminate].
    assert (b = APass) as -> by (destruct b; cbn in Hpass; congruence).
    exact Hw2.
Qed.

(* C10, second sentence: a refused action leaves no trace (last action, statistics, hand, events) *)
Theorem refused_no_trace pre c o v :
  In (hc_action c) all_acts ->
  decide pre c (o_ok o) = Refused -> astep pre c o v = (v, [], Refused).
Proof.
  intros Hin Hd. pose proof (row_ok_of _ Hin) as Hr. unfold astep. rewrite Hd.
  unfold row_ok in Hr. destruct (row_of (hc_action c)) as [r|]; [|reflexivity].
  destruct (grow_of (hc_action c)); [|discriminate].
  rewrite !andb_true_iff in Hr. destruct Hr as [[[[[[[_ _] _] Hg] _] _] _] _]. rewrite Hg. reflexivity.
Qed.

(* C10, third sentence: an accepted action is applied once (one step to the oracle's hand state) and is
   published as the table's last player action *)
Theorem accepted_published pre c o v :
  In (hc_action c) all_acts ->
  decide pre c (o_ok o) = Accepted ->
  exists v' evs, astep pre c o v = (v', evs, Accepted) /\ tv_last v' = Some (published pre c) /\ tv_hand v' = o_hand o
                 /\ (evs = [] \/ evs = [published pre c]).
Proof.
  intros Hin Hd. pose proof (row_ok_of _ Hin) as Hr. unfold astep. rewrite Hd.
  unfold row_ok in Hr. destruct (row_of (hc_action c)) as [r|]; [|discriminate].
  destruct (grow_of (hc_action c)); [|discriminate].
  rewrite !andb_true_iff in Hr. destruct Hr as [[[[[[[_ _] _] _] Hs] _] _] _].
  eexists _, _. split; [reflexivity|]. cbn. rewrite Hs. split; [reflexivity|]. split; [reflexivity|].
  destruct (ar_emits r); auto.
Qed.

(* ... and, for betting actions and pass, as exactly one action event *)
Theorem accepted_event pre c o v :
  emits_ok = true -> In (hc_action c) [APass; AFold; ACheck; ACall; AAllin; ABet; ARaise] ->
  decide pre c (o_ok o) = Accepted -> snd (fst (astep pre c o v)) = [published pre c].
Proof.
  intros He Hin Hd. unfold emits_ok in He. rewrite forallb_forall in He. specialize (He _ Hin).
  unfold astep. rewrite Hd. destruct (row_of (hc_action c)) as [r|]; [|discriminate]. cbn. rewrite He. reflexivity.
Qed.

(* C13: a failing backend call for a betting action or pass is a refusal: nothing changes *)
Theorem failed_attempt_noop pre c o v :
  In (hc_action c) all_acts -> is_group_act (hc_action c) = false -> o_ok o = false ->
  astep pre c o v = (v, [], Refused).
Proof.
  intros Hin Hg Hf. apply refused_no_trace; [exact Hin|].
  destruct (decide pre c (o_ok o)) eqn:Hd; [|reflexivity].
  destruct (accepted_only_awaited _ _ _ Hin Hd) as (_ & gp & e & _ & _ & _ & H).
  specialize (H Hg). destruct H as (_ & Hok & _). congruence.
Qed.

(* C13: ... so the same action can be submitted again and is decided as if the failure never happened *)
Corollary retry_after_failure pre c o_fail o v :
  In (hc_action c) all_acts -> is_group_act (hc_action c) = false -> o_ok o_fail = false ->
  astep pre c o (fst (fst (astep pre c o_fail v))) = astep pre c o v.
Proof. intros Hin Hg Hf. rewrite (failed_attempt_noop _ _ _ _ Hin Hg Hf). reflexivity. Qed.

(* C13: however many failures and refusals a history suffers, its course (last action, statistics,
   hand, events) is the one determined by the accepted attempts alone *)
Definition valid (a : attempt) : Prop := In (hc_action (at_call a)) all_acts.

Theorem erasure v l : Forall valid l -> run v l = run v (filter accepted l).
Proof.
  revert v. induction l as [|a t IH]; intros v Hv; [reflexivity|].
  inversion Hv as [|? ? Ha Ht]; subst. cbn [run filter]. unfold accepted at 1.
  destruct (decide (at_pre a) (at_call a) (o_ok (at_oracle a))) eqn:Hd.
  - cbn [run]. destruct (astep (at_pre a) (at_call a) (at_oracle a) v) as [[v1 ev] vd]. rewrite (IH v1 Ht). reflexivity.
  - rewrite (refused_no_trace _ _ _ v Ha Hd). rewrite (IH v Ht). destruct (run v (filter accepted t)). reflexivity.
Qed.

(* one event per accepted betting action / pass over a whole history *)
Definition emitting (a : attempt) : bool := negb (is_group_act (hc_action (at_call a))).
Theorem events_count v l :
  emits_ok = true -> Forall valid l -> Forall (fun a => emitting a = true) l ->
  List.length (snd (run v l)) = List.length (filter accepted l).
Proof.
  intros He. revert v. induction l as [|a t IH]; intros v Hv Hem; [reflexivity|].
  inversion Hv as [|? ? Ha Ht]; subst. inversion Hem as [|? ? Hea Het]; subst.
  cbn [run filter]. unfold accepted at 1.
  destruct (decide (at_pre a) (at_call a) (o_ok (at_oracle a))) eqn:Hd.
  - assert (Hin : In (hc_action (at_call a)) [APass; AFold; ACheck; ACall; AAllin; ABet; ARaise]).
    { unfold emitting in Hea. unfold valid in Ha.
      destruct (hc_action (at_call a)) eqn:E; cbn in Hea; try discriminate; try (cbn; auto 10; fail);
      cbn in Ha; intuition discriminate. }
    pose proof (accepted_event _ _ _ v He Hin Hd) as Hev.
    destruct (astep (at_pre a) (at_call a) (at_oracle a) v) as [[v1 ev] vd]. cbn in Hev. subst ev.
    specialize (IH v1 Ht Het). destruct (run v1 t) as [v2 ev2]. cbn in *. rewrite IH. reflexivity.
  - rewrite (refused_no_trace _ _ _ v Ha Hd). specialize (IH v Ht Het). destruct (run v t). cbn in *. exact IH.
Qed.

End Rules.

(* C13, last sentence: a failure of a step the engine makes by itself reaches the table's error callback *)
Definition auto_ok : bool := forallb snd auto_steps && Nat.eqb (List.length auto_steps) 4 && hand_errors_reach_error_callback && round_closed_calls_next.
Lemma auto_ok_holds : auto_ok = true.  Proof. vm_compute. reflexivity. Qed.

(* C10 as stated asks for an action event for EVERY accepted game action; readiness signals and payments
   are not published by the Player<Action> methods of the current sources *)
Lemma emits_all_refuted : emits_all_ok = false.  Proof. vm_compute. reflexivity. Qed.

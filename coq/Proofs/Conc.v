(* C16: many callers, one mutex.  A generic machine: every caller runs one operation of a sequential
   object [step : S -> Op -> S * R]; the operation's body is NOT atomic (it copies the shared state,
   computes, writes back); callers of locking operations take the mutex around the body.  Any
   interleaving of the callers' steps then has the effect of the operations one at a time, in the
   order in which their bodies completed under the mutex. *)
From Coq Require Import List Arith Bool Lia Permutation.
Import ListNotations.

Section Machine.
Variables S Op R : Type.
Variable step : S -> Op -> S * R.

(* where a caller is: before the lock, holding it with nothing read, having read, having written, done *)
Inductive pc := PStart | PLocked | PRead (local : S) | PWritten (r : R) | PDone (r : R).

Record thread := { t_op : Op; t_locks : bool; t_pc : pc }.
Record mach := { m_shared : S; m_holder : option nat; m_threads : list thread;
                 m_order : list nat (* callers in the order their bodies completed *) }.

Fixpoint set_pc (ts : list thread) (i : nat) (p : pc) : list thread :=
  match ts, i with
  | [], _ => []
  | t :: r, O => {| t_op := t_op t; t_locks := t_locks t; t_pc := p |} :: r
  | t :: r, Datatypes.S k => t :: set_pc r k p
  end.

(* one step of caller i, if it can move; otherwise nothing happens (a blocked or finished caller) *)
Definition conc_step (m : mach) (i : nat) : mach :=
  match nth_error (m_threads m) i with
  | None => m
  | Some t =>
      match t_pc t with
      | PStart =>
          if t_locks t then
            match m_holder m with
            | None => {| m_shared := m_shared m; m_holder := Some i; m_threads := set_pc (m_threads m) i PLocked; m_order := m_order m |}
            | Some _ => m                                   (* blocked on the mutex *)
            end
          else {| m_shared := m_shared m; m_holder := m_holder m; m_threads := set_pc (m_threads m) i PLocked; m_order := m_order m |}
      | PLocked => {| m_shared := m_shared m; m_holder := m_holder m; m_threads := set_pc (m_threads m) i (PRead (m_shared m)); m_order := m_order m |}
      | PRead local =>
          {| m_shared := fst (step local (t_op t)); m_holder := m_holder m;
             m_threads := set_pc (m_threads m) i (PWritten (snd (step local (t_op t)))); m_order := m_order m ++ [i] |}
      | PWritten r =>
          {| m_shared := m_shared m; m_holder := (if t_locks t then None else m_holder m); m_threads := set_pc (m_threads m) i (PDone r); m_order := m_order m |}
      | PDone _ => m
      end
  end.

Definition conc_run (m : mach) (sched : list nat) : mach := fold_left conc_step sched m.

Definition conc_init (s : S) (ops : list (Op * bool)) : mach :=
  {| m_shared := s; m_holder := None; m_threads := map (fun ob => {| t_op := fst ob; t_locks := snd ob; t_pc := PStart |}) ops; m_order := [] |}.

(* the sequential object run on the callers' operations in [order]; results tagged with the caller *)
Fixpoint seq_run (s : S) (ops : list (Op * bool)) (order : list nat) : S * list (nat * R) :=
  match order with
  | [] => (s, [])
  | i :: t => match nth_error ops i with
              | Some ob => let sr := step s (fst ob) in let rest := seq_run (fst sr) ops t in (fst rest, (i, snd sr) :: snd rest)
              | None => seq_run s ops t
              end
  end.

Definition result_of (t : thread) : option R := match t_pc t with PWritten r | PDone r => Some r | _ => None end.
Definition in_cs (p : pc) : bool := match p with PLocked | PRead _ | PWritten _ => true | _ => false end.

(* ---------- list plumbing ---------- *)
Lemma nth_set_same ts i p t : nth_error ts i = Some t ->
  nth_error (set_pc ts i p) i = Some {| t_op := t_op t; t_locks := t_locks t; t_pc := p |}.
Proof. revert i. induction ts as [|x r IH]; intros [|k] H; cbn in *; try discriminate; [inversion H; reflexivity | apply IH; exact H]. Qed.
Lemma nth_set_other ts i j p : i <> j -> nth_error (set_pc ts i p) j = nth_error ts j.
Proof. revert i j. induction ts as [|x r IH]; intros [|i] [|j] H; cbn; try reflexivity; [contradiction | apply IH; congruence]. Qed.

Lemma seq_run_app s ops o i ob : nth_error ops i = Some ob ->
  seq_run s ops (o ++ [i]) =
  (fst (step (fst (seq_run s ops o)) (fst ob)), snd (seq_run s ops o) ++ [(i, snd (step (fst (seq_run s ops o)) (fst ob)))]).
Proof.
  intros Hi. revert s. induction o as [|j t IH]; intros s; cbn.
  - rewrite Hi. reflexivity.
  - destruct (nth_error ops j); [|apply IH]. cbn. rewrite IH. reflexivity.
Qed.

Lemma NoDup_snoc (l : list nat) i : NoDup l -> ~ In i l -> NoDup (l ++ [i]).
Proof.
  induction l as [|x t IH]; intros Hn Hi; cbn; [constructor; [tauto|constructor]|].
  inversion Hn; subst. constructor.
  - intros H. apply in_app_or in H. destruct H as [H|[->|[]]]; [contradiction|]. apply Hi. left. reflexivity.
  - apply IH; [assumption|]. intros H. apply Hi. right. exact H.
Qed.

(* ---------- the invariant ---------- *)
Section Inv.
Variable s0 : S.
Variable ops : list (Op * bool).
Hypothesis all_lock : forall ob, In ob ops -> snd ob = true.

Record Inv (m : mach) : Prop := {
  i_ops : forall i, nth_error (map (fun t => (t_op t, t_locks t)) (m_threads m)) i = nth_error ops i;
  i_cs : forall i t, nth_error (m_threads m) i = Some t -> in_cs (t_pc t) = true -> m_holder m = Some i;
  i_read : forall i t l, nth_error (m_threads m) i = Some t -> t_pc t = PRead l -> l = m_shared m;
  i_shared : m_shared m = fst (seq_run s0 ops (m_order m));
  i_res : forall i t, nth_error (m_threads m) i = Some t ->
            match result_of t with Some r => In (i, r) (snd (seq_run s0 ops (m_order m))) | None => ~ In i (m_order m) end;
  i_nodup : NoDup (m_order m);
  i_len : length (snd (seq_run s0 ops (m_order m))) = length (m_order m)
}.

Lemma ops_of m i t : Inv m -> nth_error (m_threads m) i = Some t -> nth_error ops i = Some (t_op t, t_locks t).
Proof. intros I H. rewrite <- (i_ops m I). rewrite nth_error_map, H. reflexivity. Qed.
Lemma locks_of m i t : Inv m -> nth_error (m_threads m) i = Some t -> t_locks t = true.
Proof. intros I H. pose proof (ops_of m i t I H) as E. apply nth_error_In in E. apply all_lock in E. exact E. Qed.

Lemma map_set_pc ts i p : map (fun t => (t_op t, t_locks t)) (set_pc ts i p) = map (fun t => (t_op t, t_locks t)) ts.
Proof. revert i. induction ts as [|x r IH]; intros [|k]; cbn; try reflexivity. rewrite IH. reflexivity. Qed.

Lemma inv_init : Inv (conc_init s0 ops).
Proof.
  constructor; cbn.
  - intros i. rewrite map_map. cbn. rewrite nth_error_map. destruct (nth_error ops i) as [[o b]|]; reflexivity.
  - intros i t H Hc. rewrite nth_error_map in H. destruct (nth_error ops i); [|discriminate]. inversion H; subst. discriminate.
  - intros i t l H Hp. rewrite nth_error_map in H. destruct (nth_error ops i); [|discriminate]. inversion H; subst. discriminate.
  - reflexivity.
  - intros i t H. rewrite nth_error_map in H. destruct (nth_error ops i); [|discriminate]. inversion H; subst. cbn. auto.
  - constructor.
  - reflexivity.
Qed.

(* a generic way to re-establish the per-thread clauses after set_pc *)
Lemma nth_set_cases ts i p j t : nth_error (set_pc ts i p) j = Some t ->
  (j = i /\ exists t0, nth_error ts i = Some t0 /\ t = {| t_op := t_op t0; t_locks := t_locks t0; t_pc := p |}) \/ (j <> i /\ nth_error ts j = Some t).
Proof.
  intros H. destruct (Nat.eq_dec j i) as [->|Hne].
  - left. split; [reflexivity|]. destruct (nth_error ts i) as [t0|] eqn:E.
    + rewrite (nth_set_same _ _ _ _ E) in H. inversion H. eauto.
    + exfalso. assert (L : length (set_pc ts i p) = length ts).
      { clear. revert i. induction ts as [|x r IH]; intros [|k]; cbn; auto. }
      apply nth_error_None in E. assert (nth_error (set_pc ts i p) i = None) by (apply nth_error_None; lia). congruence.
  - right. split; [exact Hne|]. rewrite nth_set_other in H by congruence. exact H.
Qed.

Lemma inv_step m i : Inv m -> Inv (conc_step m i).
Proof.
  intros I. unfold conc_step. destruct (nth_error (m_threads m) i) as [t|] eqn:Ht; [|exact I].
  pose proof (locks_of m i t I Ht) as Hl. pose proof (ops_of m i t I Ht) as Hop.
  destruct (t_pc t) as [| |l|r|r] eqn:Hpc.
  - (* acquire *) rewrite Hl. destruct (m_holder m) as [h|] eqn:Hh; [exact I|].
    constructor; cbn.
    + intros j. rewrite map_set_pc. apply (i_ops m I).
    + intros j tj Hj Hc. apply nth_set_cases in Hj. destruct Hj as [[-> _]|[Hne Hj]]; [reflexivity|].
      pose proof (i_cs m I j tj Hj Hc) as X. congruence.
    + intros j tj l Hj Hp. apply nth_set_cases in Hj. destruct Hj as [[-> (t0 & _ & ->)]|[Hne Hj]]; [discriminate|]. apply (i_read m I j tj l Hj Hp).
    + apply (i_shared m I).
    + intros j tj Hj. apply nth_set_cases in Hj. destruct Hj as [[-> (t0 & E0 & ->)]|[Hne Hj]]; [|apply (i_res m I j tj Hj)].
      cbn. rewrite Ht in E0. inversion E0; subst t0. pose proof (i_res m I i t Ht) as X. unfold result_of in X. rewrite Hpc in X. exact X.
    + apply (i_nodup m I).
    + apply (i_len m I).
  - (* read *) constructor; cbn.
    + intros j. rewrite map_set_pc. apply (i_ops m I).
    + intros j tj Hj Hc. apply nth_set_cases in Hj. destruct Hj as [[-> _]|[Hne Hj]]; [|apply (i_cs m I j tj Hj Hc)].
      apply (i_cs m I i t Ht). rewrite Hpc. reflexivity.
    + intros j tj l Hj Hp. apply nth_set_cases in Hj. destruct Hj as [[-> (t0 & _ & ->)]|[Hne Hj]]; [cbn in Hp; inversion Hp; reflexivity|]. apply (i_read m I j tj l Hj Hp).
    + apply (i_shared m I).
    + intros j tj Hj. apply nth_set_cases in Hj. destruct Hj as [[-> (t0 & E0 & ->)]|[Hne Hj]]; [|apply (i_res m I j tj Hj)].
      cbn. rewrite Ht in E0. inversion E0; subst t0. pose proof (i_res m I i t Ht) as X. unfold result_of in X. rewrite Hpc in X. exact X.
    + apply (i_nodup m I).
    + apply (i_len m I).
  - (* compute and write back *)
    assert (Hls : l = m_shared m) by (apply (i_read m I i t l Ht Hpc)). subst l.
    assert (Hni : ~ In i (m_order m)).
    { pose proof (i_res m I i t Ht) as X. unfold result_of in X. rewrite Hpc in X. exact X. }
    assert (Hhold : m_holder m = Some i) by (apply (i_cs m I i t Ht); rewrite Hpc; reflexivity).
    pose proof (seq_run_app s0 ops (m_order m) i _ Hop) as App. cbn [fst] in App. rewrite <- (i_shared m I) in App.
    constructor; cbn.
    + intros j. rewrite map_set_pc. apply (i_ops m I).
    + intros j tj Hj Hc. apply nth_set_cases in Hj. destruct Hj as [[-> _]|[Hne Hj]]; [exact Hhold|apply (i_cs m I j tj Hj Hc)].
    + intros j tj l Hj Hp. apply nth_set_cases in Hj. destruct Hj as [[-> (t0 & _ & ->)]|[Hne Hj]]; [discriminate|].
      (* another caller inside the critical section would hold the mutex too *)
      assert (m_holder m = Some j) by (apply (i_cs m I j tj Hj); rewrite Hp; reflexivity). congruence.
    + rewrite App. reflexivity.
    + intros j tj Hj. rewrite App. cbn [snd]. apply nth_set_cases in Hj. destruct Hj as [[-> (t0 & E0 & ->)]|[Hne Hj]].
      * cbn. apply in_or_app. right. left. reflexivity.
      * pose proof (i_res m I j tj Hj) as X. destruct (result_of tj).
        -- apply in_or_app. left. exact X.
        -- intros Hin. apply in_app_or in Hin. destruct Hin as [Hin|[->|[]]]; [exact (X Hin)|congruence].
    + apply NoDup_snoc; [apply (i_nodup m I)|exact Hni].
    + rewrite App. cbn [snd]. rewrite !app_length, (i_len m I). reflexivity.
  - (* release *) rewrite Hl. constructor; cbn.
    + intros j. rewrite map_set_pc. apply (i_ops m I).
    + intros j tj Hj Hc. apply nth_set_cases in Hj. destruct Hj as [[-> (t0 & _ & ->)]|[Hne Hj]]; [discriminate|].
      assert (m_holder m = Some j) by (apply (i_cs m I j tj Hj Hc)).
      assert (m_holder m = Some i) by (apply (i_cs m I i t Ht); rewrite Hpc; reflexivity). congruence.
    + intros j tj l Hj Hp. apply nth_set_cases in Hj. destruct Hj as [[-> (t0 & _ & ->)]|[Hne Hj]]; [discriminate|]. apply (i_read m I j tj l Hj Hp).
    + apply (i_shared m I).
    + intros j tj Hj. apply nth_set_cases in Hj. destruct Hj as [[-> (t0 & E0 & ->)]|[Hne Hj]]; [|apply (i_res m I j tj Hj)].
      cbn. rewrite Ht in E0. inversion E0; subst t0. pose proof (i_res m I i t Ht) as X. unfold result_of in X. rewrite Hpc in X. exact X.
    + apply (i_nodup m I).
    + apply (i_len m I).
  - exact I.
Qed.

Lemma inv_run sched : forall m, Inv m -> Inv (conc_run m sched).
Proof. induction sched as [|i t IH]; intros m I; [exact I|]. cbn. apply IH, inv_step, I. Qed.

Lemma len_eq (A : Type) (a b : list A) : (forall i, nth_error a i = nth_error b i) -> length a = length b.
Proof.
  revert b. induction a as [|x a IHa]; intros [|y b] Hn; cbn; auto; try (specialize (Hn 0); discriminate).
  f_equal. apply IHa. intros i. apply (Hn (Datatypes.S i)).
Qed.
Lemma res_in_order i r o : forall s, In (i, r) (snd (seq_run s ops o)) -> In i o.
Proof.
  induction o as [|j o IHo]; intros s H; [destruct H|]. cbn in H. destruct (nth_error ops j).
  - cbn in H. destruct H as [H|H]; [inversion H; left; reflexivity|right; exact (IHo _ H)].
  - right. exact (IHo _ H).
Qed.
Lemma len_le o : forall s, length (snd (seq_run s ops o)) <= length o.
Proof.
  induction o as [|k o IH]; intros s; cbn; [lia|]. destruct (nth_error ops k) as [ob|]; cbn; [specialize (IH (fst (step s (fst ob)))); lia|specialize (IH s); lia].
Qed.
Lemma order_valid i o : forall s, length (snd (seq_run s ops o)) = length o -> In i o -> nth_error ops i <> None.
Proof.
  induction o as [|j o IHo]; intros s Hl Hi; [destruct Hi|]. cbn in Hl. destruct (nth_error ops j) as [ob|] eqn:Ej.
  - cbn in Hl. destruct Hi as [->|Hi]; [congruence|]. apply (IHo _ (eq_add_S _ _ Hl) Hi).
  - pose proof (len_le o s). cbn in Hl. lia.
Qed.

(* C16: whatever the interleaving, once every caller has returned the shared state is the one the
   operations produce one at a time in some order that contains every caller exactly once, and every
   caller got the result that order gives it *)
Theorem serial_effect sched :
  let m := conc_run (conc_init s0 ops) sched in
  (forall i t, nth_error (m_threads m) i = Some t -> exists r, t_pc t = PDone r) ->
  exists order,
    Permutation order (seq 0 (length ops)) /\
    m_shared m = fst (seq_run s0 ops order) /\
    forall i t r, nth_error (m_threads m) i = Some t -> t_pc t = PDone r -> In (i, r) (snd (seq_run s0 ops order)).
Proof.
  intros m Hfin. assert (I : Inv m) by (apply inv_run, inv_init). exists (m_order m).
  assert (Hlen : length (m_threads m) = length ops).
  { rewrite <- (len_eq _ _ _ (i_ops m I)), map_length. reflexivity. }
  split; [|split].
  - apply NoDup_Permutation; [apply (i_nodup m I) | apply seq_NoDup|].
    intros i. rewrite in_seq. split.
    + intros Hin. pose proof (order_valid i _ _ (i_len m I) Hin) as Hv. apply nth_error_Some in Hv. lia.
    + intros [_ Hlt]. cbn in Hlt. destruct (nth_error (m_threads m) i) as [t|] eqn:E.
      * destruct (Hfin i t E) as [r Hr]. pose proof (i_res m I i t E) as X. unfold result_of in X. rewrite Hr in X.
        exact (res_in_order _ _ _ _ X).
      * apply nth_error_None in E. lia.
  - apply (i_shared m I).
  - intros i t r Ht Hr. pose proof (i_res m I i t Ht) as X. unfold result_of in X. rewrite Hr in X. exact X.
Qed.
End Inv.
End Machine.

(* consequences that do not mention the machine's internals *)
Section Consequences.
Variables S Op R : Type.
Variable step : S -> Op -> S * R.

Lemma seq_run_invariant (P : S -> Prop) ops : (forall s o, P s -> P (fst (step s o))) ->
  forall order s, P s -> P (fst (seq_run S Op R step s ops order)).
Proof.
  intros Hstep. induction order as [|i t IH]; intros s Hs; cbn; [exact Hs|].
  destruct (nth_error ops i) as [ob|]; cbn; [apply IH, Hstep, Hs | apply IH, Hs].
Qed.

(* whatever one-at-a-time execution preserves is preserved by every concurrent execution of locking callers *)
Theorem concurrent_invariant (P : S -> Prop) s0 ops sched :
  (forall ob, In ob ops -> snd ob = true) ->
  (forall s o, P s -> P (fst (step s o))) -> P s0 ->
  let m := conc_run S Op R step (conc_init S Op R s0 ops) sched in
  (forall i t, nth_error (m_threads S Op R m) i = Some t -> exists r, t_pc S Op R t = PDone S R r) ->
  P (m_shared S Op R m).
Proof.
  intros Hl Hstep H0 m Hfin. destruct (serial_effect S Op R step s0 ops Hl sched Hfin) as (order & _ & E & _).
  fold m in E. rewrite E. apply seq_run_invariant; assumption.
Qed.
End Consequences.

(* The mutex matters: two callers that do NOT take it lose an update (a counter incremented twice ends at 1),
   which no one-at-a-time order produces. *)
Example unlocked_callers_lose_an_update :
  let step := fun (s : nat) (_ : unit) => (Datatypes.S s, s) in
  let m := conc_run nat unit nat step (conc_init nat unit nat 0 [(tt, false); (tt, false)]) [0; 1; 0; 1; 0; 1; 0; 1] in
  m_shared nat unit nat m = 1 /\
  (forall order, Permutation order [0; 1] -> fst (seq_run nat unit nat step 0 [(tt, false); (tt, false)] order) = 2).
Proof.
  split; [reflexivity|]. intros order Hp.
  assert (order = [0; 1] \/ order = [1; 0]) as [-> | ->]; [|reflexivity|reflexivity].
  pose proof (Permutation_length Hp) as L. destruct order as [|a [|b [|c r]]]; cbn in L; try discriminate.
  assert (Ha : In a [0; 1]) by (apply (Permutation_in _ Hp); left; reflexivity).
  assert (Hb : In b [0; 1]) by (apply (Permutation_in _ Hp); right; left; reflexivity).
  assert (Hn : NoDup [a; b]) by (apply (Permutation_NoDup (Permutation_sym Hp)); repeat constructor; cbn; intuition discriminate).
  inversion Hn as [|? ? Hnab _]; subst. cbn in Ha, Hb, Hnab.
  destruct Ha as [<-|[<-|[]]]; destruct Hb as [<-|[<-|[]]]; auto; exfalso; apply Hnab; left; reflexivity.
Qed.

(* with the mutex the same two callers always end at 2, under every schedule that lets both return *)
Example locked_callers_never_lose_it : forall sched,
  let step := fun (s : nat) (_ : unit) => (Datatypes.S s, s) in
  let m := conc_run nat unit nat step (conc_init nat unit nat 0 [(tt, true); (tt, true)]) sched in
  (forall i t, nth_error (m_threads nat unit nat m) i = Some t -> exists r, t_pc nat unit nat t = PDone nat nat r) ->
  m_shared nat unit nat m = 2.
Proof.
  intros sched step m Hfin.
  assert (Hl : forall ob, In ob [(tt, true); (tt, true)] -> snd ob = true) by (intros ob [<-|[<-|[]]]; reflexivity).
  destruct (serial_effect nat unit nat step 0 _ Hl sched Hfin) as (order & Hp & E & _). fold m in E. rewrite E.
  cbn in Hp. pose proof (Permutation_length Hp) as L. destruct order as [|a [|b [|c r]]]; cbn in L; try discriminate.
  assert (Ha : In a [0; 1]) by (apply (Permutation_in _ Hp); left; reflexivity).
  assert (Hb : In b [0; 1]) by (apply (Permutation_in _ Hp); right; left; reflexivity).
  destruct Ha as [<-|[<-|[]]]; destruct Hb as [<-|[<-|[]]]; reflexivity.
Qed.

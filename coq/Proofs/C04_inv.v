(* C04: the invariant that every state reachable through the seat-manager API satisfies, so
   that the one-step theorems of C04_proofs.v apply to every rotation of every history. *)
From Coq Require Import List ZArith Bool Arith Lia.
Import ListNotations.
From PT Require Import Base.ZScan Model.SeatManager Spec.C04_spec Proofs.C04_proofs.
Open Scope Z_scope.

Definition no_btw (l : list (option sp)) : Prop := forall z p, seat_at l z = Some p -> sp_btw p = false.

Record Inv (s : sm) : Prop := {
  I_wf : wf s;
  I_def : sm_init s = true -> sm_rule s = RDefault -> in_rng s (sm_bb s) /\ sm_sb s <> sm_bb s;
  I_sd : sm_rule s = RShortDeck -> no_btw (sm_seats s) /\ (sm_init s = true -> in_rng s (sm_dealer s))
}.

(* oracle contract: the seat the implementation draws for a random initialisation holds a
   dealt-in player (evaluated on every observed draw by the correspondence check) *)
Definition valid_op (s : sm) (o : op) : Prop :=
  match o with
  | OInit true f => act s f = true
  | _ => True
  end.

Lemma Inv_new max r : (2 <= max)%nat -> Inv (new_sm max r).
Proof.
  intro H. constructor.
  - split; [cbn; apply repeat_length|exact H].
  - cbn. discriminate.
  - intros _. split; [|cbn; discriminate].
    intros z p Hs. unfold seat_at in Hs. cbn in Hs. destruct (_ && _); [|discriminate].
    rewrite nth_repeat in Hs. discriminate.
Qed.

(* ---- list updates ---- *)
Lemma upd_length {A} (l : list A) : forall n x, length (upd l n x) = length l.
Proof. induction l as [|h t IH]; intros [|n] x; cbn; try reflexivity. rewrite IH; reflexivity. Qed.

Lemma upd_nth {A} (l : list A) d : forall n k x, nth k (upd l n x) d = if Nat.eqb k n then (if (n <? length l)%nat then x else nth k l d) else nth k l d.
Proof.
  induction l as [|h t IH]; intros [|n] [|k] x; cbn; try reflexivity.
  - destruct (Nat.eqb k n); reflexivity.
  - rewrite IH. reflexivity.
Qed.

Lemma seat_at_upd l n o z :
  seat_at (upd l n o) z = if (0 <=? z) && (z <? Z.of_nat (length l)) && Nat.eqb (Z.to_nat z) n then o else seat_at l z.
Proof.
  unfold seat_at. rewrite upd_length. destruct ((0 <=? z) && (z <? Z.of_nat (length l))) eqn:E; cbn [andb]; [|reflexivity].
  rewrite upd_nth. destruct (Nat.eqb (Z.to_nat z) n) eqn:En; [|reflexivity].
  apply Nat.eqb_eq in En. subst n. apply andb_true_iff in E. destruct E as [E1 E2].
  apply Z.leb_le in E1. apply Z.ltb_lt in E2.
  assert ((Z.to_nat z <? length l)%nat = true) as -> by (apply Nat.ltb_lt; lia). reflexivity.
Qed.

(* an update of the seat list that keeps its length and, on short-deck tables, writes no
   waiting flag, preserves the invariant *)
Lemma Inv_with_seats s l : Inv s -> length l = length (sm_seats s) ->
  (sm_rule s = RShortDeck -> no_btw l) -> Inv (with_seats s l).
Proof.
  intros I Hl Hb. destruct I as [[W1 W2] D S]. constructor.
  - split; [cbn; rewrite Hl; exact W1|exact W2].
  - exact D.
  - intro R. destruct (S R) as [_ S2]. split; [apply Hb; exact R|exact S2].
Qed.

Lemma no_btw_upd l n o : no_btw l -> (forall p, o = Some p -> sp_btw p = false) -> no_btw (upd l n o).
Proof.
  intros H Ho z p Hs. rewrite seat_at_upd in Hs. destruct (_ && _); [apply Ho; exact Hs|apply (H z p Hs)].
Qed.

Lemma Inv_upd_seat s z o : Inv s -> (sm_rule s = RShortDeck -> forall p, o = Some p -> sp_btw p = false) -> Inv (upd_seat s z o).
Proof.
  intros I Ho. unfold upd_seat. apply Inv_with_seats; [exact I|apply upd_length|].
  intro R. apply no_btw_upd; [apply (I_sd s I R)|apply Ho; exact R].
Qed.

Lemma between_short max d b t : between RShortDeck max d b t = false.
Proof. reflexivity. Qed.

Lemma Inv_place s id z : Inv s -> Inv (place s id z).
Proof.
  intro I. unfold place. apply Inv_upd_seat.
  - apply Inv_upd_seat; [exact I|]. intros _ p E. inversion E. reflexivity.
  - intros R p E. inversion E; subst p. cbn in R. cbn [sp_btw set_btw]. unfold player_between.
    cbn [sm_init sm_rule upd_seat with_seats]. rewrite R. destruct (negb (sm_init s)); reflexivity.
Qed.

Lemma place_fields s id z : sm_init (place s id z) = sm_init s /\ sm_rule (place s id z) = sm_rule s
  /\ sm_bb (place s id z) = sm_bb s /\ sm_sb (place s id z) = sm_sb s /\ sm_dealer (place s id z) = sm_dealer s.
Proof. repeat split; reflexivity. Qed.

Lemma Inv_fold_place ps : forall s, Inv s -> Inv (fold_left (fun acc iz => place acc (fst iz) (snd iz)) ps s).
Proof. induction ps as [|[i z] t IH]; intros s I; cbn; [exact I|]. apply IH. apply Inv_place; exact I. Qed.

Lemma Inv_map_seat s z f : Inv s -> (forall p, sp_btw (f p) = sp_btw p) -> Inv (map_seat s z f).
Proof.
  intros I Hf. unfold map_seat. destruct (seat_at (sm_seats s) z) as [p|] eqn:E; [|exact I].
  apply Inv_upd_seat; [exact I|]. intros R q Eq. inversion Eq; subst q. rewrite Hf. apply (proj1 (I_sd s I R) z p E).
Qed.

Lemma Inv_fold_map zs f : (forall p, sp_btw (f p) = sp_btw p) -> forall s, Inv s -> Inv (fold_left (fun acc z => map_seat acc z f) zs s).
Proof. intro Hf. induction zs as [|z t IH]; intros s I; cbn; [exact I|]. apply IH. apply Inv_map_seat; assumption. Qed.

Lemma Inv_fold_clear zs : forall s, Inv s -> Inv (fold_left (fun acc z => upd_seat acc z None) zs s).
Proof. induction zs as [|z t IH]; intros s I; cbn; [exact I|]. apply IH. apply Inv_upd_seat; [exact I|]. intros _ p E; discriminate. Qed.

(* ---- initialisation ---- *)
Lemma active_seats_from_spec : forall l i z, In z (active_seats_from i l) ->
  i <= z < i + Z.of_nat (length l) /\ match nth (Z.to_nat (z - i)) l None with Some p => active p = true | None => False end.
Proof.
  induction l as [|o t IH]; intros i z H; cbn in H; [destruct H|].
  assert (Tail : In z (active_seats_from (i + 1) t) ->
          i <= z < i + Z.of_nat (length (o :: t)) /\ match nth (Z.to_nat (z - i)) (o :: t) None with Some p => active p = true | None => False end).
  { intro Hin. destruct (IH _ _ Hin) as [R N]. split; [cbn [length]; lia|].
    replace (Z.to_nat (z - i)) with (S (Z.to_nat (z - (i + 1)))) by lia. exact N. }
  destruct o as [p|]; [|apply Tail; exact H].
  destruct (active p) eqn:A; [|apply Tail; exact H].
  destruct H as [<-|H]; [|apply Tail; exact H].
  split; [cbn [length]; lia|]. rewrite Z.sub_diag. cbn. exact A.
Qed.

Lemma active_seats_act s z : wf s -> In z (active_seats s) -> in_rng s z /\ act s z = true.
Proof.
  intros Hwf H. destruct (active_seats_from_spec _ _ _ H) as [R N]. rewrite Z.add_0_l in R. rewrite Z.sub_0_r in N.
  split; [unfold in_rng; rewrite <- (mx_len s Hwf); exact R|].
  unfold act, holds, seat_at.
  assert ((0 <=? z) && (z <? Z.of_nat (length (sm_seats s))) = true) as -> by (apply andb_true_iff; split; [apply Z.leb_le|apply Z.ltb_lt]; lia).
  destruct (nth (Z.to_nat z) (sm_seats s) None); [exact N|destruct N].
Qed.

Lemma act_in_rng s z : wf s -> act s z = true -> in_rng s z.
Proof.
  intros Hwf H. unfold act, holds, seat_at in H. unfold in_rng. rewrite <- (mx_len s Hwf).
  destruct ((0 <=? z) && (z <? Z.of_nat (length (sm_seats s)))) eqn:E; [|discriminate].
  apply andb_true_iff in E. destruct E as [E1 E2]. apply Z.leb_le in E1. apply Z.ltb_lt in E2. lia.
Qed.

Lemma active_seats_nonempty s : wf s -> (1 <= active_count (sm_seats s))%nat -> active_seats s <> [].
Proof.
  intros _ H. unfold active_seats, active_count in *. generalize 0 at 1. revert H.
  induction (sm_seats s) as [|o t IH]; intros H i; cbn in *; [lia|].
  destruct o as [p|]; [destruct (active p); [discriminate|]|]; apply IH; cbn in H; exact H.
Qed.

Lemma active_seats_from_length : forall l i, length (active_seats_from i l) = active_count l.
Proof.
  induction l as [|o t IH]; intro i; cbn; [reflexivity|].
  destruct o as [p|]; [destruct (active p); cbn|]; rewrite IH; reflexivity.
Qed.

Lemma active_seats_from_NoDup : forall l i, NoDup (active_seats_from i l).
Proof.
  induction l as [|o t IH]; intro i; cbn; [constructor|].
  destruct o as [p|]; [destruct (active p)|]; try apply IH.
  constructor; [|apply IH]. intro H. apply active_seats_from_spec in H. lia.
Qed.

Lemma two_distinct_filter (fs : Z) l : NoDup l -> length l = 2%nat -> filter (fun z => negb (z =? fs)) l <> [].
Proof.
  intros N L. destruct l as [|a [|b [|c t]]]; cbn in L; try lia.
  inversion N as [|? ? Ha _]; subst. cbn.
  destruct (Z.eqb_spec a fs) as [->|]; cbn; [|discriminate].
  destruct (Z.eqb_spec b fs) as [->|]; cbn; [|discriminate].
  exfalso. apply Ha. left; reflexivity.
Qed.

Lemma prev_occupied_spec s start : wf s -> in_rng s start ->
  let r := prev_occupied s start true in r = unset \/ (in_rng s r /\ r <> start).
Proof.
  intros Hwf Hs. cbn zeta. unfold prev_occupied.
  change prev_occupied_lo with 1. change (prev_occupied_hi (mx s)) with (mx s). rewrite scan_bscan.
  pose proof (mx_pos s Hwf) as Hn.
  assert (Hidx : forall i, 1 <= i < mx s -> prev_occupied_idx (mx s) start i = (start - i) mod mx s)
    by (intros; apply prev_occupied_idx_ok; assumption).
  destruct (bscan (mx s) (occ (sm_seats s) (prev_occupied_accepts true)) (prev_occupied_idx (mx s) start)) as [r|] eqn:E.
  - right. pose proof (bscan_some (mx s) start _ Hn Hs _ Hidx r E) as [_ [H2 [H3 _]]]. split; assumption.
  - left; reflexivity.
Qed.

Lemma Inv_init s random f : Inv s -> valid_op s (OInit random f) -> Inv (snd (init_positions s random f)).
Proof.
  intros I V. unfold init_positions.
  destruct (sm_rule s) eqn:R; [| |exact I]; (destruct (sm_init s) eqn:Ini; [exact I|]);
    destruct (active_count (sm_seats s) <? 2)%nat eqn:AC; try exact I; apply Nat.ltb_ge in AC.
  - (* default *)
    set (fs := if random then f else hd unset (active_seats s)).
    assert (Hf : in_rng s fs).
    { unfold fs. destruct random.
      - cbn in V. apply act_in_rng; [apply (I_wf s I)|exact V].
      - pose proof (active_seats_nonempty s (I_wf s I) ltac:(lia)) as NE.
        destruct (active_seats s) as [|a t] eqn:EA; [contradiction|]. cbn.
        apply (active_seats_act s a (I_wf s I)). rewrite EA. left; reflexivity. }
    destruct (active_count (sm_seats s) =? 2)%nat eqn:E2.
    + destruct (filter (fun z => negb (z =? fs)) (active_seats s)) as [|o t] eqn:EF; cbn [snd].
      * constructor; [apply (I_wf s I)| |cbn; rewrite R; discriminate].
        cbn. intros _ _. split; [exact Hf|]. (* sb stays what it was; with no other seat this cannot be reached,
                                                 but the statement needs sb <> bb: impossible branch *)
        exfalso. (* two active seats: the filter cannot have removed both *)
        apply (two_distinct_filter fs (active_seats s)); [apply active_seats_from_NoDup| |exact EF].
        unfold active_seats. rewrite active_seats_from_length. apply Nat.eqb_eq. exact E2.
      * constructor; [apply (I_wf s I)| |cbn; rewrite R; discriminate].
        cbn. intros _ _. split; [exact Hf|].
        assert (In o (filter (fun z => negb (z =? fs)) (active_seats s))) as Hin by (rewrite EF; left; reflexivity).
        apply filter_In in Hin. destruct Hin as [_ Hne]. apply negb_true_iff in Hne. apply Z.eqb_neq in Hne. exact Hne.
    + set (s1 := with_pos s (sm_dealer s) (sm_sb s) fs).
      assert (W1 : wf s1) by (apply (I_wf s I)).
      destruct (prev_occupied s1 fs true =? unset) eqn:EU; cbn [snd].
      * constructor; [exact W1|cbn; rewrite Ini; discriminate|cbn; rewrite R; discriminate].
      * apply Z.eqb_neq in EU.
        destruct (prev_occupied_spec s1 fs W1 Hf) as [E|[Hr Hne]]; [contradiction|].
        destruct (prev_occupied (with_pos s1 (sm_dealer s1) (prev_occupied s1 fs true) fs) (prev_occupied s1 fs true) true =? unset); cbn [snd].
        -- constructor; [exact W1|cbn; rewrite Ini; discriminate|cbn; rewrite R; discriminate].
        -- constructor; [exact W1| |cbn; rewrite R; discriminate]. cbn. intros _ _. split; [exact Hf|exact Hne].
  - (* short deck *)
    cbn [snd]. destruct (I_sd s I R) as [NB _].
    set (fs := if random then f else hd unset (active_seats s)).
    assert (Hf : in_rng s fs).
    { unfold fs. destruct random.
      - cbn in V. apply act_in_rng; [apply (I_wf s I)|exact V].
      - pose proof (active_seats_nonempty s (I_wf s I) ltac:(lia)) as NE.
        destruct (active_seats s) as [|a t] eqn:EA; [contradiction|]. cbn.
        apply (active_seats_act s a (I_wf s I)). rewrite EA. left; reflexivity. }
    constructor; [apply (I_wf s I)|cbn; rewrite R; discriminate|]. cbn. intros _. split; [exact NB|intros _; exact Hf].
Qed.

(* ---- rotation ---- *)
Lemma Inv_rotate_default s : Inv s -> sm_init s = true -> sm_rule s = RDefault -> Inv (snd (rotate_default s)).
Proof.
  intros I Ini R. destruct (I_def s I Ini R) as [Hbb Hsb]. pose proof (I_wf s I) as Hwf.
  destruct (rotate_default s) as [r s'] eqn:E. cbn [snd].
  assert (Hrule : sm_rule s' = RDefault /\ sm_init s' = true /\ sm_max s' = sm_max s /\ wf s').
  { assert (Wl : forall l, length l = length (sm_seats s) -> forall d sb bb, wf (with_pos (with_seats s l) d sb bb)).
    { intros l Hl d sb bb. destruct Hwf as [W1 W2]. split; [cbn; rewrite Hl; exact W1|exact W2]. }
    rewrite (rd_eq s) in E.
    destruct (_ <? 2)%nat; [inversion E; subst; repeat split; try assumption; apply wf_reflag; exact Hwf|].
    destruct (_ =? 2)%nat; [inversion E; subst; repeat split; try assumption; apply Wl; unfold reflag; apply reflag_from_length|].
    destruct (is_hu s); inversion E; subst; repeat split; try assumption; apply Wl; unfold reflag; cbn [sm_seats with_seats];
      rewrite ?reflag_from_length; reflexivity. }
  destruct Hrule as [R' [Ini' [Mx' W']]].
  assert (Hmx : mx s' = mx s) by (unfold mx; rewrite Mx'; reflexivity).
  constructor; [exact W'| |rewrite R'; discriminate].
  intros _ _. destruct r.
  - pose proof (new_bb_found s Hwf Hbb (ok_two_active s Hwf s' E)) as [_ [Nr [Nne _]]].
    rewrite (bb_result s s' E). split; [unfold in_rng; rewrite Hmx; exact Nr|].
    rewrite (rd_eq s) in E.
    destruct (_ <? 2)%nat; [discriminate|].
    destruct (_ =? 2)%nat eqn:E2.
    + inversion E; subst s'; clear E. cbn [sm_sb with_pos].
      set (s1 := with_seats s (reflag s (sm_sb s) (next_in_chips s (sm_bb s)))) in *.
      destruct (next_occupied_spec s1 (next_in_chips s (sm_bb s)) (wf_reflag s _ _ Hwf) Nr) as [[Eu _]|[_ [_ [Hne _]]]].
      * rewrite Eu. unfold unset. unfold in_rng in Nr. lia.
      * exact Hne.
    + destruct (is_hu s); inversion E; subst s'; cbn [sm_sb with_pos]; intro Eq; apply Nne; symmetry; exact Eq.
  - destruct (rotate_default_refused_noop s s' E) as [B _]. unfold same_buttons in B.
    apply andb_true_iff in B. destruct B as [B B3]. apply andb_true_iff in B. destruct B as [_ B2].
    apply Z.eqb_eq in B2. apply Z.eqb_eq in B3. rewrite <- B2, <- B3.
    split; [unfold in_rng; rewrite Hmx; exact Hbb|exact Hsb].
Qed.

Lemma Inv_rotate s : Inv s -> Inv (snd (rotate s)).
Proof.
  intro I. unfold rotate. destruct (sm_init s) eqn:Ini; cbn [negb]; [|exact I].
  destruct (sm_rule s) eqn:R; [apply Inv_rotate_default; assumption| |exact I].
  unfold rotate_short. destruct (_ <? 2)%nat eqn:AC; [exact I|]. cbn [snd].
  destruct (I_sd s I R) as [NB Hd]. specialize (Hd Ini). pose proof (I_wf s I) as Hwf.
  constructor; [exact Hwf|cbn; rewrite R; discriminate|]. cbn. intros _. split; [exact NB|]. intros _.
  destruct (next_occupied_spec s (sm_dealer s) Hwf Hd) as [[_ Hnone]|[_ [Hr _]]]; [|exact Hr].
  exfalso. apply Nat.ltb_ge in AC. rewrite (active_count_count s Hwf) in AC.
  assert (count s (act s) <= 1)%nat; [|lia].
  unfold count. apply (filter_only_one _ (sm_dealer s)); [apply zrange_NoDup|].
  intros z Hz Hne. apply seats_idx_In in Hz. apply (Hnone z Hz Hne).
Qed.

(* ---- every operation ---- *)
Lemma Inv_step s o : Inv s -> valid_op s o -> Inv (snd (step s o)).
Proof.
  intros I V. destruct o as [ps|ids drawn|ids|ids|id b|random f|]; cbn [step].
  - unfold assign. destruct (assign_ok s ps); [cbn [snd]; apply Inv_fold_place; exact I|exact I].
  - unfold random_assign. destruct (negb _); [exact I|]. destruct (_ <? _)%nat; [exact I|].
    cbn [snd]. apply Inv_fold_place; exact I.
  - unfold remove_seats. destruct (all_some _); [cbn [snd]; apply Inv_fold_clear; exact I|exact I].
  - unfold join_players. destruct (all_some _); [cbn [snd]; apply Inv_fold_map; [reflexivity|exact I]|exact I].
  - unfold update_chips. destruct (find_seat s id); [cbn [snd]; apply Inv_map_seat; [exact I|reflexivity]|exact I].
  - apply Inv_init; assumption.
  - apply Inv_rotate; exact I.
Qed.

(* ---- whole histories ---- *)
Fixpoint run (s : sm) (os : list op) : list (sm * op * res * sm) :=
  match os with
  | [] => []
  | o :: t => let '(r, s') := step s o in (s, o, r, s') :: run s' t
  end.

Fixpoint valid_ops (s : sm) (os : list op) : Prop :=
  match os with
  | [] => True
  | o :: t => valid_op s o /\ valid_ops (snd (step s o)) t
  end.

Lemma run_Inv os : forall s, Inv s -> valid_ops s os ->
  forall x, In x (run s os) -> let '(s0, _, _, _) := x in Inv s0.
Proof.
  induction os as [|o t IH]; intros s I V x Hin; [destruct Hin|].
  cbn [run] in Hin. cbn [valid_ops] in V. destruct V as [V1 V2].
  pose proof (Inv_step s o I V1) as I'. destruct (step s o) as [r s'] eqn:E. cbn [snd] in *.
  destruct Hin as [<-|Hin]; [exact I|]. apply (IH s' I' V2 x Hin).
Qed.

(* Every rotation of every history of seat-manager operations, on any number of seats >= 2 and
   any rule, meets the dead-button specification - outside the two recorded findings. *)
Theorem history_rotations_ok max r os : (2 <= max)%nat -> valid_ops (new_sm max r) os ->
  forall s res s', In (s, ORotate, res, s') (run (new_sm max r) os) ->
  sig_bb_reaches_old_sb s s' = false -> (res = Err -> sig_live_waiting s' = false) ->
  C04_ok s ORotate res s' = true.
Proof.
  intros Hm V s res s' Hin Sg Sw.
  pose proof (run_Inv os (new_sm max r) (Inv_new max r Hm) V _ Hin) as I. cbn in I.
  assert (Hstep : step s ORotate = (res, s')).
  { clear - Hin. revert Hin. generalize (new_sm max r). induction os as [|o t IH]; intros s0 Hin; [destruct Hin|].
    cbn [run] in Hin. destruct (step s0 o) as [r1 s1] eqn:E. destruct Hin as [Eq|Hin]; [inversion Eq; subst; exact E|].
    apply (IH s1 Hin). }
  cbn [step] in Hstep. unfold C04_ok. unfold rotate in Hstep.
  destruct (sm_init s) eqn:Ini; [|reflexivity]. cbn [negb] in Hstep.
  destruct (sm_rule s) eqn:R; [| |reflexivity].
  - destruct (I_def s I Ini R) as [Hbb Hsb].
    pose proof (rotate_default_ok_partial s (I_wf s I) Hbb Hsb) as P. rewrite Hstep in P. apply P; assumption.
  - destruct (I_sd s I R) as [NB Hd].
    assert (SD : sd_inv s).
    { intro z. unfold act, live, holds. destruct (seat_at (sm_seats s) z) as [p|] eqn:E; [|reflexivity].
      unfold active, live_p. rewrite (NB z p E). cbn. destruct (sp_in p); reflexivity. }
    pose proof (rotate_short_sound s (I_wf s I) (Hd Ini) SD) as P. rewrite Hstep in P. exact P.
Qed.

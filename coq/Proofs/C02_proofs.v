(* C02: the hand's player list built by the clockwise walk (default rule) names exactly the
   dealt-in players, once each, in strictly increasing clockwise distance from the start seat;
   for an arbitrary seat count and any arrangement of sitting-out / busted players in between. *)
From Coq Require Import List ZArith Bool Arith Lia Sorted.
Import ListNotations.
From PT Require Import Base.ZScan Model.OpenHand.
Open Scope Z_scope.

Section Walk.
  Variable smap : list Z.
  Variable ps : list tplayer.
  Let n := Z.of_nat (length smap).

  Definition sm_at (seat : Z) : Z := nth (Z.to_nat seat) smap (-1).
  Definition pl_at (i : Z) : option tplayer := nth_error ps (Z.to_nat i).

  (* the seat map and the player list describe the same bijection (C03's invariant) *)
  Hypothesis Hpos : 0 < n.
  Hypothesis Hsm : forall seat, 0 <= seat < n -> sm_at seat = -1 \/
                    (0 <= sm_at seat < Z.of_nat (length ps) /\ exists p, pl_at (sm_at seat) = Some p /\ tp_seat p = seat).
  Hypothesis Hpl : forall i p, 0 <= i -> pl_at i = Some p -> 0 <= tp_seat p < n /\ sm_at (tp_seat p) = i.

  Definition part_at (i : Z) : bool := match pl_at i with Some p => tp_part p | None => false end.

  (* what the loop appends when it visits position i *)
  Definition visit (i : Z) : list Z :=
    let pi := sm_at (i mod n) in if (0 <=? pi) && part_at pi then [pi] else [].

  Lemma walk_from_spec : forall is, (forall i, In i is -> 0 <= i) ->
    walk_from smap ps n is = Done (flat_map visit is).
  Proof.
    induction is as [|i t IH]; intro Hnn; [reflexivity|].
    cbn [walk_from flat_map].
    assert (Hi : 0 <= i) by (apply Hnn; left; reflexivity).
    assert (Ht : forall j, In j t -> 0 <= j) by (intros j Hj; apply Hnn; right; exact Hj).
    rewrite Z.rem_mod_nonneg by lia.
    assert (Hr : 0 <= i mod n < n) by (apply Z.mod_pos_bound; exact Hpos).
    unfold seatmap_at. fold n.
    assert ((0 <=? i mod n) && (i mod n <? n) = true) as -> by (apply andb_true_iff; split; [apply Z.leb_le|apply Z.ltb_lt]; lia).
    fold (sm_at (i mod n)). unfold visit at 1.
    destruct (Hsm (i mod n) Hr) as [E|[Hb [p [Hp Hs]]]].
    - rewrite E. cbn [Z.leb andb]. rewrite (IH Ht). reflexivity.
    - assert (0 <=? sm_at (i mod n) = true) as -> by (apply Z.leb_le; lia). cbn [andb].
      unfold player_at.
      assert ((0 <=? sm_at (i mod n)) && (sm_at (i mod n) <? Z.of_nat (length ps)) = true) as ->
        by (apply andb_true_iff; split; [apply Z.leb_le|apply Z.ltb_lt]; lia).
      unfold pl_at in Hp. rewrite Hp. rewrite (IH Ht). unfold part_at, pl_at. rewrite Hp.
      destruct (tp_part p); reflexivity.
  Qed.

  (* the walk over one full turn starting at seat s *)
  Variable s : Z.
  Hypothesis Hs : 0 <= s < n.
  Definition turn : list Z := flat_map visit (zrange s (length smap)).

  Lemma turn_done : walk_from smap ps n (zrange s (length smap)) = Done turn.
  Proof. apply walk_from_spec. intros i Hi. apply zrange_In in Hi. lia. Qed.

  (* every entry is a dealt-in player ... *)
  Lemma turn_sound i : In i turn -> 0 <= i /\ part_at i = true.
  Proof.
    unfold turn. intro H. apply in_flat_map in H. destruct H as [k [_ Hv]]. unfold visit in Hv.
    destruct ((0 <=? sm_at (k mod n)) && part_at (sm_at (k mod n))) eqn:E; [|destruct Hv].
    destruct Hv as [<-|[]]. apply andb_true_iff in E. destruct E as [E1 E2]. apply Z.leb_le in E1. split; assumption.
  Qed.

  (* ... and every dealt-in player is an entry *)
  Lemma turn_complete i : 0 <= i -> part_at i = true -> In i turn.
  Proof.
    intros Hi Hp. unfold part_at in Hp. destruct (pl_at i) as [p|] eqn:E; [|discriminate].
    destruct (Hpl i p Hi E) as [Hseat Hback].
    unfold turn. apply in_flat_map.
    exists (s + cwd n s (tp_seat p)). split.
    - apply zrange_In. pose proof (cwd_range n s (tp_seat p) Hpos). fold n. lia.
    - unfold visit. rewrite fwd_cwd by assumption. rewrite Hback.
      assert (0 <=? i = true) as -> by (apply Z.leb_le; exact Hi). unfold part_at. rewrite E, Hp. left; reflexivity.
  Qed.

  (* the clockwise distance of an entry's seat from the start seat *)
  Definition dist_of (i : Z) : Z := match pl_at i with Some p => cwd n s (tp_seat p) | None => -1 end.

  Lemma visit_dist k : 0 <= k < n -> forall i, In i (visit (s + k)) -> dist_of i = k.
  Proof.
    intros Hk i Hv. unfold visit in Hv.
    destruct ((0 <=? sm_at ((s + k) mod n)) && part_at (sm_at ((s + k) mod n))) eqn:E; [|destruct Hv].
    destruct Hv as [<-|[]]. apply andb_true_iff in E. destruct E as [E1 _]. apply Z.leb_le in E1.
    assert (Hr : 0 <= (s + k) mod n < n) by (apply Z.mod_pos_bound; exact Hpos).
    destruct (Hsm _ Hr) as [Em|[_ [p [Hp Hsp]]]]; [lia|].
    unfold dist_of. rewrite Hp, Hsp. apply cwd_fwd; assumption.
  Qed.

  (* distances along the list are strictly increasing: clockwise seat order, nobody twice *)
  Lemma turn_sorted_gen : forall m lo, lo + Z.of_nat m <= n -> 0 <= lo ->
    StronglySorted Z.lt (map dist_of (flat_map visit (zrange (s + lo) m))) /\
    forall i, In i (flat_map visit (zrange (s + lo) m)) -> lo <= dist_of i < lo + Z.of_nat m.
  Proof.
    induction m as [|m IH]; intros lo Hb Hlo; cbn [zrange flat_map map]; [split; [constructor|intros i []]|].
    replace (s + lo + 1) with (s + (lo + 1)) by lia.
    destruct (IH (lo + 1) ltac:(lia) ltac:(lia)) as [S B].
    assert (Hv : forall i, In i (visit (s + lo)) -> dist_of i = lo) by (apply visit_dist; lia).
    split.
    - rewrite map_app. unfold visit at 1.
      destruct ((0 <=? sm_at ((s + lo) mod n)) && part_at (sm_at ((s + lo) mod n))) eqn:E; cbn [map app]; [|exact S].
      constructor; [exact S|]. apply Forall_forall. intros d Hd. apply in_map_iff in Hd. destruct Hd as [i [<- Hi]].
      specialize (B i Hi). rewrite (Hv (sm_at ((s + lo) mod n))); [lia|].
      unfold visit. rewrite E. left; reflexivity.
    - intros i Hi. apply in_app_or in Hi. destruct Hi as [Hi|Hi].
      + rewrite (Hv i Hi). lia.
      + specialize (B i Hi). lia.
  Qed.

  Lemma turn_sorted : StronglySorted Z.lt (map dist_of turn).
  Proof.
    unfold turn. replace s with (s + 0) at 1 by lia. apply (turn_sorted_gen (length smap) 0); [fold n|]; lia.
  Qed.

  Lemma sorted_lt_NoDup (l : list Z) : StronglySorted Z.lt l -> NoDup l.
  Proof.
    induction 1 as [|a l S IH F]; constructor; [|exact IH].
    intro Hin. rewrite Forall_forall in F. specialize (F a Hin). lia.
  Qed.

  Lemma turn_NoDup : NoDup turn.
  Proof.
    pose proof (sorted_lt_NoDup _ turn_sorted) as N. apply NoDup_map_inv in N. exact N.
  Qed.
End Walk.

(* ---------- the default-rule hand list is one full clockwise turn from a seat of the table ---------- *)
Lemma gpi_default_is_turn (s : sm) (smap : list Z) (ps : list tplayer) :
  let n := Z.of_nat (length smap) in
  0 < n ->
  (forall seat, 0 <= seat < n -> sm_at smap seat = -1 \/
      (0 <= sm_at smap seat < Z.of_nat (length ps) /\ exists p, pl_at ps (sm_at smap seat) = Some p /\ tp_seat p = seat)) ->
  (* the button seats are seats of the table and the big-blind seat holds a dealt-in player (C04) *)
  0 <= sm_bb s < n -> 0 <= sm_sb s < n -> 0 <= sm_dealer s < n ->
  seat_active s (sm_bb s) = true ->
  exists start, 0 <= start < n /\ gpi_default s n smap ps = Done (turn smap ps start).
Proof.
  intros n Hn Hsm Hbb Hsb Hd Hact. unfold gpi_default. fold n.
  destruct (existsb (fun p => tp_part p && (tp_seat p =? sm_dealer s)) ps).
  - exists (sm_dealer s). split; [exact Hd|]. apply turn_done; assumption.
  - set (start := if existsb (fun p => tp_part p && (tp_seat p =? sm_sb s)) ps then sm_sb s else sm_bb s).
    assert (Hst : 0 <= start < n) by (unfold start; destruct (existsb _ ps); assumption).
    destruct (find (fun i => seat_active s (Z.rem i n)) (rev (zrange start (Z.to_nat n)))) as [i|] eqn:F.
    + apply find_some in F. destruct F as [Hin _]. apply in_rev in Hin. apply zrange_In in Hin.
      rewrite Z2Nat.id in Hin by lia.
      exists (Z.rem i n). rewrite Z.rem_mod_nonneg by lia. split; [apply Z.mod_pos_bound; exact Hn|].
      apply turn_done; try assumption. apply Z.mod_pos_bound; exact Hn.
    + (* impossible: the big-blind seat is active and is among the candidates *)
      exfalso. pose proof (find_none _ _ F) as Hnone.
      set (i := if Z_lt_le_dec (sm_bb s) start then sm_bb s + n else sm_bb s).
      assert (Hi : start <= i < start + n) by (unfold i; destruct (Z_lt_le_dec (sm_bb s) start); lia).
      assert (Hin : In i (rev (zrange start (Z.to_nat n)))).
      { apply in_rev. rewrite rev_involutive. apply zrange_In. rewrite Z2Nat.id by lia. exact Hi. }
      specialize (Hnone i Hin). cbn beta in Hnone.
      assert (Z.rem i n = sm_bb s) as E.
      { rewrite Z.rem_mod_nonneg by lia. unfold i. destruct (Z_lt_le_dec (sm_bb s) start).
        - replace (sm_bb s + n) with (sm_bb s + 1 * n) by lia. rewrite Z.mod_add by lia. apply Z.mod_small; lia.
        - apply Z.mod_small; lia. }
      rewrite E in Hnone. congruence.
Qed.

(* C09: the gate model refines the specification automaton; trace-level facts about
   the specification (at most one fire per set-up; fired iff everyone signalled or
   the timeout elapsed). *)
From Coq Require Import List Arith ZArith Bool Lia.
Import ListNotations.
From PT Require Import Model.OpenGame Spec.C09_spec.

(* ---------- small list facts ---------- *)
Lemma mem_In x l : mem x l = true <-> In x l.
Proof.
  unfold mem. rewrite existsb_exists. split.
  - intros [y [Hy E]]. apply Nat.eqb_eq in E. subst; exact Hy.
  - intro H. exists x. split; [exact H|apply Nat.eqb_refl].
Qed.

Lemma mem_false_notin x l : mem x l = false <-> ~ In x l.
Proof. rewrite <- mem_In. destruct (mem x l); split; intro H; try discriminate; try reflexivity; try (exfalso; apply H; reflexivity); intro; discriminate. Qed.

Lemma nodupb_NoDup l : nodupb l = true -> NoDup l.
Proof.
  induction l as [|x t IH]; cbn [nodupb]; intro H; [constructor|].
  apply andb_true_iff in H. destruct H as [H1 H2]. constructor.
  - apply negb_true_iff in H1. apply mem_false_notin in H1. exact H1.
  - apply IH; exact H2.
Qed.

Lemma list_eqb_refl {A} (e : A -> A -> bool) (Hr : forall x, e x x = true) l : list_eqb e l l = true.
Proof. induction l as [|x t IH]; cbn; [reflexivity|]. rewrite Hr, IH. reflexivity. Qed.

Lemma part_eqb_refl p : part_eqb p p = true.
Proof. unfold part_eqb. rewrite !Nat.eqb_refl, Bool.eqb_reflx. reflexivity. Qed.

Lemma out_eqb_refl r : out_eqb r r = true.
Proof. destruct r; cbn; try reflexivity; [rewrite Z.eqb_refl, (list_eqb_refl _ part_eqb_refl); reflexivity|apply Nat.eqb_refl]. Qed.

(* ---------- ready-group facts ---------- *)
Lemma rg_add_fresh l k v : ~ In k (map fst l) -> rg_add l k v = l ++ [(k, v)].
Proof.
  induction l as [|[k' v'] t IH]; cbn; intro H; [reflexivity|].
  destruct (Nat.eqb_spec k' k) as [E|E]; [exfalso; apply H; left; exact E|].
  rewrite IH; [reflexivity|]. intro; apply H; right; assumption.
Qed.

Lemma mk_rg_gen (ps : list (nat * nat)) acc :
  NoDup (map fst acc ++ map snd ps) ->
  fold_left (fun a ii => rg_add a (snd ii) false) ps acc = acc ++ map (fun ii => (snd ii, false)) ps.
Proof.
  revert acc; induction ps as [|[i x] t IH]; intros acc H; cbn [fold_left map].
  - rewrite app_nil_r; reflexivity.
  - cbn [snd]. rewrite rg_add_fresh.
    + rewrite IH.
      * rewrite <- app_assoc. reflexivity.
      * rewrite map_app. cbn [map fst]. rewrite <- app_assoc. cbn [app]. cbn [map snd] in H. exact H.
    + cbn [map snd] in H. apply NoDup_remove_2 in H. intro Hin. apply H. apply in_or_app; left; exact Hin.
Qed.

Lemma mk_rg_spec ps : NoDup (map snd ps) -> mk_rg ps = map (fun ii => (snd ii, false)) ps.
Proof. intro H. unfold mk_rg. rewrite mk_rg_gen; [reflexivity|exact H]. Qed.

Lemma rg_set_map (l : list (nat * nat)) (f : nat -> bool) id idx :
  NoDup (map fst l) -> NoDup (map snd l) -> In (id, idx) l ->
  rg_set (map (fun ii => (snd ii, f (fst ii))) l) idx true
  = map (fun ii => (snd ii, if Nat.eqb (fst ii) id then true else f (fst ii))) l.
Proof.
  intros N1 N2 Hin. unfold rg_set. rewrite map_map. apply map_ext_in.
  intros [i x] Hi. cbn [fst snd].
  destruct (Nat.eqb_spec x idx) as [->|Hx]; destruct (Nat.eqb_spec i id) as [->|Hid]; try reflexivity.
  - (* same index, different id: impossible *)
    exfalso. apply Hid.
    clear - N2 Hin Hi. induction l as [|[a b] t IH]; [destruct Hi|].
    cbn [map snd] in N2. inversion N2 as [|? ? Hn N2']; subst.
    destruct Hin as [E1|H1]; destruct Hi as [E2|H2].
    + congruence.
    + inversion E1; subst. exfalso. apply Hn. change idx with (snd (i, idx)). apply in_map; exact H2.
    + inversion E2; subst. exfalso. apply Hn. change idx with (snd (id, idx)). apply in_map; exact H1.
    + apply IH; assumption.
  - (* same id, different index: impossible *)
    exfalso. apply Hx.
    clear - N1 Hin Hi. induction l as [|[a b] t IH]; [destruct Hi|].
    cbn [map fst] in N1. inversion N1 as [|? ? Hn N1']; subst.
    destruct Hin as [E1|H1]; destruct Hi as [E2|H2].
    + congruence.
    + inversion E1; subst. exfalso. apply Hn. change id with (fst (id, x)). apply in_map; exact H2.
    + inversion E2; subst. exfalso. apply Hn. change id with (fst (id, idx)). apply in_map; exact H1.
    + apply IH; assumption.
Qed.

Lemma all_ready_fix l : all_ready l = true -> l = map (fun kv => (fst kv, true)) l.
Proof.
  induction l as [|[k v] t IH]; cbn; intro H; [reflexivity|].
  apply andb_true_iff in H. destruct H as [-> H]. rewrite <- IH by exact H. reflexivity.
Qed.

Lemma all_ready_fix2 l : all_ready l = true -> l = map (fun k => (k, true)) (map fst l).
Proof. intro H. rewrite map_map. apply all_ready_fix; exact H. Qed.

Lemma all_ready_In l : all_ready l = true <-> forall kv, In kv l -> snd kv = true.
Proof. unfold all_ready. apply forallb_forall. Qed.

Lemma rg_set_mono l k : all_ready l = true -> all_ready (rg_set l k true) = true.
Proof.
  rewrite !all_ready_In. intros H kv Hin. unfold rg_set in Hin. apply in_map_iff in Hin.
  destruct Hin as [[a b] [E Hab]]. cbn [fst] in E. destruct (Nat.eqb a k); subst; [reflexivity|]. apply (H _ Hab).
Qed.

Definition set_all (ks : list nat) (l : list (nat * bool)) := fold_left (fun l k => rg_set l k true) ks l.

Lemma set_all_mono ks l : all_ready l = true -> all_ready (set_all ks l) = true.
Proof. revert l; induction ks as [|k t IH]; intros l H; cbn; [exact H|]. apply IH. apply rg_set_mono; exact H. Qed.

Lemma set_all_In ks : forall l kv, In kv (set_all ks l) -> snd kv = true \/ (In kv l /\ ~ In (fst kv) ks).
Proof.
  induction ks as [|k t IH]; intros l kv Hin; cbn in Hin.
  - right. split; [exact Hin|intros []].
  - apply IH in Hin. destruct Hin as [Ht|[Hin Hnt]]; [left; exact Ht|].
    unfold rg_set in Hin. apply in_map_iff in Hin. destruct Hin as [[a b] [E Hab]]. cbn [fst] in E.
    destruct (Nat.eqb_spec a k) as [->|Hak]; subst.
    + left; reflexivity.
    + right. split; [exact Hab|]. cbn [fst] in *. intros [E|E]; [apply Hak; symmetry; exact E|apply Hnt; exact E].
Qed.

Lemma set_all_keys ks : forall l, map fst (set_all ks l) = map fst l.
Proof.
  induction ks as [|k t IH]; intro l; cbn; [reflexivity|]. rewrite IH. unfold rg_set. rewrite map_map.
  apply map_ext. intros [a b]; cbn. destruct (Nat.eqb a k); reflexivity.
Qed.

Lemma set_all_not_ready l : all_ready (set_all (not_ready_keys l) l) = true.
Proof.
  apply all_ready_In. intros [k v] Hin. apply set_all_In in Hin. destruct Hin as [H|[Hin Hn]]; [exact H|].
  cbn [fst snd] in *. destruct v; [reflexivity|]. exfalso. apply Hn. unfold not_ready_keys.
  change k with (fst (k, false)). apply in_map. apply filter_In. split; [exact Hin|reflexivity].
Qed.

(* the ready group on a running group, in closed form *)
Lemma rg_ready_running g k : rg_running g = true ->
  let ps := rg_set (rg_parts g) k true in
  rg_ready g k =
  ({| rg_parts := ps; rg_running := true;
      rg_completed := rg_completed g || all_ready ps;
      rg_timer := if negb (rg_completed g) && all_ready ps then false else rg_timer g |},
   negb (rg_completed g) && all_ready ps).
Proof.
  intro Hr. cbn zeta. unfold rg_ready. rewrite Hr. cbn [negb].
  destruct (all_ready (rg_set (rg_parts g) k true)); destruct (rg_completed g); cbn; reflexivity.
Qed.

Lemma rg_ready_all_cons g k ks :
  rg_ready_all g (k :: ks) =
  let '(g1, f1) := rg_ready g k in let '(g2, f2) := rg_ready_all g1 ks in (g2, f1 || f2).
Proof. reflexivity. Qed.

Lemma rg_ready_all_spec ks : forall g k, rg_running g = true -> rg_timer g = false ->
  let ps := set_all (k :: ks) (rg_parts g) in
  rg_ready_all g (k :: ks) =
  ({| rg_parts := ps; rg_running := true; rg_completed := rg_completed g || all_ready ps; rg_timer := false |},
   negb (rg_completed g) && all_ready ps).
Proof.
  induction ks as [|k2 t IH]; intros g k Hr Ht; cbn zeta.
  - cbn [rg_ready_all set_all fold_left]. rewrite rg_ready_running by exact Hr. cbn zeta.
    rewrite Ht. rewrite orb_false_r. destruct (negb (rg_completed g) && all_ready (rg_set (rg_parts g) k true)); reflexivity.
  - rewrite rg_ready_all_cons. rewrite rg_ready_running by exact Hr. cbn zeta.
    set (p1 := rg_set (rg_parts g) k true).
    set (g1 := {| rg_parts := p1; rg_running := true; rg_completed := rg_completed g || all_ready p1;
                  rg_timer := if negb (rg_completed g) && all_ready p1 then false else rg_timer g |}).
    specialize (IH g1 k2 eq_refl).
    assert (Ht1 : rg_timer g1 = false) by (unfold g1; cbn; rewrite Ht; destruct (negb (rg_completed g) && all_ready p1); reflexivity).
    specialize (IH Ht1). cbn zeta in IH. rewrite IH. unfold g1; cbn [rg_parts rg_completed].
    change (set_all (k :: k2 :: t) (rg_parts g)) with (set_all (k2 :: t) p1).
    destruct (all_ready p1) eqn:A1.
    + pose proof (set_all_mono (k2 :: t) p1 A1) as Af. rewrite Af.
      destruct (rg_completed g); cbn; reflexivity.
    + destruct (rg_completed g); destruct (all_ready (set_all (k2 :: t) p1)); cbn; reflexivity.
Qed.

Lemma rg_ready_all_spec' g ks : ks <> [] -> rg_running g = true -> rg_timer g = false ->
  rg_ready_all g ks =
  ({| rg_parts := set_all ks (rg_parts g); rg_running := true;
      rg_completed := rg_completed g || all_ready (set_all ks (rg_parts g)); rg_timer := false |},
   negb (rg_completed g) && all_ready (set_all ks (rg_parts g))).
Proof. destruct ks as [|k t]; [intro H; exfalso; apply H; reflexivity|]. intros _ Hr Ht. apply rg_ready_all_spec; assumption. Qed.

(* ---------- the refinement relation ---------- *)
Definition rgp (s : spec) : list (nat * bool) :=
  map (fun ii => (snd ii, flag (s_sig s) (s_fired s) (fst ii))) (s_parts s).

Record R (s : spec) (g : gate) : Prop := {
  R_tmo : g_timeout g = s_tmo s;
  R_gc : g_count g = s_gc s;
  R_parts : g_parts g = obs_parts s;
  R_rgp : rg_parts (g_rg g) = rgp s;
  R_run : s_parts s = [] \/ rg_running (g_rg g) = true;
  R_comp : rg_completed (g_rg g) = s_fired s;
  R_timer : rg_timer (g_rg g) = s_timer s;
  R_tf : s_timer s = true -> s_fired s = false;
  R_pending : s_fired s = false -> s_parts s <> [] -> everyone s (s_sig s) = false;
  R_nd1 : NoDup (map fst (s_parts s));
  R_nd2 : NoDup (map snd (s_parts s))
}.

Lemma R_init tmo : R (spec_init tmo) (init tmo).
Proof.
  constructor; cbn; try reflexivity; try (left; reflexivity); try constructor; try discriminate.
  intros _ H; exfalso; apply H; reflexivity.
Qed.

Lemma find_part_obs s id :
  known s id = true ->
  exists idx, In (id, idx) (s_parts s) /\
    find_part (obs_parts s) id = Some {| p_id := id; p_idx := idx; p_ready := flag (s_sig s) (s_fired s) id |}.
Proof.
  unfold known, obs_parts, find_part. generalize (s_sig s) (s_fired s). intros sg fr.
  induction (s_parts s) as [|[i x] t IH]; cbn; intro H; [discriminate|].
  rewrite (Nat.eqb_sym id i) in H.
  destruct (Nat.eqb_spec i id) as [->|Hne].
  - exists x. split; [left; reflexivity|reflexivity].
  - cbn in H. destruct (IH H) as [idx [Hin Hf]]. exists idx. split; [right; exact Hin|exact Hf].
Qed.

Lemma find_part_unknown s id : known s id = false -> find_part (obs_parts s) id = None.
Proof.
  unfold known, obs_parts, find_part. generalize (s_sig s) (s_fired s). intros sg fr.
  induction (s_parts s) as [|[i x] t IH]; cbn; intro H; [reflexivity|].
  rewrite (Nat.eqb_sym id i) in H. destruct (Nat.eqb i id); cbn in H; [discriminate|]. apply IH; exact H.
Qed.

Lemma mem_sig' id sg x :
  mem x (if mem id sg then sg else id :: sg) = Nat.eqb x id || mem x sg.
Proof.
  destruct (mem id sg) eqn:E; [|reflexivity].
  destruct (Nat.eqb_spec x id) as [->|]; [rewrite E; reflexivity|reflexivity].
Qed.

Lemma forallb_map {A B} (f : A -> B) (p : B -> bool) l : forallb p (map f l) = forallb (fun x => p (f x)) l.
Proof. induction l as [|x t IH]; cbn; [reflexivity|]. rewrite IH; reflexivity. Qed.

Lemma forallb_ext {A} (p q : A -> bool) l : (forall x, p x = q x) -> forallb p l = forallb q l.
Proof. intro H. induction l as [|x t IH]; cbn; [reflexivity|]. rewrite H, IH; reflexivity. Qed.

Lemma all_ready_rgp parts sg fr :
  all_ready (map (fun ii : nat * nat => (snd ii, flag sg fr (fst ii))) parts)
  = forallb (fun ii => flag sg fr (fst ii)) parts.
Proof. unfold all_ready. rewrite forallb_map. reflexivity. Qed.

(* ---------- restore ---------- *)
Lemma rg_add_existing l k v : NoDup (map fst l) -> In k (map fst l) -> rg_add l k v = rg_set l k v.
Proof.
  induction l as [|[a b] t IH]; cbn [map fst]; intros N Hin; [destruct Hin|].
  inversion N as [|? ? Hn N']; subst. unfold rg_set. cbn [rg_add map fst].
  destruct (Nat.eqb_spec a k) as [->|Hak].
  - f_equal. symmetry. rewrite <- (map_id t) at 2. apply map_ext_in. intros [c d] Hcd. cbn [fst].
    destruct (Nat.eqb_spec c k) as [->|]; [|reflexivity].
    exfalso. apply Hn. change k with (fst (k, d)). apply in_map; exact Hcd.
  - f_equal. destruct Hin as [E|Hin]; [contradiction|]. apply IH; assumption.
Qed.

Lemma rg_set_keys l k v : map fst (rg_set l k v) = map fst l.
Proof. unfold rg_set. rewrite map_map. apply map_ext. intros [a b]; cbn. destruct (Nat.eqb a k); reflexivity. Qed.

Lemma restore_fold (ps : list part) : forall (qs : list part) (f : part -> bool),
  NoDup (map p_idx ps) -> (forall q, In q qs -> In q ps) ->
  fold_left (fun acc p => if p_ready p then rg_add acc (p_idx p) true else acc) qs
            (map (fun p => (p_idx p, f p)) ps)
  = map (fun p => (p_idx p, f p || existsb (fun q => p_ready q && Nat.eqb (p_idx p) (p_idx q)) qs)) ps.
Proof.
  induction qs as [|q t IH]; intros f N Hsub; cbn [fold_left existsb].
  - apply map_ext. intro p. rewrite orb_false_r. reflexivity.
  - destruct (p_ready q) eqn:Rq.
    + rewrite rg_add_existing.
      * unfold rg_set. rewrite map_map. cbn [fst].
        rewrite (map_ext _ (fun p => (p_idx p, (fun p => f p || Nat.eqb (p_idx p) (p_idx q)) p))).
        2:{ intro p. destruct (Nat.eqb (p_idx p) (p_idx q)); [rewrite orb_true_r|rewrite orb_false_r]; reflexivity. }
        rewrite IH; [|exact N|intros; apply Hsub; right; assumption].
        apply map_ext. intro p. cbn [andb]. rewrite orb_assoc. reflexivity.
      * rewrite map_map. cbn [fst]. exact N.
      * rewrite map_map. cbn [fst]. apply in_map. apply Hsub. left; reflexivity.
    + rewrite IH; [|exact N|intros; apply Hsub; right; assumption].
      apply map_ext. intro p. cbn [andb orb]. reflexivity.
Qed.

Lemma existsb_idx_ready ps p : NoDup (map p_idx ps) -> In p ps ->
  existsb (fun q => p_ready q && Nat.eqb (p_idx p) (p_idx q)) ps = p_ready p.
Proof.
  induction ps as [|a t IH]; intros N Hin; [destruct Hin|].
  cbn [map] in N. inversion N as [|? ? Hn N']; subst. cbn [existsb].
  destruct Hin as [->|Hin].
  - rewrite Nat.eqb_refl, andb_true_r. destruct (p_ready p) eqn:E; [reflexivity|]. cbn [orb].
    apply not_true_is_false. intro Hex. apply existsb_exists in Hex. destruct Hex as [q [Hq Hc]].
    apply andb_true_iff in Hc. destruct Hc as [_ Hc]. apply Nat.eqb_eq in Hc.
    apply Hn. rewrite Hc. apply in_map; exact Hq.
  - rewrite IH by assumption.
    destruct (Nat.eqb_spec (p_idx p) (p_idx a)) as [E|E].
    + exfalso. apply Hn. rewrite <- E. apply in_map; exact Hin.
    + rewrite andb_false_r. reflexivity.
Qed.

Lemma mem_ready_ids ps p : NoDup (map p_id ps) -> In p ps ->
  mem (p_id p) (map p_id (filter p_ready ps)) = p_ready p.
Proof.
  intros N Hin. destruct (p_ready p) eqn:E.
  - apply mem_In. apply in_map. apply filter_In. split; assumption.
  - apply mem_false_notin. intro H. apply in_map_iff in H. destruct H as [q [Hid Hq]].
    apply filter_In in Hq. destruct Hq as [Hq Rq].
    assert (q = p).
    { clear - N Hin Hq Hid. induction ps as [|a t IH]; [destruct Hin|].
      cbn [map] in N. inversion N as [|? ? Hn N']; subst.
      destruct Hin as [->|Hin]; destruct Hq as [->|Hq]; try reflexivity.
      - exfalso. apply Hn. rewrite <- Hid. apply in_map; exact Hq.
      - exfalso. apply Hn. rewrite Hid. apply in_map; exact Hin.
      - apply IH; assumption. }
    subst q. congruence.
Qed.

(* ---------- one step ---------- *)
Lemma step_refines s g o :
  R s g -> valid_op o = true ->
  let '(s', r) := spec_step s o in
  let '(g', r') := step g o in
  r' = r /\ R s' g'.
Proof.
  intros HR Hv.
  pose proof (R_tmo _ _ HR) as Htmo. pose proof (R_gc _ _ HR) as Hgc. pose proof (R_parts _ _ HR) as Hparts.
  pose proof (R_rgp _ _ HR) as Hrgp. pose proof (R_run _ _ HR) as Hrun0. pose proof (R_comp _ _ HR) as Hcomp.
  pose proof (R_timer _ _ HR) as Htimer. pose proof (R_tf _ _ HR) as Htf. pose proof (R_pending _ _ HR) as Hpend.
  pose proof (R_nd1 _ _ HR) as Hnd1. pose proof (R_nd2 _ _ HR) as Hnd2.
  destruct o as [gc ps|id| |tmo gc ps].
  - (* Setup *)
    cbn [spec_step step]. split; [reflexivity|].
    cbn [valid_op] in Hv. apply andb_true_iff in Hv. destruct Hv as [V1 V2].
    apply nodupb_NoDup in V1. apply nodupb_NoDup in V2.
    constructor; cbn.
    + apply Htmo.
    + reflexivity.
    + unfold mk_parts, obs_parts. cbn. apply map_ext. intros [i x]. reflexivity.
    + rewrite mk_rg_spec by exact V2. unfold rgp. cbn. reflexivity.
    + right; reflexivity.
    + reflexivity.
    + rewrite Htmo. reflexivity.
    + reflexivity.
    + intros _ Hne. destruct ps as [|p t]; [exfalso; apply Hne; reflexivity|]. reflexivity.
    + exact V1.
    + exact V2.
  - (* Ready *)
    cbn [spec_step step]. rewrite Hparts.
    destruct (known s id) eqn:K; cbn [negb].
    2:{ rewrite (find_part_unknown _ _ K). split; [reflexivity|exact HR]. }
    destruct (find_part_obs _ _ K) as [idx [Hin Hf]]. rewrite Hf. cbn [p_idx].
    assert (Hne : s_parts s <> []) by (intro E; rewrite E in Hin; destruct Hin).
    assert (Hrun : rg_running (g_rg g) = true) by (destruct Hrun0 as [E|E]; [contradiction|exact E]).
    rewrite rg_ready_running by exact Hrun. cbn zeta.
    rewrite Hrgp, Hcomp, Htimer. unfold rgp.
    rewrite (rg_set_map _ _ id idx Hnd1 Hnd2 Hin).
    set (sig' := if mem id (s_sig s) then s_sig s else id :: s_sig s).
    assert (Hflag : forall x, (if Nat.eqb x id then true else flag (s_sig s) (s_fired s) x) = flag sig' (s_fired s) x).
    { intro x. unfold flag, sig'. rewrite mem_sig'. destruct (Nat.eqb x id); reflexivity. }
    assert (Hmap : map (fun ii : nat * nat => (snd ii, if Nat.eqb (fst ii) id then true else flag (s_sig s) (s_fired s) (fst ii))) (s_parts s)
                   = map (fun ii => (snd ii, flag sig' (s_fired s) (fst ii))) (s_parts s)).
    { apply map_ext. intro ii. rewrite Hflag. reflexivity. }
    rewrite Hmap. rewrite all_ready_rgp.
    assert (Hsetr : set_ready (obs_parts s) id
                    = map (fun ii => {| p_id := fst ii; p_idx := snd ii; p_ready := flag sig' (s_fired s) (fst ii) |}) (s_parts s)).
    { unfold set_ready, obs_parts. rewrite map_map. apply map_ext. intros [i x]. cbn [p_id p_idx p_ready fst snd].
      rewrite <- Hflag. destruct (Nat.eqb i id); reflexivity. }
    rewrite Hsetr.
    destruct (s_fired s) eqn:F; cbn [negb andb].
    + (* already fired *)
      split; [reflexivity|].
      constructor; cbn; try (first [apply Htmo|apply Hgc|apply Hnd1|apply Hnd2]).
      * reflexivity.
      * reflexivity.
      * right; reflexivity.
      * reflexivity.
      * reflexivity.
      * intro T. apply Htf in T. congruence.
      * intro; discriminate.
    + (* not yet fired *)
      assert (Hev : forallb (fun ii : nat * nat => flag sig' false (fst ii)) (s_parts s) = everyone s sig').
      { unfold everyone, flag. apply forallb_ext. intro; rewrite orb_false_r; reflexivity. }
      rewrite Hev. destruct (everyone s sig') eqn:E.
      * (* fires now *)
        unfold complete. cbn [g_count g_parts g_timeout].
        split.
        -- rewrite Hgc. f_equal. unfold all_set_ready, fired_parts. rewrite map_map. reflexivity.
        -- constructor; cbn; try (first [apply Htmo|apply Hgc|apply Hnd1|apply Hnd2]).
           ++ unfold all_set_ready, obs_parts. rewrite map_map. cbn. apply map_ext. intro ii. unfold flag. rewrite orb_true_r. reflexivity.
           ++ unfold rgp. cbn. apply map_ext_in. intros ii Hii. f_equal. unfold flag. rewrite orb_true_r, orb_false_r.
              unfold everyone in E. rewrite forallb_forall in E. apply E. exact Hii.
           ++ right; reflexivity.
           ++ reflexivity.
           ++ reflexivity.
           ++ intro; discriminate.
           ++ intro; discriminate.
      * (* still pending *)
        split; [reflexivity|].
        constructor; cbn; try (first [apply Htmo|apply Hgc|apply Hnd1|apply Hnd2]).
        -- reflexivity.
        -- reflexivity.
        -- right; reflexivity.
        -- reflexivity.
        -- reflexivity.
        -- intro; reflexivity.
        -- intros _ _. exact E.
  - (* Timeout *)
    cbn [spec_step step]. rewrite Htimer.
    destruct (s_timer s) eqn:T; [|split; [reflexivity|exact HR]].
    pose proof (R_tf _ _ HR T) as F.
    destruct (s_parts s) as [|p0 pt] eqn:EP.
    + (* nobody to wait for *)
      rewrite Hrgp. unfold rgp. rewrite EP. cbn.
      split; [reflexivity|]. constructor; cbn; try (first [apply Htmo|apply Hgc]).
      * rewrite Hparts. unfold obs_parts. rewrite EP. reflexivity.
      * reflexivity.
      * left; reflexivity.
      * rewrite Hcomp. reflexivity.
      * reflexivity.
      * intro; discriminate.
      * intros _ H; exfalso; apply H; reflexivity.
      * constructor.
      * constructor.
    + assert (Hne : s_parts s <> []) by (rewrite EP; discriminate).
      assert (Hrun : rg_running (g_rg g) = true) by (destruct Hrun0 as [E|E]; [discriminate E|exact E]).
      assert (Pend : everyone s (s_sig s) = false) by (apply Hpend; [exact F|discriminate]).
      (* some key is not ready *)
      cbn [rg_parts].
      assert (Hnr : not_ready_keys (rg_parts (g_rg g)) <> []).
      { rewrite Hrgp. unfold rgp, not_ready_keys.
        unfold everyone in Pend.
        assert (exists ii, In ii (s_parts s) /\ mem (fst ii) (s_sig s) = false) as [ii [Hii Hm]].
        { clear - Pend. induction (s_parts s) as [|a t IH]; cbn in Pend; [discriminate|].
          destruct (mem (fst a) (s_sig s)) eqn:M; cbn in Pend.
          - destruct (IH Pend) as [ii [H1 H2]]. exists ii; split; [right; exact H1|exact H2].
          - exists a; split; [left; reflexivity|exact M]. }
        intro E.
        assert (In (snd ii) (map fst (filter (fun kv : nat * bool => negb (snd kv))
                   (map (fun ii0 : nat * nat => (snd ii0, flag (s_sig s) (s_fired s) (fst ii0))) (s_parts s))))) as Hin.
        { change (snd ii) with (fst (snd ii, flag (s_sig s) (s_fired s) (fst ii))). apply in_map. apply filter_In. split.
          - apply in_map_iff. exists ii. split; [reflexivity|exact Hii].
          - cbn. unfold flag. rewrite Hm, F. reflexivity. }
        rewrite E in Hin. destruct Hin. }
      rewrite (rg_ready_all_spec' {| rg_parts := rg_parts (g_rg g); rg_running := rg_running (g_rg g); rg_completed := rg_completed (g_rg g); rg_timer := false |} _ Hnr Hrun eq_refl). cbn [rg_parts rg_completed].
      rewrite set_all_not_ready.
      rewrite Hcomp, F. cbn [negb andb orb].
      unfold complete. cbn [g_count g_parts g_timeout].
      rewrite <- EP.
      split.
      * rewrite Hgc. f_equal. rewrite Hparts. unfold all_set_ready, fired_parts, obs_parts. rewrite map_map. reflexivity.
      * constructor; cbn; try (first [apply Htmo|apply Hgc|apply Hnd1|apply Hnd2]).
        -- rewrite Hparts. unfold all_set_ready, obs_parts. rewrite map_map. cbn. apply map_ext. intro ii. unfold flag. rewrite orb_true_r. reflexivity.
        -- pose proof (set_all_not_ready (rg_parts (g_rg g))) as A. apply all_ready_fix2 in A.
           rewrite A. rewrite set_all_keys. rewrite Hrgp. unfold rgp. cbn [s_parts s_sig s_fired].
           rewrite !map_map. apply map_ext. intro ii. cbn. unfold flag. rewrite orb_true_r. reflexivity.
        -- right; reflexivity.
        -- reflexivity.
        -- reflexivity.
        -- intro; discriminate.
        -- intro; discriminate.
        -- rewrite EP; exact Hnd1.
        -- rewrite EP; exact Hnd2.
  - (* Restore *)
    cbn [spec_step step]. split; [reflexivity|].
    cbn [valid_op] in Hv. apply andb_true_iff in Hv. destruct Hv as [Hv V3].
    apply andb_true_iff in Hv. destruct Hv as [V1 V2].
    apply nodupb_NoDup in V1. apply nodupb_NoDup in V2. apply negb_true_iff in V3. rewrite V3.
    rewrite andb_true_r.
    constructor; cbn [g_timeout g_count g_parts g_rg s_tmo s_gc s_parts s_sig s_fired s_timer rg_parts rg_running rg_completed rg_timer rg_start].
    + reflexivity.
    + reflexivity.
    + unfold obs_parts. cbn [s_parts s_sig s_fired]. rewrite map_map. apply map_ext_in. intros p Hp. cbn [fst snd].
      unfold flag. rewrite orb_false_r. rewrite (mem_ready_ids _ _ V1 Hp). destruct p; reflexivity.
    + unfold rgp. cbn [s_parts s_sig s_fired]. rewrite map_map. cbn [fst snd].
      assert (Hb : fold_left (fun acc p => rg_add acc (p_idx p) false) ps [] = map (fun p => (p_idx p, false)) ps).
      { assert (G : forall acc, NoDup (map fst acc ++ map p_idx ps) ->
            fold_left (fun a p => rg_add a (p_idx p) false) ps acc = acc ++ map (fun p => (p_idx p, false)) ps).
        { clear. induction ps as [|q t IH]; intros acc H; cbn [fold_left map].
          - rewrite app_nil_r; reflexivity.
          - rewrite rg_add_fresh.
            + rewrite IH.
              * rewrite <- app_assoc. reflexivity.
              * rewrite map_app. cbn [map fst]. rewrite <- app_assoc. cbn [app]. cbn [map] in H. exact H.
            + cbn [map] in H. apply NoDup_remove_2 in H. intro Hin. apply H. apply in_or_app; left; exact Hin. }
        apply (G []). exact V2. }
      rewrite Hb.
      rewrite (restore_fold ps ps (fun _ => false) V2 (fun q H => H)).
      apply map_ext_in. intros p Hp. cbn [orb]. rewrite (existsb_idx_ready _ _ V2 Hp).
      unfold flag. rewrite orb_false_r. rewrite (mem_ready_ids _ _ V1 Hp). reflexivity.
    + right; reflexivity.
    + reflexivity.
    + reflexivity.
    + reflexivity.
    + intros _ Hne. destruct ps as [|p0 pt]; [exfalso; apply Hne; reflexivity|].
      unfold snapshot_fired in V3.
      assert (exists q, In q (p0 :: pt) /\ p_ready q = false) as [q [Hq Rq]].
      { clear - V3. induction (p0 :: pt) as [|a t IH]; cbn in V3; [discriminate|].
        destruct (p_ready a) eqn:E; cbn in V3.
        - destruct (IH V3) as [q [H1 H2]]. exists q; split; [right; exact H1|exact H2].
        - exists a; split; [left; reflexivity|exact E]. }
      unfold everyone. cbn [s_parts s_sig].
      apply not_true_is_false. intro Hall. rewrite forallb_forall in Hall.
      specialize (Hall (p_id q, p_idx q)). cbn [fst] in Hall.
      rewrite (mem_ready_ids _ _ V1 Hq) in Hall. rewrite Rq in Hall.
      assert (In (p_id q, p_idx q) (map (fun p => (p_id p, p_idx p)) (p0 :: pt))) as Hin by (apply in_map_iff; exists q; split; [reflexivity|exact Hq]).
      specialize (Hall Hin). discriminate.
    + rewrite map_map. cbn [fst]. exact V1.
    + rewrite map_map. cbn [snd]. exact V2.
Qed.

(* ---------- whole traces ---------- *)
Lemma run_refines os : forall s g, R s g -> forallb valid_op os = true ->
  C09_ok_from s (map (fun x => let '(o, r, g) := x in
                       {| o_op := o; o_out := r; o_gc := g_count g; o_parts := g_parts g |}) (run g os)) = true.
Proof.
  induction os as [|o t IH]; intros s g HR Hv; [reflexivity|].
  cbn [forallb] in Hv. apply andb_true_iff in Hv. destruct Hv as [Hv Ht].
  pose proof (step_refines s g o HR Hv) as S.
  cbn [run]. destruct (spec_step s o) as [s' r] eqn:ES. destruct (step g o) as [g' r'] eqn:EG.
  destruct S as [-> HR']. cbn [map C09_ok_from o_op o_out o_gc o_parts]. rewrite ES.
  rewrite out_eqb_refl. rewrite (R_gc _ _ HR'), Z.eqb_refl. rewrite (R_parts _ _ HR').
  rewrite (list_eqb_refl _ part_eqb_refl). cbn [andb]. apply IH; assumption.
Qed.

Theorem model_refines_spec tmo os :
  forallb valid_op os = true -> C09_ok tmo (model_trace tmo os) = true.
Proof. intro Hv. unfold C09_ok, model_trace. apply run_refines; [apply R_init|exact Hv]. Qed.

(* ---------- trace-level facts about the specification ---------- *)
Fixpoint spec_run (s : spec) (os : list op) : list out * spec :=
  match os with
  | [] => ([], s)
  | o :: t => let '(s', r) := spec_step s o in let '(rs, sf) := spec_run s' t in (r :: rs, sf)
  end.

Definition is_fire (r : out) : bool := match r with OFire _ _ => true | _ => false end.
Definition fires (rs : list out) : nat := length (filter is_fire rs).
Definition is_setup (o : op) : bool := match o with Setup _ _ | Restore _ _ _ => true | _ => false end.
Definition signalled (os : list op) : list nat :=
  flat_map (fun o => match o with Ready id => [id] | _ => [] end) os.
Definition has_timeout (os : list op) : bool := existsb (fun o => match o with Timeout => true | _ => false end) os.

(* invariant of the specification automaton alone *)
Definition spec_wf (s : spec) : Prop := s_timer s = true -> s_fired s = false /\ s_tmo s <> 0.

Lemma spec_step_wf s o : spec_wf s -> spec_wf (fst (spec_step s o)).
Proof.
  intro Hwf. destruct o as [gc ps|id| |tmo gc ps]; cbn [spec_step].
  - cbn. intro T. split; [reflexivity|]. apply negb_true_iff in T. apply Nat.eqb_neq in T. exact T.
  - destruct (known s id); cbn [negb]; [|exact Hwf].
    destruct (negb (s_fired s) && everyone s _); cbn; intro T; cbn in T; try discriminate. apply Hwf in T. exact T.
  - destruct (s_timer s) eqn:T; [|exact Hwf]. destruct (s_parts s); cbn; intro T'; cbn in T'; discriminate.
  - cbn. intro T. apply andb_true_iff in T. destruct T as [T1 T2]. apply negb_true_iff in T2. split; [exact T2|].
    apply negb_true_iff in T1. apply Nat.eqb_neq in T1. exact T1.
Qed.

Lemma spec_step_fired_mono s o : spec_wf s -> is_setup o = false -> s_fired s = true ->
  s_fired (fst (spec_step s o)) = true /\ is_fire (snd (spec_step s o)) = false.
Proof.
  intros Hwf Ho F. destruct o as [gc ps|id| |tmo gc ps]; try discriminate; cbn [spec_step].
  - destruct (known s id); cbn [negb]; [|split; [exact F|reflexivity]]. rewrite F. cbn. split; reflexivity.
  - destruct (s_timer s) eqn:T; cbn; [|split; [exact F|reflexivity]].
    destruct (Hwf T) as [F' _]. congruence.
Qed.

Lemma fired_stays t : forall s, spec_wf s -> forallb (fun o => negb (is_setup o)) t = true ->
  s_fired s = true -> s_fired (snd (spec_run s t)) = true /\ fires (fst (spec_run s t)) = 0.
Proof.
  induction t as [|o t' IH]; intros s Hwf Ht F; [split; [exact F|reflexivity]|].
  cbn [forallb] in Ht. apply andb_true_iff in Ht. destruct Ht as [Ho Ht']. apply negb_true_iff in Ho.
  pose proof (spec_step_fired_mono s o Hwf Ho F) as [M1 M2]. pose proof (spec_step_wf s o Hwf) as W.
  cbn [spec_run]. destruct (spec_step s o) as [s' r]. cbn [fst snd] in *.
  specialize (IH s' W Ht' M1). destruct (spec_run s' t') as [rs sf]. cbn [fst snd] in *.
  destruct IH as [I1 I2]. split; [exact I1|]. unfold fires in *. cbn [filter]. rewrite M2. exact I2.
Qed.

(* Within one set-up (no Setup/Restore among os) the callback fires at most once, and a
   set-up that has fired stays fired. *)
Lemma fires_at_most_once os : forall s, forallb (fun o => negb (is_setup o)) os = true ->
  spec_wf s ->
  fires (fst (spec_run s os)) <= (if s_fired s then 0 else 1) /\
  (fires (fst (spec_run s os)) = 1 -> s_fired (snd (spec_run s os)) = true).
Proof.
  induction os as [|o t IH]; intros s Hns Hwf; cbn [spec_run].
  - cbn. split; [destruct (s_fired s); lia|intro; discriminate].
  - cbn [forallb] in Hns. apply andb_true_iff in Hns. destruct Hns as [Ho Ht]. apply negb_true_iff in Ho.
    pose proof (spec_step_wf s o Hwf) as Hwf'.
    destruct (s_fired s) eqn:F.
    + pose proof (fired_stays (o :: t) s Hwf) as FS. cbn [forallb] in FS. rewrite Ho, Ht in FS. cbn in FS.
      specialize (FS eq_refl F). cbn [spec_run] in FS. destruct (spec_step s o) as [s' r]. destruct (spec_run s' t) as [rs sf].
      cbn [fst snd] in *. destruct FS as [F1 F2]. rewrite F2. split; [lia|intro; discriminate].
    + destruct (spec_step s o) as [s' r] eqn:ES. cbn [fst] in Hwf'.
      specialize (IH s' Ht Hwf'). destruct (spec_run s' t) as [rs sf] eqn:ER. cbn [fst snd] in *.
      unfold fires in *. cbn [filter]. destruct (is_fire r) eqn:Fr; cbn [length].
      * (* this step fired: afterwards the set-up is fired *)
        assert (F' : s_fired s' = true).
        { destruct o as [gc ps|id| |tmo gc ps]; try discriminate; cbn [spec_step] in ES.
          - destruct (known s id); cbn [negb] in ES; [|inversion ES; subst; discriminate].
            destruct (negb (s_fired s) && everyone s _); inversion ES; subst; [reflexivity|discriminate].
          - destruct (s_timer s); [|inversion ES; subst; discriminate].
            destruct (s_parts s); inversion ES; subst; [discriminate|reflexivity]. }
        pose proof (fired_stays t s' Hwf' Ht F') as FS. rewrite ER in FS. cbn [fst snd] in FS. destruct FS as [F1 F2].
        unfold fires in F2. rewrite F2. split; [lia|intro; exact F1].
      * destruct IH as [I1 I2]. split; [destruct (s_fired s'); lia|exact I2].
Qed.

(* A fire on a signal happens only when every participant of the current set-up has
   signalled (the signal being processed included). *)
Lemma fire_on_ready_needs_everyone s id s' gc ps :
  spec_step s (Ready id) = (s', OFire gc ps) ->
  s_fired s = false /\ everyone s (id :: s_sig s) = true /\ gc = s_gc s /\ ps = fired_parts s.
Proof.
  cbn [spec_step]. destruct (known s id); cbn [negb]; [|intro H; inversion H].
  destruct (s_fired s); cbn [negb andb]; [intro H; inversion H|].
  destruct (everyone s _) eqn:E; intro H; inversion H; subst.
  repeat split; try reflexivity.
  unfold everyone in *. rewrite forallb_forall in E. apply forallb_forall. intros ii Hii.
  specialize (E ii Hii). rewrite mem_sig' in E. unfold mem in *. cbn [existsb]. exact E.
Qed.

(* the ids recorded as signalled were really signalled since the set-up *)
Lemma sig_sound os : forall s, forallb (fun o => negb (is_setup o)) os = true ->
  forall id, In id (s_sig (snd (spec_run s os))) -> In id (s_sig s) \/ In id (signalled os).
Proof.
  induction os as [|o t IH]; intros s Hns id Hin; cbn [spec_run] in Hin.
  - left; exact Hin.
  - cbn [forallb] in Hns. apply andb_true_iff in Hns. destruct Hns as [Ho Ht]. apply negb_true_iff in Ho.
    destruct (spec_step s o) as [s' r] eqn:ES. destruct (spec_run s' t) as [rs sf] eqn:ER. cbn [snd] in Hin.
    assert (Hin' : In id (s_sig (snd (spec_run s' t)))) by (rewrite ER; exact Hin).
    apply (IH s' Ht) in Hin'. cbn [signalled flat_map]. fold (signalled t).
    destruct Hin' as [H|H]; [|right; apply in_or_app; right; exact H].
    destruct o as [gc ps|id0| |tmo gc ps]; try discriminate; cbn [spec_step] in ES.
    + destruct (known s id0); cbn [negb] in ES; [|inversion ES; subst; left; exact H].
      assert (Hs : s_sig s' = if mem id0 (s_sig s) then s_sig s else id0 :: s_sig s)
        by (destruct (negb (s_fired s) && everyone s _); inversion ES; subst; reflexivity).
      rewrite Hs in H. destruct (mem id0 (s_sig s)); [left; exact H|].
      destruct H as [<-|H]; [right; apply in_or_app; left; left; reflexivity|left; exact H].
    + destruct (s_timer s); [|inversion ES; subst; left; exact H].
      destruct (s_parts s); inversion ES; subst; left; exact H.
Qed.

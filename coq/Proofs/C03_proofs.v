(* C03: an operation that reports an error leaves the bookkeeping exactly as it was. *)
From Coq Require Import List ZArith Bool Arith Lia.
Import ListNotations.
From PT Require Import Model.TableMem Spec.C03_spec.
Open Scope Z_scope.

Lemma assign_err s ps s' : assign s ps = (Err, s') -> s' = s.
Proof. unfold assign. destruct (assign_ok s ps); intro H; inversion H; reflexivity. Qed.

Lemma random_assign_err s ids dr s' : random_assign s ids dr = (Err, s') -> s' = s.
Proof.
  unfold random_assign. destruct (negb _); [intro H; inversion H; reflexivity|].
  destruct (_ <? _)%nat; intro H; inversion H; reflexivity.
Qed.

Lemma remove_seats_err s ids s' : remove_seats s ids = (Err, s') -> s' = s.
Proof. unfold remove_seats. destruct (all_some _); intro H; inversion H; reflexivity. Qed.

(* batchAddPlayers: every refusal returns the table it was given *)
Lemma batch_add_err t jps dr t' : batch_add t jps dr = (Err, t') -> t' = t.
Proof.
  unfold batch_add.
  destruct (negb (nodupb Nat.eqb (map jp_id jps))); [intro H; inversion H; reflexivity|].
  destruct (existsb _ _); [intro H; inversion H; reflexivity|].
  destruct (_ <? _)%nat; [intro H; inversion H; reflexivity|].
  destruct (match filter (fun j => negb (jp_seat j =? -1)) jps with [] => _ | _ => _ end) as [r1 s1].
  destruct r1; [|intro H; inversion H; reflexivity].
  destruct (match filter (fun j => jp_seat j =? -1) jps with [] => _ | _ => _ end) as [r2 s2].
  destruct r2; [|intro H; inversion H; reflexivity].
  destruct (fold_left _ jps _) as [smap' ps']. intro H; inversion H.
Qed.

Lemma batch_remove_err t ids t' : batch_remove t ids = (Err, t') -> t' = t.
Proof.
  unfold batch_remove. destruct (remove_seats (t_sm t) ids) as [r s']. destruct r; intro H; inversion H; reflexivity.
Qed.

Lemma book_eqb_refl t : book_eqb t t = true.
Proof.
  unfold book_eqb.
  assert (L1 : forall l, list_eqb Z.eqb l l = true) by (induction l as [|x l IH]; cbn; [reflexivity|rewrite Z.eqb_refl, IH; reflexivity]).
  assert (L2 : forall l, list_eqb tp_eqb l l = true).
  { induction l as [|x l IH]; cbn; [reflexivity|]. unfold tp_eqb at 1. rewrite Nat.eqb_refl, !Z.eqb_refl, eqb_reflx, IH. reflexivity. }
  assert (L3 : forall l, list_eqb osp_eqb l l = true).
  { induction l as [|x l IH]; cbn; [reflexivity|]. rewrite IH, andb_true_r. destruct x as [p|]; cbn; [|reflexivity].
    rewrite Nat.eqb_refl, !eqb_reflx. reflexivity. }
  rewrite L1, L2, L3. reflexivity.
Qed.

(* the operations whose refusals are all-or-nothing: everything except a batch update that has
   both departures and arrivals (recorded finding F19), and re-buy / add-on / join when the seat manager
   does not know a player the table knows (impossible under the bookkeeping invariant) *)
Definition atomic_op (t : tbl) (o : mop) : Prop :=
  match o with
  | MReserve j _ => match find_idx t (jp_id j) with
                    | Some _ => exists s', update_chips (t_sm t) (jp_id j) true = (Ok, s')
                    | None => True end
  | MJoin id => match join_players (t_sm t) [id] with (Ok, _) => True | _ => find_idx t id = None end
  | MRedeem id _ => match find_idx t id with
                    | Some _ => exists s', update_chips (t_sm t) id true = (Ok, s')
                    | None => True end
  | MLeave _ => True
  | MUpdate joins _ leaves => joins = [] \/ leaves = []
  end.

Theorem error_is_noop t o t' : atomic_op t o -> mstep t o = (Err, t') -> book_eqb t t' = true.
Proof.
  intros A H. assert (E : t' = t); [|subst; apply book_eqb_refl].
  destruct o as [j dr|id|id c|ids|joins dr leaves]; cbn [mstep atomic_op] in *.
  - destruct (find_idx t (jp_id j)) as [i|].
    + destruct A as [s' Es]. rewrite Es in H. inversion H.
    + destruct (Nat.eqb _ _); [inversion H; reflexivity|]. apply (batch_add_err _ _ _ _ H).
  - destruct (find_idx t id) as [i|]; [|inversion H; reflexivity].
    destruct (nth_error (t_players t) i) as [p|]; [|inversion H; reflexivity].
    destruct (tp_seat p =? -1); [inversion H; reflexivity|].
    destruct (tp_in p); [inversion H|].
    destruct (join_players (t_sm t) [id]) as [r s']. destruct r; [inversion H|discriminate A].
  - destruct (find_idx t id) as [i|]; [|inversion H; reflexivity].
    destruct A as [s' Es]. rewrite Es in H.
    destruct (nth_error _ i) as [p|]; [|inversion H]. destruct (0 <? tp_bank p); inversion H.
  - apply (batch_remove_err _ _ _ H).
  - destruct A as [->| ->].
    + destruct leaves as [|l ls]; [inversion H|].
      destruct (batch_remove t (l :: ls)) as [r1 t1] eqn:E1. destruct r1; [inversion H|].
      inversion H; subst. apply (batch_remove_err _ _ _ E1).
    + destruct joins as [|j js]; [inversion H|]. apply (batch_add_err _ _ _ _ H).
Qed.

(* the excluded case is real: departures applied, arrivals refused *)
Theorem update_half_done_refuted : exists t o t',
  seat_inv t = true /\ mstep t o = (Err, t') /\ book_eqb t t' = false.
Proof.
  exists (fst (snd (mstep (snd (mstep
     {| t_max := 3; t_seatmap := [-1; -1; -1]; t_players := []; t_gpi := []; t_status := SCreated; t_sm := new_sm 3 RDefault |}
     (MReserve {| jp_id := 1; jp_chips := 100; jp_seat := 0 |} []))) (MReserve {| jp_id := 2; jp_chips := 100; jp_seat := 1 |} [])), tt)).
  exists (MUpdate [{| jp_id := 3; jp_chips := 100; jp_seat := 0 |}] [] [2%nat]).
  eexists. vm_compute. repeat split; reflexivity.
Qed.

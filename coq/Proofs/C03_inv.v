(* C03: the bookkeeping invariant (Spec/C03_spec.v seat_inv) is preserved by every membership operation of the model,
   for tables of every size, provided the seats drawn at random for newcomers are distinct empty seats of the table
   (what RandomAssignSeats draws; an oracle argument of the model, checked on every observed operation).

   Method: a generalised invariant InvP with a list of PENDING placements (seats the seat manager already holds for
   players the table has not appended yet) - batchAddPlayers first lets the seat manager place the whole batch and
   then appends the players one by one, so the intermediate states satisfy InvP, not the invariant itself. *)
From Coq Require Import List ZArith Bool Arith Lia.
Import ListNotations.
From PT Require Import Model.TableMem Spec.C03_spec.
Open Scope Z_scope.

(* ------------------------------------------------------------------ lists *)
Lemma upd_length {A} (l : list A) n x : length (upd l n x) = length l.
Proof. revert n; induction l as [|h t IH]; intros [|n]; cbn; auto. Qed.

Lemma nth_upd {A} (l : list A) n k x d :
  nth k (upd l n x) d = if Nat.eqb k n && (n <? length l)%nat then x else nth k l d.
Proof.
  revert n k; induction l as [|h t IH]; intros [|n] [|k]; cbn; try reflexivity.
  - destruct (Nat.eqb k n); reflexivity.
  - rewrite IH. cbn. reflexivity.
Qed.

Lemma nth_upd_same {A} (l : list A) n x d : (n < length l)%nat -> nth n (upd l n x) d = x.
Proof. intro H. rewrite nth_upd, Nat.eqb_refl. apply Nat.ltb_lt in H. rewrite H. reflexivity. Qed.

Lemma nth_upd_other {A} (l : list A) n k x d : k <> n -> nth k (upd l n x) d = nth k l d.
Proof. intro H. rewrite nth_upd. apply Nat.eqb_neq in H. rewrite H. reflexivity. Qed.

Lemma map_nth_length {A} (l : list A) n f : length (map_nth l n f) = length l.
Proof. revert n; induction l as [|h t IH]; intros [|n]; cbn; auto. Qed.

Lemma nth_error_map_nth {A} (l : list A) n k f :
  nth_error (map_nth l n f) k = if Nat.eqb k n then option_map f (nth_error l k) else nth_error l k.
Proof.
  revert n k; induction l as [|h t IH]; intros [|n] [|k]; cbn; try reflexivity.
  - destruct (Nat.eqb k n); reflexivity.
  - apply IH.
Qed.

Lemma map_map_nth {A B} (g : A -> B) (l : list A) n f : (forall x, g (f x) = g x) -> map g (map_nth l n f) = map g l.
Proof. intro H. revert n; induction l as [|h t IH]; intros [|n]; cbn; try reflexivity; [rewrite H|rewrite IH]; reflexivity. Qed.

Lemma nodupb_NoDup (l : list nat) : nodupb Nat.eqb l = true <-> NoDup l.
Proof.
  induction l as [|x t IH]; cbn.
  - split; [constructor|reflexivity].
  - rewrite andb_true_iff, negb_true_iff, IH. split.
    + intros [H1 H2]. constructor; [|exact H2]. intro Hin.
      assert (existsb (Nat.eqb x) t = true) by (apply existsb_exists; exists x; split; [exact Hin|apply Nat.eqb_refl]). congruence.
    + intro H. inversion H as [|? ? Hn Hd]; subst. split; [|exact Hd].
      destruct (existsb (Nat.eqb x) t) eqn:E; [|reflexivity]. apply existsb_exists in E. destruct E as [y [Hy Ey]].
      apply Nat.eqb_eq in Ey. subst. contradiction.
Qed.

Lemma nodupbZ_NoDup (l : list Z) : nodupb Z.eqb l = true <-> NoDup l.
Proof.
  induction l as [|x t IH]; cbn.
  - split; [constructor|reflexivity].
  - rewrite andb_true_iff, negb_true_iff, IH. split.
    + intros [H1 H2]. constructor; [|exact H2]. intro Hin.
      assert (existsb (Z.eqb x) t = true) by (apply existsb_exists; exists x; split; [exact Hin|apply Z.eqb_refl]). congruence.
    + intro H. inversion H as [|? ? Hn Hd]; subst. split; [|exact Hd].
      destruct (existsb (Z.eqb x) t) eqn:E; [|reflexivity]. apply existsb_exists in E. destruct E as [y [Hy Ey]].
      apply Z.eqb_eq in Ey. subst. contradiction.
Qed.

(* ------------------------------------------------------------------ the invariant, with pending placements *)
Definition seat_nth (s : sm) (z : nat) : option sp := nth z (sm_seats s) None.
Definition smap_nth (t : tbl) (z : nat) : Z := nth z (t_seatmap t) (-1).

Definition seated (t : tbl) (z : nat) (q : sp) : Prop :=
  exists i p, smap_nth t z = Z.of_nat i /\ nth_error (t_players t) i = Some p
              /\ tp_id p = sp_id q /\ tp_seat p = Z.of_nat z /\ tp_in p = sp_in q.

Record InvP (pend : list (nat * nat)) (t : tbl) : Prop := {
  ip_len_map : length (t_seatmap t) = t_max t;
  ip_len_sm : length (sm_seats (t_sm t)) = t_max t;
  ip_max : sm_max (t_sm t) = t_max t;
  ip_nodup : NoDup (map tp_id (t_players t) ++ map fst pend);
  ip_seat : forall z, (z < t_max t)%nat ->
            match seat_nth (t_sm t) z with
            | None => smap_nth t z = -1
            | Some q => (In (sp_id q, z) pend /\ sp_in q = false /\ smap_nth t z = -1) \/ (~ In z (map snd pend) /\ seated t z q)
            end;
  ip_pend : forall id z, In (id, z) pend -> (z < t_max t)%nat /\ exists q, seat_nth (t_sm t) z = Some q /\ sp_id q = id;
  ip_player : forall i p, nth_error (t_players t) i = Some p ->
              0 <= tp_seat p < Z.of_nat (t_max t) /\ smap_nth t (Z.to_nat (tp_seat p)) = Z.of_nat i;
  ip_cap : (length (t_players t) + length pend <= t_max t)%nat
}.

Definition Inv (t : tbl) : Prop := InvP [] t.

(* ------------------------------------------------------------------ seat_inv (boolean) <-> Inv *)
Lemma forallb_i_spec {A} (f : nat -> A -> bool) (l : list A) : forall k,
  forallb_i f k l = true <-> forall i x, nth_error l i = Some x -> f (k + i)%nat x = true.
Proof.
  induction l as [|h t IH]; intro k; cbn.
  - split; [intros _ [|i] x H; discriminate|reflexivity].
  - rewrite andb_true_iff, IH. split.
    + intros [H1 H2] [|i] x H; cbn in H.
      * inversion H; subst. rewrite Nat.add_0_r. exact H1.
      * replace (k + S i)%nat with (S k + i)%nat by lia. apply H2. exact H.
    + intro H. split.
      * specialize (H 0%nat h eq_refl). rewrite Nat.add_0_r in H. exact H.
      * intros i x Hx. replace (S k + i)%nat with (k + S i)%nat by lia. apply H. exact Hx.
Qed.

Lemma seat_at_nth (l : list (option sp)) (z : nat) : (z < length l)%nat -> seat_at l (Z.of_nat z) = nth z l None.
Proof.
  intro H. unfold seat_at. rewrite Nat2Z.id.
  replace (0 <=? Z.of_nat z) with true by (symmetry; apply Z.leb_le; lia).
  replace (Z.of_nat z <? Z.of_nat (length l)) with true by (symmetry; apply Z.ltb_lt; lia). reflexivity.
Qed.

Lemma seat_at_out (l : list (option sp)) (z : Z) : ~ (0 <= z < Z.of_nat (length l)) -> seat_at l z = None.
Proof.
  intro H. unfold seat_at. destruct (0 <=? z) eqn:E1; [|reflexivity]. destruct (z <? Z.of_nat (length l)) eqn:E2; [|reflexivity].
  apply Z.leb_le in E1. apply Z.ltb_lt in E2. lia.
Qed.

Lemma seat_inv_Inv t : seat_inv t = true -> Inv t.
Proof.
  unfold seat_inv. rewrite !andb_true_iff. intros [[[[[[H1 H2] H3] H4] H5] H6] H7].
  apply Nat.eqb_eq in H1, H2, H3. apply nodupb_NoDup in H4. apply Nat.leb_le in H7.
  rewrite forallb_forall in H5. rewrite (forallb_i_spec _ _ 0%nat) in H6.
  constructor; try assumption.
  - cbn. rewrite app_nil_r. exact H4.
  - intros z Hz. specialize (H5 (Z.of_nat z)). rewrite zrange_In in H5. specialize (H5 ltac:(lia)).
    unfold seat_consistent, seat_of_sm in H5. rewrite seat_at_nth in H5 by lia. rewrite Nat2Z.id in H5.
    unfold seat_nth, smap_nth. destruct (nth z (sm_seats (t_sm t)) None) as [q|].
    + right. split; [cbn; tauto|]. apply andb_true_iff in H5. destruct H5 as [Hi Hp]. apply Z.leb_le in Hi.
      destruct (nth_error (t_players t) (Z.to_nat (nth z (t_seatmap t) (-1)))) as [p|] eqn:Ep; [|discriminate].
      rewrite !andb_true_iff in Hp. destruct Hp as [[Ha Hb] Hc]. apply Nat.eqb_eq in Ha. apply Z.eqb_eq in Hb. apply eqb_prop in Hc.
      exists (Z.to_nat (nth z (t_seatmap t) (-1))), p. unfold smap_nth. rewrite Z2Nat.id by lia. repeat split; assumption.
    + apply Z.eqb_eq in H5. exact H5.
  - intros id z [].
  - intros i p Hp. specialize (H6 i p Hp). cbn in H6. unfold player_consistent in H6. rewrite !andb_true_iff in H6.
    destruct H6 as [[Ha Hb] Hc]. apply Z.leb_le in Ha. apply Z.ltb_lt in Hb. apply Z.eqb_eq in Hc. split; [lia|exact Hc].
  - cbn. lia.
Qed.

Lemma Inv_seat_inv t : Inv t -> seat_inv t = true.
Proof.
  intros [H1 H2 H3 H4 H5 _ H6 H7]. cbn in H4, H7. rewrite app_nil_r in H4.
  unfold seat_inv. rewrite !andb_true_iff. repeat split.
  - apply Nat.eqb_eq; exact H1.
  - apply Nat.eqb_eq; exact H2.
  - apply Nat.eqb_eq; exact H3.
  - apply nodupb_NoDup; exact H4.
  - apply forallb_forall. intros zz Hz. apply zrange_In in Hz.
    assert (Ez : zz = Z.of_nat (Z.to_nat zz)) by (rewrite Z2Nat.id; lia). rewrite Ez. set (z := Z.to_nat zz).
    assert (Hzn : (z < t_max t)%nat) by (unfold z; lia).
    specialize (H5 z Hzn). unfold seat_consistent, seat_of_sm. rewrite seat_at_nth by lia. rewrite Nat2Z.id.
    unfold seat_nth, smap_nth in H5. destruct (nth z (sm_seats (t_sm t)) None) as [q|].
    + destruct H5 as [[[] _]|[_ [i [p [Ea [Eb [Ec [Ed Ee]]]]]]]]. unfold smap_nth in Ea. rewrite Ea, Nat2Z.id, Eb.
      rewrite !andb_true_iff. repeat split; [apply Z.leb_le; lia|apply Nat.eqb_eq; exact Ec|apply Z.eqb_eq; exact Ed|rewrite Ee; apply eqb_reflx].
    + apply Z.eqb_eq. exact H5.
  - apply (forallb_i_spec _ _ 0%nat). intros i p Hp. cbn. destruct (H6 i p Hp) as [Ha Hb]. unfold player_consistent.
    rewrite !andb_true_iff. repeat split; [apply Z.leb_le; lia|apply Z.ltb_lt; lia|apply Z.eqb_eq; exact Hb].
  - apply Nat.leb_le. lia.
Qed.

(* ------------------------------------------------------------------ looking a player up in the seat manager *)
Lemma find_seat_from_some l id : forall i z, find_seat_from i l id = Some z ->
  exists k q, z = i + Z.of_nat k /\ (k < length l)%nat /\ nth k l None = Some q /\ sp_id q = id.
Proof.
  induction l as [|o t IH]; intros i z H; cbn in H; [discriminate|].
  destruct o as [p|].
  - destruct (Nat.eqb (sp_id p) id) eqn:E.
    + inversion H; subst. apply Nat.eqb_eq in E. exists 0%nat, p. cbn. repeat split; [lia|lia|exact E].
    + destruct (IH _ _ H) as [k [q [Hz [Hk [Hn Hq]]]]]. exists (S k), q. cbn. repeat split; [lia|lia|exact Hn|exact Hq].
  - destruct (IH _ _ H) as [k [q [Hz [Hk [Hn Hq]]]]]. exists (S k), q. cbn. repeat split; [lia|lia|exact Hn|exact Hq].
Qed.

Lemma find_seat_from_none l id : forall i, find_seat_from i l id = None -> forall k q, nth k l None = Some q -> sp_id q <> id.
Proof.
  induction l as [|o t IH]; intros i H k q Hn; [destruct k; discriminate|].
  cbn in H. destruct o as [p|].
  - destruct (Nat.eqb (sp_id p) id) eqn:E; [discriminate|]. destruct k as [|k]; cbn in Hn.
    + inversion Hn; subst. apply Nat.eqb_neq. exact E.
    + exact (IH _ H k q Hn).
  - destruct k as [|k]; cbn in Hn; [discriminate|]. exact (IH _ H k q Hn).
Qed.

Lemma NoDup_app_disjoint {A} (l1 l2 : list A) x : NoDup (l1 ++ l2) -> In x l1 -> In x l2 -> False.
Proof.
  induction l1 as [|a l1 IH]; cbn; intros Hd H1 H2; [contradiction|].
  inversion Hd as [|? ? Hn Hd']; subst. destruct H1 as [->|H1].
  - apply Hn. apply in_or_app. right. exact H2.
  - exact (IH Hd' H1 H2).
Qed.

Lemma NoDup_app_l {A} (l1 l2 : list A) : NoDup (l1 ++ l2) -> NoDup l1.
Proof. induction l1 as [|a l1 IH]; cbn; intro H; [constructor|]. inversion H; subst. constructor; [intro; apply H2; apply in_or_app; left; assumption|auto]. Qed.
Lemma NoDup_app_r {A} (l1 l2 : list A) : NoDup (l1 ++ l2) -> NoDup l2.
Proof. induction l1 as [|a l1 IH]; cbn; intro H; [exact H|]. inversion H; subst. auto. Qed.

Lemma NoDup_map_fst_fun {A B} (l : list (A * B)) a b c : NoDup (map fst l) -> In (a, b) l -> In (a, c) l -> b = c.
Proof.
  induction l as [|[x y] l IH]; cbn; intros Hd H1 H2; [contradiction|].
  inversion Hd as [|? ? Hn Hd']; subst.
  destruct H1 as [E1|H1], H2 as [E2|H2].
  - congruence.
  - inversion E1; subst. exfalso. apply Hn. apply (in_map fst) in H2. exact H2.
  - inversion E2; subst. exfalso. apply Hn. apply (in_map fst) in H1. exact H1.
  - exact (IH Hd' H1 H2).
Qed.

Lemma nodup_map_nth_error {A B} (f : A -> B) (l : list A) i j a b :
  NoDup (map f l) -> nth_error l i = Some a -> nth_error l j = Some b -> f a = f b -> i = j.
Proof.
  intros Hd Ha Hb E. rewrite NoDup_nth_error in Hd. apply Hd.
  - rewrite map_length. apply nth_error_Some. congruence.
  - rewrite !nth_error_map, Ha, Hb. cbn. congruence.
Qed.

Section WithInv.
  Variables (pend : list (nat * nat)) (t : tbl).
  Hypothesis I : InvP pend t.

  Lemma pend_nodup : NoDup (map fst pend).
  Proof. exact (NoDup_app_r _ _ (ip_nodup _ _ I)). Qed.
  Lemma players_nodup : NoDup (map tp_id (t_players t)).
  Proof. exact (NoDup_app_l _ _ (ip_nodup _ _ I)). Qed.

  Lemma ids_unique z1 z2 q1 q2 : (z1 < t_max t)%nat -> (z2 < t_max t)%nat ->
    seat_nth (t_sm t) z1 = Some q1 -> seat_nth (t_sm t) z2 = Some q2 -> sp_id q1 = sp_id q2 -> z1 = z2.
  Proof.
    intros H1 H2 E1 E2 E.
    pose proof (ip_seat _ _ I z1 H1) as S1. pose proof (ip_seat _ _ I z2 H2) as S2. rewrite E1 in S1. rewrite E2 in S2.
    destruct S1 as [[P1 _]|[_ [i1 [p1 [_ [N1 [D1 [T1 _]]]]]]]], S2 as [[P2 _]|[_ [i2 [p2 [_ [N2 [D2 [T2 _]]]]]]]].
    - rewrite E in P1. exact (NoDup_map_fst_fun _ _ _ _ pend_nodup P1 P2).
    - exfalso. apply (NoDup_app_disjoint _ _ (sp_id q1) (ip_nodup _ _ I)).
      + rewrite E, <- D2. apply in_map. eapply nth_error_In; eassumption.
      + apply (in_map fst) in P1. exact P1.
    - exfalso. apply (NoDup_app_disjoint _ _ (sp_id q2) (ip_nodup _ _ I)).
      + rewrite <- E, <- D1. apply in_map. eapply nth_error_In; eassumption.
      + apply (in_map fst) in P2. exact P2.
    - assert (i1 = i2) by (apply (nodup_map_nth_error tp_id _ _ _ _ _ players_nodup N1 N2); congruence).
      subst. rewrite N1 in N2. inversion N2; subst. apply Nat2Z.inj. congruence.
  Qed.

  Lemma find_seat_of_seat z q : (z < t_max t)%nat -> seat_nth (t_sm t) z = Some q -> find_seat (t_sm t) (sp_id q) = Some (Z.of_nat z).
  Proof.
    intros Hz E. unfold find_seat. destruct (find_seat_from 0 (sm_seats (t_sm t)) (sp_id q)) as [z'|] eqn:F.
    - destruct (find_seat_from_some _ _ _ _ F) as [k [q' [Hz' [Hk [Hn Hq]]]]]. rewrite (ip_len_sm _ _ I) in Hk.
      assert (k = z) by (apply (ids_unique k z q' q Hk Hz Hn E Hq)). subst. reflexivity.
    - exfalso. exact (find_seat_from_none _ _ _ F z q E eq_refl).
  Qed.

  Lemma find_seat_in_range id z : find_seat (t_sm t) id = Some z ->
    exists k q, z = Z.of_nat k /\ (k < t_max t)%nat /\ seat_nth (t_sm t) k = Some q /\ sp_id q = id.
  Proof.
    intro F. destruct (find_seat_from_some _ _ _ _ F) as [k [q [Hz [Hk [Hn Hq]]]]]. rewrite (ip_len_sm _ _ I) in Hk.
    exists k, q. repeat split; [lia|exact Hk|exact Hn|exact Hq].
  Qed.

  (* a player of the table holds a seat of the seat manager *)
  Lemma player_has_seat i p : nth_error (t_players t) i = Some p ->
    exists q, seat_nth (t_sm t) (Z.to_nat (tp_seat p)) = Some q /\ sp_id q = tp_id p /\ sp_in q = tp_in p /\ (Z.to_nat (tp_seat p) < t_max t)%nat.
  Proof.
    intro Hp. destruct (ip_player _ _ I i p Hp) as [Hr Hs].
    assert (Hz : (Z.to_nat (tp_seat p) < t_max t)%nat) by lia.
    pose proof (ip_seat _ _ I _ Hz) as S. destruct (seat_nth (t_sm t) (Z.to_nat (tp_seat p))) as [q|]; [|lia].
    exists q. destruct S as [[_ [_ S]]|[_ [i' [p' [Ha [Hb [Hc [Hd He]]]]]]]]; [lia|].
    assert (i' = i) by lia. subst. rewrite Hp in Hb. inversion Hb; subst. repeat split; auto.
  Qed.

  Lemma find_idx_from_spec ps id : forall k, match find_idx_from k ps id with
    | Some i => exists p, (k <= i)%nat /\ nth_error ps (i - k) = Some p /\ tp_id p = id
    | None => ~ In id (map tp_id ps) end.
  Proof.
    induction ps as [|p ps IH]; intro k; cbn; [tauto|].
    destruct (Nat.eqb (tp_id p) id) eqn:E.
    - apply Nat.eqb_eq in E. exists p. rewrite Nat.sub_diag. cbn. auto.
    - specialize (IH (S k)). destruct (find_idx_from (S k) ps id) as [i|].
      + destruct IH as [p' [Hk [Hn Hi]]]. exists p'. split; [lia|]. replace (i - k)%nat with (S (i - S k)) by lia. cbn. auto.
      + apply Nat.eqb_neq in E. intros [H|H]; [contradiction|]. exact (IH H).
  Qed.

  Lemma find_idx_some id i : find_idx t id = Some i -> exists p, nth_error (t_players t) i = Some p /\ tp_id p = id.
  Proof.
    unfold find_idx. intro H. pose proof (find_idx_from_spec (t_players t) id 0) as S. rewrite H in S.
    destruct S as [p [_ [Hn Hi]]]. rewrite Nat.sub_0_r in Hn. eauto.
  Qed.
  Lemma find_idx_none id : find_idx t id = None -> ~ In id (map tp_id (t_players t)).
  Proof. unfold find_idx. intro H. pose proof (find_idx_from_spec (t_players t) id 0) as S. rewrite H in S. exact S. Qed.

  Lemma player_find_seat i p : nth_error (t_players t) i = Some p -> find_seat (t_sm t) (tp_id p) = Some (tp_seat p).
  Proof.
    intro Hp. destruct (player_has_seat i p Hp) as [q [Hs [Hi [_ Hz]]]]. rewrite <- Hi.
    rewrite (find_seat_of_seat _ q Hz Hs). destruct (ip_player _ _ I i p Hp) as [Hr _]. rewrite Z2Nat.id by lia. reflexivity.
  Qed.
End WithInv.

(* ------------------------------------------------------------------ the seat manager places a newcomer *)
Lemma upd_upd {A} (l : list A) n x y : upd (upd l n x) n y = upd l n y.
Proof. revert n; induction l as [|h t IH]; intros [|n]; cbn; try reflexivity. rewrite IH. reflexivity. Qed.

Lemma place_spec s id z : exists q, sp_id q = id /\ sp_in q = false
  /\ sm_seats (place s id z) = upd (sm_seats s) (Z.to_nat z) (Some q) /\ sm_max (place s id z) = sm_max s.
Proof.
  unfold place, upd_seat. cbn [sm_seats with_seats sm_max]. rewrite upd_upd.
  exists (set_btw (new_seat_player id) (player_between (with_seats s (upd (sm_seats s) (Z.to_nat z) (Some (new_seat_player id)))) z)).
  repeat split.
Qed.

Lemma InvP_place pend t id z :
  InvP pend t -> (z < t_max t)%nat -> seat_nth (t_sm t) z = None ->
  ~ In id (map tp_id (t_players t) ++ map fst pend) -> (length (t_players t) + length pend < t_max t)%nat ->
  InvP ((id, z) :: pend) (with_sm t (place (t_sm t) id (Z.of_nat z))).
Proof.
  intros I Hz Hn Hf Hc. destruct (place_spec (t_sm t) id (Z.of_nat z)) as [q [Qi [Qn [Es Em]]]]. rewrite Nat2Z.id in Es.
  assert (Hlen : (z < length (sm_seats (t_sm t)))%nat) by (rewrite (ip_len_sm _ _ I); exact Hz).
  assert (Hnew : forall z', seat_nth (place (t_sm t) id (Z.of_nat z)) z' = if Nat.eqb z' z then Some q else seat_nth (t_sm t) z').
  { intro z'. unfold seat_nth. rewrite Es, nth_upd. apply Nat.ltb_lt in Hlen. rewrite Hlen, andb_true_r. reflexivity. }
  constructor; cbn [with_sm t_max t_seatmap t_players t_sm].
  - exact (ip_len_map _ _ I).
  - rewrite Es, upd_length. exact (ip_len_sm _ _ I).
  - rewrite Em. exact (ip_max _ _ I).
  - cbn [map fst]. apply (NoDup_Add (Add_app id (map tp_id (t_players t)) (map fst pend))).
    split; [exact (ip_nodup _ _ I)|exact Hf].
  - intros z' Hz'. rewrite Hnew. destruct (Nat.eqb z' z) eqn:E.
    + apply Nat.eqb_eq in E. subst z'. left. rewrite Qi. split; [left; reflexivity|]. split; [exact Qn|].
      pose proof (ip_seat _ _ I z Hz) as S. rewrite Hn in S. exact S.
    + apply Nat.eqb_neq in E. pose proof (ip_seat _ _ I z' Hz') as S. unfold smap_nth in *. cbn [with_sm t_seatmap].
      destruct (seat_nth (t_sm t) z') as [q'|]; [|exact S].
      destruct S as [[P S]|[P S]]; [left; split; [right; exact P|exact S]|].
      right. split; [cbn; intros [H|H]; [congruence|exact (P H)]|exact S].
  - intros id' z' [H|H].
    + inversion H; subst. split; [exact Hz|]. exists q. rewrite Hnew, Nat.eqb_refl. auto.
    + destruct (ip_pend _ _ I id' z' H) as [Hz' [q' [Hs Hi]]]. split; [exact Hz'|]. exists q'. rewrite Hnew.
      destruct (Nat.eqb z' z) eqn:E; [|auto]. apply Nat.eqb_eq in E. subst. congruence.
  - exact (ip_player _ _ I).
  - cbn [length]. lia.
Qed.

(* a whole list of placements *)
Definition zpairs (L : list (nat * Z)) : list (nat * nat) := map (fun iz => (fst iz, Z.to_nat (snd iz))) L.

Lemma fold_place L : forall pend t,
  InvP pend t ->
  (forall id z, In (id, z) L -> 0 <= z < Z.of_nat (t_max t) /\ seat_nth (t_sm t) (Z.to_nat z) = None
                                /\ ~ In id (map tp_id (t_players t) ++ map fst pend)) ->
  NoDup (map fst L) -> NoDup (map snd L) ->
  (length (t_players t) + length pend + length L <= t_max t)%nat ->
  InvP (rev (zpairs L) ++ pend) (with_sm t (fold_left (fun acc iz => place acc (fst iz) (snd iz)) L (t_sm t))).
Proof.
  induction L as [|[id z] L IH]; intros pend t I C D1 D2 Hc.
  - cbn. destruct t; exact I.
  - cbn [fold_left fst snd zpairs map rev]. rewrite <- app_assoc. cbn [app].
    destruct (C id z (or_introl eq_refl)) as [Hr [Hn Hf]].
    inversion D1 as [|? ? N1 D1']; subst. inversion D2 as [|? ? N2 D2']; subst. cbn [length] in Hc.
    assert (I' := InvP_place pend t id (Z.to_nat z) I ltac:(lia) Hn Hf ltac:(lia)). rewrite Z2Nat.id in I' by lia.
    specialize (IH ((id, Z.to_nat z) :: pend) (with_sm t (place (t_sm t) id z)) I').
    cbn [with_sm t_sm t_max t_players] in IH.
    assert (E : with_sm (with_sm t (place (t_sm t) id z)) (fold_left (fun acc iz => place acc (fst iz) (snd iz)) L (place (t_sm t) id z))
                = with_sm t (fold_left (fun acc iz => place acc (fst iz) (snd iz)) L (place (t_sm t) id z))) by reflexivity.
    rewrite E in IH. apply IH; clear IH E.
    + intros id' z' H'. destruct (C id' z' (or_intror H')) as [Hr' [Hn' Hf']]. split; [exact Hr'|]. split.
      * destruct (place_spec (t_sm t) id z) as [q [_ [_ [Es _]]]]. unfold seat_nth in *. rewrite Es, nth_upd_other; [exact Hn'|].
        intro Eq. apply N2. assert (z' = z) by lia. subst. apply (in_map snd) in H'. exact H'.
      * cbn [map fst]. intro H. apply in_app_or in H. destruct H as [H|[H|H]].
        -- apply Hf'. apply in_or_app. left. exact H.
        -- subst. apply N1. apply (in_map fst) in H'. exact H'.
        -- apply Hf'. apply in_or_app. right. exact H.
    + exact D1'.
    + exact D2'.
    + cbn [length]. lia.
Qed.

(* ------------------------------------------------------------------ the table appends a placed player *)
Definition app_player (t : tbl) (id : nat) (z : nat) (chips : Z) : tbl :=
  {| t_max := t_max t; t_seatmap := upd (t_seatmap t) z (Z.of_nat (length (t_players t)));
     t_players := t_players t ++ [new_player id (Z.of_nat z) chips]; t_gpi := t_gpi t; t_status := t_status t; t_sm := t_sm t |}.

Lemma in_pend_twice {A B} (l1 l2 : list (A * B)) a b b' : NoDup (map fst (l1 ++ (a, b) :: l2)) -> In (a, b') (l1 ++ l2) -> False.
Proof.
  rewrite map_app. cbn [map fst]. intros Hd Hin. apply NoDup_remove_2 in Hd. apply Hd.
  rewrite <- map_app. apply (in_map fst) in Hin. exact Hin.
Qed.

Lemma InvP_append l1 l2 t id z chips :
  InvP (l1 ++ (id, z) :: l2) t -> InvP (l1 ++ l2) (app_player t id z chips).
Proof.
  intro I. set (pend := l1 ++ (id, z) :: l2) in *.
  assert (Hin : In (id, z) pend) by (apply in_or_app; right; left; reflexivity).
  destruct (ip_pend _ _ I id z Hin) as [Hz [q [Hs Hq]]].
  assert (Hlm : (z < length (t_seatmap t))%nat) by (rewrite (ip_len_map _ _ I); exact Hz).
  pose proof (ip_seat _ _ I z Hz) as Sz. rewrite Hs in Sz.
  assert (Hzp : In z (map snd pend)) by (apply (in_map snd) in Hin; exact Hin).
  destruct Sz as [[_ [Qn Sm]]|[Sz _]]; [|contradiction].
  assert (Hsub : forall x, In x (l1 ++ l2) -> In x pend).
  { intros x Hx. apply in_app_or in Hx. apply in_or_app. destruct Hx; [left|right; right]; assumption. }
  assert (Hsm : forall z', smap_nth (app_player t id z chips) z' = if Nat.eqb z' z then Z.of_nat (length (t_players t)) else smap_nth t z').
  { intro z'. unfold smap_nth, app_player. cbn [t_seatmap]. rewrite nth_upd. apply Nat.ltb_lt in Hlm. rewrite Hlm, andb_true_r. reflexivity. }
  constructor; cbn [app_player t_max t_seatmap t_players t_sm].
  - rewrite upd_length. exact (ip_len_map _ _ I).
  - exact (ip_len_sm _ _ I).
  - exact (ip_max _ _ I).
  - rewrite map_app. cbn [map tp_id new_player]. rewrite <- app_assoc. cbn [app].
    pose proof (ip_nodup _ _ I) as Hd. unfold pend in Hd. rewrite map_app in Hd. cbn [map fst] in Hd.
    rewrite map_app. rewrite app_assoc in Hd. apply NoDup_remove in Hd. destruct Hd as [Hd Hni]. rewrite <- app_assoc in Hd, Hni.
    apply (NoDup_Add (Add_app id (map tp_id (t_players t)) (map fst l1 ++ map fst l2))). split; assumption.
  - intros z' Hz'. pose proof (ip_seat _ _ I z' Hz') as S. rewrite Hsm.
    destruct (Nat.eqb z' z) eqn:E.
    + apply Nat.eqb_eq in E. subst z'. rewrite Hs. right. split.
      * intro H. apply in_map_iff in H. destruct H as [[a b] [Eb Hab]]. cbn in Eb. subst b.
        exact (in_pend_twice l1 l2 id z z ltac:(
          assert (a = id) by (destruct (ip_pend _ _ I a z (Hsub _ Hab)) as [_ [q' [Hs' Hq']]]; congruence); subst a;
          exact (NoDup_app_r _ _ (ip_nodup _ _ I))) ltac:(
          assert (a = id) by (destruct (ip_pend _ _ I a z (Hsub _ Hab)) as [_ [q' [Hs' Hq']]]; congruence); subst a; exact Hab)).
      * exists (length (t_players t)), (new_player id (Z.of_nat z) chips). rewrite Hsm, Nat.eqb_refl. cbn [app_player t_players].
        rewrite nth_error_app2 by lia. rewrite Nat.sub_diag. cbn. repeat split; congruence.
    + apply Nat.eqb_neq in E. destruct (seat_nth (t_sm t) z') as [q'|]; [|exact S].
      destruct S as [[P S]|[P [i [p [Ha [Hb Hc]]]]]].
      * left. split; [|exact S]. unfold pend in P. apply in_app_or in P. apply in_or_app.
        destruct P as [P|[P|P]]; [left; exact P|inversion P; congruence|right; exact P].
      * right. split.
        -- intro H. apply P. apply in_map_iff in H. destruct H as [x [Ex Hx]]. apply in_map_iff. exists x. split; [exact Ex|exact (Hsub _ Hx)].
        -- exists i, p. rewrite Hsm. apply Nat.eqb_neq in E. rewrite E. split; [exact Ha|]. split; [|exact Hc]. cbn [app_player t_players].
           rewrite nth_error_app1; [exact Hb|]. apply nth_error_Some. congruence.
  - intros id' z' H. exact (ip_pend _ _ I id' z' (Hsub _ H)).
  - intros i p Hp. destruct (Nat.lt_ge_cases i (length (t_players t))) as [Hi|Hi].
    + rewrite nth_error_app1 in Hp by exact Hi. destruct (ip_player _ _ I i p Hp) as [Hr Hm]. split; [exact Hr|].
      rewrite Hsm. destruct (Nat.eqb (Z.to_nat (tp_seat p)) z) eqn:E; [|exact Hm].
      apply Nat.eqb_eq in E. rewrite E in Hm. lia.
    + rewrite nth_error_app2 in Hp by exact Hi. destruct (i - length (t_players t))%nat as [|k] eqn:Ek; [|destruct k; discriminate].
      cbn in Hp. inversion Hp; subst p. cbn [tp_seat new_player]. rewrite Nat2Z.id. split; [lia|].
      rewrite Hsm, Nat.eqb_refl. f_equal. lia.
  - rewrite !app_length in *. unfold pend in I. pose proof (ip_cap _ _ I) as Hc. rewrite app_length in Hc. cbn [length] in *. lia.
Qed.

Definition add_step (s2 : sm) (acc : list Z * list tplayer) (j : join_player) : list Z * list tplayer :=
  let '(smap, ps) := acc in
  match find_seat s2 (jp_id j) with
  | Some z => (upd smap (Z.to_nat z) (Z.of_nat (length ps)), ps ++ [new_player (jp_id j) z (jp_chips j)])
  | None => acc
  end.

Lemma fold_append jps : forall pend t,
  InvP pend t -> NoDup (map jp_id jps) -> (forall id, In id (map jp_id jps) <-> In id (map fst pend)) ->
  Inv {| t_max := t_max t; t_seatmap := fst (fold_left (add_step (t_sm t)) jps (t_seatmap t, t_players t));
         t_players := snd (fold_left (add_step (t_sm t)) jps (t_seatmap t, t_players t));
         t_gpi := t_gpi t; t_status := t_status t; t_sm := t_sm t |}.
Proof.
  induction jps as [|j jps IH]; intros pend t I Hd Hids.
  - cbn. destruct pend as [|[a b] pend].
    + destruct t; exact I.
    + exfalso. apply (Hids a). left. reflexivity.
  - cbn [fold_left add_step]. cbn [map] in Hd, Hids. inversion Hd as [|? ? Hn Hd']; subst.
    assert (Hp : In (jp_id j) (map fst pend)) by (apply Hids; left; reflexivity).
    apply in_map_iff in Hp. destruct Hp as [[a z] [Ea Hin]]. cbn in Ea. subst a.
    destruct (in_split _ _ Hin) as [l1 [l2 El]]. subst pend.
    destruct (ip_pend _ _ I _ _ Hin) as [Hz [q [Hs Hq]]].
    assert (F : find_seat (t_sm t) (jp_id j) = Some (Z.of_nat z)) by (rewrite <- Hq; apply (find_seat_of_seat _ _ I z q Hz Hs)).
    rewrite F, Nat2Z.id.
    pose proof (InvP_append l1 l2 t (jp_id j) z (jp_chips j) I) as I'.
    specialize (IH (l1 ++ l2) (app_player t (jp_id j) z (jp_chips j)) I' Hd').
    cbn [app_player t_max t_seatmap t_players t_gpi t_status t_sm] in IH. apply IH. clear IH.
    pose proof (NoDup_app_r _ _ (ip_nodup _ _ I)) as Hdp.
    intro id. split.
    + intro H. assert (H' : In id (map fst (l1 ++ (jp_id j, z) :: l2))) by (apply Hids; right; exact H).
      rewrite map_app in H'. cbn [map fst] in H'. rewrite map_app. apply in_app_or in H'. apply in_or_app.
      destruct H' as [H'|[H'|H']]; [left; exact H'| |right; exact H']. subst id. contradiction.
    + intro H. assert (H' : In id (map fst (l1 ++ (jp_id j, z) :: l2))).
      { rewrite map_app in *. cbn [map fst]. apply in_app_or in H. apply in_or_app. destruct H; [left|right; right]; assumption. }
      apply Hids in H'. destruct H' as [H'|H']; [|exact H']. subst id. exfalso.
      rewrite map_app in Hdp. cbn [map fst] in Hdp. apply NoDup_remove_2 in Hdp. apply Hdp. rewrite <- map_app. exact H.
Qed.

(* ------------------------------------------------------------------ batchAddPlayers *)
Definition draws_okb (s1 : sm) (n : nat) (drawn : list Z) : bool :=
  Nat.eqb (length drawn) n && nodupb Z.eqb drawn
  && forallb (fun z => in_range s1 z && match seat_at (sm_seats s1) z with None => true | Some _ => false end) drawn.

(* the seats drawn for the newcomers who asked for any seat are distinct empty seats (at the moment of the draw: after
   the newcomers who named a seat have been placed) *)
Definition batch_draws_okb (t : tbl) (jps : list join_player) (drawn : list Z) : bool :=
  let fixed := filter (fun j => negb (jp_seat j =? -1)) jps in
  let rnd := filter (fun j => jp_seat j =? -1) jps in
  match rnd with
  | [] => true
  | _ => draws_okb (match fixed with [] => t_sm t | _ => snd (assign (t_sm t) (map (fun j => (jp_id j, jp_seat j)) fixed)) end) (length rnd) drawn
  end.

Lemma filter_partition_length {A} (f : A -> bool) l : (length (filter f l) + length (filter (fun x => negb (f x)) l) = length l)%nat.
Proof. induction l as [|x l IH]; cbn; [reflexivity|]. destruct (f x); cbn; lia. Qed.

Lemma NoDup_map_inj_in {A B} (g : A -> B) l a b : NoDup (map g l) -> In a l -> In b l -> g a = g b -> a = b.
Proof.
  induction l as [|x l IH]; cbn; intros Hd Ha Hb E; [contradiction|]. inversion Hd as [|? ? Hn Hd']; subst.
  destruct Ha as [->|Ha], Hb as [->|Hb]; [reflexivity| | |exact (IH Hd' Ha Hb E)].
  - exfalso. apply Hn. rewrite E. apply in_map. exact Hb.
  - exfalso. apply Hn. rewrite <- E. apply in_map. exact Ha.
Qed.

Lemma NoDup_map_filter {A B} (g : A -> B) f l : NoDup (map g l) -> NoDup (map g (filter f l)).
Proof.
  induction l as [|x l IH]; cbn; intro Hd; [constructor|]. inversion Hd as [|? ? Hn Hd']; subst.
  destruct (f x); cbn; [constructor|]; auto. intro H. apply Hn. apply in_map_iff in H. destruct H as [y [Ey Hy]].
  apply filter_In in Hy. rewrite <- Ey. apply in_map. tauto.
Qed.

Lemma map_fst_combine {A B} (l1 : list A) : forall (l2 : list B), length l1 = length l2 -> map fst (combine l1 l2) = l1.
Proof. induction l1 as [|a l1 IH]; intros [|b l2] H; cbn in *; try reflexivity; try discriminate. rewrite IH; [reflexivity|lia]. Qed.
Lemma map_snd_combine {A B} (l1 : list A) : forall (l2 : list B), length l1 = length l2 -> map snd (combine l1 l2) = l2.
Proof. induction l1 as [|a l1 IH]; intros [|b l2] H; cbn in *; try reflexivity; try discriminate. rewrite IH; [reflexivity|lia]. Qed.

Lemma seat_at_Z (l : list (option sp)) z : 0 <= z < Z.of_nat (length l) -> seat_at l z = nth (Z.to_nat z) l None.
Proof. intro H. rewrite <- (Z2Nat.id z) at 1 by lia. apply seat_at_nth. lia. Qed.

Lemma zpairs_fst L : map fst (zpairs L) = map fst L.
Proof. unfold zpairs. rewrite map_map. reflexivity. Qed.
Lemma zpairs_length L : length (zpairs L) = length L.
Proof. unfold zpairs. apply map_length. Qed.

Definition place_all (L : list (nat * Z)) (s : sm) : sm := fold_left (fun acc iz => place acc (fst iz) (snd iz)) L s.

Lemma batch_add_inv t jps drawn r t' :
  Inv t -> batch_draws_okb t jps drawn = true -> batch_add t jps drawn = (r, t') -> Inv t'.
Proof.
  intros I Hdr H. unfold batch_add in H. unfold batch_draws_okb in Hdr.
  destruct (negb (nodupb Nat.eqb (map jp_id jps))) eqn:Hnd; [inversion H; subst; exact I|].
  apply negb_false_iff, nodupb_NoDup in Hnd.
  destruct (existsb _ (map jp_id jps)) eqn:Hex; [inversion H; subst; exact I|].
  destruct (t_max t <? length (t_players t) + length jps)%nat eqn:Hcap; [inversion H; subst; exact I|].
  apply Nat.ltb_ge in Hcap.
  assert (Hfresh : forall id, In id (map jp_id jps) -> ~ In id (map tp_id (t_players t))).
  { intros id Hin. destruct (find_idx t id) as [i|] eqn:F.
    - exfalso. assert (existsb (fun id => match find_idx t id with Some _ => true | None => false end) (map jp_id jps) = true).
      { apply existsb_exists. exists id. rewrite F. auto. } congruence.
    - exact (find_idx_none t id F). }
  set (fixed := filter (fun j => negb (jp_seat j =? -1)) jps) in *.
  set (rnd := filter (fun j => jp_seat j =? -1) jps) in *.
  set (Lf := map (fun j => (jp_id j, jp_seat j)) fixed) in *.
  assert (Hlen : (length fixed + length rnd = length jps)%nat).
  { unfold fixed, rnd. rewrite Nat.add_comm. apply (filter_partition_length (fun j => jp_seat j =? -1)). }
  assert (Hfin : forall j, In j fixed -> In j jps) by (intros j Hj; apply filter_In in Hj; tauto).
  assert (Hrin : forall j, In j rnd -> In j jps) by (intros j Hj; apply filter_In in Hj; tauto).
  (* phase 1: the newcomers who named a seat *)
  assert (P1 : forall s1, (match fixed with [] => (Ok, t_sm t) | _ => assign (t_sm t) Lf end) = (Ok, s1) ->
               s1 = place_all Lf (t_sm t) /\ InvP (rev (zpairs Lf)) (with_sm t s1)).
  { intros s1 E. assert (E' : fixed = [] /\ s1 = t_sm t \/ assign (t_sm t) Lf = (Ok, s1)).
    { destruct fixed; [left; inversion E; auto|right; exact E]. }
    destruct E' as [[E1 E2]|E'].
    - subst s1. unfold Lf. rewrite E1. cbn. split; [reflexivity|]. destruct t; exact I.
    - unfold assign in E'. destruct (assign_ok (t_sm t) Lf) eqn:A; [|discriminate]. inversion E'; subst s1. split; [reflexivity|].
      unfold assign_ok in A. rewrite !andb_true_iff in A. destruct A as [[[[A1 A2] A3] A4] A5].
      rewrite forallb_forall in A2, A4, A5. apply nodupbZ_NoDup in A3.
      rewrite <- (app_nil_r (rev (zpairs Lf))). apply fold_place; [exact I| | |exact A3|].
      + intros id z Hin. specialize (A2 _ Hin). specialize (A4 _ Hin). specialize (A5 _ Hin). cbn [fst snd] in *.
        unfold in_range, mx in A2. rewrite (ip_max _ _ I) in A2. apply andb_true_iff in A2. destruct A2 as [B1 B2].
        apply Z.leb_le in B1. apply Z.ltb_lt in B2. split; [lia|].
        rewrite seat_at_Z in A4 by (rewrite (ip_len_sm _ _ I); lia). unfold seat_nth. split.
        * destruct (nth (Z.to_nat z) (sm_seats (t_sm t)) None) as [q|] eqn:Eq; [|reflexivity]. exfalso.
          apply Nat.eqb_eq in A4. unfold find_seat in A5. destruct (find_seat_from 0 (sm_seats (t_sm t)) id) eqn:F; [discriminate|].
          exact (find_seat_from_none _ _ _ F _ _ Eq A4).
        * cbn [map]. rewrite app_nil_r. apply Hfresh. unfold Lf in Hin. apply in_map_iff in Hin. destruct Hin as [j [Ej Hj]].
          inversion Ej; subst. apply in_map. exact (Hfin _ Hj).
      + unfold Lf. rewrite map_map. cbn [fst]. apply NoDup_map_filter. exact Hnd.
      + cbn [length]. unfold Lf. rewrite map_length. lia. }
  destruct (match fixed with [] => (Ok, t_sm t) | _ => assign (t_sm t) Lf end) as [r1 s1] eqn:E1.
  destruct r1; [|inversion H; subst; exact I].
  destruct (P1 s1 eq_refl) as [Es1 I1]. clear P1.
  (* phase 2: the newcomers who take any seat *)
  set (Lr := combine (map jp_id rnd) drawn) in *.
  assert (P2 : forall s2, (match rnd with [] => (Ok, s1) | _ => random_assign s1 (map jp_id rnd) drawn end) = (Ok, s2) ->
               InvP (rev (zpairs Lr) ++ rev (zpairs Lf)) (with_sm t s2) /\ (rnd = [] \/ length drawn = length rnd)).
  { intros s2 E. assert (E' : rnd = [] /\ s2 = s1 \/ rnd <> [] /\ random_assign s1 (map jp_id rnd) drawn = (Ok, s2)).
    { destruct rnd; [left; inversion E; auto|right; split; [discriminate|exact E]]. }
    destruct E' as [[E2 E3]|[Hne E']].
    - subst s2. split; [|left; exact E2]. unfold Lr. rewrite E2. cbn. exact I1.
    - assert (Hd : draws_okb s1 (length rnd) drawn = true).
      { destruct rnd; [contradiction|]. destruct fixed; [inversion E1; subst; exact Hdr|]. rewrite E1 in Hdr. exact Hdr. }
      unfold draws_okb in Hd. rewrite !andb_true_iff in Hd. destruct Hd as [[D1 D2] D3].
      apply Nat.eqb_eq in D1. apply nodupbZ_NoDup in D2. rewrite forallb_forall in D3. split; [|right; exact D1].
      unfold random_assign in E'. destruct (negb _); [discriminate|]. destruct (_ <? _)%nat; [discriminate|]. inversion E'; subst s2.
      assert (Ew : with_sm t (fold_left (fun acc iz => place acc (fst iz) (snd iz)) Lr s1)
                   = with_sm (with_sm t s1) (fold_left (fun acc iz => place acc (fst iz) (snd iz)) Lr (t_sm (with_sm t s1)))) by reflexivity.
      fold Lr. rewrite Ew. apply fold_place; [exact I1| | | |].
      + intros id z Hin. cbn [with_sm t_max t_sm t_players].
        assert (Hz : In z drawn) by (apply in_combine_r in Hin; exact Hin).
        assert (Hid : In id (map jp_id rnd)) by (apply in_combine_l in Hin; exact Hin).
        specialize (D3 _ Hz). apply andb_true_iff in D3. destruct D3 as [B B3]. unfold in_range, mx in B.
        pose proof (ip_max _ _ I1) as M1. cbn [with_sm t_sm t_max] in M1. rewrite M1 in B. apply andb_true_iff in B. destruct B as [B1 B2].
        apply Z.leb_le in B1. apply Z.ltb_lt in B2. split; [lia|].
        pose proof (ip_len_sm _ _ I1) as L1. cbn [with_sm t_sm t_max] in L1.
        rewrite seat_at_Z in B3 by (rewrite L1; lia). unfold seat_nth. split.
        * destruct (nth (Z.to_nat z) (sm_seats s1) None); [discriminate|reflexivity].
        * intro Hi. apply in_app_or in Hi. apply in_map_iff in Hid. destruct Hid as [j [Ej Hj]]. subst id. destruct Hi as [Hi|Hi].
          -- exact (Hfresh _ (in_map jp_id _ _ (Hrin _ Hj)) Hi).
          -- rewrite map_rev, zpairs_fst in Hi. apply in_rev in Hi. unfold Lf in Hi. rewrite map_map in Hi. cbn [fst] in Hi.
             apply in_map_iff in Hi. destruct Hi as [j' [Ej' Hj']].
             assert (j' = j) by (apply (NoDup_map_inj_in jp_id jps); auto). subst j'.
             apply filter_In in Hj. apply filter_In in Hj'. destruct Hj as [_ Hj]. destruct Hj' as [_ Hj']. rewrite Hj in Hj'. discriminate.
      + unfold Lr. rewrite map_fst_combine by (rewrite map_length; lia). apply NoDup_map_filter. exact Hnd.
      + unfold Lr. rewrite map_snd_combine by (rewrite map_length; lia). exact D2.
      + cbn [with_sm t_players t_max]. rewrite rev_length, zpairs_length. unfold Lf, Lr. rewrite map_length, combine_length, map_length. lia. }
  destruct (match rnd with [] => (Ok, s1) | _ => random_assign s1 (map jp_id rnd) drawn end) as [r2 s2] eqn:E2.
  destruct r2; [|inversion H; subst; exact I].
  destruct (P2 s2 eq_refl) as [I2 Hld]. clear P2.
  (* phase 3: the table appends the players *)
  pose proof (fold_append jps _ _ I2 Hnd) as F. cbn [with_sm t_sm t_seatmap t_players t_max t_gpi t_status] in F.
  match type of H with (let '(a, b) := ?X in _) = _ => destruct X as [smap' ps'] eqn:EF end.
  inversion H; subst r t'. clear H.
  unfold add_step in F. rewrite EF in F. cbn [fst snd] in F. apply F. clear F EF.
  intro id. rewrite map_app, !map_rev, !zpairs_fst. unfold Lf. rewrite map_map. cbn [fst]. split.
  - intro Hin. apply in_map_iff in Hin. destruct Hin as [j [Ej Hj]]. subst id. apply in_or_app.
    destruct (jp_seat j =? -1) eqn:Es.
    + left. apply -> in_rev. unfold Lr. destruct Hld as [Hld|Hld].
      * exfalso. assert (In j rnd) by (apply filter_In; auto). rewrite Hld in H. exact H.
      * rewrite map_fst_combine by (rewrite map_length; lia). apply in_map. apply filter_In. auto.
    + right. apply -> in_rev. apply in_map. apply filter_In. rewrite Es. auto.
  - intro Hin. apply in_app_or in Hin. destruct Hin as [Hin|Hin]; apply in_rev in Hin.
    + apply in_map_iff in Hin. destruct Hin as [[a b] [Ea Hab]]. cbn in Ea. subst a. apply in_combine_l in Hab.
      apply in_map_iff in Hab. destruct Hab as [j [Ej Hj]]. subst id. apply in_map. exact (Hrin _ Hj).
    + apply in_map_iff in Hin. destruct Hin as [j [Ej Hj]]. subst id. apply in_map. exact (Hfin _ Hj).
Qed.

(* ------------------------------------------------------------------ batchRemovePlayers *)
Lemma nth_upd_None {A} (l : list (option A)) n k : nth k (upd l n None) None = if Nat.eqb k n then None else nth k l None.
Proof.
  rewrite nth_upd. destruct (Nat.eqb k n) eqn:E; [|reflexivity]. destruct (n <? length l)%nat eqn:L; cbn [andb]; [reflexivity|].
  apply Nat.eqb_eq in E. apply Nat.ltb_ge in L. subst. rewrite nth_overflow by exact L. reflexivity.
Qed.

Definition clear_all (zs : list Z) (s : sm) : sm := fold_left (fun acc z => upd_seat acc z None) zs s.

Lemma clear_all_spec zs : forall s,
  sm_max (clear_all zs s) = sm_max s /\ length (sm_seats (clear_all zs s)) = length (sm_seats s)
  /\ forall k, nth k (sm_seats (clear_all zs s)) None = if existsb (fun z => Nat.eqb k (Z.to_nat z)) zs then None else nth k (sm_seats s) None.
Proof.
  induction zs as [|z zs IH]; intro s; cbn [clear_all fold_left existsb].
  - auto.
  - destruct (IH (upd_seat s z None)) as [A [B C]]. unfold clear_all in *. rewrite A, B. cbn [upd_seat with_seats sm_max sm_seats].
    rewrite upd_length. repeat split. intro k. rewrite C. cbn [upd_seat with_seats sm_seats]. rewrite nth_upd_None.
    destruct (existsb _ zs); [rewrite orb_true_r; reflexivity|]. rewrite orb_false_r. reflexivity.
Qed.

Lemma all_some_spec {A} (l : list (option A)) r : all_some l = Some r -> l = map Some r.
Proof.
  revert r; induction l as [|o l IH]; intros r H; cbn in H.
  - inversion H. reflexivity.
  - destruct o as [x|]; [|discriminate]. destruct (all_some l) as [r'|]; [|discriminate]. inversion H; subst. cbn. rewrite (IH r' eq_refl). reflexivity.
Qed.

Lemma build_seatmap_length ps : forall m k, length (build_seatmap m ps k) = length m.
Proof. induction ps as [|p ps IH]; intros m k; cbn; [reflexivity|]. rewrite IH, upd_length. reflexivity. Qed.

Lemma build_seatmap_miss ps : forall m k z d, (forall p, In p ps -> Z.to_nat (tp_seat p) <> z) -> nth z (build_seatmap m ps k) d = nth z m d.
Proof.
  induction ps as [|p ps IH]; intros m k z d H; cbn; [reflexivity|].
  rewrite IH by (intros p' Hp'; apply H; right; exact Hp'). apply nth_upd_other. intro E. apply (H p (or_introl eq_refl)). auto.
Qed.

Lemma build_seatmap_hit ps : forall m k i p,
  nth_error ps i = Some p -> (Z.to_nat (tp_seat p) < length m)%nat ->
  (forall j p', nth_error ps j = Some p' -> Z.to_nat (tp_seat p') = Z.to_nat (tp_seat p) -> j = i) ->
  nth (Z.to_nat (tp_seat p)) (build_seatmap m ps k) (-1) = k + Z.of_nat i.
Proof.
  induction ps as [|h ps IH]; intros m k i p Hp Hl Hu; [destruct i; discriminate|].
  destruct i as [|i]; cbn in Hp; cbn [build_seatmap].
  - inversion Hp; subst h. rewrite build_seatmap_miss.
    + rewrite nth_upd_same by exact Hl. lia.
    + intros p' Hin E. apply In_nth_error in Hin. destruct Hin as [j Hj]. specialize (Hu (S j) p' Hj E). discriminate.
  - rewrite (IH (upd m (Z.to_nat (tp_seat h)) k) (k + 1) i p Hp).
    + lia.
    + rewrite upd_length. exact Hl.
    + intros j p' Hj E. specialize (Hu (S j) p' Hj E). lia.
Qed.

Lemma filter_length_le' {A} (f : A -> bool) l : (length (filter f l) <= length l)%nat.
Proof. induction l as [|x l IH]; cbn; [lia|]. destruct (f x); cbn; lia. Qed.

Lemma nth_repeat_default {A} (x : A) n k : nth k (repeat x n) x = x.
Proof. revert k; induction n as [|n IH]; intros [|k]; cbn; auto. Qed.

Lemma batch_remove_inv t ids r t' : Inv t -> batch_remove t ids = (r, t') -> Inv t'.
Proof.
  intros I H. unfold batch_remove, remove_seats in H.
  destruct (all_some (map (find_seat (t_sm t)) ids)) as [zs|] eqn:A; [|inversion H; subst; exact I].
  fold (clear_all zs (t_sm t)) in H. inversion H; subst r t'. clear H.
  apply all_some_spec in A.
  destruct (clear_all_spec zs (t_sm t)) as [Cm [Cl Cn]].
  set (keep := fun p => negb (mem_id (tp_id p) ids)).
  set (ps' := filter keep (t_players t)).
  set (gone := fun k => existsb (fun z => Nat.eqb k (Z.to_nat z)) zs) in *.
  assert (F1 : forall id, In id ids -> exists z, find_seat (t_sm t) id = Some z /\ In z zs).
  { intros id Hin. apply (in_map (find_seat (t_sm t))) in Hin. rewrite A in Hin. apply in_map_iff in Hin. destruct Hin as [z [Ez Hz]]. eauto. }
  assert (F2 : forall z, In z zs -> exists id, In id ids /\ find_seat (t_sm t) id = Some z).
  { intros z Hz. apply (in_map Some) in Hz. rewrite <- A in Hz. apply in_map_iff in Hz. destruct Hz as [id [Ei Hi]]. eauto. }
  assert (G : forall k q, (k < t_max t)%nat -> seat_nth (t_sm t) k = Some q -> gone k = mem_id (sp_id q) ids).
  { intros k q Hk Hq. unfold gone, mem_id. apply eq_true_iff_eq. split; intro E; apply existsb_exists in E; apply existsb_exists.
    - destruct E as [z [Hz Ez]]. apply Nat.eqb_eq in Ez. destruct (F2 z Hz) as [id [Hid Fz]].
      destruct (find_seat_in_range _ _ I id z Fz) as [k' [q' [Ek [Hk' [Hq' Hi']]]]]. assert (k' = k) by lia. subst k'.
      rewrite Hq in Hq'. inversion Hq'; subst q'. exists id. split; [exact Hid|]. apply Nat.eqb_eq. auto.
    - destruct E as [id [Hid Ei]]. apply Nat.eqb_eq in Ei. subst id. destruct (F1 _ Hid) as [z [Fz Hz]].
      rewrite (find_seat_of_seat _ _ I k q Hk Hq) in Fz. inversion Fz; subst z. exists (Z.of_nat k). split; [exact Hz|].
      rewrite Nat2Z.id. apply Nat.eqb_refl. }
  assert (Hsub : forall p, In p ps' -> In p (t_players t) /\ mem_id (tp_id p) ids = false).
  { intros p Hp. apply filter_In in Hp. destruct Hp as [Hp Hk]. unfold keep in Hk. apply negb_true_iff in Hk. auto. }
  assert (Hnd' : NoDup (map tp_id ps')) by (apply NoDup_map_filter; exact (players_nodup _ _ I)).
  assert (Same : forall i j p p', nth_error (t_players t) i = Some p -> nth_error (t_players t) j = Some p' ->
                 Z.to_nat (tp_seat p) = Z.to_nat (tp_seat p') -> i = j).
  { intros i j p p' Hi Hj E. destruct (ip_player _ _ I i p Hi) as [_ M1]. destruct (ip_player _ _ I j p' Hj) as [_ M2].
    rewrite E in M1. rewrite M1 in M2. lia. }
  assert (Same' : forall i j p p', nth_error ps' i = Some p -> nth_error ps' j = Some p' -> Z.to_nat (tp_seat p') = Z.to_nat (tp_seat p) -> j = i).
  { intros i j p p' Hi Hj E. apply (nodup_map_nth_error tp_id ps' j i p' p Hnd' Hj Hi).
    destruct (Hsub p (nth_error_In _ _ Hi)) as [Hp _]. destruct (Hsub p' (nth_error_In _ _ Hj)) as [Hp' _].
    apply In_nth_error in Hp. apply In_nth_error in Hp'. destruct Hp as [a Ha]. destruct Hp' as [b Hb].
    assert (a = b) by (apply (Same a b p p' Ha Hb); lia). subst. rewrite Ha in Hb. inversion Hb. reflexivity. }
  assert (Hit : forall i p, nth_error ps' i = Some p ->
                nth (Z.to_nat (tp_seat p)) (build_seatmap (repeat (-1) (t_max t)) ps' 0) (-1) = Z.of_nat i).
  { intros i p Hi. rewrite (build_seatmap_hit ps' _ 0 i p Hi); [lia| |].
    - rewrite repeat_length. destruct (Hsub p (nth_error_In _ _ Hi)) as [Hp _]. apply In_nth_error in Hp. destruct Hp as [a Ha].
      destruct (ip_player _ _ I a p Ha) as [Hr _]. lia.
    - intros j p' Hj E. exact (Same' i j p p' Hi Hj E). }
  assert (Miss : forall k, (forall p, In p ps' -> Z.to_nat (tp_seat p) <> k) -> nth k (build_seatmap (repeat (-1) (t_max t)) ps' 0) (-1) = -1).
  { intros k Hk. rewrite build_seatmap_miss by exact Hk. apply nth_repeat_default. }
  constructor; cbn [t_max t_seatmap t_players t_sm map app length].
  - rewrite build_seatmap_length, repeat_length. reflexivity.
  - rewrite Cl. exact (ip_len_sm _ _ I).
  - rewrite Cm. exact (ip_max _ _ I).
  - rewrite app_nil_r. exact Hnd'.
  - intros k Hk. unfold seat_nth, smap_nth. cbn [t_sm t_seatmap]. rewrite Cn. fold (gone k).
    pose proof (ip_seat _ _ I k Hk) as S. unfold seat_nth in *.
    destruct (nth k (sm_seats (t_sm t)) None) as [q|] eqn:Eq.
    + destruct S as [[[] _]|[_ [i [p [Sa [Sb [Sc [Sd Se]]]]]]]].
      rewrite (G k q Hk Eq). destruct (mem_id (sp_id q) ids) eqn:M.
      * apply Miss. intros p' Hp' E. destruct (Hsub p' Hp') as [Hin Hm]. apply In_nth_error in Hin. destruct Hin as [a Ha].
        assert (a = i) by (apply (Same a i p' p Ha Sb); rewrite Sd, Nat2Z.id; exact E). subst a. rewrite Sb in Ha. inversion Ha; subst p'.
        rewrite Sc in Hm. congruence.
      * right. split; [cbn; tauto|]. assert (Hp : In p ps') by (apply filter_In; split; [eapply nth_error_In; eassumption|unfold keep; rewrite Sc, M; reflexivity]).
        apply In_nth_error in Hp. destruct Hp as [i' Hi']. exists i', p. unfold smap_nth. cbn [t_seatmap t_players].
        pose proof (Hit i' p Hi') as Hh. rewrite Sd, Nat2Z.id in Hh. repeat split; assumption.
    + destruct (gone k); apply Miss; intros p' Hp' E; destruct (Hsub p' Hp') as [Hin _]; apply In_nth_error in Hin; destruct Hin as [a Ha];
        destruct (ip_player _ _ I a p' Ha) as [_ M]; rewrite E in M; unfold smap_nth in *; lia.
  - intros id z [].
  - intros i p Hi. destruct (Hsub p (nth_error_In _ _ Hi)) as [Hin _]. apply In_nth_error in Hin. destruct Hin as [a Ha].
    destruct (ip_player _ _ I a p Ha) as [Hr _]. split; [exact Hr|]. unfold smap_nth. cbn [t_seatmap]. exact (Hit i p Hi).
  - pose proof (ip_cap _ _ I) as Hc. cbn [length] in Hc. pose proof (filter_length_le' keep (t_players t)) as Hf. fold ps' in Hf. lia.
Qed.

(* ------------------------------------------------------------------ single-player updates *)
Lemma with_sm_id t : with_sm t (t_sm t) = t.
Proof. destruct t; reflexivity. Qed.

Lemma InvP_map_nth pend t i f :
  (forall p, tp_id (f p) = tp_id p /\ tp_seat (f p) = tp_seat p /\ tp_in (f p) = tp_in p) ->
  InvP pend t -> InvP pend (with_players t (map_nth (t_players t) i f)).
Proof.
  intros Hf I. constructor; cbn [with_players t_max t_seatmap t_players t_sm].
  - exact (ip_len_map _ _ I).
  - exact (ip_len_sm _ _ I).
  - exact (ip_max _ _ I).
  - rewrite map_map_nth by (intro p; apply Hf). exact (ip_nodup _ _ I).
  - intros z Hz. pose proof (ip_seat _ _ I z Hz) as S. destruct (seat_nth (t_sm t) z) as [q|]; [|exact S].
    destruct S as [S|[P [k [p [Ha [Hb [Hc [Hd He]]]]]]]]; [left; exact S|]. right. split; [exact P|].
    destruct (Nat.eqb k i) eqn:E.
    + exists k, (f p). unfold smap_nth in *. cbn [with_players t_seatmap t_players]. rewrite nth_error_map_nth, E, Hb. cbn.
      destruct (Hf p) as [F1 [F2 F3]]. repeat split; congruence.
    + exists k, p. unfold smap_nth in *. cbn [with_players t_seatmap t_players]. rewrite nth_error_map_nth, E. repeat split; assumption.
  - exact (ip_pend _ _ I).
  - intros k p Hp. rewrite nth_error_map_nth in Hp. unfold smap_nth. cbn [with_players t_seatmap]. destruct (Nat.eqb k i) eqn:E.
    + destruct (nth_error (t_players t) k) as [p0|] eqn:E0; [|discriminate]. cbn in Hp. inversion Hp; subst p.
      destruct (Hf p0) as [F1 [F2 F3]]. rewrite F2. exact (ip_player _ _ I k p0 E0).
    + exact (ip_player _ _ I k p Hp).
  - rewrite map_nth_length. exact (ip_cap _ _ I).
Qed.

Lemma InvP_map_seat pend t z g :
  (forall q, sp_id (g q) = sp_id q /\ sp_in (g q) = sp_in q) ->
  InvP pend t -> InvP pend (with_sm t (map_seat (t_sm t) z g)).
Proof.
  intros Hg I. unfold map_seat. destruct (seat_at (sm_seats (t_sm t)) z) as [q0|] eqn:Es; [|rewrite with_sm_id; exact I].
  assert (Hr : 0 <= z < Z.of_nat (length (sm_seats (t_sm t)))).
  { destruct (Z_le_dec 0 z), (Z_lt_dec z (Z.of_nat (length (sm_seats (t_sm t))))); try lia; rewrite seat_at_out in Es by lia; discriminate. }
  rewrite seat_at_Z in Es by exact Hr.
  assert (Hnew : forall k, seat_nth (upd_seat (t_sm t) z (Some (g q0))) k = if Nat.eqb k (Z.to_nat z) then Some (g q0) else seat_nth (t_sm t) k).
  { intro k. unfold seat_nth, upd_seat. cbn [with_seats sm_seats]. rewrite nth_upd.
    replace (Z.to_nat z <? length (sm_seats (t_sm t)))%nat with true by (symmetry; apply Nat.ltb_lt; lia). rewrite andb_true_r. reflexivity. }
  destruct (Hg q0) as [G1 G2].
  constructor; cbn [with_sm t_max t_seatmap t_players t_sm].
  - exact (ip_len_map _ _ I).
  - unfold upd_seat. cbn [with_seats sm_seats]. rewrite upd_length. exact (ip_len_sm _ _ I).
  - exact (ip_max _ _ I).
  - exact (ip_nodup _ _ I).
  - intros k Hk. rewrite Hnew. pose proof (ip_seat _ _ I k Hk) as S. destruct (Nat.eqb k (Z.to_nat z)) eqn:E; [|exact S].
    apply Nat.eqb_eq in E. subst k. unfold seat_nth in S. rewrite Es in S. rewrite G1, G2.
    destruct S as [S|[P [i [p S]]]]; [left; exact S|]. right. split; [exact P|]. exists i, p. rewrite G1, G2. exact S.
  - intros id k Hin. destruct (ip_pend _ _ I id k Hin) as [Hk [q [Hs Hq]]]. split; [exact Hk|]. rewrite Hnew.
    destruct (Nat.eqb k (Z.to_nat z)) eqn:E; [|eauto]. apply Nat.eqb_eq in E. subst k. unfold seat_nth in Hs. rewrite Es in Hs. inversion Hs; subst q0.
    exists (g q). split; [reflexivity|congruence].
  - exact (ip_player _ _ I).
  - exact (ip_cap _ _ I).
Qed.

Lemma Inv_join t i p :
  Inv t -> nth_error (t_players t) i = Some p ->
  Inv (with_sm (with_players t (map_nth (t_players t) i set_tin)) (map_seat (t_sm t) (tp_seat p) (fun q => set_in q true))).
Proof.
  intros I Hp. destruct (player_has_seat _ _ I i p Hp) as [q [Hs [Hi [Hn Hz]]]]. destruct (ip_player _ _ I i p Hp) as [Hr Hm].
  unfold map_seat. rewrite seat_at_Z by (rewrite (ip_len_sm _ _ I); lia). unfold seat_nth in Hs. rewrite Hs.
  set (k0 := Z.to_nat (tp_seat p)) in *.
  assert (Hnew : forall k, seat_nth (upd_seat (t_sm t) (tp_seat p) (Some (set_in q true))) k = if Nat.eqb k k0 then Some (set_in q true) else seat_nth (t_sm t) k).
  { intro k. unfold seat_nth, upd_seat. cbn [with_seats sm_seats]. rewrite nth_upd. fold k0.
    replace (k0 <? length (sm_seats (t_sm t)))%nat with true by (symmetry; apply Nat.ltb_lt; rewrite (ip_len_sm _ _ I); exact Hz). rewrite andb_true_r. reflexivity. }
  constructor; cbn [with_sm with_players t_max t_seatmap t_players t_sm map app length].
  - exact (ip_len_map _ _ I).
  - unfold upd_seat. cbn [with_seats sm_seats]. rewrite upd_length. exact (ip_len_sm _ _ I).
  - exact (ip_max _ _ I).
  - rewrite map_map_nth by reflexivity. exact (ip_nodup _ _ I).
  - intros k Hk. rewrite Hnew. pose proof (ip_seat _ _ I k Hk) as S. destruct (Nat.eqb k k0) eqn:E.
    + apply Nat.eqb_eq in E. subst k. right. split; [cbn; tauto|]. exists i, (set_tin p). unfold smap_nth in *. cbn [with_sm with_players t_seatmap t_players].
      rewrite nth_error_map_nth, Nat.eqb_refl, Hp. cbn. repeat split; [exact Hm|exact (eq_sym Hi)|unfold k0; lia].
    + destruct (seat_nth (t_sm t) k) as [q'|]; [|exact S]. destruct S as [[[] _]|[P [i' [p' [Sa [Sb [Sc [Sd Se]]]]]]]]. right. split; [exact P|].
      exists i', p'. unfold smap_nth in *. cbn [with_sm with_players t_seatmap t_players]. rewrite nth_error_map_nth.
      destruct (Nat.eqb i' i) eqn:E'; [|repeat split; assumption]. exfalso. apply Nat.eqb_eq in E'. subst i'. rewrite Hp in Sb. inversion Sb; subst p'.
      apply Nat.eqb_neq in E. apply E. unfold k0. rewrite Sd. rewrite Nat2Z.id. reflexivity.
  - intros id z [].
  - intros k p' Hp'. rewrite nth_error_map_nth in Hp'. unfold smap_nth. cbn [with_sm with_players t_seatmap]. destruct (Nat.eqb k i) eqn:E.
    + apply Nat.eqb_eq in E. subst k. rewrite Hp in Hp'. cbn in Hp'. inversion Hp'; subst p'. cbn [set_tin tp_seat]. exact (ip_player _ _ I i p Hp).
    + exact (ip_player _ _ I k p' Hp').
  - rewrite map_nth_length. exact (ip_cap _ _ I).
Qed.

(* ------------------------------------------------------------------ every membership operation *)
Definition draws_ok_op (t : tbl) (o : mop) : bool :=
  match o with
  | MReserve j drawn => match find_idx t (jp_id j) with None => batch_draws_okb t [j] drawn | Some _ => true end
  | MUpdate joins drawn leaves =>
      match joins with
      | [] => true
      | _ => batch_draws_okb (match leaves with [] => t | _ => snd (batch_remove t leaves) end) joins drawn
      end
  | _ => true
  end.

Theorem mstep_inv t o r t' : Inv t -> draws_ok_op t o = true -> mstep t o = (r, t') -> Inv t'.
Proof.
  intros I D H. destruct o as [j dr|id|id c|ids|joins dr leaves]; cbn [mstep draws_ok_op] in *.
  - destruct (find_idx t (jp_id j)) as [i|] eqn:F.
    + assert (I1 := InvP_map_nth [] t i (fun p => add_bank p (jp_chips j)) ltac:(intro p; repeat split) I).
      unfold update_chips in H. destruct (find_seat (t_sm t) (jp_id j)) as [z|]; inversion H; subst; [|exact I1].
      exact (InvP_map_seat [] _ z (fun p => set_chips p true) ltac:(intro q; split; reflexivity) I1).
    + destruct (Nat.eqb _ _); [inversion H; subst; exact I|]. exact (batch_add_inv _ _ _ _ _ I D H).
  - destruct (find_idx t id) as [i|] eqn:F; [|inversion H; subst; exact I].
    destruct (nth_error (t_players t) i) as [p|] eqn:Hp; [|inversion H; subst; exact I].
    destruct (tp_seat p =? -1); [inversion H; subst; exact I|]. destruct (tp_in p); [inversion H; subst; exact I|].
    destruct (find_idx_some t id i F) as [p' [Hp' Hid]]. rewrite Hp in Hp'. inversion Hp'; subst p'.
    unfold join_players in H. cbn [map all_some] in H. rewrite <- Hid in H. rewrite (player_find_seat _ _ I i p Hp) in H. cbn [fold_left] in H.
    inversion H; subst. exact (Inv_join t i p I Hp).
  - destruct (find_idx t id) as [i|] eqn:F; [|inversion H; subst; exact I].
    assert (I1 := InvP_map_nth [] t i (fun p => add_bank p c) ltac:(intro p; repeat split) I).
    destruct (nth_error _ i) as [p|]; [|inversion H; subst; exact I1].
    destruct (0 <? tp_bank p); [|inversion H; subst; exact I1].
    unfold update_chips in H. destruct (find_seat (t_sm t) id) as [z|]; inversion H; subst; [|exact I1].
    exact (InvP_map_seat [] _ z (fun p => set_chips p true) ltac:(intro q; split; reflexivity) I1).
  - exact (batch_remove_inv _ _ _ _ I H).
  - destruct leaves as [|l ls].
    + destruct joins as [|j js]; [inversion H; subst; exact I|]. exact (batch_add_inv _ _ _ _ _ I D H).
    + destruct (batch_remove t (l :: ls)) as [r1 t1] eqn:R. assert (I1 := batch_remove_inv _ _ _ _ I R).
      destruct r1; [|inversion H; subst; exact I1].
      destruct joins as [|j js]; [inversion H; subst; exact I1|]. cbn [snd] in D. exact (batch_add_inv _ _ _ _ _ I1 D H).
Qed.

(* every history *)
Fixpoint run_ops (t : tbl) (l : list mop) : tbl := match l with [] => t | o :: r => run_ops (snd (mstep t o)) r end.
Fixpoint draws_ok_all (t : tbl) (l : list mop) : bool :=
  match l with [] => true | o :: r => draws_ok_op t o && draws_ok_all (snd (mstep t o)) r end.

Theorem seat_inv_every_history l : forall t, seat_inv t = true -> draws_ok_all t l = true -> seat_inv (run_ops t l) = true.
Proof.
  induction l as [|o l IH]; intros t H D; cbn in *; [exact H|]. apply andb_true_iff in D. destruct D as [D1 D2].
  apply IH; [|exact D2]. apply Inv_seat_inv. destruct (mstep t o) as [r t'] eqn:E. cbn [snd].
  exact (mstep_inv t o r t' (seat_inv_Inv t H) D1 E).
Qed.

Lemma new_table_inv max r :
  seat_inv {| t_max := max; t_seatmap := repeat (-1) max; t_players := []; t_gpi := []; t_status := SCreated; t_sm := new_sm max r |} = true.
Proof.
  apply Inv_seat_inv. constructor; cbn [t_max t_seatmap t_players t_sm new_sm sm_seats sm_max map app length].
  - apply repeat_length.
  - apply repeat_length.
  - reflexivity.
  - constructor.
  - intros z Hz. unfold seat_nth, smap_nth. cbn [t_sm t_seatmap new_sm sm_seats]. rewrite nth_repeat_default. apply nth_repeat_default.
  - intros id z [].
  - intros [|i] p Hp; discriminate.
  - lia.
Qed.

(* C05 (model level): who is dealt in is who the seat manager holds active; a successful
   rotation keeps every dealt-in player dealt in and leaves at least two. *)
From Coq Require Import List ZArith Bool Arith Lia.
Import ListNotations.
From PT Require Import Base.ZScan Model.OpenHand Spec.C04_spec Proofs.C04_proofs.
Open Scope Z_scope.

(* openGame copies the seat manager's Active() into IsParticipated, player by player *)
Lemma set_participated_spec s : forall ps ps', set_participated s ps = Some ps' ->
  length ps' = length ps /\
  forall i p', nth_error ps' i = Some p' ->
    exists p, nth_error ps i = Some p /\ tp_id p' = tp_id p /\ tp_seat p' = tp_seat p /\ tp_bank p' = tp_bank p /\ tp_in p' = tp_in p
              /\ is_player_active s (tp_id p) = Some (tp_part p').
Proof.
  induction ps as [|p t IH]; intros ps' H; cbn in H.
  - inversion H; subst. split; [reflexivity|]. intros [|i] p' Hn; discriminate.
  - destruct (is_player_active s (tp_id p)) as [a|] eqn:E; [|discriminate].
    destruct (set_participated s t) as [t'|] eqn:Et; [|discriminate]. inversion H; subst; clear H.
    destruct (IH t' eq_refl) as [L N]. split; [cbn; rewrite L; reflexivity|].
    intros [|i] p' Hn; cbn in Hn.
    + inversion Hn; subst. exists p. cbn. repeat split; try reflexivity. exact E.
    + destruct (N i p' Hn) as [q Hq]. exists q. exact Hq.
Qed.

(* a successful default-rule rotation never drops a dealt-in player, and leaves at least two *)
Lemma rotate_default_keeps_active s s' z : wf s -> in_rng s (sm_bb s) ->
  rotate_default s = (Ok, s') -> act s z = true -> act s' z = true.
Proof.
  intros Hwf Hbb H Ha. apply (act_result_of_s1 s s' z H).
  rewrite act_reflag. rewrite Ha. reflexivity.
Qed.

Lemma rotate_default_two_dealt_in s s' : wf s -> in_rng s (sm_bb s) ->
  rotate_default s = (Ok, s') -> (2 <= count s' (act s'))%nat.
Proof.
  intros Hwf Hbb H. pose proof (ok_two_active s Hwf s' H) as T.
  eapply Nat.le_trans; [exact T|].
  assert (M : sm_max s' = sm_max s).
  { rewrite (rd_eq s) in H. destruct (_ <? 2)%nat; [discriminate|]. destruct (_ =? 2)%nat; [inversion H; reflexivity|].
    destruct (is_hu s); inversion H; reflexivity. }
  unfold count, seats_idx. rewrite M. cbn [sm_max with_seats].
  apply filter_length_le. intros x _ Hx. apply (act_result_of_s1 s s' x H Hx).
Qed.

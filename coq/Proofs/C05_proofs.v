(* C05 (model level): who is dealt in is who the seat manager holds active; a successful
   rotation keeps every dealt-in player dealt in and leaves at least two. *)
From Coq Require Import List ZArith Bool Arith Lia.
Import ListNotations.
From PT Require Import Base.ZScan Model.OpenHand Spec.C04_spec Proofs.C04_proofs.
Open Scope Z_scope.

(* openGame copies the seat manager's Active() into IsParticipated, player by player *)
Lemma set_participated_spec s : forall ps ps', set_participated s ps = Some ps' ->
  length ps' = length ps /\
  forall i p', nth_error ps' i = Some p' ->
    exists p, nth_error ps i = Some p /\ tp_id p' = tp_id p /\ tp_seat p' = tp_seat p /\ tp_bank p' = tp_bank p /\ tp_in p' = tp_in p
              /\ is_player_active s (tp_id p) = Some (tp_part p').
Proof.
  induction ps as [|p t IH]; intros ps' H; cbn in H.
  - inversion H; subst. split; [reflexivity|]. intros [|i] p' Hn; discriminate.
  - destruct (is_player_active s (tp_id p)) as [a|] eqn:E; [|discriminate].
    destruct (set_participated s t) as [t'|] eqn:Et; [|discriminate]. inversion H; subst; clear H.
    destruct (IH t' eq_refl) as [L N]. split; [cbn; rewrite L; reflexivity|].
    intros [|i] p' Hn; cbn in Hn.
    + inversion Hn; subst. exists p. cbn. repeat split; try reflexivity. exact E.
    + destruct (N i p' Hn) as [q Hq]. exists q. exact Hq.
Qed.

(* a successful default-rule rotation never drops a dealt-in player, and leaves at least two *)
Lemma rotate_default_keeps_active s s' z : wf s -> in_rng s (sm_bb s) ->
  rotate_default s = (Ok, s') -> act s z = true -> act s' z = true.
Proof.
  intros Hwf Hbb H Ha. apply (act_result_of_s1 s s' z H).
  rewrite act_reflag. rewrite Ha. reflexivity.
Qed.

Lemma rotate_default_two_dealt_in s s' : wf s -> in_rng s (sm_bb s) ->
  rotate_default s = (Ok, s') -> (2 <= count s' (act s'))%nat.
Proof.
  intros Hwf Hbb H. pose proof (ok_two_active s Hwf s' H) as T.
  eapply Nat.le_trans; [exact T|].
  assert (M : sm_max s' = sm_max s).
  { rewrite (rd_eq s) in H. destruct (_ <? 2)%nat; [discriminate|]. destruct (_ =? 2)%nat; [inversion H; reflexivity|].
    destruct (is_hu s); inversion H; reflexivity. }
  unfold count, seats_idx. rewrite M. cbn [sm_max with_seats].
  apply filter_length_le. intros x _ Hx. apply (act_result_of_s1 s s' x H Hx).
Qed.

(* who is left out by a rotation that keeps three or more dealt in, is left out because the seat lies between
   the new button and the new big blind (the code's own betweenness test, evaluated at the positions in force
   after the rotation) *)
Theorem left_out_only_while_between s s' z : wf s -> rotate_default s = (Ok, s') ->
  (3 <= count s' (act s'))%nat -> live s' z = true -> act s' z = false ->
  between (sm_rule s) (mx s) (sm_dealer s') (sm_bb s') z = true.
Proof.
  intros Hwf H H3 Hl Ha. rewrite (rd_eq s) in H.
  set (nb := next_in_chips s (sm_bb s)) in *.
  set (s1 := with_seats s (reflag s (sm_sb s) nb)) in *.
  destruct (active_count (sm_seats s1) <? 2)%nat; [discriminate|].
  destruct (active_count (sm_seats s1) =? 2)%nat eqn:E2.
  - (* exactly two dealt in: excluded by the premise *)
    exfalso. inversion H; subst s'. clear H. rewrite count_with_pos in H3.
    apply Nat.eqb_eq in E2. rewrite (active_count_count s1 (wf_reflag s _ _ Hwf)) in E2. lia.
  - destruct (is_hu s).
    + (* heads-up before: the flags are recomputed for the dealer that is chosen *)
      inversion H; subst s'. clear H. cbn [sm_dealer sm_bb with_pos] in *.
      rewrite act_with_pos in Ha.
      assert (Hl' : live (with_seats s1 (reflag s1 (prev_alive s1 (sm_bb s)) nb)) z = true) by exact Hl.
      rewrite act_reflag in Ha. rewrite live_reflag in Hl'. apply orb_false_iff in Ha. destruct Ha as [_ Ha].
      rewrite Hl' in Ha. cbn [andb] in Ha. apply negb_false_iff in Ha. exact Ha.
    + inversion H; subst s'. clear H. cbn [sm_dealer sm_bb with_pos] in *.
      rewrite act_with_pos in Ha.
      assert (Hl' : live s1 z = true) by exact Hl.
      unfold s1 in Ha, Hl'. rewrite act_reflag in Ha. rewrite live_reflag in Hl'. apply orb_false_iff in Ha. destruct Ha as [_ Ha].
      rewrite Hl' in Ha. cbn [andb] in Ha. apply negb_false_iff in Ha. exact Ha.
Qed.

(* ... and conversely a seated-in player with chips whose seat is not between them is dealt in by that rotation *)
Theorem not_between_is_dealt_in s s' z : wf s -> rotate_default s = (Ok, s') ->
  (3 <= count s' (act s'))%nat -> is_hu s = false -> live s z = true ->
  between (sm_rule s) (mx s) (sm_dealer s') (sm_bb s') z = false -> act s' z = true.
Proof.
  intros Hwf H H3 Hhu Hl Hb. rewrite (rd_eq s) in H.
  set (nb := next_in_chips s (sm_bb s)) in *.
  set (s1 := with_seats s (reflag s (sm_sb s) nb)) in *.
  destruct (active_count (sm_seats s1) <? 2)%nat; [discriminate|].
  destruct (active_count (sm_seats s1) =? 2)%nat eqn:E2.
  - exfalso. inversion H; subst s'. clear H. rewrite count_with_pos in H3.
    apply Nat.eqb_eq in E2. rewrite (active_count_count s1 (wf_reflag s _ _ Hwf)) in E2. lia.
  - rewrite Hhu in H. inversion H; subst s'. clear H. cbn [sm_dealer sm_bb with_pos] in *.
    rewrite act_with_pos. unfold s1. rewrite act_reflag, Hl, Hb. apply orb_true_r.
Qed.

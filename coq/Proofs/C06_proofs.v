(* C06: the generated label table agrees with the independently written standard order. *)
From Coq Require Import List Bool Arith.
Import ListNotations.
From PT Require Import Model.OpenHand Spec.Open_spec.

Lemma rotated_positions_are_standard :
  forallb (fun k => labels_eqb (rotate_list (new_positions k) rotation_offset) (std_order k)) (seq 3 8) = true.
Proof. vm_compute. reflexivity. Qed.

Lemma slots_are_standard_b :
  forallb (fun k => lls_eqb (position_slots k) (map (fun l => [l]) (std_order k))) (seq 3 8) = true.
Proof. vm_compute. reflexivity. Qed.

Lemma slots_are_standard k : (3 <= k <= 10)%nat ->
  lls_eqb (position_slots k) (map (fun l => [l]) (std_order k)) = true.
Proof.
  intro H. pose proof slots_are_standard_b as B. rewrite forallb_forall in B. apply B. apply in_seq. destruct H; split; [assumption|].
  apply Nat.lt_succ_r. cbn. assumption.
Qed.

Lemma slots_heads_up : position_slots 2 = [[LBB]; [LDealer; LSB]].
Proof. reflexivity. Qed.

(* ---------- finite sweep: every button / activity configuration on tables of up to 7 seats ---------- *)
From Coq Require Import ZArith Lia.
From PT Require Import Base.ZScan.
Open Scope Z_scope.

(* seat i holds player i+1, dealt in or not (an empty seat and a seat whose occupant is not dealt in
   are the same to updatePlayerPositions) *)
Definition occupant (i : nat) (a : bool) : option sp :=
  Some {| sp_id := S i; sp_in := true; sp_btw := negb a; sp_chips := true |}.

Fixpoint patterns (n : nat) : list (list bool) :=
  match n with O => [[]] | S k => flat_map (fun p => [true :: p; false :: p]) (patterns k) end.

Definition mk_state (n : nat) (pat : list bool) (d sb bb : Z) : sm :=
  {| sm_max := n; sm_seats := map (fun ia => occupant (fst ia) (snd ia)) (combine (seq 0 n) pat);
     sm_dealer := d; sm_sb := sb; sm_bb := bb; sm_rule := RDefault; sm_init := true |}.

Definition all_states (n : nat) : list sm :=
  flat_map (fun pat => flat_map (fun d => flat_map (fun sb => map (fun bb => mk_state n pat d sb bb) (zrange 0 n)) (zrange 0 n)) (zrange 0 n))
           (patterns n).

(* what C04 guarantees of the seat manager after it moved: the big blind is dealt in; heads-up:
   dealer = small blind = the other dealt-in player; ring: three distinct button seats *)
Definition n_active (s : sm) : nat := active_count (sm_seats s).
(* nobody is dealt in on a seat strictly between the button and the big blind, the small-blind seat
   excepted (newcomers there wait; the rotation puts the blinds on consecutive dealt-in seats) *)
Definition none_dealt_in_between (s : sm) : bool :=
  let n := Z.of_nat (sm_max s) in
  forallb (fun z => negb (seat_active s z && (0 <? cwd n (sm_dealer s) z) && (cwd n (sm_dealer s) z <? cwd n (sm_dealer s) (sm_bb s))
                          && negb (z =? sm_sb s)))
          (zrange 0 (sm_max s)).

Definition buttons_ok (s : sm) : bool :=
  seat_active s (sm_bb s) && none_dealt_in_between s
  && (((n_active s =? 2)%nat && (sm_dealer s =? sm_sb s) && seat_active s (sm_dealer s) && negb (sm_dealer s =? sm_bb s))
      || ((3 <=? n_active s)%nat && negb (sm_dealer s =? sm_sb s) && negb (sm_sb s =? sm_bb s) && negb (sm_dealer s =? sm_bb s)
          (* clockwise: button, then small blind, then big blind *)
          && (cwd (Z.of_nat (sm_max s)) (sm_dealer s) (sm_sb s) <? cwd (Z.of_nat (sm_max s)) (sm_dealer s) (sm_bb s)))).

(* the published snapshot the model produces *)
Definition snap_of (s : sm) (lab : list (nat * list label)) : osnap :=
  {| os_max := sm_max s;
     os_players := flat_map (fun ia => match snd ia with
                                       | Some p => [{| op_id := sp_id p; op_seat := Z.of_nat (fst ia); op_in := true; op_bank := 100;
                                                       op_part := active p; op_labels := labels_of lab (sp_id p);
                                                       op_fresh := false; op_waiting := false; op_missed := 0 |}]
                                       | None => [] end) (combine (seq 0 (sm_max s)) (sm_seats s));
     os_gpi := []; os_dealer := sm_dealer s; os_sb := sm_sb s; os_bb := sm_bb s; os_settings := [] |}.

Definition labels_clause (o : osnap) : bool :=
  lls_eqb (labels_clockwise o) (expected_labels o)
  && forallb (fun p => op_part p || match op_labels p with [] => true | _ => false end) (os_players o).

Definition state_ok (s : sm) : bool :=
  negb (buttons_ok s) ||
  match update_positions s (Z.of_nat (sm_max s)) with
  | Done lab => labels_clause (snap_of s lab)
  | _ => false                      (* in particular: no panic *)
  end.

Lemma labels_all_states_upto_6 : forallb (fun n => forallb state_ok (all_states n)) [2; 3; 4; 5; 6]%nat = true.
Proof. vm_compute. reflexivity. Qed.

Lemma labels_all_states_7 : forallb state_ok (all_states 7) = true.
Proof. vm_compute. reflexivity. Qed.

(* lifting the sweep: every activity pattern and every choice of button seats is in the enumeration *)
Lemma patterns_complete : forall n pat, length pat = n -> In pat (patterns n).
Proof.
  induction n as [|n IH]; intros pat H.
  - destruct pat; [left; reflexivity|discriminate].
  - destruct pat as [|b t]; [discriminate|]. cbn [patterns]. apply in_flat_map. exists t.
    split; [apply IH; inversion H; reflexivity|]. destruct b; [left|right; left]; reflexivity.
Qed.

Lemma all_states_complete n pat d sb bb : length pat = n -> 0 <= d < Z.of_nat n -> 0 <= sb < Z.of_nat n -> 0 <= bb < Z.of_nat n ->
  In (mk_state n pat d sb bb) (all_states n).
Proof.
  intros Hp Hd Hsb Hbb. unfold all_states. apply in_flat_map. exists pat. split; [apply patterns_complete; exact Hp|].
  apply in_flat_map. exists d. split; [apply zrange_In; lia|].
  apply in_flat_map. exists sb. split; [apply zrange_In; lia|].
  apply in_map_iff. exists bb. split; [reflexivity|apply zrange_In; lia].
Qed.

(* For every table of 2..7 seats, every set of dealt-in seats and every placement of button,
   small blind and big blind that the rotation rule can produce (buttons_ok), the labels handed
   out by the model of updatePlayerPositions are, clockwise from the big blind, the standard order
   for the number of slots with the dead button / dead small blind skipped; nobody else has a
   label; and the hand-out does not index an empty slice. *)
Theorem labels_upto_7 n pat d sb bb : (2 <= n <= 7)%nat -> length pat = n ->
  0 <= d < Z.of_nat n -> 0 <= sb < Z.of_nat n -> 0 <= bb < Z.of_nat n ->
  state_ok (mk_state n pat d sb bb) = true.
Proof.
  intros Hn Hp Hd Hsb Hbb.
  pose proof (all_states_complete n pat d sb bb Hp Hd Hsb Hbb) as Hin.
  assert (Hcase : n = 2%nat \/ n = 3%nat \/ n = 4%nat \/ n = 5%nat \/ n = 6%nat \/ n = 7%nat) by lia.
  pose proof labels_all_states_upto_6 as A6. cbn [forallb] in A6.
  repeat (apply andb_true_iff in A6; destruct A6 as [?A A6]).
  destruct Hcase as [->|[->|[->|[->|[->| ->]]]]];
    match goal with
    | H : forallb state_ok (all_states ?k) = true, Hin : In _ (all_states ?k) |- _ => rewrite forallb_forall in H; apply H; exact Hin
    | |- _ => idtac
    end.
  pose proof labels_all_states_7 as A7. rewrite forallb_forall in A7. apply A7. exact Hin.
Qed.

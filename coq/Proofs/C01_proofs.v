(* C01: chips are conserved by every sequence of buy-ins, top-ups (also during hands),
   departures and settlements. *)
From Coq Require Import List ZArith Bool Arith Lia.
Import ListNotations.
From PT Require Import Model.Chips Spec.C01_spec.
Open Scope Z_scope.

(* what the translator read in settleGame: the bankroll grows by the entry's change.
   (With `Bankroll = Final`, as the code had it, this lemma is false and nothing below checks:
   chips added during the hand were overwritten.) *)
Lemma settle_bank_adds old changed final : settle_bank old changed final = old + changed.
Proof. reflexivity. Qed.

Definition ids (ps : list (nat * Z)) : list nat := map fst ps.

Lemma total_cons x t : total (x :: t) = snd x + total t.
Proof. reflexivity. Qed.

Lemma total_app a b : total (a ++ b) = total a + total b.
Proof. induction a as [|x a IH]; [reflexivity|]. cbn [app]. rewrite !total_cons, IH. lia. Qed.

Lemma total_split (P : nat * Z -> bool) ps : total ps = total (filter P ps) + total (filter (fun p => negb (P p)) ps).
Proof.
  induction ps as [|x t IH]; [reflexivity|]. cbn [filter]. rewrite total_cons.
  destruct (P x); cbn [negb]; rewrite !total_cons, IH; lia.
Qed.

Lemma upd_bank_ids ps id f : ids (upd_bank ps id f) = ids ps.
Proof. unfold ids, upd_bank. rewrite map_map. apply map_ext. intros [a b]; cbn. destruct (Nat.eqb a id); reflexivity. Qed.

Lemma bank_of_notin ps id : ~ In id (ids ps) -> bank_of ps id = 0.
Proof.
  unfold bank_of. induction ps as [|[a b] t IH]; cbn; intro H; [reflexivity|].
  destruct (Nat.eqb_spec a id) as [->|]; [exfalso; apply H; left; reflexivity|]. apply IH. intro; apply H; right; assumption.
Qed.

Lemma upd_bank_notin ps id f : ~ In id (ids ps) -> upd_bank ps id f = ps.
Proof.
  induction ps as [|[a b] t IH]; cbn; intro H; [reflexivity|].
  destruct (Nat.eqb_spec a id) as [->|]; [exfalso; apply H; left; reflexivity|]. f_equal. apply IH. intro; apply H; right; assumption.
Qed.

Lemma upd_bank_cons a b t id f :
  upd_bank ((a, b) :: t) id f = (if Nat.eqb a id then (a, f b) else (a, b)) :: upd_bank t id f.
Proof. reflexivity. Qed.

Lemma bank_of_cons a b t id : bank_of ((a, b) :: t) id = if Nat.eqb a id then b else bank_of t id.
Proof. unfold bank_of. cbn [find fst]. destruct (Nat.eqb a id); reflexivity. Qed.

Lemma upd_bank_total ps id f : NoDup (ids ps) -> In id (ids ps) ->
  total (upd_bank ps id f) = total ps - bank_of ps id + f (bank_of ps id).
Proof.
  induction ps as [|[a b] t IH]; intros N Hin; [destruct Hin|].
  cbn [ids map fst] in N, Hin. inversion N as [|? ? Hn N']; subst.
  rewrite upd_bank_cons, bank_of_cons, !total_cons.
  destruct (Nat.eqb_spec a id) as [->|Hne]; cbn [snd].
  - rewrite upd_bank_notin by exact Hn. lia.
  - destruct Hin as [E|Hin]; [contradiction|]. rewrite (IH N' Hin). lia.
Qed.

Lemma bank_of_upd ps id id' f : NoDup (ids ps) ->
  bank_of (upd_bank ps id' f) id = if Nat.eqb id id' && mem_id id (ids ps) then f (bank_of ps id) else bank_of ps id.
Proof.
  intro N. induction ps as [|[a b] t IH]; [cbn; rewrite andb_false_r; reflexivity|].
  cbn [ids map fst] in N. inversion N as [|? ? Hn N']; subst.
  rewrite upd_bank_cons. cbn [ids map fst mem_id existsb].
  destruct (Nat.eqb_spec a id') as [->|Hne].
  - rewrite !bank_of_cons. rewrite upd_bank_notin by exact Hn.
    destruct (Nat.eqb_spec id' id) as [->|Hne2].
    + rewrite Nat.eqb_refl. reflexivity.
    + destruct (Nat.eqb_spec id id') as [E|_]; [exfalso; apply Hne2; symmetry; exact E|]. reflexivity.
  - rewrite !bank_of_cons.
    destruct (Nat.eqb_spec a id) as [->|Hne3].
    + destruct (Nat.eqb_spec id id') as [E|_]; [exfalso; apply Hne; exact E|]. reflexivity.
    + rewrite (IH N'). unfold mem_id.
      destruct (Nat.eqb_spec id a) as [E|_]; [exfalso; apply Hne3; symmetry; exact E|]. reflexivity.
Qed.

(* ---------- guards ---------- *)
Definition valid_ev (s : cstate) (e : cev) : Prop :=
  match e with
  | CIn id _ => ~ In id (ids (cs_players s))
  | CTopUp id _ => In id (ids (cs_players s))
  | COut _ => True
  | CSettle hand rs => result_ok hand rs = true
  | CMark => True
  end.

Fixpoint valid_run (s : cstate) (es : list cev) : Prop :=
  match es with [] => True | e :: t => valid_ev s e /\ valid_run (cstep s e) t end.

(* sum of the changes of the entries whose player is (still) seated *)
Definition applied (ps : list (nat * Z)) (hand : list nat) (rs : list rentry) : Z :=
  fold_right (fun r acc => match nth_error hand (r_idx r) with
                           | Some id => if mem_id id (ids ps) then r_changed r + acc else acc
                           | None => acc end) 0 rs.

Lemma mem_id_In id l : mem_id id l = true <-> In id l.
Proof.
  unfold mem_id. rewrite existsb_exists. split.
  - intros [x [Hx E]]. apply Nat.eqb_eq in E. subst. exact Hx.
  - intro H. exists id. split; [exact H|apply Nat.eqb_refl].
Qed.

Lemma settle_total hand rs : forall ps, NoDup (ids ps) ->
  total (fold_left (settle_one hand) rs ps) = total ps + applied ps hand rs /\
  ids (fold_left (settle_one hand) rs ps) = ids ps.
Proof.
  induction rs as [|r t IH]; intros ps N; cbn [fold_left applied fold_right]; [split; [lia|reflexivity]|].
  unfold settle_one at 2 4. destruct (nth_error hand (r_idx r)) as [id|] eqn:E.
  - assert (N' : NoDup (ids (upd_bank ps id (fun old => settle_bank old (r_changed r) (r_final r))))) by (rewrite upd_bank_ids; exact N).
    destruct (IH _ N') as [T I]. rewrite T, I, upd_bank_ids. split; [|reflexivity].
    assert (A : applied (upd_bank ps id (fun old => settle_bank old (r_changed r) (r_final r))) hand t = applied ps hand t)
      by (unfold applied; rewrite upd_bank_ids; reflexivity).
    rewrite A. fold (applied ps hand t).
    destruct (mem_id id (ids ps)) eqn:M.
    + apply mem_id_In in M. rewrite (upd_bank_total _ _ _ N M). rewrite settle_bank_adds. lia.
    + assert (~ In id (ids ps)) by (intro H; apply mem_id_In in H; congruence).
      rewrite upd_bank_notin by assumption. lia.
  - apply IH; exact N.
Qed.

(* all changes are applied when every hand entry is a seated player: then the total moves by
   the sum of the changes, which the contract says is zero *)
Lemma applied_all ps hand rs :
  (forall r id, In r rs -> nth_error hand (r_idx r) = Some id -> In id (ids ps)) ->
  (forall r, In r rs -> (r_idx r < length hand)%nat) ->
  applied ps hand rs = fold_right (fun r acc => r_changed r + acc) 0 rs.
Proof.
  induction rs as [|r t IH]; intros H1 H2; cbn; [reflexivity|].
  destruct (nth_error hand (r_idx r)) as [id|] eqn:E.
  - assert (M : mem_id id (ids ps) = true) by (apply mem_id_In; apply (H1 r id (or_introl eq_refl) E)).
    rewrite M. fold (applied ps hand t). rewrite IH; [reflexivity| |].
    + intros r' id' Hr. apply H1. right; exact Hr.
    + intros r' Hr. apply H2. right; exact Hr.
  - apply nth_error_None in E. specialize (H2 r (or_introl eq_refl)). lia.
Qed.

Lemma idx_in_order_bound : forall rs i r, idx_in_order i rs = true -> In r rs -> (i <= r_idx r < i + length rs)%nat.
Proof.
  induction rs as [|a t IH]; intros i r H Hin; [destruct Hin|].
  cbn in H. apply andb_true_iff in H. destruct H as [E H]. apply Nat.eqb_eq in E.
  destruct Hin as [->|Hin]; [cbn; lia|]. specialize (IH (S i) r H Hin). cbn [length]. lia.
Qed.

(* ---------- the invariant ---------- *)
Record CInv (s : cstate) : Prop := {
  CI_nodup : NoDup (ids (cs_players s));
  CI_cons : total (cs_players s) = cs_brought s - cs_taken s
}.

Lemma CInv_init : CInv cinit.
Proof. constructor; cbn; [constructor|reflexivity]. Qed.

Definition hand_seated (s : cstate) (e : cev) : Prop :=
  match e with
  | CSettle hand _ => forall id, In id hand -> In id (ids (cs_players s))
  | _ => True
  end.

Lemma NoDup_filter_map (P : nat * Z -> bool) ps : NoDup (ids ps) -> NoDup (ids (filter P ps)).
Proof.
  induction ps as [|[a b] t IH]; cbn; intro N; [constructor|]. inversion N as [|? ? Hn N']; subst.
  destruct (P (a, b)); cbn; [constructor; [|apply IH; exact N']|apply IH; exact N'].
  intro H. apply Hn. unfold ids in *. apply in_map_iff in H. destruct H as [[x y] [E Hin]]. cbn in E. subst.
  apply filter_In in Hin. destruct Hin as [Hin _]. change a with (fst (a, y)). apply in_map. exact Hin.
Qed.

Lemma NoDup_snoc (l : list nat) x : NoDup l -> ~ In x l -> NoDup (l ++ [x]).
Proof.
  induction l as [|a t IH]; intros N H; cbn; [constructor; [intros []|constructor]|].
  inversion N as [|? ? Hn N']; subst. constructor.
  - intro Hx. apply in_app_or in Hx. destruct Hx as [Hx|[Hx|[]]]; [apply Hn; exact Hx|]. subst. apply H. left; reflexivity.
  - apply IH; [exact N'|]. intro Hx; apply H; right; exact Hx.
Qed.

Lemma CInv_step s e : CInv s -> valid_ev s e -> hand_seated s e -> CInv (cstep s e).
Proof.
  intros [N C] V HS. destruct e as [id c|id c|l|hand rs|]; cbn [cstep valid_ev hand_seated] in *.
  - constructor; cbn [cs_players cs_brought cs_taken].
    + unfold ids. rewrite map_app. cbn [map fst]. apply NoDup_snoc; assumption.
    + rewrite total_app. unfold total at 2. cbn. lia.
  - constructor; cbn [cs_players cs_brought cs_taken]; [rewrite upd_bank_ids; exact N|].
    rewrite (upd_bank_total _ _ _ N V). lia.
  - constructor; cbn [cs_players cs_brought cs_taken]; [apply NoDup_filter_map; exact N|].
    rewrite (total_split (fun p => mem_id (fst p) l) (cs_players s)) in C. lia.
  - destruct (settle_total hand rs (cs_players s) N) as [T I].
    constructor; cbn [cs_players cs_brought cs_taken]; [rewrite I; exact N|]. rewrite T.
    unfold result_ok in V. apply andb_true_iff in V. destruct V as [V Z0]. apply andb_true_iff in V. destruct V as [L O].
    apply Nat.eqb_eq in L. apply Z.eqb_eq in Z0.
    rewrite applied_all.
    + rewrite Z0. lia.
    + intros r id Hr E. apply HS. apply (nth_error_In _ _ E).
    + intros r Hr. pose proof (idx_in_order_bound rs 0 r O Hr). lia.
  - constructor; assumption.
Qed.

(* ---------- every history ---------- *)
Fixpoint seated_run (s : cstate) (es : list cev) : Prop :=
  match es with [] => True | e :: t => hand_seated s e /\ seated_run (cstep s e) t end.

Theorem conservation es : forall s, CInv s -> valid_run s es -> seated_run s es ->
  Forall (fun s' => conserved s' = true) (crun s es).
Proof.
  induction es as [|e t IH]; intros s I V S; cbn [crun]; [constructor|].
  destruct V as [V1 V2]. destruct S as [S1 S2]. pose proof (CInv_step s e I V1 S1) as I'.
  constructor; [unfold conserved; apply Z.eqb_eq; apply (CI_cons _ I')|apply IH; assumption].
Qed.

(* a completed hand only moves chips between its players, each by exactly their result *)
Lemma settle_bank_of hand rs : forall ps id, NoDup (ids ps) -> In id (ids ps) ->
  bank_of (fold_left (settle_one hand) rs ps) id = bank_of ps id + changed_of hand rs id.
Proof.
  induction rs as [|r t IH]; intros ps id N Hin; cbn [fold_left]; [unfold changed_of; cbn; lia|].
  unfold settle_one at 2. unfold changed_of. cbn [fold_right]. fold (changed_of hand t id).
  destruct (nth_error hand (r_idx r)) as [h|] eqn:E.
  - rewrite IH; [|rewrite upd_bank_ids; exact N|rewrite upd_bank_ids; exact Hin].
    rewrite (bank_of_upd _ _ _ _ N). rewrite settle_bank_adds.
    assert (M : mem_id id (ids ps) = true) by (apply mem_id_In; exact Hin). rewrite M, andb_true_r.
    rewrite (Nat.eqb_sym id h). destruct (Nat.eqb h id); lia.
  - apply IH; assumption.
Qed.

Theorem settle_is_local s hand rs : CInv s ->
  hand_local (cs_players s) (cs_players (cstep s (CSettle hand rs))) hand rs = true.
Proof.
  intros [N _]. unfold hand_local. cbn [cstep cs_players].
  destruct (settle_total hand rs (cs_players s) N) as [_ I].
  apply andb_true_iff. split.
  - apply Nat.eqb_eq. apply (f_equal (@length nat)) in I. unfold ids in I. rewrite !map_length in I. symmetry; exact I.
  - apply forallb_forall. intros [id b] Hin. cbn [fst snd]. apply Z.eqb_eq.
    assert (Hid : In id (ids (cs_players s))) by (unfold ids; change id with (fst (id, b)); apply in_map; exact Hin).
    rewrite (settle_bank_of hand rs _ id N Hid). f_equal.
    (* bank_of returns the entry of the first player with that id: ids are distinct *)
    clear - N Hin. unfold bank_of. induction (cs_players s) as [|[a c] t IH]; [destruct Hin|].
    cbn in N. inversion N as [|? ? Hn N']; subst. cbn.
    destruct Hin as [E|Hin].
    + inversion E; subst. rewrite Nat.eqb_refl. reflexivity.
    + destruct (Nat.eqb_spec a id) as [->|]; [exfalso; apply Hn; change id with (fst (id, b)); apply in_map; exact Hin|].
      apply IH; assumption.
Qed.

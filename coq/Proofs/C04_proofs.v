(* C04: the rotation of the seat-manager model against the dead-button specification,
   for an arbitrary seat count. *)
From Coq Require Import List ZArith Bool Arith Lia.
Import ListNotations.
From PT Require Import Base.ZScan Model.SeatManager Spec.C04_spec.
Open Scope Z_scope.

(* ---------- well-formed seat managers ---------- *)
Definition wf (s : sm) : Prop := length (sm_seats s) = sm_max s /\ (2 <= sm_max s)%nat.
Definition in_rng (s : sm) (z : Z) : Prop := 0 <= z < mx s.

Lemma mx_pos s : wf s -> 0 < mx s.
Proof. intros [_ H]. unfold mx. lia. Qed.

Lemma mx_len s : wf s -> Z.of_nat (length (sm_seats s)) = mx s.
Proof. intros [H _]. unfold mx. rewrite H. reflexivity. Qed.

(* ---------- scans as fscan / bscan ---------- *)
Definition occ (l : list (option sp)) (acc : sp -> bool) (z : Z) : bool :=
  match seat_at l z with Some p => acc p | None => false end.

Lemma scan_fscan l idx n acc :
  scan l idx 1 n acc = match fscan n (occ l acc) idx with Some r => r | None => unset end.
Proof. unfold scan, fscan, occ. destruct (find _ _); reflexivity. Qed.

Lemma scan_bscan l idx n acc :
  scan l idx 1 n acc = match bscan n (occ l acc) idx with Some r => r | None => unset end.
Proof. unfold scan, bscan, occ. destruct (find _ _); reflexivity. Qed.

Lemma rem_mod a n : 0 <= a -> 0 < n -> Z.rem a n = a mod n.
Proof. intros Ha Hn. apply Z.rem_mod_nonneg; lia. Qed.

(* the generated index expressions compute (start + i) mod max and (start - i) mod max *)
Lemma next_in_chips_idx_ok max start i : 0 < max -> 0 <= start < max -> 1 <= i < max ->
  next_in_chips_idx max start i = (start + i) mod max.
Proof. intros. unfold next_in_chips_idx. apply rem_mod; lia. Qed.

Lemma next_occupied_idx_ok max start i : 0 < max -> 0 <= start < max -> 1 <= i < max ->
  next_occupied_idx max start i = (start + i) mod max.
Proof. intros. unfold next_occupied_idx. apply rem_mod; lia. Qed.

Lemma prev_alive_idx_ok max start i : 0 < max -> 0 <= start < max -> 1 <= i < max ->
  prev_alive_idx max start i = (start - i) mod max.
Proof.
  intros. unfold prev_alive_idx. rewrite rem_mod by lia.
  replace (start + max - i) with (start - i + 1 * max) by lia. apply Z.mod_add; lia.
Qed.

Lemma prev_occupied_idx_ok max start i : 0 < max -> 0 <= start < max -> 1 <= i < max ->
  prev_occupied_idx max start i = (start - i) mod max.
Proof.
  intros. unfold prev_occupied_idx. rewrite rem_mod by lia.
  replace (start + max - i) with (start - i + 1 * max) by lia. apply Z.mod_add; lia.
Qed.

(* bounds and acceptance predicates as generated *)
Lemma next_in_chips_bounds max : next_in_chips_lo = 1 /\ next_in_chips_hi max = max.
Proof. split; reflexivity. Qed.
Lemma next_occupied_bounds max : next_occupied_lo = 1 /\ next_occupied_hi max = max.
Proof. split; reflexivity. Qed.
Lemma prev_alive_bounds max : prev_alive_lo = 1 /\ prev_alive_hi max = max.
Proof. split; reflexivity. Qed.
Lemma next_in_chips_accepts_live p : next_in_chips_accepts p = live_p p.
Proof. unfold next_in_chips_accepts, live_p. apply andb_comm. Qed.
Lemma prev_alive_accepts_live p : prev_alive_accepts p = live_p p.
Proof. reflexivity. Qed.
Lemma next_occupied_accepts_active p : next_occupied_accepts p = active p.
Proof. reflexivity. Qed.

(* ---------- what a scan result means ---------- *)
Definition nearest_cw (n : Z) (P : Z -> bool) (a r : Z) : Prop :=
  P r = true /\ 0 <= r < n /\ r <> a /\ forall c, 0 <= c < n -> c <> a -> P c = true -> cwd n a r <= cwd n a c.
Definition nearest_ccw (n : Z) (P : Z -> bool) (a r : Z) : Prop :=
  P r = true /\ 0 <= r < n /\ r <> a /\ forall c, 0 <= c < n -> c <> a -> P c = true -> cwd n r a <= cwd n c a.
Definition none_other (n : Z) (P : Z -> bool) (a : Z) : Prop :=
  forall c, 0 <= c < n -> c <> a -> P c = false.

Lemma next_in_chips_spec s start : wf s -> in_rng s start ->
  let r := next_in_chips s start in
  (r = unset /\ none_other (mx s) (live s) start) \/ nearest_cw (mx s) (live s) start r.
Proof.
  intros Hwf Hs. cbn zeta. unfold next_in_chips. change next_in_chips_lo with 1. change (next_in_chips_hi (mx s)) with (mx s). rewrite scan_fscan.
  pose proof (mx_pos s Hwf) as Hn.
  assert (Hidx : forall i, 1 <= i < mx s -> next_in_chips_idx (mx s) start i = (start + i) mod mx s)
    by (intros; apply next_in_chips_idx_ok; assumption).
  assert (HP : forall z, occ (sm_seats s) next_in_chips_accepts z = live s z).
  { intro z. unfold occ, live, holds. destruct (seat_at (sm_seats s) z); [apply next_in_chips_accepts_live|reflexivity]. }
  destruct (fscan (mx s) (occ (sm_seats s) next_in_chips_accepts) (next_in_chips_idx (mx s) start)) as [r|] eqn:E.
  - right. pose proof (fscan_some (mx s) start _ Hn Hs _ Hidx r E) as [H1 [H2 [H3 H4]]].
    unfold nearest_cw. rewrite <- HP. split; [exact H1|]. split; [exact H2|]. split; [exact H3|].
    intros c Hc Hne Hl. apply H4; try assumption. rewrite HP. exact Hl.
  - left. split; [reflexivity|]. intros c Hc Hne. rewrite <- HP.
    apply (fscan_none (mx s) start _ Hn Hs _ Hidx c E Hc Hne).
Qed.

Lemma next_occupied_spec s start : wf s -> in_rng s start ->
  let r := next_occupied s start in
  (r = unset /\ none_other (mx s) (act s) start) \/ nearest_cw (mx s) (act s) start r.
Proof.
  intros Hwf Hs. cbn zeta. unfold next_occupied. change next_occupied_lo with 1. change (next_occupied_hi (mx s)) with (mx s). rewrite scan_fscan.
  pose proof (mx_pos s Hwf) as Hn.
  assert (Hidx : forall i, 1 <= i < mx s -> next_occupied_idx (mx s) start i = (start + i) mod mx s)
    by (intros; apply next_occupied_idx_ok; assumption).
  assert (HP : forall z, occ (sm_seats s) next_occupied_accepts z = act s z) by reflexivity.
  destruct (fscan (mx s) (occ (sm_seats s) next_occupied_accepts) (next_occupied_idx (mx s) start)) as [r|] eqn:E.
  - right. pose proof (fscan_some (mx s) start _ Hn Hs _ Hidx r E) as [H1 [H2 [H3 H4]]].
    unfold nearest_cw. split; [exact H1|]. split; [exact H2|]. split; [exact H3|]. exact H4.
  - left. split; [reflexivity|]. intros c Hc Hne.
    apply (fscan_none (mx s) start _ Hn Hs _ Hidx c E Hc Hne).
Qed.

Lemma prev_alive_spec s start : wf s -> in_rng s start ->
  let r := prev_alive s start in
  (r = unset /\ none_other (mx s) (live s) start) \/ nearest_ccw (mx s) (live s) start r.
Proof.
  intros Hwf Hs. cbn zeta. unfold prev_alive.
  change prev_alive_lo with 1. change (prev_alive_hi (mx s)) with (mx s). rewrite scan_bscan.
  pose proof (mx_pos s Hwf) as Hn.
  assert (Hidx : forall i, 1 <= i < mx s -> prev_alive_idx (mx s) start i = (start - i) mod mx s)
    by (intros; apply prev_alive_idx_ok; assumption).
  assert (HP : forall z, occ (sm_seats s) prev_alive_accepts z = live s z) by reflexivity.
  destruct (bscan (mx s) (occ (sm_seats s) prev_alive_accepts) (prev_alive_idx (mx s) start)) as [r|] eqn:E.
  - right. pose proof (bscan_some (mx s) start _ Hn Hs _ Hidx r E) as [H1 [H2 [H3 H4]]].
    unfold nearest_ccw. split; [exact H1|]. split; [exact H2|]. split; [exact H3|]. exact H4.
  - left. split; [reflexivity|]. intros c Hc Hne.
    apply (bscan_none (mx s) start _ Hn Hs _ Hidx c E Hc Hne).
Qed.

(* the boolean checkers of the specification follow from the propositions *)
Lemma seats_idx_In s z : In z (seats_idx s) <-> 0 <= z < mx s.
Proof. unfold seats_idx, mx. rewrite zrange_In. lia. Qed.

Lemma is_next_cw_intro s P a r : nearest_cw (mx s) P a r -> is_next_cw s P a r = true.
Proof.
  intros [H1 [H2 [H3 H4]]]. unfold is_next_cw. rewrite H1. cbn [andb].
  assert (r =? a = false) as -> by (apply Z.eqb_neq; exact H3). cbn [negb andb].
  assert (0 <=? r = true) as -> by (apply Z.leb_le; lia).
  assert (r <? mx s = true) as -> by (apply Z.ltb_lt; lia). cbn [andb].
  apply forallb_forall. intros c Hc. apply seats_idx_In in Hc.
  destruct (P c) eqn:Pc; cbn [negb orb]; [|reflexivity].
  destruct (Z.eqb_spec c a) as [->|Hne]; cbn [orb]; [reflexivity|].
  apply Z.leb_le. apply H4; assumption.
Qed.

Lemma is_next_ccw_intro s P a r : nearest_ccw (mx s) P a r -> is_next_ccw s P a r = true.
Proof.
  intros [H1 [H2 [H3 H4]]]. unfold is_next_ccw. rewrite H1. cbn [andb].
  assert (r =? a = false) as -> by (apply Z.eqb_neq; exact H3). cbn [negb andb].
  assert (0 <=? r = true) as -> by (apply Z.leb_le; lia).
  assert (r <? mx s = true) as -> by (apply Z.ltb_lt; lia). cbn [andb].
  apply forallb_forall. intros c Hc. apply seats_idx_In in Hc.
  destruct (P c) eqn:Pc; cbn [negb orb]; [|reflexivity].
  destruct (Z.eqb_spec c a) as [->|Hne]; cbn [orb]; [reflexivity|].
  apply Z.leb_le. apply H4; assumption.
Qed.

(* ---------- re-flagging ---------- *)
Definition reflag_p (r : rule) (max d b z : Z) (p : sp) : sp :=
  if active p then p else set_btw p (between r max d b z).

Lemma reflag_from_length r max d b : forall l i, length (reflag_from r max d b i l) = length l.
Proof. induction l as [|o t IH]; intro i; cbn; [reflexivity|]. rewrite IH; reflexivity. Qed.

Lemma reflag_from_nth r max d b : forall l i k,
  nth k (reflag_from r max d b i l) None =
  match nth k l None with Some p => Some (reflag_p r max d b (i + Z.of_nat k) p) | None => None end.
Proof.
  induction l as [|o t IH]; intros i k; cbn [reflag_from].
  - destruct k; reflexivity.
  - destruct k as [|k]; cbn [nth].
    + rewrite Z.add_0_r. destruct o as [p|]; [|reflexivity]. unfold reflag_p. destruct (active p); reflexivity.
    + rewrite IH. replace (i + 1 + Z.of_nat k) with (i + Z.of_nat (S k)) by lia. reflexivity.
Qed.

Lemma seat_at_reflag s d b z :
  seat_at (reflag s d b) z =
  match seat_at (sm_seats s) z with Some p => Some (reflag_p (sm_rule s) (mx s) d b z p) | None => None end.
Proof.
  unfold seat_at, reflag. rewrite reflag_from_length.
  destruct ((0 <=? z) && (z <? Z.of_nat (length (sm_seats s)))) eqn:E; [|reflexivity].
  rewrite reflag_from_nth. apply andb_true_iff in E. destruct E as [E1 E2]. apply Z.leb_le in E1.
  rewrite Z.add_0_l, Z2Nat.id by lia. reflexivity.
Qed.

Lemma live_p_reflag r max d b z p : live_p (reflag_p r max d b z p) = live_p p.
Proof. unfold reflag_p. destruct (active p); reflexivity. Qed.

Lemma active_reflag r max d b z p :
  active (reflag_p r max d b z p) = active p || (live_p p && negb (between r max d b z)).
Proof.
  unfold reflag_p. destruct (active p) eqn:A; [rewrite A; reflexivity|].
  unfold active, set_btw, live_p in *. cbn. destruct (sp_in p), (sp_chips p), (between r max d b z); cbn; reflexivity.
Qed.

Lemma active_live p : active p = true -> live_p p = true.
Proof. unfold active, live_p. destruct (sp_in p), (sp_btw p), (sp_chips p); cbn; congruence. Qed.

Lemma mx_with_seats s l : mx (with_seats s l) = mx s. Proof. reflexivity. Qed.

Lemma live_reflag s d b z : live (with_seats s (reflag s d b)) z = live s z.
Proof.
  unfold live, holds. cbn [sm_seats with_seats]. rewrite seat_at_reflag.
  destruct (seat_at (sm_seats s) z); [apply live_p_reflag|reflexivity].
Qed.

Lemma act_reflag s d b z :
  act (with_seats s (reflag s d b)) z = act s z || (live s z && negb (between (sm_rule s) (mx s) d b z)).
Proof.
  unfold act, live, holds. cbn [sm_seats with_seats]. rewrite seat_at_reflag.
  destruct (seat_at (sm_seats s) z); [apply active_reflag|reflexivity].
Qed.

Lemma wf_reflag s d b : wf s -> wf (with_seats s (reflag s d b)).
Proof. intros [H1 H2]. split; [|exact H2]. cbn. unfold reflag. rewrite reflag_from_length. exact H1. Qed.

Lemma occs_eqb_reflag_from r max d b : forall l l' i, occs_eqb l l' = true -> occs_eqb l (reflag_from r max d b i l') = true.
Proof.
  induction l as [|x t IH]; intros [|y t'] i H; cbn in *; try discriminate; [reflexivity|].
  apply andb_true_iff in H. destruct H as [H1 H2]. rewrite (IH _ _ H2), andb_true_r.
  destruct x as [p|], y as [q|]; cbn in *; try discriminate; [|reflexivity].
  destruct (active q); [exact H1|]. exact H1.
Qed.

Lemma occs_eqb_refl l : occs_eqb l l = true.
Proof.
  induction l as [|x t IH]; cbn; [reflexivity|]. rewrite IH, andb_true_r.
  destruct x as [p|]; cbn; [|reflexivity]. rewrite Nat.eqb_refl, !eqb_reflx. reflexivity.
Qed.

(* ---------- "between" never holds at the big blind itself ---------- *)
Lemma between_at_bb r max d b : 0 < max -> 0 <= b < max -> between r max d b b = false.
Proof.
  intros Hm Hb. unfold between. destruct (rule_eqb r RShortDeck); [reflexivity|].
  rewrite Z.ltb_irrefl. cbn [andb]. rewrite orb_false_r.
  destruct (b - d <? 0) eqn:E; [|reflexivity]. apply Z.ltb_lt in E.
  apply not_true_is_false. intro H. apply existsb_exists in H. destruct H as [i [Hi He]].
  apply zrange_In in Hi. apply Z.eqb_eq in He.
  rewrite Z2Nat.id in Hi by lia. rewrite Z.rem_mod_nonneg in He by lia.
  assert (i = max * (i / max) + b) by (rewrite <- He; apply Z_div_mod_eq_full).
  assert (0 <= i / max) by (apply Z.div_pos; lia).
  destruct (Z.eq_dec (i / max) 0) as [Z0|NZ]; [rewrite Z0 in *; lia|].
  assert (1 <= i / max) by lia. nia.
Qed.

(* ---------- counting ---------- *)
Lemma filter_length_le {A} (P Q : A -> bool) l : (forall x, In x l -> P x = true -> Q x = true) ->
  (length (filter P l) <= length (filter Q l))%nat.
Proof.
  induction l as [|x t IH]; intro H; cbn; [lia|].
  assert (IH' : (length (filter P t) <= length (filter Q t))%nat) by (apply IH; intros y Hy; apply H; right; exact Hy).
  destruct (P x) eqn:Px.
  - rewrite (H x (or_introl eq_refl) Px). cbn. lia.
  - destruct (Q x); cbn; lia.
Qed.

Lemma filter_ext_length {A} (P Q : A -> bool) l : (forall x, In x l -> P x = Q x) -> length (filter P l) = length (filter Q l).
Proof.
  intro H. apply Nat.le_antisymm; apply filter_length_le; intros x Hx E; [rewrite <- H|rewrite H]; assumption.
Qed.

Lemma count_le s P Q : (forall z, 0 <= z < mx s -> P z = true -> Q z = true) -> (count s P <= count s Q)%nat.
Proof. intro H. unfold count. apply filter_length_le. intros z Hz. apply H. apply seats_idx_In; exact Hz. Qed.

Lemma count_ext s s' P Q : sm_max s = sm_max s' -> (forall z, 0 <= z < mx s -> P z = Q z) -> count s P = count s' Q.
Proof.
  intros Hm H. unfold count, seats_idx. rewrite <- Hm. apply filter_ext_length. intros z Hz. apply H.
  apply zrange_In in Hz. unfold mx. lia.
Qed.

Lemma zrange_NoDup n : forall lo, NoDup (zrange lo n).
Proof.
  induction n as [|n IH]; intro lo; cbn; constructor; [|apply IH].
  intro H. apply zrange_In in H. lia.
Qed.

Lemma filter_only_one (P : Z -> bool) (a : Z) l : NoDup l ->
  (forall x, In x l -> x <> a -> P x = false) -> (length (filter P l) <= 1)%nat.
Proof.
  induction l as [|x t IH]; intros N H; cbn; [lia|].
  inversion N as [|? ? Hn N']; subst.
  destruct (P x) eqn:Px; cbn.
  - (* x must be a; then nothing in t is a *)
    assert (filter P t = []) as ->.
    { assert (Hxa : x = a).
      { destruct (Z.eq_dec x a) as [E|E]; [exact E|]. rewrite (H x (or_introl eq_refl) E) in Px. discriminate. }
      subst x. clear - Hn H. induction t as [|y t IH]; cbn; [reflexivity|].
      assert (y <> a) by (intro E; subst; apply Hn; left; reflexivity).
      rewrite (H y (or_intror (or_introl eq_refl)) H0). apply IH.
      - intro Hin; apply Hn; right; exact Hin.
      - intros z Hz Hne. apply H; [|exact Hne]. destruct Hz as [->|Hz]; [left; reflexivity|right; right; exact Hz]. }
    cbn. lia.
  - apply IH; [exact N'|]. intros y Hy. apply H. right; exact Hy.
Qed.

(* active_count over the seat list = count of dealt-in seat ids *)
Lemma filter_nth_zrange (f : option sp -> bool) : forall l i,
  length (filter (fun z => f (nth (Z.to_nat (z - i)) l None)) (zrange i (length l))) = length (filter f l).
Proof.
  induction l as [|x t IH]; intro i; [reflexivity|].
  assert (E : length (filter (fun z => f (nth (Z.to_nat (z - i)) (x :: t) None)) (zrange (i + 1) (length t)))
              = length (filter f t)).
  { rewrite <- (IH (i + 1)). apply filter_ext_length. intros z Hz. apply zrange_In in Hz.
    replace (Z.to_nat (z - i)) with (S (Z.to_nat (z - (i + 1)))) by lia. reflexivity. }
  change (zrange i (length (x :: t))) with (i :: zrange (i + 1) (length t)).
  cbn [filter]. rewrite Z.sub_diag. change (nth (Z.to_nat 0) (x :: t) None) with x.
  destruct (f x); cbn [length]; rewrite E; reflexivity.
Qed.

Lemma active_count_count s : wf s -> active_count (sm_seats s) = count s (act s).
Proof.
  intros [Hl _]. unfold active_count, count, seats_idx. rewrite <- Hl.
  rewrite <- (filter_nth_zrange (fun o => match o with Some p => active p | None => false end) (sm_seats s) 0).
  apply filter_ext_length. intros z Hz. apply zrange_In in Hz.
  unfold act, holds, seat_at. rewrite Z.sub_0_r.
  assert ((0 <=? z) && (z <? Z.of_nat (length (sm_seats s))) = true) as ->
    by (apply andb_true_iff; split; [apply Z.leb_le|apply Z.ltb_lt]; lia).
  reflexivity.
Qed.

(* ---------- distances ---------- *)
Lemma cwd_sum n a b : 0 < n -> 0 <= a < n -> 0 <= b < n -> a <> b -> cwd n a b + cwd n b a = n.
Proof.
  intros Hn Ha Hb Hne. unfold cwd.
  destruct (Z_lt_le_dec a b).
  - rewrite (Z.mod_small (b - a)) by lia. replace (a - b) with (n - (b - a) + (-1) * n) by lia.
    rewrite Z.mod_add by lia. rewrite Z.mod_small by lia. lia.
  - rewrite (Z.mod_small (a - b)) by lia. replace (b - a) with (n - (a - b) + (-1) * n) by lia.
    rewrite Z.mod_add by lia. rewrite Z.mod_small by lia. lia.
Qed.

Lemma cwd_inj n a x c : 0 < n -> 0 <= a < n -> 0 <= x < n -> 0 <= c < n -> cwd n a x = cwd n a c -> x = c.
Proof.
  intros Hn Ha Hx Hc H. rewrite <- (fwd_cwd n a x Hn Ha Hx), <- (fwd_cwd n a c Hn Ha Hc), H. reflexivity.
Qed.

Lemma filter_two (a b : Z) l : NoDup l -> (length (filter (fun z : Z => ((z =? a) || (z =? b))%Z) l) <= 2)%nat.
Proof.
  induction l as [|x t IH]; intro Nd; cbn; [lia|]. inversion Nd as [|? ? Hx Nd']; subst.
  destruct (Z.eqb_spec x a) as [->|E1]; cbn.
  - assert (length (filter (fun z : Z => ((z =? a) || (z =? b))%Z) t) <= 1)%nat; [|lia].
    apply (filter_only_one _ b); [exact Nd'|]. intros y Hy Hne.
    destruct (Z.eqb_spec y a) as [->|]; [contradiction|]. destruct (Z.eqb_spec y b); [contradiction|reflexivity].
  - destruct (Z.eqb_spec x b) as [->|E2]; cbn.
    + assert (length (filter (fun z : Z => ((z =? a) || (z =? b))%Z) t) <= 1)%nat; [|lia].
      apply (filter_only_one _ a); [exact Nd'|]. intros y Hy Hne.
      destruct (Z.eqb_spec y a); [contradiction|]. destruct (Z.eqb_spec y b) as [->|]; [contradiction|reflexivity].
    + apply IH; exact Nd'.
Qed.

(* ---------- the rotation, clause by clause ---------- *)
Section Rotate.
  Variable s : sm.
  Hypothesis Hwf : wf s.
  Hypothesis Hbb : in_rng s (sm_bb s).

  Let new_bb := next_in_chips s (sm_bb s).
  Let s1 := with_seats s (reflag s (sm_sb s) new_bb).

  Lemma wf_s1 : wf s1. Proof. apply wf_reflag; exact Hwf. Qed.
  Lemma mx_s1 : mx s1 = mx s. Proof. reflexivity. Qed.
  Lemma live_s1 z : live s1 z = live s z. Proof. apply live_reflag. Qed.
  Lemma act_s1_live z : act s1 z = true -> live s z = true.
  Proof.
    unfold s1. rewrite act_reflag. intro H. apply orb_true_iff in H. destruct H as [H|H].
    - unfold act, live, holds in *. destruct (seat_at (sm_seats s) z); [apply active_live; exact H|discriminate].
    - apply andb_true_iff in H. destruct H as [H _]. exact H.
  Qed.

  Lemma ac_s1 : active_count (sm_seats s1) = count s1 (act s1).
  Proof. apply active_count_count. apply wf_s1. Qed.

  Lemma rd_eq : rotate_default s =
    if (active_count (sm_seats s1) <? 2)%nat then (Err, s1)
    else if (active_count (sm_seats s1) =? 2)%nat
         then (Ok, with_pos s1 (next_occupied s1 new_bb) (next_occupied s1 new_bb) new_bb)
    else if is_hu s
         then (Ok, with_pos (with_seats s1 (reflag s1 (prev_alive s1 (sm_bb s)) new_bb)) (prev_alive s1 (sm_bb s)) (sm_bb s) new_bb)
    else (Ok, with_pos s1 (sm_sb s) (sm_bb s) new_bb).
  Proof. reflexivity. Qed.

  Lemma act_with_pos x d sb bb z : act (with_pos x d sb bb) z = act x z. Proof. reflexivity. Qed.
  Lemma count_with_pos x d sb bb : count (with_pos x d sb bb) (act (with_pos x d sb bb)) = count x (act x). Proof. reflexivity. Qed.

  (* occupants are never touched *)
  Lemma rotate_default_occupants : same_occupants s (snd (rotate_default s)) = true.
  Proof.
    unfold rotate_default, same_occupants. fold new_bb. fold s1.
    destruct (active_count (sm_seats s1) <? 2)%nat; [cbn; apply occs_eqb_reflag_from, occs_eqb_refl|].
    destruct (active_count (sm_seats s1) =? 2)%nat; [cbn; apply occs_eqb_reflag_from, occs_eqb_refl|].
    destruct (is_hu s); cbn.
    - unfold reflag. cbn. apply occs_eqb_reflag_from. apply occs_eqb_reflag_from, occs_eqb_refl.
    - apply occs_eqb_reflag_from, occs_eqb_refl.
  Qed.

  (* a refused rotation moves no button seat *)
  Lemma rotate_default_refused_noop s' : rotate_default s = (Err, s') ->
    same_buttons s s' = true /\ same_occupants s s' = true.
  Proof.
    intro H. pose proof rotate_default_occupants as O. rewrite H in O. cbn in O. split; [|exact O].
    unfold rotate_default in H. fold new_bb in H. fold s1 in H.
    destruct (active_count (sm_seats s1) <? 2)%nat.
    - inversion H; subst. unfold same_buttons. cbn. rewrite !Z.eqb_refl. reflexivity.
    - destruct (active_count (sm_seats s1) =? 2)%nat; [discriminate|]. destruct (is_hu s); discriminate.
  Qed.

  (* fewer than two live players: refused *)
  Lemma rotate_default_refuses : (count s (live s) < 2)%nat -> fst (rotate_default s) = Err.
  Proof.
    intro H. unfold rotate_default. fold new_bb. fold s1.
    assert (active_count (sm_seats s1) < 2)%nat.
    { rewrite ac_s1. eapply Nat.le_lt_trans; [|exact H].
      unfold count, seats_idx. cbn [sm_max s1 with_seats].
      apply filter_length_le. intros z _. apply act_s1_live. }
    apply Nat.ltb_lt in H0. rewrite H0. reflexivity.
  Qed.

  (* refused: fewer than two live players, or some live player is (still) flagged as waiting *)
  Lemma rotate_default_refusal_partial s' : rotate_default s = (Err, s') ->
    (count s (live s) < 2)%nat \/ sig_live_waiting s' = true.
  Proof.
    intro H. unfold rotate_default in H. fold new_bb in H. fold s1 in H.
    destruct (active_count (sm_seats s1) <? 2)%nat eqn:E.
    2:{ destruct (active_count (sm_seats s1) =? 2)%nat; [discriminate|]. destruct (is_hu s); discriminate. }
    inversion H; subst s'. apply Nat.ltb_lt in E. rewrite ac_s1 in E.
    destruct (sig_live_waiting s1) eqn:Sg; [right; reflexivity|left].
    eapply Nat.le_lt_trans; [|exact E].
    rewrite (count_ext s s1 (live s) (live s1) eq_refl (fun z _ => eq_sym (live_s1 z))).
    apply count_le. intros z Hz Hl.
    unfold sig_live_waiting in Sg.
    assert (Hf : forall x, In x (seats_idx s1) -> live s1 x && negb (act s1 x) = false).
    { apply Bool.not_true_iff_false in Sg. intros x Hx. apply Bool.not_true_iff_false. intro Ht. apply Sg.
      apply existsb_exists. exists x. split; assumption. }
    specialize (Hf z ltac:(apply seats_idx_In; exact Hz)). rewrite Hl in Hf. cbn in Hf.
    apply negb_false_iff in Hf. exact Hf.
  Qed.

  (* two dealt-in seats exist after a successful re-flagging => the scan for the new bb succeeds *)
  Lemma new_bb_found : (2 <= count s1 (act s1))%nat -> nearest_cw (mx s) (live s) (sm_bb s) new_bb.
  Proof.
    intro H2. destruct (next_in_chips_spec s (sm_bb s) Hwf Hbb) as [[_ Hnone]|Hn]; [|exact Hn].
    exfalso.
    assert (count s1 (act s1) <= 1)%nat; [|lia].
    unfold count. apply (filter_only_one _ (sm_bb s)); [apply zrange_NoDup|].
    intros z Hz Hne. apply seats_idx_In in Hz. rewrite mx_s1 in Hz.
    apply Bool.not_true_iff_false. intro Ha. apply act_s1_live in Ha. rewrite (Hnone z Hz Hne) in Ha. discriminate.
  Qed.

  Lemma new_bb_active_s1 : nearest_cw (mx s) (live s) (sm_bb s) new_bb -> act s1 new_bb = true.
  Proof.
    intros [Hl [Hr _]]. unfold s1. rewrite act_reflag. rewrite Hl.
    rewrite between_at_bb; [|apply mx_pos; exact Hwf|exact Hr]. cbn. apply orb_true_r.
  Qed.

  Lemma ok_two_active s' : rotate_default s = (Ok, s') -> (2 <= count s1 (act s1))%nat.
  Proof.
    intro H. unfold rotate_default in H. fold new_bb in H. fold s1 in H.
    destruct (active_count (sm_seats s1) <? 2)%nat eqn:E; [discriminate|].
    apply Nat.ltb_ge in E. rewrite ac_s1 in E. exact E.
  Qed.

  (* seats of the result: s1's, or s1 re-flagged once more (which keeps dealt-in players dealt in) *)
  Lemma act_result_of_s1 s' z : rotate_default s = (Ok, s') -> act s1 z = true -> act s' z = true.
  Proof.
    intros H Ha. unfold rotate_default in H. fold new_bb in H. fold s1 in H.
    destruct (active_count (sm_seats s1) <? 2)%nat; [discriminate|].
    destruct (active_count (sm_seats s1) =? 2)%nat; [inversion H; subst; exact Ha|].
    destruct (is_hu s); inversion H; subst; [|exact Ha].
    change (act (with_pos (with_seats s1 (reflag s1 (prev_alive s1 (sm_bb s)) new_bb)) (prev_alive s1 (sm_bb s)) (sm_bb s) new_bb) z)
      with (act (with_seats s1 (reflag s1 (prev_alive s1 (sm_bb s)) new_bb)) z).
    rewrite act_reflag. rewrite Ha. reflexivity.
  Qed.

  Lemma bb_result s' : rotate_default s = (Ok, s') -> sm_bb s' = new_bb.
  Proof.
    intro H. unfold rotate_default in H. fold new_bb in H. fold s1 in H.
    destruct (active_count (sm_seats s1) <? 2)%nat; [discriminate|].
    destruct (active_count (sm_seats s1) =? 2)%nat; [inversion H; reflexivity|].
    destruct (is_hu s); inversion H; reflexivity.
  Qed.

  (* the big blind moves to the next seated-in player with chips clockwise, who is dealt in *)
  Lemma rotate_default_bb s' : rotate_default s = (Ok, s') -> cl_bb s Ok s' = true.
  Proof.
    intro H. pose proof (new_bb_found (ok_two_active s' H)) as N. unfold cl_bb.
    rewrite (bb_result s' H). rewrite (is_next_cw_intro s _ _ _ N). cbn [andb].
    apply (act_result_of_s1 s' _ H). apply new_bb_active_s1; exact N.
  Qed.

  (* exactly two dealt in: dealer = small blind = the other player *)
  Lemma rotate_default_headsup s' : rotate_default s = (Ok, s') -> cl_headsup s Ok s' = true.
  Proof.
    intro H. unfold cl_headsup.
    destruct (count s' (act s') =? 2)%nat eqn:C2; [|reflexivity].
    pose proof (ok_two_active s' H) as T. pose proof (new_bb_found T) as N.
    pose proof (new_bb_active_s1 N) as Ab.
    rewrite rd_eq in H.
    destruct (active_count (sm_seats s1) <? 2)%nat eqn:E1; [discriminate|]. apply Nat.ltb_ge in E1.
    destruct (active_count (sm_seats s1) =? 2)%nat eqn:E2.
    - (* the heads-up branch *)
      inversion H; subst s'; clear H.
      assert (Hrx : in_rng s1 new_bb) by (destruct N as [_ [R _]]; exact R).
      destruct (next_occupied_spec s1 new_bb wf_s1 Hrx) as [[_ Hnone]|Hn].
      + exfalso. assert (count s1 (act s1) <= 1)%nat; [|lia].
        unfold count. apply (filter_only_one _ new_bb); [apply zrange_NoDup|].
        intros z Hz Hne. apply seats_idx_In in Hz. apply (Hnone z Hz Hne).
      + destruct Hn as [Ha [Hr [Hne _]]]. cbn [sm_dealer sm_sb sm_bb with_pos].
        rewrite Z.eqb_refl. cbn [andb]. rewrite act_with_pos, Ha. cbn [andb].
        apply negb_true_iff. apply Z.eqb_neq. exact Hne.
    - (* three or more dealt in before the final re-flagging: the count cannot be two afterwards *)
      exfalso. apply Nat.eqb_neq in E2. apply Nat.eqb_eq in C2.
      assert (3 <= count s1 (act s1))%nat by (rewrite <- ac_s1; lia).
      assert (count s1 (act s1) <= count s' (act s'))%nat; [|lia].
      destruct (is_hu s); inversion H; subst s'; clear H.
      + rewrite count_with_pos. unfold count, seats_idx. cbn [sm_max with_seats].
        apply filter_length_le. intros z _ Ha. rewrite act_reflag. rewrite Ha. reflexivity.
      + rewrite count_with_pos. apply Nat.le_refl.
  Qed.

  (* three or more dealt in: sb' = old bb; dealer' = old sb (or, after heads-up, the nearest
     live seat before the small blind); the three differ - unless the new big blind lands on
     the old small-blind seat (recorded finding F7) *)
  Lemma rotate_default_ring_partial s' :
    sm_sb s <> sm_bb s ->
    rotate_default s = (Ok, s') -> sig_bb_reaches_old_sb s s' = false -> cl_ring s Ok s' = true.
  Proof.
    intros Hsb H Hsig. unfold cl_ring.
    destruct (3 <=? count s' (act s'))%nat eqn:C3; [|reflexivity]. apply Nat.leb_le in C3.
    pose proof (ok_two_active s' H) as T. pose proof (new_bb_found T) as N.
    pose proof (bb_result s' H) as Eb.
    unfold sig_bb_reaches_old_sb in Hsig. rewrite Eb in Hsig. apply Z.eqb_neq in Hsig.
    destruct N as [Nl [Nr [Nne Nmin]]].
    rewrite rd_eq in H.
    destruct (active_count (sm_seats s1) <? 2)%nat; [discriminate|].
    destruct (active_count (sm_seats s1) =? 2)%nat eqn:E2.
    { (* heads-up result: count is two, not three *)
      exfalso. inversion H; subst s'; clear H. apply Nat.eqb_eq in E2. rewrite ac_s1 in E2.
      rewrite count_with_pos in C3. lia. }
    destruct (is_hu s) eqn:HU; inversion H; subst s'; clear H; cbn [sm_dealer sm_sb sm_bb with_pos].
    - (* coming from heads-up *)
      rewrite Z.eqb_refl. cbn [andb].
      set (d := prev_alive s1 (sm_bb s)) in *.
      assert (Hrb : in_rng s1 (sm_bb s)) by exact Hbb.
      destruct (prev_alive_spec s1 (sm_bb s) wf_s1 Hrb) as [[_ Hnone]|Hn].
      { exfalso. specialize (Hnone new_bb Nr Nne). rewrite live_s1 in Hnone. congruence. }
      fold d in Hn. destruct Hn as [Dl [Dr [Dne Dmin0]]]. rewrite live_s1 in Dl.
      assert (Dmin : forall c, 0 <= c < mx s -> c <> sm_bb s -> live s c = true -> cwd (mx s) d (sm_bb s) <= cwd (mx s) c (sm_bb s)).
      { intros c Hc Hne Hl. apply Dmin0; try assumption. rewrite live_s1. exact Hl. }
      set (sf := with_pos (with_seats s1 (reflag s1 d new_bb)) d (sm_bb s) new_bb) in *.
      assert (Hlive : forall z, live sf z = live s z).
      { intro z. change (live sf z) with (live (with_seats s1 (reflag s1 d new_bb)) z). rewrite live_reflag. apply live_s1. }
      assert (Hccw : is_next_ccw sf (live sf) (sm_bb s) d = true).
      { apply is_next_ccw_intro. unfold nearest_ccw. change (mx sf) with (mx s). rewrite Hlive.
        split; [exact Dl|]. split; [exact Dr|]. split; [exact Dne|].
        intros c Hc Hne Hl. rewrite Hlive in Hl. apply Dmin; assumption. }
      rewrite Hccw. cbn [andb].
      assert (d =? sm_bb s = false) as -> by (apply Z.eqb_neq; exact Dne).
      assert (sm_bb s =? new_bb = false) as -> by (apply Z.eqb_neq; intro E; apply Nne; symmetry; exact E).
      cbn [negb andb]. apply negb_true_iff. apply Z.eqb_neq. intro Edn.
      (* d = new_bb would leave room for at most one live seat besides the old bb: but three are dealt in *)
      assert (count sf (act sf) <= 2)%nat; [|lia].
      assert (Hmx : mx s = mx sf) by reflexivity.
      pose proof (mx_pos s Hwf) as Hn0.
      assert (Hall : forall z, 0 <= z < mx s -> act sf z = true -> z = sm_bb s \/ z = d).
      { intros z Hz Ha. destruct (Z.eq_dec z (sm_bb s)) as [->|Hzb]; [left; reflexivity|right].
        assert (Hlz : live s z = true).
        { rewrite <- Hlive. unfold act, live, holds in *. destruct (seat_at (sm_seats sf) z); [apply active_live; exact Ha|discriminate]. }
        pose proof (Nmin z Hz Hzb Hlz) as M1.
        pose proof (Dmin z Hz Hzb Hlz) as M2. rewrite <- Edn in M1.
        pose proof (cwd_sum (mx s) (sm_bb s) d Hn0 Hbb Dr ltac:(intro E; apply Dne; symmetry; exact E)) as S1.
        pose proof (cwd_sum (mx s) (sm_bb s) z Hn0 Hbb Hz ltac:(intro E; apply Hzb; symmetry; exact E)) as S2.
        symmetry. apply (cwd_inj (mx s) (sm_bb s)); try assumption. lia. }
      unfold count.
      transitivity (length (filter (fun z => (z =? sm_bb s) || (z =? d)) (seats_idx sf))).
      { apply filter_length_le. intros z Hz Ha. apply seats_idx_In in Hz. rewrite <- Hmx in Hz.
        destruct (Hall z Hz Ha) as [-> | ->]; rewrite Z.eqb_refl; [reflexivity|apply orb_true_r]. }
      apply filter_two. apply zrange_NoDup.
    - (* ring to ring *)
      rewrite !Z.eqb_refl. cbn [andb].
      assert (sm_sb s =? sm_bb s = false) as -> by (apply Z.eqb_neq; exact Hsb).
      assert (sm_bb s =? new_bb = false) as -> by (apply Z.eqb_neq; intro E; apply Nne; symmetry; exact E).
      assert (sm_sb s =? new_bb = false) as -> by (apply Z.eqb_neq; intro E; apply Hsig; symmetry; exact E).
      reflexivity.
  Qed.
End Rotate.

(* ---------- assembling the default-rule rotation ---------- *)
Lemma rotate_default_refusal_ok s s' : wf s -> in_rng s (sm_bb s) -> rotate_default s = (Ok, s') -> (2 <= count s (live s))%nat.
Proof.
  intros Hwf Hbb H. pose proof (ok_two_active s Hwf s' H) as T.
  eapply Nat.le_trans; [exact T|]. unfold count, seats_idx. cbn [sm_max with_seats].
  apply filter_length_le. intros z _. apply act_s1_live.
Qed.

Theorem rotate_default_sound s : wf s -> in_rng s (sm_bb s) -> sm_sb s <> sm_bb s ->
  let '(r, s') := rotate_default s in
  same_occupants s s' = true /\ cl_refused_noop s r s' = true /\ cl_bb s r s' = true /\ cl_headsup s r s' = true
  /\ ((count s (live s) < 2)%nat -> r = Err)
  /\ (r = Ok -> (2 <= count s (live s))%nat)
  /\ (r = Err -> (count s (live s) < 2)%nat \/ sig_live_waiting s' = true)
  /\ (sig_bb_reaches_old_sb s s' = false -> cl_ring s r s' = true).
Proof.
  intros Hwf Hbb Hsb. destruct (rotate_default s) as [r s'] eqn:E.
  pose proof (rotate_default_occupants s) as O. rewrite E in O. cbn [snd] in O.
  split; [exact O|]. destruct r.
  - split; [reflexivity|]. split; [apply (rotate_default_bb s Hwf Hbb s' E)|].
    split; [apply (rotate_default_headsup s Hwf Hbb s' E)|].
    split; [intro L; pose proof (rotate_default_refuses s Hwf L) as R; rewrite E in R; exact R|].
    split; [intros _; apply (rotate_default_refusal_ok s s' Hwf Hbb E)|].
    split; [discriminate|]. intro Sg. apply (rotate_default_ring_partial s Hwf Hbb s' Hsb E Sg).
  - destruct (rotate_default_refused_noop s s' E) as [B _].
    split; [cbn; rewrite B, O; reflexivity|]. split; [reflexivity|]. split; [reflexivity|].
    split; [reflexivity|]. split; [discriminate|]. split; [intros _; apply (rotate_default_refusal_partial s Hwf s' E)|].
    intros _. reflexivity.
Qed.

(* the full decidable specification, outside the two recorded findings *)
Corollary rotate_default_ok_partial s : wf s -> in_rng s (sm_bb s) -> sm_sb s <> sm_bb s ->
  let '(r, s') := rotate_default s in
  sig_bb_reaches_old_sb s s' = false -> (r = Err -> sig_live_waiting s' = false) ->
  C04_rotate_default_ok s r s' = true.
Proof.
  intros Hwf Hbb Hsb. pose proof (rotate_default_sound s Hwf Hbb Hsb) as S.
  destruct (rotate_default s) as [r s']. destruct S as [O [N [B [H [R1 [R2 [R3 G]]]]]]].
  intros Sg Sw. unfold C04_rotate_default_ok. rewrite N, O, B, H, (G Sg). rewrite !andb_true_r.
  unfold cl_refusal. destruct r.
  - apply Nat.leb_le. apply R2; reflexivity.
  - apply Nat.ltb_lt. destruct (R3 eq_refl) as [L|W]; [exact L|]. rewrite (Sw eq_refl) in W. discriminate.
Qed.

(* ---------- short deck ---------- *)
Definition sd_inv (s : sm) : Prop := forall z, act s z = live s z.

Theorem rotate_short_sound s : wf s -> in_rng s (sm_dealer s) -> sd_inv s ->
  let '(r, s') := rotate_short s in C04_rotate_short_ok s r s' = true.
Proof.
  intros Hwf Hd Hinv. unfold rotate_short.
  assert (Hc : count s (live s) = count s (act s)) by (apply count_ext; [reflexivity|intros; symmetry; apply Hinv]).
  destruct (active_count (sm_seats s) <? 2)%nat eqn:E.
  - apply Nat.ltb_lt in E. rewrite (active_count_count s Hwf) in E. unfold C04_rotate_short_ok.
    rewrite Hc. apply Nat.ltb_lt in E. rewrite E. unfold same_buttons, same_occupants. rewrite !Z.eqb_refl, occs_eqb_refl. reflexivity.
  - apply Nat.ltb_ge in E. rewrite (active_count_count s Hwf) in E. unfold C04_rotate_short_ok.
    rewrite Hc. apply Nat.leb_le in E. rewrite E. cbn [sm_sb sm_bb sm_dealer with_pos andb].
    unfold same_occupants. cbn [sm_seats with_pos]. rewrite occs_eqb_refl. cbn [andb]. rewrite !andb_true_r.
    destruct (next_occupied_spec s (sm_dealer s) Hwf Hd) as [[_ Hnone]|Hn].
    + exfalso. apply Nat.leb_le in E. assert (count s (act s) <= 1)%nat; [|lia].
      unfold count. apply (filter_only_one _ (sm_dealer s)); [apply zrange_NoDup|].
      intros z Hz Hne. apply seats_idx_In in Hz. apply (Hnone z Hz Hne).
    + apply is_next_cw_intro. exact Hn.
Qed.

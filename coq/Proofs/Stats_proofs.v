(* C14: what the per-hand statistics block says after any sequence of accepted betting actions,
   for every table of update statements that passes the boolean checks [counters_ok] / [flags_ok]. *)
From Coq Require Import List ZArith Bool Arith Lia.
Import ListNotations.
From PT Require Import Model.HandRules.
Local Close Scope Z_scope.
Local Open Scope nat_scope.

(* ---------- keyed maps ---------- *)
Definition key (id : nat) (kp : nat * pstat) : bool := Nat.eqb (fst kp) id.
Definition kmap (f : nat -> pstat -> pstat) (st : tstats) : tstats := map (fun kp => (fst kp, f (fst kp) (snd kp))) st.

Lemma get_kmap f st id : get (kmap f st) id = match find (key id) st with Some kp => f id (snd kp) | None => pstat0 end.
Proof.
  unfold get, kmap. induction st as [|[k p] t IH]; [reflexivity|]. cbn [map find fst snd].
  destruct (Nat.eqb k id) eqn:E.
  - apply Nat.eqb_eq in E. subst. unfold key. cbn. rewrite Nat.eqb_refl. reflexivity.
  - unfold key at 1. cbn [fst]. rewrite E. exact IH.
Qed.
Lemma keys_kmap f st : map fst (kmap f st) = map fst st.
Proof. unfold kmap. rewrite map_map. reflexivity. Qed.
Lemma get_in st id : In id (map fst st) -> exists kp, find (key id) st = Some kp.
Proof.
  induction st as [|[k p] t IH]; [intros []|]. cbn. intros [->|H].
  - unfold key. cbn. rewrite Nat.eqb_refl. eauto.
  - unfold key at 1. cbn. destruct (Nat.eqb k id); eauto.
Qed.
Lemma get_def st id : get st id = match find (key id) st with Some kp => snd kp | None => pstat0 end.
Proof. reflexivity. Qed.

Lemma upd_kmap st me g : upd st me g = kmap (fun k p => if Nat.eqb k me then g p else p) st.
Proof. unfold upd, kmap. apply map_ext. intros [k p]. cbn. destruct (Nat.eqb k me); reflexivity. Qed.

Lemma get_upd st me g id : get (upd st me g) id = if Nat.eqb id me then (match find (key id) st with Some kp => g (snd kp) | None => pstat0 end) else get st id.
Proof. rewrite upd_kmap, get_kmap, get_def. destruct (Nat.eqb id me); reflexivity. Qed.
Lemma keys_upd st me g : map fst (upd st me g) = map fst st.
Proof. rewrite upd_kmap. apply keys_kmap. Qed.

(* ---------- projections ---------- *)
Definition ctr (c : counter) (p : pstat) : nat :=
  match c with CActions => ps_actions p | CRaises => ps_raises p | CCalls => ps_calls p | CChecks => ps_checks p end.
(* everything except the flags *)
Definition core (p : pstat) := (ps_actions p, ps_raises p, ps_calls p, ps_checks p, ps_fold p, ps_fold_round p).

Lemma core_kmap f st id : (forall k p, core (f k p) = core p) -> core (get (kmap f st) id) = core (get st id).
Proof. intros H. rewrite get_kmap, get_def. destruct (find (key id) st); [apply H|reflexivity]. Qed.

Definition clear3b (st : tstats) : tstats := kmap (fun _ p => set_flag p F3b false) st.
Definition mark3b (me : nat) (st : tstats) : tstats := kmap (fun k p => set_flag p F3b (Nat.eqb k me)) st.
Lemma refresh3b_eq st me :
  refresh3b st me = let st1 := if existsb (fun kp => ps_flags (snd kp) F3b) st then clear3b st else st in
                    if ps_flags (get st1 me) F3bC then mark3b me st1 else st1.
Proof. reflexivity. Qed.

Lemma core_refresh st me id : core (get (refresh3b st me) id) = core (get st id).
Proof.
  rewrite refresh3b_eq. cbv zeta.
  remember (if existsb (fun kp => ps_flags (snd kp) F3b) st then clear3b st else st) as st1 eqn:E.
  assert (H1 : core (get st1 id) = core (get st id)).
  { subst st1. destruct (existsb _ st); [|reflexivity]. apply core_kmap. reflexivity. }
  destruct (ps_flags (get st1 me) F3bC); [|exact H1]. unfold mark3b. rewrite core_kmap by reflexivity. exact H1.
Qed.
Lemma keys_refresh st me : map fst (refresh3b st me) = map fst st.
Proof.
  rewrite refresh3b_eq. cbv zeta.
  remember (if existsb (fun kp => ps_flags (snd kp) F3b) st then clear3b st else st) as st1 eqn:E.
  assert (H1 : map fst st1 = map fst st). { subst st1. destruct (existsb _ st); [apply keys_kmap|reflexivity]. }
  destruct (ps_flags (get st1 me) F3bC); [|exact H1]. unfold mark3b. rewrite keys_kmap. exact H1.
Qed.

Lemma keys_prim me r p st : map fst (apply_prim me r p st) = map fst st.
Proof. destruct p; cbn; auto using keys_upd, keys_refresh. Qed.
Lemma keys_upds me b r l st : map fst (apply_upds me b r l st) = map fst st.
Proof.
  revert st. induction l as [|u t IH]; intros st; [reflexivity|]. cbn. rewrite IH. unfold apply_upd.
  destruct (forallb _ _); [apply keys_prim|reflexivity].
Qed.

(* others are untouched in everything but flags; the acting player's core moves by the primitive *)
Lemma core_prim_other me r p st id : id <> me -> core (get (apply_prim me r p st) id) = core (get st id).
Proof.
  intros Hne. apply Nat.eqb_neq in Hne. destruct p; cbn [apply_prim]; try (rewrite get_upd, Hne; reflexivity). apply core_refresh.
Qed.

(* ---------- counters ---------- *)
Definition plain (gs : list guard) : bool := forallb (fun g => match g with GRaiser => true | GFlag _ => false end) gs.
Fixpoint incs (c : counter) (raiser : bool) (l : list supd) : option nat :=
  match l with
  | [] => Some 0
  | (gs, SInc c') :: t =>
      if counter_eqb c c' then
        if plain gs then option_map (fun n => (if forallb (fun _ => raiser) gs then 1 else 0) + n) (incs c raiser t) else None
      else incs c raiser t
  | _ :: t => incs c raiser t
  end.

Lemma plain_holds me raiser st gs : plain gs = true -> forallb (guard_holds me raiser st) gs = forallb (fun _ => raiser) gs.
Proof. induction gs as [|g t IH]; [reflexivity|]. cbn. destruct g; [|discriminate]. intros H. rewrite (IH H). reflexivity. Qed.

Lemma ctr_inc c c' p : ctr c (inc p c') = (if counter_eqb c c' then 1 else 0) + ctr c p.
Proof. destruct c, c'; reflexivity. Qed.

Lemma ctr_core c p q : core p = core q -> ctr c p = ctr c q.
Proof. unfold core. intros H. inversion H. destruct c; cbn; congruence. Qed.

Lemma ctr_prim_me c me r p st : In me (map fst st) ->
  ctr c (get (apply_prim me r p st) me) = (match p with SInc c' => if counter_eqb c c' then 1 else 0 | _ => 0 end) + ctr c (get st me).
Proof.
  intros Hin. destruct (get_in _ _ Hin) as [kp Hkp].
  destruct p; cbn [apply_prim]; try (rewrite get_upd, Nat.eqb_refl, get_def, Hkp).
  - apply ctr_inc.
  - destruct c; reflexivity.
  - destruct c; reflexivity.
  - destruct c; reflexivity.
  - cbn. apply ctr_core, core_refresh.
Qed.

Lemma incs_sound c me raiser r l : forall st n, In me (map fst st) -> incs c raiser l = Some n ->
  ctr c (get (apply_upds me raiser r l st) me) = n + ctr c (get st me).
Proof.
  induction l as [|[gs p] t IH]; intros st n Hin Hn.
  - cbn in Hn. inversion Hn. reflexivity.
  - cbn [apply_upds]. unfold apply_upd. cbn [fst snd].
    assert (Hin' : forall st' : tstats, map fst st' = map fst st -> In me (map fst st')) by (intros st' E; rewrite E; exact Hin).
    destruct p as [c'| | |f|]; cbn [incs] in Hn.
    + destruct (counter_eqb c c') eqn:Ec.
      * destruct (plain gs) eqn:Hp; [|discriminate].
        destruct (incs c raiser t) as [m|] eqn:Hm; [|discriminate]. cbn in Hn. inversion Hn; subst n. clear Hn.
        rewrite (plain_holds _ _ _ _ Hp).
        destruct (forallb (fun _ => raiser) gs).
        -- rewrite (IH _ m (Hin' _ (keys_prim _ _ _ _)) eq_refl). rewrite ctr_prim_me by exact Hin. rewrite Ec. lia.
        -- rewrite (IH _ m Hin eq_refl). lia.
      * destruct (forallb _ gs).
        -- rewrite (IH _ n (Hin' _ (keys_prim _ _ _ _)) Hn). rewrite ctr_prim_me by exact Hin. rewrite Ec. lia.
        -- apply IH; assumption.
    + destruct (forallb _ gs); [|apply IH; assumption].
      rewrite (IH _ n (Hin' _ (keys_prim _ _ _ _)) Hn). rewrite ctr_prim_me by exact Hin. lia.
    + destruct (forallb _ gs); [|apply IH; assumption].
      rewrite (IH _ n (Hin' _ (keys_prim _ _ _ _)) Hn). rewrite ctr_prim_me by exact Hin. lia.
    + destruct (forallb _ gs); [|apply IH; assumption].
      rewrite (IH _ n (Hin' _ (keys_prim _ _ _ _)) Hn). rewrite ctr_prim_me by exact Hin. lia.
    + destruct (forallb _ gs); [|apply IH; assumption].
      rewrite (IH _ n (Hin' _ (keys_prim _ _ _ _)) Hn). rewrite ctr_prim_me by exact Hin. lia.
Qed.

Lemma core_upds_other me raiser r l : forall st id, id <> me -> core (get (apply_upds me raiser r l st) id) = core (get st id).
Proof.
  induction l as [|[gs p] t IH]; intros st id Hne; [reflexivity|]. cbn [apply_upds]. rewrite IH by exact Hne.
  unfold apply_upd. cbn [fst snd]. destruct (forallb _ gs); [apply core_prim_other; exact Hne|reflexivity].
Qed.

(* ---------- a hand's accepted betting actions ---------- *)
Record wact := { w_id : nat; w_act : act; w_raiser : bool; w_round : rnd }.
Definition stats_of_row (a : act) : list supd := match row_of a with Some r => ar_stats r | None => [] end.
Definition step_stats (st : tstats) (w : wact) : tstats := apply_upds (w_id w) (w_raiser w) (w_round w) (stats_of_row (w_act w)) st.
Definition wagers : list act := [AFold; ACheck; ACall; AAllin; ABet; ARaise].

Definition b2n (b : bool) : nat := if b then 1 else 0.
Definition counters_row_ok (a : act) (raiser : bool) : bool :=
  match incs CActions raiser (stats_of_row a), incs CCalls raiser (stats_of_row a), incs CChecks raiser (stats_of_row a), incs CRaises raiser (stats_of_row a) with
  | Some na, Some nc, Some nk, Some nr => Nat.eqb na 1 && Nat.eqb nc (b2n (act_eqb a ACall)) && Nat.eqb nk (b2n (act_eqb a ACheck)) && (nr <=? 1)
  | _, _, _, _ => false
  end.
Definition counters_ok : bool := forallb (fun a => counters_row_ok a true && counters_row_ok a false) wagers.
Lemma counters_ok_holds : counters_ok = true.  Proof. vm_compute. reflexivity. Qed.

Definition mine (id : nat) (w : wact) : bool := Nat.eqb (w_id w) id.
Definition cnt (P : wact -> bool) (l : list wact) : nat := length (filter P l).

Definition wf_hist (ids : list nat) (l : list wact) : Prop := Forall (fun w => In (w_act w) wagers /\ In (w_id w) ids) l.

Section Counters.
Hypothesis COK : counters_ok = true.

Lemma row_counts a raiser : In a wagers ->
  exists nr, incs CActions raiser (stats_of_row a) = Some 1 /\ incs CCalls raiser (stats_of_row a) = Some (b2n (act_eqb a ACall))
             /\ incs CChecks raiser (stats_of_row a) = Some (b2n (act_eqb a ACheck)) /\ incs CRaises raiser (stats_of_row a) = Some nr /\ nr <= 1.
Proof.
  intros Hin. unfold counters_ok in COK. rewrite forallb_forall in COK. specialize (COK _ Hin).
  rewrite andb_true_iff in COK. destruct COK as [Ht Hf].
  assert (H : counters_row_ok a raiser = true) by (destruct raiser; assumption). clear Ht Hf.
  unfold counters_row_ok in H.
  destruct (incs CActions raiser _) as [na|]; [|discriminate]. destruct (incs CCalls raiser _) as [nc|]; [|discriminate].
  destruct (incs CChecks raiser _) as [nk|]; [|discriminate]. destruct (incs CRaises raiser _) as [nr|]; [|discriminate].
  rewrite !andb_true_iff in H. destruct H as [[[H1 H2] H3] H4].
  apply Nat.eqb_eq in H1, H2, H3. apply Nat.leb_le in H4. subst. exists nr. auto.
Qed.

(* the invariant carried along a hand *)
Definition cinv (st : tstats) (l : list wact) (id : nat) : Prop :=
  ps_actions (get st id) = cnt (mine id) l /\
  ps_calls (get st id) = cnt (fun w => mine id w && act_eqb (w_act w) ACall) l /\
  ps_checks (get st id) = cnt (fun w => mine id w && act_eqb (w_act w) ACheck) l /\
  ps_raises (get st id) <= ps_actions (get st id).

Lemma cnt_app P l w : cnt P (l ++ [w]) = cnt P l + b2n (P w).
Proof. unfold cnt. rewrite filter_app, app_length. cbn. destruct (P w); reflexivity. Qed.

Lemma cinv_step ids st l w id :
  map fst st = ids -> In (w_act w) wagers -> In (w_id w) ids -> cinv st l id -> cinv (step_stats st w) (l ++ [w]) id.
Proof.
  intros Hk Ha Hi (H1 & H2 & H3 & H4). unfold cinv. rewrite !cnt_app. unfold step_stats.
  destruct (row_counts (w_act w) (w_raiser w) Ha) as (nr & Ea & Ec & Ek & Er & Hle).
  destruct (Nat.eq_dec id (w_id w)) as [->|Hne].
  - assert (Hin : In (w_id w) (map fst st)) by (rewrite Hk; exact Hi).
    pose proof (incs_sound CActions _ _ (w_round w) _ st _ Hin Ea) as Ga.
    pose proof (incs_sound CCalls _ _ (w_round w) _ st _ Hin Ec) as Gc.
    pose proof (incs_sound CChecks _ _ (w_round w) _ st _ Hin Ek) as Gk.
    pose proof (incs_sound CRaises _ _ (w_round w) _ st _ Hin Er) as Gr.
    cbn [ctr] in Ga, Gc, Gk, Gr. assert (Hm : mine (w_id w) w = true) by apply Nat.eqb_refl. rewrite Hm. cbn [andb b2n].
    rewrite Ga, Gc, Gk, Gr, H1, H2, H3. repeat split; lia.
  - pose proof (core_upds_other (w_id w) (w_raiser w) (w_round w) (stats_of_row (w_act w)) st id Hne) as Hc.
    unfold core in Hc. inversion Hc as [[E1 E2 E3 E4 E5 E6]].
    assert (Hm : mine id w = false) by (unfold mine; apply Nat.eqb_neq; congruence). rewrite Hm. cbn [andb b2n].
    rewrite E1, E2, E3, E4. repeat split; lia.
Qed.

Definition zero_stats (ids : list nat) : tstats := map (fun id => (id, pstat0)) ids.
Lemma get_zero ids id : get (zero_stats ids) id = pstat0.
Proof. unfold get, zero_stats. induction ids as [|k t IH]; [reflexivity|]. cbn. destruct (Nat.eqb k id); [reflexivity|exact IH]. Qed.

Lemma keys_step st w : map fst (step_stats st w) = map fst st.
Proof. apply keys_upds. Qed.

(* C14, counters: after ANY sequence of accepted betting actions of a hand that started from a cleared block *)
Theorem counters_describe_actions ids l id :
  wf_hist ids l ->
  cinv (fold_left step_stats l (zero_stats ids)) l id.
Proof.
  intros Hwf.
  assert (G : forall l2 l1 st, map fst st = ids -> wf_hist ids l2 -> cinv st l1 id -> cinv (fold_left step_stats l2 st) (l1 ++ l2) id).
  { induction l2 as [|w t IH]; intros l1 st Hk Hw Hinv.
    - rewrite app_nil_r. exact Hinv.
    - apply Forall_cons_iff in Hw. destruct Hw as [[Ha Hi] Ht]. cbn [fold_left].
      replace (l1 ++ w :: t) with ((l1 ++ [w]) ++ t) by (rewrite <- app_assoc; reflexivity).
      apply IH; [rewrite keys_step; exact Hk | exact Ht | eapply cinv_step; eauto]. }
  apply (G l [] (zero_stats ids)); [unfold zero_stats; rewrite map_map; apply map_id | exact Hwf |].
  unfold cinv. rewrite get_zero. cbn. repeat split; lia.
Qed.
End Counters.

(* ---------- the fold flag and the fold round ---------- *)
Definition is_fold_prim (p : sprim) : bool := match p with SSetFold | SSetFoldRound => true | _ => false end.
(* Some true: both set, unconditionally; Some false: neither mentioned; None: anything else *)
Definition fold_summary (l : list supd) : option bool :=
  let fs := filter (fun u => is_fold_prim (snd u)) l in
  match fs with
  | [] => Some false
  | _ => if forallb (fun u => match fst u with [] => true | _ => false end) fs
            && existsb (fun u => match snd u with SSetFold => true | _ => false end) fs
            && existsb (fun u => match snd u with SSetFoldRound => true | _ => false end) fs
         then Some true else None
  end.

Definition fr (p : pstat) := (ps_fold p, ps_fold_round p).
Lemma fr_core p q : core p = core q -> fr p = fr q.
Proof. unfold core, fr. intros H. inversion H. reflexivity. Qed.

Lemma fr_prim_me me r p st : In me (map fst st) ->
  fr (get (apply_prim me r p st) me) =
  match p with SSetFold => (true, ps_fold_round (get st me)) | SSetFoldRound => (ps_fold (get st me), r) | _ => fr (get st me) end.
Proof.
  intros Hin. destruct (get_in _ _ Hin) as [kp Hkp].
  destruct p; cbn [apply_prim]; try (rewrite get_upd, Nat.eqb_refl, get_def, Hkp; reflexivity).
  apply fr_core, core_refresh.
Qed.

(* no fold primitive in the list: untouched *)
Lemma fr_none me raiser r l : forall st, In me (map fst st) -> filter (fun u => is_fold_prim (snd u)) l = [] ->
  fr (get (apply_upds me raiser r l st) me) = fr (get st me).
Proof.
  induction l as [|[gs p] t IH]; intros st Hin Hf; [reflexivity|]. cbn [apply_upds]. cbn [filter snd] in Hf.
  destruct (is_fold_prim p) eqn:Ep; [discriminate|].
  unfold apply_upd. cbn [fst snd]. destruct (forallb _ gs).
  - rewrite IH; [| rewrite keys_prim; exact Hin | exact Hf]. rewrite fr_prim_me by exact Hin. destruct p; try reflexivity; discriminate.
  - apply IH; assumption.
Qed.

(* every fold primitive unguarded: what has been set so far stays set, the rest follows *)
Lemma fr_all me raiser r l : forall st, In me (map fst st) ->
  forallb (fun u => match fst u with [] => true | _ => false end) (filter (fun u => is_fold_prim (snd u)) l) = true ->
  let q := get (apply_upds me raiser r l st) me in
  ps_fold q = ps_fold (get st me) || existsb (fun u => match snd u with SSetFold => true | _ => false end) l /\
  ps_fold_round q = if existsb (fun u => match snd u with SSetFoldRound => true | _ => false end) l then r else ps_fold_round (get st me).
Proof.
  induction l as [|[gs p] t IH]; intros st Hin Hg; cbn zeta.
  - cbn. rewrite orb_false_r. auto.
  - cbn [apply_upds]. unfold apply_upd. cbn [fst snd filter existsb] in *.
    destruct (is_fold_prim p) eqn:Ep.
    + cbn [forallb fst] in Hg. rewrite andb_true_iff in Hg. destruct Hg as [Hg1 Hg2]. destruct gs; [|discriminate]. cbn [forallb].
      destruct (IH (apply_prim me r p st)) as [A B]; [rewrite keys_prim; exact Hin | exact Hg2 |].
      rewrite A, B. pose proof (fr_prim_me me r p st Hin) as F. unfold fr in F.
      destruct p; try discriminate; injection F as F1 F2; cbn [apply_prim]; rewrite F1, F2.
      * split; [cbn [orb]; rewrite orb_true_r; reflexivity | reflexivity].
      * split; [reflexivity|]. cbn [orb]. match goal with |- context [if ?b then r else r] => destruct b end; reflexivity.
    + assert (Hp : fr (get (apply_prim me r p st) me) = fr (get st me)) by (rewrite fr_prim_me by exact Hin; destruct p; try reflexivity; discriminate).
      assert (E1 : (match p with SSetFold => true | _ => false end) = false) by (destruct p; try reflexivity; discriminate).
      assert (E2 : (match p with SSetFoldRound => true | _ => false end) = false) by (destruct p; try reflexivity; discriminate).
      rewrite E1, E2. cbn [orb]. destruct (forallb _ gs).
      * destruct (IH (apply_prim me r p st)) as [A B]; [rewrite keys_prim; exact Hin | exact Hg |].
        unfold fr in Hp. injection Hp as P1 P2. rewrite A, B, P1, P2. auto.
      * apply IH; assumption.
Qed.

Definition folds_ok : bool :=
  forallb (fun a => match fold_summary (stats_of_row a) with Some b => Bool.eqb b (act_eqb a AFold) | None => false end) wagers.
Lemma folds_ok_holds : folds_ok = true.  Proof. vm_compute. reflexivity. Qed.

Section Folds.
Hypothesis FOK : folds_ok = true.

Lemma fold_step_me st w : In (w_act w) wagers -> In (w_id w) (map fst st) ->
  fr (get (step_stats st w) (w_id w)) = if act_eqb (w_act w) AFold then (true, w_round w) else fr (get st (w_id w)).
Proof.
  intros Ha Hin. unfold folds_ok in FOK. rewrite forallb_forall in FOK. specialize (FOK _ Ha).
  unfold step_stats. unfold fold_summary in FOK.
  destruct (filter (fun u => is_fold_prim (snd u)) (stats_of_row (w_act w))) as [|u0 fs] eqn:Ef.
  - apply eqb_prop in FOK. rewrite <- FOK. apply fr_none; assumption.
  - destruct (forallb _ (u0 :: fs) && _ && _) eqn:Ec; [|discriminate]. apply eqb_prop in FOK. rewrite <- FOK.
    rewrite !andb_true_iff in Ec. destruct Ec as [[Eg E1] E2].
    pose proof (fr_all (w_id w) (w_raiser w) (w_round w) (stats_of_row (w_act w)) st Hin) as G. rewrite Ef in G. specialize (G Eg). cbv zeta in G.
    destruct G as [A B]. unfold fr. rewrite A, B.
    assert (X1 : existsb (fun u => match snd u with SSetFold => true | _ => false end) (stats_of_row (w_act w)) = true).
    { rewrite existsb_exists in E1 |- *. destruct E1 as (u & Hu & Hs). exists u. split; [|exact Hs]. rewrite <- Ef in Hu. apply filter_In in Hu. tauto. }
    assert (X2 : existsb (fun u => match snd u with SSetFoldRound => true | _ => false end) (stats_of_row (w_act w)) = true).
    { rewrite existsb_exists in E2 |- *. destruct E2 as (u & Hu & Hs). exists u. split; [|exact Hs]. rewrite <- Ef in Hu. apply filter_In in Hu. tauto. }
    rewrite X1, X2, orb_true_r. reflexivity.
Qed.

(* the fold flag says whether the player folded; the fold round is the round of that fold *)
Fixpoint last_fold (id : nat) (l : list wact) (acc : bool * rnd) : bool * rnd :=
  match l with
  | [] => acc
  | w :: t => last_fold id t (if mine id w && act_eqb (w_act w) AFold then (true, w_round w) else acc)
  end.

Theorem fold_flag_describes_fold ids l id :
  wf_hist ids l -> fr (get (fold_left step_stats l (zero_stats ids)) id) = last_fold id l (false, RNoRound).
Proof.
  intros Hwf.
  assert (G : forall l st, map fst st = ids -> wf_hist ids l -> fr (get (fold_left step_stats l st) id) = last_fold id l (fr (get st id))).
  { clear l Hwf. induction l as [|w t IH]; intros st Hk Hw; [reflexivity|].
    apply Forall_cons_iff in Hw. destruct Hw as [[Ha Hi] Ht]. cbn [fold_left last_fold].
    rewrite IH; [| rewrite keys_step; exact Hk | exact Ht]. f_equal.
    destruct (Nat.eq_dec id (w_id w)) as [->|Hne].
    - assert (Hm : mine (w_id w) w = true) by apply Nat.eqb_refl. rewrite Hm. cbn [andb].
      apply fold_step_me; [exact Ha | rewrite Hk; exact Hi].
    - assert (Hm : mine id w = false) by (unfold mine; apply Nat.eqb_neq; congruence). rewrite Hm. cbn [andb].
      apply fr_core. apply core_upds_other. exact Hne. }
  rewrite G; [| unfold zero_stats; rewrite map_map; apply map_id | exact Hwf]. rewrite get_zero. reflexivity.
Qed.
End Folds.

(* ---------- flags: 'did X' implies 'had the chance', at most one 3-bet holder ---------- *)
Lemma flags_set p f v g : ps_flags (set_flag p f v) g = if flag_eqb g f then v else ps_flags p g.
Proof. reflexivity. Qed.

Lemma flags_upd st me h id g : (forall p, ps_flags (h p) g = ps_flags p g) -> ps_flags (get (upd st me h) id) g = ps_flags (get st id) g.
Proof. intros H. rewrite get_upd, get_def. destruct (Nat.eqb id me); [|reflexivity]. destruct (find (key id) st); [apply H|reflexivity]. Qed.

Lemma flags_kmap_other f st id g : (forall k p, ps_flags (f k p) g = ps_flags p g) -> ps_flags (get (kmap f st) id) g = ps_flags (get st id) g.
Proof. intros H. rewrite get_kmap, get_def. destruct (find (key id) st); [apply H|reflexivity]. Qed.

Lemma refresh_other st me id g : g <> F3b -> ps_flags (get (refresh3b st me) id) g = ps_flags (get st id) g.
Proof.
  intros Hg. assert (Hne : flag_eqb g F3b = false) by (destruct (flag_eqb g F3b) eqn:E; [apply flag_eqb_eq in E; contradiction|reflexivity]).
  rewrite refresh3b_eq. cbv zeta.
  remember (if existsb (fun kp => ps_flags (snd kp) F3b) st then clear3b st else st) as st1 eqn:E1.
  assert (H1 : ps_flags (get st1 id) g = ps_flags (get st id) g).
  { subst st1. destruct (existsb _ st); [|reflexivity]. apply flags_kmap_other. intros. rewrite flags_set, Hne. reflexivity. }
  destruct (ps_flags (get st1 me) F3bC); [|exact H1]. unfold mark3b. rewrite flags_kmap_other; [exact H1|]. intros. rewrite flags_set, Hne. reflexivity.
Qed.

Lemma existsb_false_get st id : existsb (fun kp : nat * pstat => ps_flags (snd kp) F3b) st = false -> ps_flags (get st id) F3b = false.
Proof.
  intros H. rewrite get_def. destruct (find (key id) st) as [kp|] eqn:E; [|reflexivity].
  apply find_some in E. destruct E as [Hin _]. destruct (ps_flags (snd kp) F3b) eqn:F; [|reflexivity].
  assert (existsb (fun kp => ps_flags (snd kp) F3b) st = true) by (apply existsb_exists; eauto). congruence.
Qed.

(* the 3-bet flag after refreshThreeBet *)
Lemma refresh_3b st me id :
  ps_flags (get (refresh3b st me) id) F3b = true ->
  id = me /\ ps_flags (get st me) F3bC = true /\ (forall j, ps_flags (get (refresh3b st me) j) F3b = true -> j = me).
Proof.
  rewrite refresh3b_eq. cbv zeta.
  remember (if existsb (fun kp => ps_flags (snd kp) F3b) st then clear3b st else st) as st1 eqn:E1.
  assert (Hc : ps_flags (get st1 me) F3bC = ps_flags (get st me) F3bC).
  { subst st1. destruct (existsb _ st); [|reflexivity]. apply flags_kmap_other. intros. rewrite flags_set. reflexivity. }
  assert (Hnone : forall j, ps_flags (get st1 j) F3b = false).
  { intros j. subst st1. destruct (existsb _ st) eqn:Ex; [|apply existsb_false_get; exact Ex].
    unfold clear3b. rewrite get_kmap. destruct (find (key j) st); reflexivity. }
  destruct (ps_flags (get st1 me) F3bC) eqn:Ec.
  - assert (Hm : forall j, ps_flags (get (mark3b me st1) j) F3b = true -> j = me).
    { intros j. unfold mark3b. rewrite get_kmap. destruct (find (key j) st1); [|discriminate]. rewrite flags_set. cbn. apply Nat.eqb_eq. }
    intros H. split; [apply Hm; exact H|]. split; [congruence|exact Hm].
  - rewrite Hnone. discriminate.
Qed.

Definition is_chance (f : flag) : bool := match chance_of f with None => true | Some _ => false end.
Definition mem (f : flag) (l : list flag) : bool := existsb (flag_eqb f) l.

(* The 'had the chance' flags the engine can ever mark.  Those in [gated_chances] sit behind
   validateGameStatisticGameState, which needs a betting event named "Started" and a current player
   whose Acted flag is already set; a hand engine with pokerface's semantics publishes "RoundStarted"
   and clears Acted before it asks a player, so the gate never opens (ASSUMPTION about the hand
   engine, named in the trusted base and watched by the harness: no gated flag is ever observed set). *)
Definition reach : list flag :=
  filter (fun c => is_chance c && negb (gate_requires_started_and_acted && mem c gated_chances)) all_flags.

Definition guarded_by (c : flag) (gs : list guard) : bool := existsb (fun g => match g with GFlag c' => flag_eqb c c' | GRaiser => false end) gs.
(* some guard tests a chance flag the engine never marks: the statement never runs *)
Definition dead_guard (gs : list guard) : bool :=
  existsb (fun g => match g with GFlag c => is_chance c && negb (mem c reach) | GRaiser => false end) gs.
Definition flags_row_ok (l : list supd) : bool :=
  forallb (fun u => match snd u with
                    | SSet f => negb (flag_eqb f F3b) && negb (is_chance f)
                                && (dead_guard (fst u) || match chance_of f with Some c => guarded_by c (fst u) | None => true end)
                    | _ => true end) l.
Definition flags_ok : bool := forallb (fun a => flags_row_ok (stats_of_row a)) wagers && showdown_win_set_with_chance.
Lemma flags_ok_holds : flags_ok = true.  Proof. vm_compute. reflexivity. Qed.

(* the invariants *)
Definition did_implies_chance (st : tstats) : Prop :=
  forall id f c, chance_of f = Some c -> ps_flags (get st id) f = true -> ps_flags (get st id) c = true.
Definition one_3b (st : tstats) : Prop :=
  forall i j, ps_flags (get st i) F3b = true -> ps_flags (get st j) F3b = true -> i = j.
Definition unmarked (st : tstats) : Prop :=
  forall id c, is_chance c = true -> mem c reach = false -> ps_flags (get st id) c = false.
Definition finv (st : tstats) : Prop := did_implies_chance st /\ one_3b st /\ unmarked st.

Lemma chance_ne f c : chance_of f = Some c -> flag_eqb c f = false /\ chance_of c = None.
Proof. destruct f; cbn; intros H; inversion H; subst; split; reflexivity. Qed.

Lemma guarded_holds me raiser st c gs : guarded_by c gs = true -> forallb (guard_holds me raiser st) gs = true -> ps_flags (get st me) c = true.
Proof.
  unfold guarded_by. rewrite existsb_exists, forallb_forall. intros (g & Hin & Hg) Hall. specialize (Hall _ Hin).
  destruct g as [|c']; [discriminate|]. apply flag_eqb_eq in Hg. subst. exact Hall.
Qed.
Lemma dead_never me raiser st gs : unmarked st -> dead_guard gs = true -> forallb (guard_holds me raiser st) gs = true -> False.
Proof.
  unfold dead_guard. rewrite existsb_exists, forallb_forall. intros Hu (g & Hin & Hg) Hall. specialize (Hall _ Hin).
  destruct g as [|c]; [discriminate|]. rewrite andb_true_iff in Hg. destruct Hg as [Hc Hm]. apply negb_true_iff in Hm.
  cbn in Hall. rewrite (Hu me c Hc Hm) in Hall. discriminate.
Qed.

Lemma prim_preserves me raiser r gs p st :
  In me (map fst st) ->
  (match p with SSet f => negb (flag_eqb f F3b) && negb (is_chance f)
                          && (dead_guard gs || match chance_of f with Some c => guarded_by c gs | None => true end) | _ => true end) = true ->
  forallb (guard_holds me raiser st) gs = true ->
  finv st -> finv (apply_prim me r p st).
Proof.
  intros Hin Hok Hg (Hd & H1 & Hu). destruct (get_in _ _ Hin) as [kp Hkp].
  destruct p as [c0| | |f0|]; cbn [apply_prim].
  - repeat split; [intros id f c Hc | intros i j | intros id c Hc Hm]; rewrite !flags_upd by reflexivity; eauto.
  - repeat split; [intros id f c Hc | intros i j | intros id c Hc Hm]; rewrite !flags_upd by reflexivity; eauto.
  - repeat split; [intros id f c Hc | intros i j | intros id c Hc Hm]; rewrite !flags_upd by reflexivity; eauto.
  - rewrite !andb_true_iff in Hok. destruct Hok as [[Hn3 Hnc] Hch]. apply negb_true_iff in Hn3. apply negb_true_iff in Hnc.
    assert (Hch' : match chance_of f0 with Some c => guarded_by c gs | None => true end = true).
    { apply orb_true_iff in Hch. destruct Hch as [Hdead|Hch]; [exfalso; eapply dead_never; eauto|exact Hch]. }
    assert (F : forall id g, ps_flags (get (upd st me (fun p => set_flag p f0 true)) id) g =
                             if Nat.eqb id me && flag_eqb g f0 then true else ps_flags (get st id) g).
    { intros id g. rewrite get_upd. destruct (Nat.eqb id me) eqn:E; [|reflexivity]. apply Nat.eqb_eq in E. subst id.
      rewrite Hkp, flags_set, get_def, Hkp. cbn [andb]. reflexivity. }
    repeat split.
    + intros id f c Hc. rewrite !F. destruct (chance_ne _ _ Hc) as [Hcf Hcc].
      destruct (Nat.eqb id me) eqn:E; cbn [andb]; [|apply Hd; exact Hc]. apply Nat.eqb_eq in E. subst id.
      destruct (flag_eqb f f0) eqn:Ef.
      * apply flag_eqb_eq in Ef. subst f0. rewrite Hc in Hch'. intros _.
        destruct (flag_eqb c f); [reflexivity|]. eapply guarded_holds; eauto.
      * intros Hf. destruct (flag_eqb c f0); [reflexivity|]. eapply Hd; eauto.
    + intros i j. rewrite !F.
      assert (E3 : flag_eqb F3b f0 = false) by (destruct f0; cbn in *; congruence).
      rewrite E3, !andb_false_r. apply H1.
    + intros id c Hc Hm. rewrite F.
      assert (E : flag_eqb c f0 = false).
      { destruct (flag_eqb c f0) eqn:E; [|reflexivity]. apply flag_eqb_eq in E. subst c. congruence. }
      rewrite E, andb_false_r. apply Hu; assumption.
  - repeat split.
    + intros id f c Hc. destruct (chance_ne _ _ Hc) as [Hcf Hcc].
      assert (Hc3 : c <> F3b) by (intros ->; discriminate).
      rewrite (refresh_other _ _ _ c Hc3).
      destruct (flag_eqb f F3b) eqn:Ef.
      * apply flag_eqb_eq in Ef. subst f. cbn in Hc. inversion Hc; subst c. intros H. apply refresh_3b in H. destruct H as (-> & Hm & _). exact Hm.
      * assert (f <> F3b) by (intros ->; discriminate). rewrite refresh_other by assumption. apply Hd; exact Hc.
    + intros i j Hi Hj. apply refresh_3b in Hi. destruct Hi as (-> & _ & Hall). symmetry. apply Hall. exact Hj.
    + intros id c Hc Hm. assert (c <> F3b) by (intros ->; discriminate). rewrite refresh_other by assumption. apply Hu; assumption.
Qed.

Lemma upds_preserve me raiser r l : forall st, In me (map fst st) -> flags_row_ok l = true -> finv st -> finv (apply_upds me raiser r l st).
Proof.
  induction l as [|[gs p] t IH]; intros st Hin Hok Hi; [auto|]. cbn [apply_upds].
  cbn [flags_row_ok forallb fst snd] in Hok. rewrite andb_true_iff in Hok. destruct Hok as [Hp Ht].
  unfold apply_upd. cbn [fst snd]. destruct (forallb (guard_holds me raiser st) gs) eqn:Hg.
  - apply IH; auto; [rewrite keys_prim; exact Hin | eapply prim_preserves; eauto].
  - apply IH; auto.
Qed.

(* what else writes flags: the engine marks a 'had the chance' flag when a player is asked to act; the
   settlement marks the showdown chance and, for a winner, the showdown win *)
Definition mark (id : nat) (c : flag) (st : tstats) : tstats := upd st id (fun p => set_flag p c true).

Inductive sev := EvAct (w : wact) | EvChance (id : nat) (c : flag) | EvShowdown (id : nat) (won : bool).
Definition sev_step (st : tstats) (e : sev) : tstats :=
  match e with
  | EvAct w => step_stats st w
  | EvChance id c => if mem c reach && mem c marked_chances then mark id c st else st
  | EvShowdown id won => if won then mark id FSd (mark id FSdC st) else mark id FSdC st
  end.
Definition wf_sev (ids : list nat) (e : sev) : Prop :=
  match e with EvAct w => In (w_act w) wagers /\ In (w_id w) ids | _ => True end.

Lemma mem_reach_chance c : mem c reach = true -> is_chance c = true.
Proof.
  unfold mem, reach. rewrite existsb_exists. intros (x & Hin & He). apply flag_eqb_eq in He. subst x.
  apply filter_In in Hin. destruct Hin as [_ H]. rewrite andb_true_iff in H. tauto.
Qed.

Lemma mark_get id c st i g : ps_flags (get (mark id c st) i) g =
  if Nat.eqb i id && flag_eqb g c && (match find (key i) st with Some _ => true | None => false end) then true else ps_flags (get st i) g.
Proof.
  unfold mark. rewrite get_upd, get_def. destruct (Nat.eqb i id); [|reflexivity]. destruct (find (key i) st); cbn [andb].
  - rewrite flags_set. destruct (flag_eqb g c); reflexivity.
  - rewrite andb_false_r. reflexivity.
Qed.

(* marking a chance flag that is in [reach] *)
Lemma mark_chance_preserves id c st : is_chance c = true -> mem c reach = true -> finv st -> finv (mark id c st).
Proof.
  intros Hc Hr (Hd & H1 & Hu). repeat split.
  - intros i f c' Hcc. rewrite !mark_get. destruct (chance_ne _ _ Hcc) as [_ Hc'].
    assert (E : flag_eqb f c = false).
    { destruct (flag_eqb f c) eqn:E; [|reflexivity]. apply flag_eqb_eq in E. subst f. unfold is_chance in Hc. rewrite Hcc in Hc. discriminate. }
    rewrite E, andb_false_r. cbn [andb]. intros Hf. destruct (_ && _ && _); [reflexivity|]. eapply Hd; eauto.
  - intros i j. rewrite !mark_get.
    assert (E : flag_eqb F3b c = false) by (destruct (flag_eqb F3b c) eqn:E; [apply flag_eqb_eq in E; subst c; discriminate|reflexivity]).
    rewrite E, !andb_false_r. cbn [andb]. apply H1.
  - intros i c' Hc' Hm. rewrite mark_get.
    assert (E : flag_eqb c' c = false) by (destruct (flag_eqb c' c) eqn:E; [apply flag_eqb_eq in E; subst c'; congruence|reflexivity]).
    rewrite E, andb_false_r. cbn [andb]. apply Hu; assumption.
Qed.

(* marking a 'did' flag (not the 3-bet flag) of a player whose chance flag is set *)
Lemma mark_did_preserves id f c st : chance_of f = Some c -> flag_eqb f F3b = false -> ps_flags (get st id) c = true -> finv st -> finv (mark id f st).
Proof.
  intros Hfc Hn3 Hcset (Hd & H1 & Hu). destruct (chance_ne _ _ Hfc) as [Hcf Hcc]. repeat split.
  - intros i f' c' Hc'. rewrite !mark_get. destruct (chance_ne _ _ Hc') as [Hcf' _].
    destruct (Nat.eqb i id) eqn:Ei; cbn [andb]; [|apply Hd; exact Hc']. apply Nat.eqb_eq in Ei. subst i.
    destruct (flag_eqb f' f) eqn:Ef; cbn [andb].
    + apply flag_eqb_eq in Ef. subst f'. rewrite Hfc in Hc'. inversion Hc'; subst c'. rewrite Hcf. cbn [andb]. intros _. exact Hcset.
    + intros Hf'. destruct (flag_eqb c' f && _); [reflexivity|]. eapply Hd; eauto.
  - intros i j. rewrite !mark_get.
    assert (E : flag_eqb F3b f = false) by (destruct f; cbn in *; congruence).
    rewrite E, !andb_false_r. cbn [andb]. apply H1.
  - intros i c' Hc' Hm. rewrite mark_get.
    assert (E : flag_eqb c' f = false).
    { destruct (flag_eqb c' f) eqn:E; [|reflexivity]. apply flag_eqb_eq in E. subst c'. unfold is_chance in Hc'. rewrite Hfc in Hc'. discriminate. }
    rewrite E, andb_false_r. cbn [andb]. apply Hu; assumption.
Qed.

Lemma present_mark id c st i : match find (key i) (mark id c st) with Some _ => true | None => false end = match find (key i) st with Some _ => true | None => false end.
Proof.
  unfold mark, upd. induction st as [|x t IH]; [reflexivity|]. cbn [map find].
  assert (E : key i (if Nat.eqb (fst x) id then (fst x, set_flag (snd x) c true) else x) = key i x) by (unfold key; destruct (Nat.eqb (fst x) id); reflexivity).
  rewrite E. destruct (key i x); [destruct (Nat.eqb (fst x) id); reflexivity|exact IH].
Qed.

Section Flags.
Hypothesis FLOK : flags_ok = true.
Hypothesis SDC : mem FSdC reach = true.

Lemma sev_preserves ids st e : map fst st = ids -> wf_sev ids e -> finv st -> finv (sev_step st e).
Proof.
  intros Hk Hw Hi. destruct e as [w|id c|id won]; cbn [sev_step].
  - destruct Hw as [Ha Hin]. unfold flags_ok in FLOK. rewrite andb_true_iff in FLOK. destruct FLOK as [FL _]. rewrite forallb_forall in FL.
    apply upds_preserve; auto. rewrite Hk. exact Hin.
  - destruct (mem c reach) eqn:Er; [|exact Hi]. cbn [andb]. destruct (mem c marked_chances); [|exact Hi].
    apply mark_chance_preserves; auto. apply mem_reach_chance. exact Er.
  - assert (Hi1 : finv (mark id FSdC st)) by (apply mark_chance_preserves; auto).
    destruct won; [|exact Hi1].
    destruct (find (key id) st) as [kp|] eqn:Ep.
    + apply (mark_did_preserves id FSd FSdC); auto. rewrite mark_get, Nat.eqb_refl, Ep. reflexivity.
    + (* nobody of that id: nothing is written *)
      assert (E : mark id FSd (mark id FSdC st) = mark id FSdC st).
      { unfold mark at 1. unfold upd. rewrite <- (map_id (mark id FSdC st)) at 2. apply map_ext_in. intros x Hx.
        destruct (Nat.eqb (fst x) id) eqn:Ex; [|reflexivity]. exfalso.
        assert (P : match find (key id) (mark id FSdC st) with Some _ => true | None => false end = true).
        { destruct (find (key id) (mark id FSdC st)) eqn:F; [reflexivity|]. pose proof (find_none _ _ F _ Hx) as Fn. unfold key in Fn. congruence. }
        rewrite present_mark, Ep in P. discriminate. }
      rewrite E. exact Hi1.
Qed.

Lemma keys_sev st e : map fst (sev_step st e) = map fst st.
Proof.
  destruct e; cbn; [apply keys_step| |].
  - destruct (_ && _); [apply keys_upd|reflexivity].
  - destruct won; unfold mark; rewrite ?keys_upd; reflexivity.
Qed.

(* C14, flags: after ANY interleaving of accepted betting actions, chance markings and showdown
   markings from a cleared block: every 'did X' implies 'had the chance', at most one 3-bet holder *)
Theorem flags_consistent ids l :
  Forall (wf_sev ids) l -> finv (fold_left sev_step l (zero_stats ids)).
Proof.
  intros Hwf.
  assert (G : forall l st, map fst st = ids -> Forall (wf_sev ids) l -> finv st -> finv (fold_left sev_step l st)).
  { clear l Hwf. induction l as [|e t IH]; intros st Hk Hw Hi; [auto|].
    apply Forall_cons_iff in Hw. destruct Hw as [He Ht]. cbn [fold_left].
    apply IH; [rewrite keys_sev; exact Hk | exact Ht | eapply sev_preserves; eauto]. }
  apply G; [unfold zero_stats; rewrite map_map; apply map_id | exact Hwf |].
  repeat split.
  - intros id f c _. rewrite get_zero. discriminate.
  - intros i j. rewrite get_zero. discriminate.
  - intros id c _ _. rewrite get_zero. reflexivity.
Qed.
End Flags.

Lemma sdc_reach_holds : mem FSdC reach = true.  Proof. vm_compute. reflexivity. Qed.

(* all statistics are cleared before the next hand: continueGame replaces every block by a new one *)
Lemma reset_holds : continue_resets_statistics = true.  Proof. vm_compute. reflexivity. Qed.

(* C03, third clause: a seat that is empty (never used, or vacated) can be taken - a reservation for a player who is not at
   the table, on a table that is not full, naming an empty seat of the table or no seat at all, is never refused.
   Needs a counting argument: under the bookkeeping invariant the occupied seats are at most as many as the players. *)
From Coq Require Import List ZArith Bool Arith Lia.
Import ListNotations.
From PT Require Import Model.TableMem Spec.C03_spec Proofs.C03_inv.
Open Scope Z_scope.

Definition occ_ids (l : list (option sp)) : list nat :=
  flat_map (fun o => match o with Some q => [sp_id q] | None => [] end) l.

Lemma occ_ids_In l id : In id (occ_ids l) <-> exists k q, nth k l None = Some q /\ sp_id q = id.
Proof.
  induction l as [|o l IH]; cbn.
  - split; [intros []|intros [k [q [H _]]]; destruct k; discriminate].
  - rewrite in_app_iff, IH. split.
    + intros [H|[k [q [H1 H2]]]].
      * destruct o as [q|]; [|destruct H]. destruct H as [H|[]]. exists 0%nat, q. auto.
      * exists (S k), q. auto.
    + intros [[|k] [q [H1 H2]]]; cbn in H1.
      * left. subst o. left. exact H2.
      * right. eauto.
Qed.

Lemma occ_ids_NoDup l :
  (forall k1 k2 q1 q2, nth k1 l None = Some q1 -> nth k2 l None = Some q2 -> sp_id q1 = sp_id q2 -> k1 = k2) -> NoDup (occ_ids l).
Proof.
  induction l as [|o l IH]; intro U; cbn; [constructor|].
  assert (U' : forall k1 k2 q1 q2, nth k1 l None = Some q1 -> nth k2 l None = Some q2 -> sp_id q1 = sp_id q2 -> k1 = k2).
  { intros k1 k2 q1 q2 H1 H2 E. specialize (U (S k1) (S k2) q1 q2 H1 H2 E). lia. }
  destruct o as [q|]; cbn; [|exact (IH U')]. constructor; [|exact (IH U')].
  intro Hin. apply occ_ids_In in Hin. destruct Hin as [k [q' [H1 H2]]]. specialize (U 0%nat (S k) q q' eq_refl H1 (eq_sym H2)). discriminate.
Qed.

Lemma occ_empty_length l : (empty_count l + length (occ_ids l) = length l)%nat.
Proof.
  unfold empty_count, occ_ids. induction l as [|o l IH]; [reflexivity|].
  destruct o as [q|]; cbn [filter flat_map app length]; lia.
Qed.

Lemma occupied_at_most_players t : Inv t -> (length (occ_ids (sm_seats (t_sm t))) <= length (t_players t))%nat.
Proof.
  intro I. rewrite <- (map_length tp_id (t_players t)). apply NoDup_incl_length.
  - apply occ_ids_NoDup. intros k1 k2 q1 q2 H1 H2 E.
    assert (L : forall k q, nth k (sm_seats (t_sm t)) None = Some q -> (k < t_max t)%nat).
    { intros k q H. rewrite <- (ip_len_sm _ _ I). destruct (Nat.lt_ge_cases k (length (sm_seats (t_sm t)))) as [?|G]; [assumption|].
      rewrite nth_overflow in H by exact G. discriminate. }
    exact (ids_unique _ _ I k1 k2 q1 q2 (L _ _ H1) (L _ _ H2) H1 H2 E).
  - intros id Hin. apply occ_ids_In in Hin. destruct Hin as [k [q [H1 H2]]].
    assert (Hk : (k < t_max t)%nat).
    { rewrite <- (ip_len_sm _ _ I). destruct (Nat.lt_ge_cases k (length (sm_seats (t_sm t)))) as [?|G]; [assumption|].
      rewrite nth_overflow in H1 by exact G. discriminate. }
    pose proof (ip_seat _ _ I k Hk) as S. unfold seat_nth in S. rewrite H1 in S.
    destruct S as [[[] _]|[_ [i [p [_ [Hb [Hc _]]]]]]]. subst id. rewrite <- Hc. apply in_map. eapply nth_error_In; eassumption.
Qed.

Lemma room_left t : Inv t -> (length (t_players t) < t_max t)%nat -> (1 <= empty_count (sm_seats (t_sm t)))%nat.
Proof.
  intros I H. pose proof (occupied_at_most_players t I). pose proof (occ_empty_length (sm_seats (t_sm t))) as E.
  rewrite (ip_len_sm _ _ I) in E. lia.
Qed.

(* a player who is not at the table holds no seat of the seat manager *)
Lemma stranger_has_no_seat t id : Inv t -> find_idx t id = None -> find_seat (t_sm t) id = None.
Proof.
  intros I F. destruct (find_seat (t_sm t) id) as [z|] eqn:E; [|reflexivity]. exfalso.
  destruct (find_seat_in_range _ _ I id z E) as [k [q [_ [Hk [Hs Hq]]]]].
  pose proof (ip_seat _ _ I k Hk) as S. rewrite Hs in S. destruct S as [[[] _]|[_ [i [p [_ [Hb [Hc _]]]]]]].
  apply (find_idx_none t id F). rewrite <- Hq, <- Hc. apply in_map. eapply nth_error_In; eassumption.
Qed.

Lemma random_assign_ok s ids dr :
  nodupb Nat.eqb ids && forallb (fun id => match find_seat s id with Some _ => false | None => true end) ids = true ->
  (empty_count (sm_seats s) <? length ids)%nat = false ->
  random_assign s ids dr = (Ok, fold_left (fun acc iz => place acc (fst iz) (snd iz)) (combine ids dr) s).
Proof. intros H1 H2. unfold random_assign. rewrite H1, H2. reflexivity. Qed.

Lemma batch_add_single t j dr s2 :
  find_idx t (jp_id j) = None -> (length (t_players t) < t_max t)%nat ->
  (let fixed := filter (fun j => negb (jp_seat j =? -1)) [j] in
   let rnd := filter (fun j => jp_seat j =? -1) [j] in
   let '(r1, s1) := match fixed with [] => (Ok, t_sm t) | _ => assign (t_sm t) (map (fun j => (jp_id j, jp_seat j)) fixed) end in
   r1 = Ok /\ match rnd with [] => (Ok, s1) | _ => random_assign s1 (map jp_id rnd) dr end = (Ok, s2)) ->
  fst (batch_add t [j] dr) = Ok.
Proof.
  intros F Hcap H. unfold batch_add. cbn [map nodupb existsb negb andb length]. rewrite F. cbn [orb].
  replace (t_max t <? length (t_players t) + 1)%nat with false by (symmetry; apply Nat.ltb_ge; lia).
  cbv zeta in H. cbv beta iota zeta.
  destruct (match filter (fun j0 => negb (jp_seat j0 =? -1)) [j] with
            | [] => (Ok, t_sm t) | _ => assign (t_sm t) (map (fun j0 => (jp_id j0, jp_seat j0)) (filter (fun j0 => negb (jp_seat j0 =? -1)) [j])) end) as [r1 s1].
  destruct H as [-> H]. rewrite H.
  match goal with |- fst (let '(a, b) := ?X in _) = _ => destruct X end. reflexivity.
Qed.

Theorem must_succeed_ok t o : Inv t -> must_succeed t o = true -> fst (mstep t o) = Ok.
Proof.
  intros I M. destruct o as [j dr| | | |]; cbn [must_succeed] in M; try discriminate.
  cbn [mstep]. destruct (find_idx t (jp_id j)) as [i|] eqn:F; [discriminate|].
  apply andb_true_iff in M. destruct M as [Hcap Hseat]. apply Nat.ltb_lt in Hcap.
  replace (Nat.eqb (length (t_players t)) (t_max t)) with false by (symmetry; apply Nat.eqb_neq; lia).
  pose proof (stranger_has_no_seat t _ I F) as NS. pose proof (room_left t I Hcap) as Room.
  destruct (jp_seat j =? -1) eqn:E.
  - (* any seat *)
    eapply (batch_add_single t j dr _ F Hcap). cbn [filter]. rewrite E. cbn [negb map]. split; [reflexivity|].
    apply random_assign_ok.
    + cbn [nodupb existsb negb andb forallb]. rewrite NS. reflexivity.
    + cbn [length]. apply Nat.ltb_ge. exact Room.
  - (* the named seat: empty, on the table *)
    cbn [orb] in Hseat. rewrite !andb_true_iff in Hseat. destruct Hseat as [[H0 H1] H2].
    apply Z.leb_le in H0. apply Z.ltb_lt in H1. apply Z.eqb_eq in H2.
    assert (Hk : (Z.to_nat (jp_seat j) < t_max t)%nat) by lia.
    pose proof (ip_seat _ _ I _ Hk) as S. unfold smap_nth in S.
    assert (SN : seat_nth (t_sm t) (Z.to_nat (jp_seat j)) = None).
    { destruct (seat_nth (t_sm t) (Z.to_nat (jp_seat j))) as [q|]; [|reflexivity]. exfalso.
      destruct S as [[[] _]|[_ [i [p [Sa _]]]]]. unfold smap_nth in Sa.
      replace (nth (Z.to_nat (jp_seat j)) (t_seatmap t) (-1)) with (nth (Z.to_nat (jp_seat j)) (t_seatmap t) 0) in Sa; [lia|].
      apply nth_indep. rewrite (ip_len_map _ _ I). exact Hk. }
    assert (A : assign_ok (t_sm t) [(jp_id j, jp_seat j)] = true).
    { unfold assign_ok. cbn [length map forallb nodupb existsb negb andb fst snd]. rewrite NS.
      unfold in_range, mx. rewrite (ip_max _ _ I).
      replace (0 <=? jp_seat j) with true by (symmetry; apply Z.leb_le; lia).
      replace (jp_seat j <? Z.of_nat (t_max t)) with true by (symmetry; apply Z.ltb_lt; lia).
      rewrite seat_at_Z by (rewrite (ip_len_sm _ _ I); lia). unfold seat_nth in SN. rewrite SN.
      replace (1 <=? empty_count (sm_seats (t_sm t)))%nat with true by (symmetry; apply Nat.leb_le; exact Room). reflexivity. }
    eapply (batch_add_single t j dr _ F Hcap). cbn [filter]. rewrite E. cbn [negb map]. unfold assign. rewrite A. split; reflexivity.
Qed.

(* C07 - Table status follows its life cycle; one hand at a time; hands are numbered.
   Model: Model/Life.v (macro steps between quiescent points; continue interval 0).  The finer
   grain - every notification between two quiescent points - is decided on every run by the
   decidable C07_step_ok (status edges, +1 counting on an `opened` notification only, no open while
   a hand is unsettled, per-hand fields reset, fresh game ids) evaluated on the implementation's
   notification stream. *)
From Coq Require Import List ZArith Bool Arith.
Import ListNotations.
From PT Require Import Model.Life Proofs.Life_proofs.
Open Scope Z_scope.

(* the count moves only by +1, only when the gate's completion opens a hand, and that needs: no
   unsettled hand, table neither closed nor released, blinds set, not a break *)
Theorem C07_count_and_open_guard : forall min s op o,
  l_gc (lstep min s op o) = l_gc s \/
  (l_gc (lstep min s op o) = l_gc s + 1 /\ (op = LFinish \/ op = LTimeout \/ op = LRetry) /\
   l_has_game s = false /\ l_released s = false /\ status_eqb (l_status s) SClosed = false /\
   is_set (l_blind s) = true /\ is_break (l_blind s) = false /\ l_status (lstep min s op o) = SPlaying).
Proof. exact count_only_by_open. Qed.
Print Assumptions C07_count_and_open_guard.

(* left to itself (no external pause / close) the status only moves along the cycle *)
Theorem C07_status_cycle : forall min s op o, op <> LPause -> op <> LClose ->
  status_eqb (l_status s) SClosed = false -> status_eqb (l_status s) SRestoring = false ->
  status_eqb (l_status s) SOpened = false -> status_eqb (l_status s) SSettled = false ->
  macro_edge (l_status s) (l_status (lstep min s op o)) = true.
Proof. exact status_follows_the_cycle. Qed.
Print Assumptions C07_status_cycle.

Theorem C07_settled_hand_is_cleared : forall s min o, l_has_game (settle_continue s min o) = false.
Proof. exact settled_hand_is_cleared. Qed.
Print Assumptions C07_settled_hand_is_cleared.

(* non-vacuity: create, start, open, settle into standby, close, and a late gate completion *)
Example C07_example :
  let b := {| b_level := 1; b_ante := 0; b_dealer := 0; b_sb := 10; b_bb := 20 |} in
  let o := {| o_players := 3; o_alive := 3; o_live_in := 3; o_live_in_after := 3; o_hand_closed := true |} in
  let run := fold_left (fun acc op => let s := lstep 2 (fst acc) op o in (s, snd acc ++ [(l_status s, l_gc s, l_has_game s)]))
                       [LStart; LFinish; LPlay; LClose; LFinish] (linit false b, []) in
  snd run = [(SCreated, 0, false); (SPlaying, 1, true); (SStandby, 1, false); (SClosed, 1, false); (SClosed, 1, false)].
Proof. vm_compute. reflexivity. Qed.

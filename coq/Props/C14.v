(* C14 - Per-hand player statistics describe what the player actually did.
   Model: the statistics part of Model/HandRules.v interpreting the update statements regenerated from
   the Player<Action> methods (Gen/Gen_Actions.v ar_stats). *)
From Coq Require Import List ZArith Bool Arith.
Import ListNotations.
From PT Require Import Model.HandRules Proofs.Stats_proofs.
Local Close Scope Z_scope.

(* counters = numbers of betting actions, calls and checks accepted from the player; raises never exceed actions *)
Theorem C14_counters_describe_actions : forall ids l id,
  wf_hist ids l ->
  let st := fold_left step_stats l (zero_stats ids) in
  ps_actions (get st id) = cnt (mine id) l /\
  ps_calls (get st id) = cnt (fun w => mine id w && act_eqb (w_act w) ACall) l /\
  ps_checks (get st id) = cnt (fun w => mine id w && act_eqb (w_act w) ACheck) l /\
  ps_raises (get st id) <= ps_actions (get st id).
Proof. exact (counters_describe_actions counters_ok_holds). Qed.
Print Assumptions C14_counters_describe_actions.

(* fold flag and fold round are set exactly for players who folded *)
Theorem C14_fold_flag_and_round : forall ids l id,
  wf_hist ids l -> fr (get (fold_left step_stats l (zero_stats ids)) id) = last_fold id l (false, RNoRound).
Proof. exact (fold_flag_describes_fold folds_ok_holds). Qed.
Print Assumptions C14_fold_flag_and_round.

(* every 'did X' flag implies 'had the chance'; at most one player holds the 3-bet flag - whatever the
   interleaving of accepted actions, chance markings and showdown markings *)
Theorem C14_flags_consistent : forall ids l,
  Forall (wf_sev ids) l ->
  let st := fold_left sev_step l (zero_stats ids) in
  (forall id f c, chance_of f = Some c -> ps_flags (get st id) f = true -> ps_flags (get st id) c = true) /\
  (forall i j, ps_flags (get st i) F3b = true -> ps_flags (get st j) F3b = true -> i = j).
Proof. intros ids l H. destruct (flags_consistent flags_ok_holds sdc_reach_holds ids l H) as (A & B & _). exact (conj A B). Qed.
Print Assumptions C14_flags_consistent.

(* all statistics are cleared before the next hand *)
Theorem C14_cleared_between_hands : continue_resets_statistics = true.
Proof. exact reset_holds. Qed.
Print Assumptions C14_cleared_between_hands.

Example C14_nonvacuous :
  let l := [ {| w_id := 1; w_act := ARaise; w_raiser := true; w_round := RPreflop |};
             {| w_id := 2; w_act := ACall; w_raiser := false; w_round := RPreflop |};
             {| w_id := 1; w_act := ACheck; w_raiser := false; w_round := RFlop |};
             {| w_id := 2; w_act := AFold; w_raiser := false; w_round := RFlop |} ] in
  let st := fold_left step_stats l (zero_stats [1; 2]) in
  (ps_actions (get st 1), ps_raises (get st 1), ps_checks (get st 1), ps_calls (get st 2), ps_fold (get st 2), ps_fold_round (get st 2)) = (2, 1, 1, 1, true, RFlop).
Proof. vm_compute. reflexivity. Qed.

(* C11 - A hand advances exactly when everyone asked has answered, and always finishes.
   Model: the ready group of Model/Collect.v.  The part "every opened hand reaches settlement" needs the
   hand engine (pokerface) to close every betting round in finitely many actions; that engine is outside
   this repository and enters only as observed behaviour, so that clause is decided by the harness
   (every fully answered hand settles with a result entry per participant) and is labelled partial. *)
From Coq Require Import List ZArith Bool Arith.
Import ListNotations.
From PT Require Import Model.Collect Proofs.Collect_proofs.
Local Close Scope Z_scope.
Local Open Scope nat_scope.

Theorem C11_moves_on_exactly_when_all_have_answered : forall asked l, asked <> [] ->
  snd (rg_run (rg_open asked) l) = if complete asked l then 1 else 0.
Proof. exact advances_exactly_when_all_answered. Qed.
Print Assumptions C11_moves_on_exactly_when_all_have_answered.

Theorem C11_a_withheld_answer_blocks : forall asked l i, In i asked -> ~ In i l -> snd (rg_run (rg_open asked) l) = 0.
Proof. exact withheld_blocks. Qed.
Print Assumptions C11_a_withheld_answer_blocks.

Theorem C11_every_order_completes_once : forall asked l, asked <> [] -> incl asked l -> snd (rg_run (rg_open asked) l) = 1.
Proof. exact any_order_completes. Qed.
Print Assumptions C11_every_order_completes_once.

Theorem C11_timeout_moves_on : forall asked l, asked <> [] -> complete asked l = false ->
  snd (rg_timeout (fst (rg_run (rg_open asked) l))) = 1.
Proof. exact timeout_moves_on. Qed.
Print Assumptions C11_timeout_moves_on.

Theorem C11_ready_and_ante_ask_everybody : forall q ev i, ev = EReady \/ ev = EAnte -> (In i (asked_at ev q) <-> i < length (h_entries q)).
Proof. exact (ready_and_ante_ask_everybody collect_ok_holds). Qed.
Print Assumptions C11_ready_and_ante_ask_everybody.

Theorem C11_blinds_ask_only_blind_positions : forall q i,
  In i (asked_at EBlinds q) <->
  exists e, nth_error (h_entries q) i = Some e /\
    ((Z.ltb 0 (h_bbb q) && he_bb e) || (Z.ltb 0 (h_bsb q) && he_sb e) || (Z.ltb 0 (h_bd q) && he_dealer e)) = true.
Proof. exact (blinds_ask_only_blind_positions collect_ok_holds). Qed.
Print Assumptions C11_blinds_ask_only_blind_positions.

(* betting rounds follow each other without an external trigger; the response timeout is 17 s *)
Theorem C11_sources_have_the_modelled_shape : collect_ok = true.
Proof. exact collect_ok_holds. Qed.
Print Assumptions C11_sources_have_the_modelled_shape.

(* C09 - The open-game gate fires once, and only when everyone is ready or timed out.
   Statements only; every proof is `exact <lemma from Proofs/C09_proofs.v>`. *)
From Coq Require Import List Arith ZArith Bool Lia.
Import ListNotations.
From PT Require Import Model.OpenGame Spec.C09_spec Proofs.C09_proofs.

(* 1. Refinement: for every timeout setting and every sequence of set-ups, signals (known,
      unknown, repeated), timeout expiries and restores, the gate model produces exactly the
      callback invocations, errors and GetState() contents the specification prescribes.
      C09_ok is the same predicate the correspondence check evaluates on the Go traces. *)
Theorem C09_model_refines_spec : forall tmo os,
  forallb valid_op os = true -> C09_ok tmo (model_trace tmo os) = true.
Proof. exact model_refines_spec. Qed.
Print Assumptions C09_model_refines_spec.

(* 2. What the specification says, at the level of whole histories. *)

(* at most one callback per set-up, however many signals, repeats and expiries follow *)
Theorem C09_at_most_one_fire_per_setup : forall os s,
  forallb (fun o => negb (is_setup o)) os = true -> spec_wf s ->
  fires (fst (spec_run s os)) <= (if s_fired s then 0 else 1) /\
  (fires (fst (spec_run s os)) = 1 -> s_fired (snd (spec_run s os)) = true).
Proof. exact fires_at_most_once. Qed.
Print Assumptions C09_at_most_one_fire_per_setup.

(* a callback caused by a signal: every participant of the current set-up has signalled; it
   carries this set-up's game count and all participants, all ready *)
Theorem C09_fire_on_signal_needs_everyone : forall s id s' gc ps,
  spec_step s (Ready id) = (s', OFire gc ps) ->
  s_fired s = false /\ everyone s (id :: s_sig s) = true /\ gc = s_gc s /\ ps = fired_parts s.
Proof. exact fire_on_ready_needs_everyone. Qed.
Print Assumptions C09_fire_on_signal_needs_everyone.

(* ...and the ids counted as signalled were really signalled since the set-up *)
Theorem C09_signalled_sound : forall os s, forallb (fun o => negb (is_setup o)) os = true ->
  forall id, In id (s_sig (snd (spec_run s os))) -> In id (s_sig s) \/ In id (signalled os).
Proof. exact sig_sound. Qed.
Print Assumptions C09_signalled_sound.

(* a fired set-up never fires again, until the next set-up *)
Theorem C09_fired_stays : forall t s, spec_wf s -> forallb (fun o => negb (is_setup o)) t = true ->
  s_fired s = true -> s_fired (snd (spec_run s t)) = true /\ fires (fst (spec_run s t)) = 0.
Proof. exact fired_stays. Qed.
Print Assumptions C09_fired_stays.

(* Non-vacuity: a concrete history with a superseded set-up, an unknown id, a repeat and a
   timeout satisfies the guard, and the model's trace on it is what one expects. *)
Example C09_example :
  let os := [Setup 1 [(10, 0); (11, 1)]; Ready 10; Setup 2 [(10, 0); (12, 1); (13, 2)];
             Ready 99; Ready 12; Ready 12; Ready 10; Timeout; Ready 13] in
  forallb valid_op os = true /\
  map (fun x => is_fire (o_out x)) (model_trace 2 os)
  = [false; false; false; false; false; false; false; true; false].
Proof. vm_compute. split; reflexivity. Qed.

(* Restore: the full statement "a gate rebuilt from a saved state behaves like the original"
   is FALSE of the faithful model when the saved state is that of a set-up that has already
   fired: the state type has no field recording it, and the rebuilt gate fires again on the
   next (repeated) signal, while the original stays silent. *)
Definition snapshot (g : gate) : op := Restore (g_timeout g) (g_count g) (g_parts g).
Theorem C09_restore_fired_refuted : exists os,
  let g := snd (fold_left (fun '(acc, g) o => let '(g', r) := step g o in (acc ++ [r], g')) os ([], init 0)) in
  let '(_, r_orig) := step g (Ready 10) in
  let '(g_rest, _) := step g (snapshot g) in
  let '(_, r_rest) := step g_rest (Ready 10) in
  is_fire r_orig = false /\ is_fire r_rest = true.
Proof. exists [Setup 1 [(10, 0)]; Ready 10]. vm_compute. split; reflexivity. Qed.

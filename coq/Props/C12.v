(* C12 - A hand is played at the blinds in force when it opened.  Model: Model/Life.v. *)
From Coq Require Import List ZArith Bool Arith.
From PT Require Import Model.Life Proofs.Life_proofs.
Open Scope Z_scope.

Theorem C12_opens_at_the_level_in_force : forall min s op o,
  l_gc (lstep min s op o) <> l_gc s -> l_gblind (lstep min s op o) = Some (l_blind s).
Proof. exact a_hand_opens_at_the_level_in_force. Qed.
Print Assumptions C12_opens_at_the_level_in_force.

(* any sequence of operations - blind updates included - while the same hand runs leaves the
   level it was opened with untouched: updates affect only later hands *)
Theorem C12_updates_affect_only_later_hands : forall min l s,
  l_has_game s = true -> Forall (fun x => o_hand_closed (snd x) = false) l ->
  l_gblind (lrun min s l) = l_gblind s /\ l_has_game (lrun min s l) = true.
Proof. exact updates_affect_only_later_hands. Qed.
Print Assumptions C12_updates_affect_only_later_hands.

Theorem C12_no_hand_on_a_break : forall min s op o, is_break (l_blind s) = true -> l_gc (lstep min s op o) = l_gc s.
Proof. exact no_hand_on_a_break. Qed.
Print Assumptions C12_no_hand_on_a_break.

Theorem C12_break_pauses_after_the_hand : forall s min o, l_released s = false -> is_break (l_blind s) = true ->
  status_eqb (l_status (settle_continue s min o)) SPausing = true.
Proof. intros s min o R B. rewrite (pause_iff_break_or_too_few s min o R), B. reflexivity. Qed.
Print Assumptions C12_break_pauses_after_the_hand.

Theorem C12_created_on_a_break_starts_paused : forall m b, b_level b = -1 -> l_status (linit m b) = SPausing.
Proof. exact created_on_a_break_starts_paused. Qed.
Print Assumptions C12_created_on_a_break_starts_paused.

(* C20 - Observers never see hidden cards, and each actor gets its own copy.  Model: as_observer /
   observer_view of Model/Actors.v (pokerface AsObserver, actor/observer_runner.go) and a heap of table objects
   for the adapter's copy (actor/table_engine_adapter.go). *)
From Coq Require Import List ZArith Bool Arith.
Import ListNotations.
From PT Require Import Model.Actors Proofs.Actors_proofs Gen.Gen_Actors.
Local Close Scope Z_scope.
Local Open Scope nat_scope.

Theorem C20_filtered_view_hides_private_information : forall g, hides_private (as_observer g) = true.
Proof. exact observer_never_sees_private. Qed.
Print Assumptions C20_filtered_view_hides_private_information.

Theorem C20_non_system_observer_sees_only_the_filtered_view : forall system g v,
  system = false -> observer_view system true (Some g) = Some v -> hides_private v = true.
Proof. exact observer_view_filtered. Qed.
Print Assumptions C20_non_system_observer_sees_only_the_filtered_view.

(* THE FIRST CLAUSE IN FULL: whatever the table's status - playing, settled, but also closed or paused in the middle of a hand -
   a non-system observer that is handed a table with a hand attached is handed the filtered view.  (The fact
   observer_filters_whenever_a_hand_is_attached is regenerated from observer_runner.go; before the repair recorded as F24 the
   filter was applied in two statuses only and this statement was false: a table closed mid-hand was shown with its deck.) *)
Theorem C20_non_system_observer_is_never_shown_private_cards : forall g v,
  observer_view false observer_filters_whenever_a_hand_is_attached (Some g) = Some v -> hides_private v = true.
Proof. intros g v H. rewrite observer_always_filters in H. exact (observer_view_filtered false g v eq_refl H). Qed.
Print Assumptions C20_non_system_observer_is_never_shown_private_cards.

(* what one actor hides or changes in the table it was given is invisible to the engine and to every other actor *)
Theorem C20_each_actor_works_on_its_own_copy : forall h src f other,
  src < length h -> other < length h ->
  let '(h1, a) := deliver h src in nth_error (mutate h1 a f) other = nth_error h other /\ a <> other.
Proof. exact own_copy. Qed.
Print Assumptions C20_each_actor_works_on_its_own_copy.

Example C20_nonvacuous :
  let g := {| og_deck := [1; 2; 3]; og_burned := [4]; og_closed := true;
              og_players := [ {| op_hole := [5; 6]; op_combo := true; op_fold := false |}; {| op_hole := [7; 8]; op_combo := true; op_fold := true |} ] |} in
  hides_private g = false /\ og_players (as_observer g) = [ {| op_hole := [5; 6]; op_combo := true; op_fold := false |}; {| op_hole := []; op_combo := false; op_fold := true |} ].
Proof. vm_compute. auto. Qed.

(* the sources have the shape the model was written after (regenerated from actor/*.go on every run) *)
Theorem C20_sources_have_the_modelled_shape : observer_ok = true.
Proof. exact observer_ok_holds. Qed.
Print Assumptions C20_sources_have_the_modelled_shape.

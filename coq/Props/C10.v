(* C10 - Only the player whose turn it is can act; refused actions leave no trace.
   Model: Model/HandRules.v, driven by Gen/Gen_Actions.v (regenerated from table_engine.go, game.go,
   table_engine_internal.go on every run).  be_ok / the oracle is the hand engine's own verdict. *)
From Coq Require Import List ZArith Bool Arith.
Import ListNotations.
From PT Require Import Model.TableMem Model.HandRules Proofs.Hand_proofs.
Open Scope Z_scope.

(* accepted only from a player the hand is waiting on, and only an action it allows them *)
Theorem C10_accepted_only_from_the_awaited_player : forall pre c ok,
  In (hc_action c) all_acts ->
  decide pre c ok = Accepted ->
  is_playing (h_status pre) = true /\
  exists gp e, index_of (hc_player c) 0 (h_entries pre) = Some gp /\ nth_error (h_entries pre) gp = Some e /\
    (is_group_act (hc_action c) = true -> has_act (hc_action c) (he_allowed e) = true) /\
    (is_group_act (hc_action c) = false ->
       Z.of_nat gp = h_cur pre /\ ok = true /\ (hc_action c = APass -> has_act APass (he_allowed e) = true)).
Proof. exact (accepted_only_awaited rules_ok_holds). Qed.
Print Assumptions C10_accepted_only_from_the_awaited_player.

(* anything else returns an error and changes neither the table nor the hand (and publishes nothing) *)
Theorem C10_refused_leaves_no_trace : forall pre c o v,
  In (hc_action c) all_acts -> decide pre c (o_ok o) = Refused -> astep pre c o v = (v, [], Refused).
Proof. exact (refused_no_trace rules_ok_holds). Qed.
Print Assumptions C10_refused_leaves_no_trace.

(* an accepted action is applied once and is published as the table's last player action *)
Theorem C10_accepted_is_applied_once_and_recorded : forall pre c o v,
  In (hc_action c) all_acts -> decide pre c (o_ok o) = Accepted ->
  exists v' evs, astep pre c o v = (v', evs, Accepted) /\ tv_last v' = Some (published pre c) /\ tv_hand v' = o_hand o
                 /\ (evs = [] \/ evs = [published pre c]).
Proof. exact (accepted_published rules_ok_holds). Qed.
Print Assumptions C10_accepted_is_applied_once_and_recorded.

(* ... and as exactly one action event naming player, action, round and hand - for betting actions and pass *)
Theorem C10_betting_actions_are_published_as_one_event : forall pre c o v,
  In (hc_action c) [APass; AFold; ACheck; ACall; AAllin; ABet; ARaise] ->
  decide pre c (o_ok o) = Accepted -> snd (fst (astep pre c o v)) = [published pre c].
Proof. exact (fun pre c o v => accepted_event pre c o v emits_ok_holds). Qed.
Print Assumptions C10_betting_actions_are_published_as_one_event.

(* over a whole history: one event per accepted betting action, none for a refusal *)
Theorem C10_one_event_per_accepted_action : forall v l,
  Forall valid l -> Forall (fun a => emitting a = true) l -> length (snd (run v l)) = length (filter accepted l).
Proof. exact (fun v l => events_count rules_ok_holds v l emits_ok_holds). Qed.
Print Assumptions C10_one_event_per_accepted_action.

(* The property asks for an action event for EVERY accepted game action.  Readiness signals and
   payments are not published by their Player<Action> methods in the current sources (payments are
   published together, by the blind/ante collection callbacks, when the collection completes):
   known finding F13.  Stated so that the day the sources publish them this lemma stops compiling. *)
Theorem C10_event_for_ready_and_pay_refuted : emits_all_ok = false.
Proof. exact emits_all_refuted. Qed.
Print Assumptions C10_event_for_ready_and_pay_refuted.

(* the premises are met by a concrete situation *)
Example C10_nonvacuous :
  let e0 := {| he_id := 7; he_allowed := [ACheck; ABet]; he_acted := false; he_fold := false; he_stack := 100; he_init := 100; he_wager := 0;
               he_sb := false; he_bb := true; he_dealer := false |} in
  let pre := {| h_status := SPlaying; h_gc := 1; h_gid := 1; h_event := ERoundStarted; h_round := RFlop; h_cur := 0; h_raiser := 0; h_wround := RFlop;
                h_entries := [e0]; h_end_at := 0; h_last := None; h_stats := []; h_hash := 0; h_hand_hash := 0; h_group := []; h_group_n := 0;
                h_ante := 0; h_bd := 0; h_bsb := 10; h_bbb := 20 |} in
  decide pre {| hc_player := 7; hc_action := ACheck; hc_chips := 0; hc_why := WTurn; hc_fail := false |} true = Accepted /\
  decide pre {| hc_player := 7; hc_action := APass; hc_chips := 0; hc_why := WWrongKind; hc_fail := false |} true = Refused /\
  decide pre {| hc_player := 8; hc_action := ACheck; hc_chips := 0; hc_why := WStranger; hc_fail := false |} true = Refused.
Proof. vm_compute. auto. Qed.

(* C19 - Auto-play for an unresponsive player never volunteers chips.  Model: automate / player_move of
   Model/Actors.v (actor/player_runner.go). *)
From Coq Require Import List ZArith Bool Arith.
Import ListNotations.
From PT Require Import Model.Actors Proofs.Actors_proofs.
Open Scope Z_scope.

(* ready > check > fold > the mandatory payment of the posted size; nothing else *)
Theorem C19_auto_play_is_conservative : forall v m, automate v = Some m -> conservative v m.
Proof. exact automate_is_conservative. Qed.
Print Assumptions C19_auto_play_is_conservative.

(* pass at once when that is what is allowed; at once when suspended; otherwise only after the thinking time *)
Theorem C19_player_runner_waits_then_plays_safe : forall st at_ v m d, player_move st at_ v = Some (m, d) ->
  conservative v m /\ (m <> MvPass -> st <> PSuspended -> d = at_) /\ (m = MvPass \/ st = PSuspended -> d = 0).
Proof. exact player_move_is_conservative. Qed.
Print Assumptions C19_player_runner_waits_then_plays_safe.

(* never a call, bet, raise or all-in *)
Theorem C19_never_volunteers_chips : forall st at_ v m d, player_move st at_ v = Some (m, d) ->
  m <> MvCall /\ m <> MvAllin /\ (forall c, m <> MvBet c) /\ (forall c, m <> MvRaise c).
Proof.
  intros st at_ v m d H. destruct (player_move_is_conservative _ _ _ _ _ H) as [C _].
  destruct m; cbn in C; repeat split; try discriminate; try contradiction; intros c' E; discriminate.
Qed.
Print Assumptions C19_never_volunteers_chips.

Example C19_nonvacuous :
  let v := {| pv_allowed := [AAllin; AFold; ACall; ARaise]; pv_event := ERoundStarted; pv_sb := false; pv_bb := true; pv_ante := 0; pv_bd := 0; pv_bsb := 10; pv_bbb := 20;
              pv_minibet := 20; pv_cw := 60; pv_prs := 40; pv_init := 500; pv_stack := 480; pv_wager := 20; pv_fold := false |} in
  player_move PRunning 12 v = Some (MvFold, 12) /\ player_move PSuspended 12 v = Some (MvFold, 0).
Proof. vm_compute. auto. Qed.

(* "or the player is suspended": who is suspended.  For every history of status calls and time-outs:
   a player who has been resumed is running - the next request waits the whole thinking time - whatever happened before;
   only Suspend, or a second time-out in a row while idle, suspends; a running player is never suspended by time-outs *)
Theorem C19_resumed_player_is_running : forall evs s, fst (rstep (fold_left rstep evs s) RResume) = PRunning.
Proof.
  intros evs s. generalize (fold_left rstep evs s). intros [st c]. destruct st; reflexivity.
Qed.
Print Assumptions C19_resumed_player_is_running.

Theorem C19_timeouts_never_suspend_a_running_player : forall n s, fst s = PRunning -> fst (fold_left rstep (repeat RTimeout n) s) = PRunning.
Proof.
  induction n as [|n IH]; intros s H; cbn [repeat fold_left]; [exact H|]. apply IH. unfold rstep. rewrite H. exact H.
Qed.
Print Assumptions C19_timeouts_never_suspend_a_running_player.

Example C19_status_machine :
  fold_left rstep [RIdle; RTimeout] (PRunning, 0%nat) = (PIdle, 1%nat)
  /\ fold_left rstep [RIdle; RTimeout; RTimeout] (PRunning, 0%nat) = (PSuspended, 2%nat)
  /\ fold_left rstep [RIdle; RTimeout; RResume; RTimeout; RTimeout] (PRunning, 0%nat) = (PRunning, 0%nat)
  /\ fold_left rstep [RSuspend; RResume] (PRunning, 0%nat) = (PRunning, 0%nat).
Proof. vm_compute. auto. Qed.

(* the sources have the shape the model was written after (regenerated from actor/*.go on every run) *)
Theorem C19_sources_have_the_modelled_shape : player_ok = true.
Proof. exact player_ok_holds. Qed.
Print Assumptions C19_sources_have_the_modelled_shape.

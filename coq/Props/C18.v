(* C18 - Bots only ever make legal moves, and bot tables play out.
   Model: Model/Actors.v (bot_move / bot_reacts: actor/bot_runner.go; pf_available / pf_accepts: the fragment of
   pokerface v0.1.10 the claim is about, hand-written from its source and compared with the running hand engine
   on every observed call).  PARTIAL: "hands played entirely by bots always reach settlement" needs the hand
   engine to close every betting round after finitely many accepted actions; it is decided on bots-only tables
   run by the harness, not proved. *)
From Coq Require Import List ZArith Bool Arith.
Import ListNotations.
From PT Require Import Model.Actors Proofs.Actors_proofs.
Open Scope Z_scope.

(* for any state in which a bot is asked and any random choice it can make: an allowed action with a legal amount *)
Theorem C18_every_bot_move_is_accepted : forall v pick k m,
  asked_ok v = true -> draw_ok v pick k -> bot_move v pick k = Some m -> pf_accepts v m = true /\ amount_ok v m = true.
Proof. exact bot_move_is_legal. Qed.
Print Assumptions C18_every_bot_move_is_accepted.

(* exactly one action when asked (a function of the view, defined whenever something is allowed) *)
Theorem C18_one_action_when_asked : forall v pick k, pv_allowed v <> [] -> exists m, bot_move v pick k = Some m.
Proof. exact bot_answers_when_asked. Qed.
Print Assumptions C18_one_action_when_asked.

(* silent when not asked or when its view is stale *)
Theorem C18_silent_unless_freshly_asked : forall b allowed,
  bot_reacts b allowed = BMove ->
  bv_at_table b = true /\ bv_sat_in b = true /\ bv_playing b = true /\ bv_dealt_in b = true /\ allowed <> []
  /\ (bv_has_game b = true -> bv_new_game b = true \/ bv_fresher b = true).
Proof. exact bot_moves_only_on_a_fresh_request. Qed.
Print Assumptions C18_silent_unless_freshly_asked.

(* the premise is met: one chip behind a 20-chip minimum bet, facing nothing; and facing an all-in *)
Example C18_nonvacuous :
  let v1 := {| pv_allowed := [AAllin; ACheck]; pv_event := ERoundStarted; pv_sb := false; pv_bb := false; pv_ante := 0; pv_bd := 0; pv_bsb := 10; pv_bbb := 20;
               pv_minibet := 20; pv_cw := 0; pv_prs := 20; pv_init := 1; pv_stack := 1; pv_wager := 0; pv_fold := false |} in
  let v2 := {| pv_allowed := [AAllin; AFold; ACall; ARaise]; pv_event := ERoundStarted; pv_sb := false; pv_bb := true; pv_ante := 0; pv_bd := 0; pv_bsb := 10; pv_bbb := 20;
               pv_minibet := 20; pv_cw := 60; pv_prs := 40; pv_init := 500; pv_stack := 480; pv_wager := 20; pv_fold := false |} in
  asked_ok v1 = true /\ asked_ok v2 = true /\ bot_move v2 ARaise 7 = Some (MvRaise 107) /\ pf_accepts v2 (MvRaise 107) = true.
Proof. vm_compute. auto. Qed.

(* the sources have the shape the model was written after (regenerated from actor/*.go on every run) *)
Theorem C18_sources_have_the_modelled_shape : bot_ok = true.
Proof. exact bot_ok_holds. Qed.
Print Assumptions C18_sources_have_the_modelled_shape.

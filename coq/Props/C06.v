(* C06 - Position labels and next-BB order agree with the button seats.
   newPositions and the rotation offset are regenerated from position.go on every run.
   Proved:
    1. the generated, rotated label table equals the independently written standard order for every
       slot count 3..10 (and the heads-up pair for 2);
    2. for EVERY table of 2..7 seats, every set of dealt-in seats and every placement of the button
       seats that the rotation rule produces (buttons_ok), the hand-out of labels is the standard
       order clockwise from the big blind with dead button / dead small blind skipped, nobody else
       carries a label, and no empty slice is indexed (finite sweep by computation, lifted to a
       universally quantified statement; the bound 7 is in the statement);
   Not proved in Coq for 8..10 seats in the default build (partial; `make sweep8` compiles the 8-seat
   sweep in the thorough tier) - those sizes are decided on every run by the monitor C06_labels_ok on
   observed hands and by model/implementation equality. The next-big-blind order is decided by the
   monitor C06_next_bb_ok and by model/implementation equality on every observed settlement. *)
From Coq Require Import List ZArith Bool Arith.
Import ListNotations.
From PT Require Import Model.OpenHand Spec.Open_spec Proofs.C06_proofs.
Open Scope Z_scope.

Theorem C06_generated_table_is_standard :
  forallb (fun k => labels_eqb (rotate_list (new_positions k) rotation_offset) (std_order k)) (seq 3 8) = true.
Proof. exact rotated_positions_are_standard. Qed.
Print Assumptions C06_generated_table_is_standard.

Theorem C06_slots_are_standard : forall k, (3 <= k <= 10)%nat ->
  lls_eqb (position_slots k) (map (fun l => [l]) (std_order k)) = true.
Proof. exact slots_are_standard. Qed.
Print Assumptions C06_slots_are_standard.

Theorem C06_labels_upto_7_seats : forall n pat d sb bb, (2 <= n <= 7)%nat -> length pat = n ->
  0 <= d < Z.of_nat n -> 0 <= sb < Z.of_nat n -> 0 <= bb < Z.of_nat n ->
  state_ok (mk_state n pat d sb bb) = true.
Proof. exact labels_upto_7. Qed.
Print Assumptions C06_labels_upto_7_seats.

(* non-vacuity: a 6-seat table with a dead button (seat 0) and a sitting-out player on seat 4 *)
Example C06_example :
  let s := mk_state 6 [false; true; true; true; false; true] 0 1 2 in
  buttons_ok s = true /\
  match update_positions s 6 with
  | Done lab => labels_clockwise (snap_of s lab) = [[LBB]; [LUG]; [LCO]; [LSB]]
  | _ => False end.
Proof. vm_compute. split; reflexivity. Qed.

(* C02 - A hand's seat numbers denote the same players from open to settlement.
   Proved (any seat count, any arrangement of sitting-out / busted players, live or dead button):
   on default-rule tables the hand's player list is one full clockwise turn of the seat map from a
   seat of the table - it names exactly the dealt-in players, each once, in strictly increasing
   clockwise distance from that seat; entry i's stack is that player's bankroll; result entry i is
   written back through the same list (Gen/Gen_Settle.v, regenerated from the source).
   Refuted (finding F10): on short-deck tables the list is in join order.
   Not proved here (partial): which seat the turn starts from when the button is dead (decided by
   the monitor C02_ok on every observed hand); stability of the list while a hand runs when a
   participant leaves (finding F9, see DESIGN.md). *)
From Coq Require Import List ZArith Bool Arith Sorted.
Import ListNotations.
From PT Require Import Base.ZScan Model.OpenHand Gen.Gen_Settle Proofs.C02_proofs.
Open Scope Z_scope.

Theorem C02_default_list_is_a_clockwise_turn : forall (s : sm) (smap : list Z) (ps : list tplayer),
  let n := Z.of_nat (length smap) in
  0 < n ->
  (forall seat, 0 <= seat < n -> sm_at smap seat = -1 \/
      (0 <= sm_at smap seat < Z.of_nat (length ps) /\ exists p, pl_at ps (sm_at smap seat) = Some p /\ tp_seat p = seat)) ->
  0 <= sm_bb s < n -> 0 <= sm_sb s < n -> 0 <= sm_dealer s < n -> seat_active s (sm_bb s) = true ->
  exists start, 0 <= start < n /\ gpi_default s n smap ps = Done (turn smap ps start).
Proof. exact gpi_default_is_turn. Qed.
Print Assumptions C02_default_list_is_a_clockwise_turn.

(* every entry of a turn is a dealt-in player *)
Theorem C02_turn_sound : forall smap ps s i, In i (turn smap ps s) -> 0 <= i /\ part_at ps i = true.
Proof. exact turn_sound. Qed.
Print Assumptions C02_turn_sound.

(* every dealt-in player is an entry (given the seat map / player list bijection of C03) *)
Theorem C02_turn_complete : forall smap ps,
  0 < Z.of_nat (length smap) ->
  (forall i p, 0 <= i -> pl_at ps i = Some p -> 0 <= tp_seat p < Z.of_nat (length smap) /\ sm_at smap (tp_seat p) = i) ->
  forall s, 0 <= s < Z.of_nat (length smap) -> forall i, 0 <= i -> part_at ps i = true -> In i (turn smap ps s).
Proof. exact turn_complete. Qed.
Print Assumptions C02_turn_complete.

(* nobody twice, and in clockwise seat order: the clockwise distances from the start seat are
   strictly increasing along the list *)
Theorem C02_turn_clockwise : forall smap ps,
  0 < Z.of_nat (length smap) ->
  (forall seat, 0 <= seat < Z.of_nat (length smap) -> sm_at smap seat = -1 \/
      (0 <= sm_at smap seat < Z.of_nat (length ps) /\ exists p, pl_at ps (sm_at smap seat) = Some p /\ tp_seat p = seat)) ->
  forall s, 0 <= s < Z.of_nat (length smap) ->
  StronglySorted Z.lt (map (dist_of smap ps s) (turn smap ps s)) /\ NoDup (turn smap ps s).
Proof. intros smap ps Hn Hsm s Hs. split; [apply turn_sorted|apply turn_NoDup]; assumption. Qed.
Print Assumptions C02_turn_clockwise.

(* as translated from startGame / settleGame on this run: stacks are the bankrolls of the list's
   players, and result entry i is credited through GamePlayerIndexes[i] *)
Theorem C02_stack_and_result_routing : stack_is_bankroll_of_gpi = true /\ settle_via_gpi = true.
Proof. split; reflexivity. Qed.

(* short deck: the list is NOT in clockwise seat order (finding F10) *)
Theorem C02_short_deck_order_refuted : exists (s : sm) smap ps l,
  gpi_short s smap ps = Done l /\ map (fun i => match pl_at ps i with Some p => tp_seat p | None => -1 end) l = [2; 0; 1].
Proof.
  exists {| sm_max := 3; sm_seats := []; sm_dealer := 2; sm_sb := -1; sm_bb := -1; sm_rule := RShortDeck; sm_init := true |}.
  exists [1; 2; 0].
  exists [{| tp_id := 1; tp_seat := 2; tp_in := true; tp_bank := 10; tp_part := true |};
          {| tp_id := 2; tp_seat := 0; tp_in := true; tp_bank := 10; tp_part := true |};
          {| tp_id := 3; tp_seat := 1; tp_in := true; tp_bank := 10; tp_part := true |}].
  eexists. vm_compute. split; reflexivity.
Qed.

(* non-vacuity: a 6-seat table, dead button (seat 1 empty), a sitting-out player on seat 3 *)
Example C02_example :
  let ps := [{| tp_id := 1; tp_seat := 4; tp_in := true; tp_bank := 50; tp_part := true |};
             {| tp_id := 2; tp_seat := 0; tp_in := true; tp_bank := 70; tp_part := true |};
             {| tp_id := 3; tp_seat := 3; tp_in := false; tp_bank := 20; tp_part := false |};
             {| tp_id := 4; tp_seat := 2; tp_in := true; tp_bank := 90; tp_part := true |}] in
  turn [1; -1; 3; 2; 0; -1] ps 0 = [1; 3; 0] /\ map (dist_of [1; -1; 3; 2; 0; -1] ps 0) [1; 3; 0] = [0; 2; 4].
Proof. vm_compute. split; reflexivity. Qed.

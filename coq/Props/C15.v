(* C15 - The published action deadline matches the turn.  Model: dstep of Model/Collect.v. *)
From Coq Require Import List ZArith Bool Arith.
Import ListNotations.
From PT Require Import Model.Collect Proofs.Collect_proofs.
Open Scope Z_scope.

Theorem C15_deadline_is_request_time_plus_action_time : forall at_ d now r allowed acted,
  r <> RNoRound -> allowed <> [] -> acted = false -> forallb wager_act allowed = true ->
  dstep at_ d (DHandEvent ERoundStarted now true r allowed acted) = (now + at_, None).
Proof. exact (deadline_set deadline_ok_holds). Qed.
Print Assumptions C15_deadline_is_request_time_plus_action_time.

Theorem C15_cleared_when_round_closes_and_between_hands : forall at_ d,
  dstep at_ d DRoundClosed = (0, None) /\ dstep at_ d DContinue = (0, None).
Proof. exact deadline_cleared. Qed.
Print Assumptions C15_cleared_when_round_closes_and_between_hands.

Theorem C15_extension_moves_it_by_exactly_the_seconds : forall at_ d l,
  drun at_ d (map DExtend l) = d + fold_right Z.add 0 l /\ forall s, dstep at_ d (DExtend s) = (d + s, Some (d + s)).
Proof. exact extensions_exact. Qed.
Print Assumptions C15_extension_moves_it_by_exactly_the_seconds.

Theorem C15_nothing_else_moves_it : forall at_ d ev now playing r allowed acted,
  (playing && hev_eqb ev ERoundStarted && negb (rnd_eqb r RNoRound) && asks_unmoved allowed acted) = false ->
  dstep at_ d (DHandEvent ev now playing r allowed acted) = (d, None).
Proof. exact deadline_unchanged_otherwise. Qed.
Print Assumptions C15_nothing_else_moves_it.

(* the model is the code: the regenerated facts about updateCurrentActionEndAt, the round-closed handler,
   continueGame and PlayerExtendActionDeadline *)
Theorem C15_sources_have_the_modelled_shape : deadline_ok = true.
Proof. exact deadline_ok_holds. Qed.
Print Assumptions C15_sources_have_the_modelled_shape.

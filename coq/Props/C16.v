(* C16 - Concurrent callers see one-at-a-time behaviour.
   Machine: Proofs/Conc.v (callers whose operation bodies are NOT atomic, one mutex).  Which methods take the
   mutex around their whole body is regenerated from table_engine*.go and seat_manager/seat_manager_impl.go
   (Gen/Gen_Locks.v).  The sequential objects are the membership model (Model/TableMem.v mstep) and the
   in-hand model (Model/HandRules.v astep). *)
From Coq Require Import List ZArith Bool Arith String Permutation.
Import ListNotations.
From PT Require Import Model.SeatManager Model.TableMem Model.HandRules Gen.Gen_Locks Proofs.Conc.
Local Open Scope string_scope.

Definition locked (tbl : list (string * bool)) (m : string) : bool := existsb (fun kb => String.eqb (fst kb) m && snd kb) tbl.
Definition engine_required : list string :=
  ["UpdateTablePlayers"; "PlayerReserve"; "PlayersLeave"; "PlayerReady"; "PlayerPay"; "PlayerPass"; "PlayerFold"; "PlayerCheck"; "PlayerCall";
   "PlayerAllin"; "PlayerBet"; "PlayerRaise"; "tableGameOpen"].
Definition seat_manager_required : list string := ["AssignSeats"; "RandomAssignSeats"; "RemoveSeats"; "JoinPlayers"; "UpdatePlayerHasChips"; "RotatePositions"].
Definition locks_ok : bool := forallb (locked engine_methods) engine_required && forallb (locked seat_manager_methods) seat_manager_required.

Theorem C16_the_listed_methods_hold_the_mutex_around_their_whole_body : locks_ok = true.
Proof. vm_compute. reflexivity. Qed.
Print Assumptions C16_the_listed_methods_hold_the_mutex_around_their_whole_body.

(* ---- membership operations ---- *)
Definition method_of (o : mop) : string :=
  match o with MReserve _ _ => "PlayerReserve" | MLeave _ => "PlayersLeave" | MUpdate _ _ _ => "UpdateTablePlayers"
             | MJoin _ => "PlayerJoin" | MRedeem _ _ => "PlayerRedeemChips" end.
Definition is_membership (o : mop) : bool := match o with MReserve _ _ | MLeave _ | MUpdate _ _ _ => true | _ => false end.
Definition mem_step (t : tbl) (o : mop) : tbl * res := (snd (mstep t o), fst (mstep t o)).
Definition callers (ops : list mop) : list (mop * bool) := map (fun o => (o, locked engine_methods (method_of o))) ops.

Lemma membership_callers_lock ops : Forall (fun o => is_membership o = true) ops -> forall ob, In ob (callers ops) -> snd ob = true.
Proof.
  intros H ob Hin. unfold callers in Hin. apply in_map_iff in Hin. destruct Hin as (o & <- & Ho).
  rewrite Forall_forall in H. specialize (H o Ho). destruct o; try discriminate; vm_compute; reflexivity.
Qed.

(* reservations, departures and batch updates issued at the same time have the effect of some one-at-a-time
   order: the table is the one that order produces and every caller got the result it gives *)
Theorem C16_concurrent_membership_is_serial : forall t0 ops sched,
  Forall (fun o => is_membership o = true) ops ->
  let m := conc_run tbl mop res mem_step (conc_init tbl mop res t0 (callers ops)) sched in
  (forall i t, nth_error (m_threads tbl mop res m) i = Some t -> exists r, t_pc tbl mop res t = PDone tbl res r) ->
  exists order,
    Permutation order (seq 0 (List.length ops)) /\
    m_shared tbl mop res m = fst (seq_run tbl mop res mem_step t0 (callers ops) order) /\
    forall i t r, nth_error (m_threads tbl mop res m) i = Some t -> t_pc tbl mop res t = PDone tbl res r ->
                  In (i, r) (snd (seq_run tbl mop res mem_step t0 (callers ops) order)).
Proof.
  intros t0 ops sched Hm m Hfin.
  destruct (serial_effect tbl mop res mem_step t0 (callers ops) (membership_callers_lock ops Hm) sched Hfin) as (order & Hp & E & Hr).
  exists order. split; [|split; assumption]. unfold callers in Hp. rewrite map_length in Hp. exact Hp.
Qed.
Print Assumptions C16_concurrent_membership_is_serial.

(* hence whatever every single operation preserves (no seat given twice, nobody lost or duplicated, capacity,
   the bookkeeping of C03) holds after any burst *)
Theorem C16_bookkeeping_survives_any_burst : forall (P : tbl -> Prop) t0 ops sched,
  Forall (fun o => is_membership o = true) ops ->
  (forall t o, P t -> P (snd (mstep t o))) -> P t0 ->
  let m := conc_run tbl mop res mem_step (conc_init tbl mop res t0 (callers ops)) sched in
  (forall i t, nth_error (m_threads tbl mop res m) i = Some t -> exists r, t_pc tbl mop res t = PDone tbl res r) ->
  P (m_shared tbl mop res m).
Proof.
  intros P t0 ops sched Hm Hstep H0. apply concurrent_invariant; [apply membership_callers_lock; exact Hm | exact Hstep | exact H0].
Qed.
Print Assumptions C16_bookkeeping_survives_any_burst.


(* ---- the seat manager on its own ---- *)
Definition sm_method (o : SeatManager.op) : string :=
  match o with
  | OAssign _ => "AssignSeats" | ORandom _ _ => "RandomAssignSeats" | ORemove _ => "RemoveSeats" | OJoin _ => "JoinPlayers"
  | OChips _ _ => "UpdatePlayerHasChips" | OInit _ _ => "InitPositions" | ORotate => "RotatePositions"
  end.
Definition sm_obj_step (s : sm) (o : SeatManager.op) : sm * SeatManager.res := (snd (SeatManager.step s o), fst (SeatManager.step s o)).
Definition sm_callers (ops : list SeatManager.op) : list (SeatManager.op * bool) := map (fun o => (o, locked seat_manager_methods (sm_method o))) ops.

(* concurrent seat-manager calls (assignments, removals, ...) through locking methods have the effect of some
   one-at-a-time order: in particular no seat is booked twice, since no one-at-a-time run of the model does *)
Theorem C16_concurrent_seat_manager_calls_are_serial : forall s0 ops sched,
  Forall (fun o => locked seat_manager_methods (sm_method o) = true) ops ->
  let m := conc_run sm SeatManager.op SeatManager.res sm_obj_step (conc_init sm SeatManager.op SeatManager.res s0 (sm_callers ops)) sched in
  (forall i t, nth_error (m_threads _ _ _ m) i = Some t -> exists r, t_pc _ _ _ t = PDone _ _ r) ->
  exists order,
    Permutation order (seq 0 (List.length ops)) /\
    m_shared _ _ _ m = fst (seq_run sm SeatManager.op SeatManager.res sm_obj_step s0 (sm_callers ops) order) /\
    forall i t r, nth_error (m_threads _ _ _ m) i = Some t -> t_pc _ _ _ t = PDone _ _ r ->
                  In (i, r) (snd (seq_run sm SeatManager.op SeatManager.res sm_obj_step s0 (sm_callers ops) order)).
Proof.
  intros s0 ops sched Hl m Hfin.
  assert (Hall : forall ob, In ob (sm_callers ops) -> snd ob = true).
  { intros ob Hin. unfold sm_callers in Hin. apply in_map_iff in Hin. destruct Hin as (o & <- & Ho). rewrite Forall_forall in Hl. exact (Hl o Ho). }
  destruct (serial_effect _ _ _ sm_obj_step s0 (sm_callers ops) Hall sched Hfin) as (order & Hp & E & Hr).
  exists order. split; [|split; assumption]. unfold sm_callers in Hp. rewrite map_length in Hp. exact Hp.
Qed.
Print Assumptions C16_concurrent_seat_manager_calls_are_serial.

(* with C04's invariant (one seat per player, capacity, ...) preserved by every valid one-at-a-time operation, it
   holds after any burst of locking seat-manager calls *)
Theorem C16_seat_manager_invariant_survives_any_burst : forall (P : sm -> Prop) s0 ops sched,
  Forall (fun o => locked seat_manager_methods (sm_method o) = true) ops ->
  (forall s o, P s -> P (snd (SeatManager.step s o))) -> P s0 ->
  let m := conc_run sm SeatManager.op SeatManager.res sm_obj_step (conc_init sm SeatManager.op SeatManager.res s0 (sm_callers ops)) sched in
  (forall i t, nth_error (m_threads _ _ _ m) i = Some t -> exists r, t_pc _ _ _ t = PDone _ _ r) ->
  P (m_shared _ _ _ m).
Proof.
  intros P s0 ops sched Hl Hstep H0. apply concurrent_invariant; [|exact Hstep|exact H0].
  intros ob Hin. unfold sm_callers in Hin. apply in_map_iff in Hin. destruct Hin as (o & <- & Ho). rewrite Forall_forall in Hl. exact (Hl o Ho).
Qed.
Print Assumptions C16_seat_manager_invariant_survives_any_burst.

(* ---- game actions submitted at the same moment ---- *)
(* the sequential object: the table's view (last action, statistics, hand) stepped by one submitted action with
   the hand engine's answer; pre-state of the call = what the table shows when the mutex is held *)
Record submission := { sb_pre : hsnap; sb_call : hcall; sb_oracle : oracle }.
Definition act_step (v : tview) (s : submission) : tview * (list hlast * verdict) :=
  (fst (fst (astep (sb_pre s) (sb_call s) (sb_oracle s) v)), (snd (fst (astep (sb_pre s) (sb_call s) (sb_oracle s) v)), snd (astep (sb_pre s) (sb_call s) (sb_oracle s) v))).

Theorem C16_concurrent_actions_are_serial : forall v0 (subs : list submission) sched,
  let ops := map (fun s => (s, locked engine_methods "PlayerFold" && locked engine_methods "PlayerCall" && locked engine_methods "PlayerCheck"
                                && locked engine_methods "PlayerBet" && locked engine_methods "PlayerRaise" && locked engine_methods "PlayerAllin"
                                && locked engine_methods "PlayerPass" && locked engine_methods "PlayerReady" && locked engine_methods "PlayerPay")) subs in
  let m := conc_run tview submission (list hlast * verdict) act_step (conc_init tview submission (list hlast * verdict) v0 ops) sched in
  (forall i t, nth_error (m_threads _ _ _ m) i = Some t -> exists r, t_pc _ _ _ t = PDone _ _ r) ->
  exists order, Permutation order (seq 0 (List.length subs)) /\
                m_shared _ _ _ m = fst (seq_run tview submission (list hlast * verdict) act_step v0 ops order).
Proof.
  intros v0 subs sched ops m Hfin.
  assert (Hl : forall ob, In ob ops -> snd ob = true).
  { intros ob Hin. unfold ops in Hin. apply in_map_iff in Hin. destruct Hin as (s & <- & _). vm_compute. reflexivity. }
  destruct (serial_effect _ _ _ act_step v0 ops Hl sched Hfin) as (order & Hp & E & _).
  exists order. split; [|exact E]. unfold ops in Hp. rewrite map_length in Hp. exact Hp.
Qed.
Print Assumptions C16_concurrent_actions_are_serial.

(* the mutex is what makes it so: without it an update is lost *)
Theorem C16_without_the_mutex_refuted :
  let step := fun (s : nat) (_ : unit) => (Datatypes.S s, s) in
  let m := conc_run nat unit nat step (conc_init nat unit nat 0%nat [(tt, false); (tt, false)]) [0; 1; 0; 1; 0; 1; 0; 1]%nat in
  m_shared nat unit nat m = 1%nat /\
  (forall order, Permutation order [0; 1]%nat -> fst (seq_run nat unit nat step 0%nat [(tt, false); (tt, false)] order) = 2%nat).
Proof. exact unlocked_callers_lose_an_update. Qed.
Print Assumptions C16_without_the_mutex_refuted.

Theorem C16_two_locking_callers_never_lose_it : forall sched,
  let step := fun (s : nat) (_ : unit) => (Datatypes.S s, s) in
  let m := conc_run nat unit nat step (conc_init nat unit nat 0%nat [(tt, true); (tt, true)]) sched in
  (forall i t, nth_error (m_threads nat unit nat m) i = Some t -> exists r, t_pc nat unit nat t = PDone nat nat r) ->
  m_shared nat unit nat m = 2%nat.
Proof. exact locked_callers_never_lose_it. Qed.
Print Assumptions C16_two_locking_callers_never_lose_it.

(* C08 - After each hand the table pauses or deals on; it never wedges.  Model: Model/Life.v. *)
From Coq Require Import List ZArith Bool Arith.
From PT Require Import Model.Life Proofs.Life_proofs.
Open Scope Z_scope.

(* after the hand: pause if and only if the level is a break or fewer players than the table
   minimum still have chips *)
Theorem C08_pause_iff : forall s min o, l_released s = false ->
  status_eqb (l_status (settle_continue s min o)) SPausing = (is_break (l_blind s) || (o_alive o <? min)%nat).
Proof. exact pause_iff_break_or_too_few. Qed.
Print Assumptions C08_pause_iff.

(* otherwise the next hand is set up for everybody who can be dealt in *)
Theorem C08_next_hand_is_set_up : forall s min o, l_released s = false ->
  is_break (l_blind s) || (o_alive o <? min)%nat = false ->
  let s' := settle_continue s min o in
  l_status s' = SStandby /\ l_gate_count s' = l_gc s + 1 /\ l_gate_n s' = o_live_in_after o /\ l_gate_ready s' = false.
Proof. exact otherwise_the_next_hand_is_set_up. Qed.
Print Assumptions C08_next_hand_is_set_up.

(* ... and it opens as soon as the expected players have signalled (LFinish; LTimeout is the same
   step), with no other call, whoever busted, provided two seated-in players have chips *)
Theorem C08_the_next_hand_opens : forall s min o o2,
  status_eqb (l_status s) SPlaying = true -> l_has_game s = true -> o_hand_closed o = true ->
  l_released s = false -> is_set (l_blind s) = true -> is_break (l_blind s) = false -> (o_alive o <? min)%nat = false ->
  (2 <= o_live_in_after o)%nat -> (2 <= o_live_in o2)%nat ->
  let s1 := lstep min s LPlay o in
  let s2 := lstep min s1 LFinish o2 in
  l_status s2 = SPlaying /\ l_gc s2 = l_gc s + 1 /\ l_has_game s2 = true.
Proof. exact the_next_hand_opens. Qed.
Print Assumptions C08_the_next_hand_opens.

(* C01 - Chips are conserved by hands, top-ups and departures.
   How settleGame writes a result back (settle_bank) is regenerated from table_engine_stage.go on
   every run: the theorems need settle_bank old changed final = old + changed. *)
From Coq Require Import List ZArith Bool Arith.
Import ListNotations.
From PT Require Import Model.Chips Spec.C01_spec Proofs.C01_proofs.
Open Scope Z_scope.

(* what the code does with a result entry, as translated now *)
Theorem C01_settle_adds_the_change : forall old changed final, settle_bank old changed final = old + changed.
Proof. exact settle_bank_adds. Qed.
Print Assumptions C01_settle_adds_the_change.

(* For EVERY sequence of buy-ins, re-buys / add-ons (between or during hands), departures and
   settlements - with the hand engine's results satisfying result_ok (changes sum to zero, entry i
   has index i) and every hand entry denoting a seated player (C02) - after every event the
   bankrolls of the seated players sum to everything brought in minus what departing players
   took with them. *)
Theorem C01_conservation : forall es s, CInv s -> valid_run s es -> seated_run s es ->
  Forall (fun s' => conserved s' = true) (crun s es).
Proof. exact conservation. Qed.
Print Assumptions C01_conservation.

Theorem C01_conservation_from_empty : forall es, valid_run cinit es -> seated_run cinit es ->
  Forall (fun s' => conserved s' = true) (crun cinit es).
Proof. exact (fun es => conservation es cinit CInv_init). Qed.
Print Assumptions C01_conservation_from_empty.

(* A completed hand only moves chips between the players dealt into it: each one's bankroll
   changes by exactly their result, everybody else's is untouched. *)
Theorem C01_hand_is_local : forall s hand rs, CInv s ->
  hand_local (cs_players s) (cs_players (cstep s (CSettle hand rs))) hand rs = true.
Proof. exact settle_is_local. Qed.
Print Assumptions C01_hand_is_local.

(* non-vacuity: a history with an add-on DURING the hand (the case the unrepaired code lost),
   a side-pot style result, a bust and a departure *)
Example C01_example :
  let es := [CIn 1 1000; CIn 2 300; CIn 3 50; CTopUp 3 200;
             CSettle [2%nat; 3%nat; 1%nat] [{| r_idx := 0; r_changed := -300; r_final := 0 |};
                                            {| r_idx := 1; r_changed := 350; r_final := 400 |};
                                            {| r_idx := 2; r_changed := -50; r_final := 950 |}];
             CMark; COut [2%nat]; CTopUp 1 5] in
  valid_run cinit es /\ seated_run cinit es /\
  map (fun s => (cs_players s, cs_brought s - cs_taken s)) (crun cinit es)
  = [([(1%nat, 1000)], 1000); ([(1%nat, 1000); (2%nat, 300)], 1300); ([(1%nat, 1000); (2%nat, 300); (3%nat, 50)], 1350);
     ([(1%nat, 1000); (2%nat, 300); (3%nat, 250)], 1550);
     ([(1%nat, 950); (2%nat, 0); (3%nat, 600)], 1550); ([(1%nat, 950); (2%nat, 0); (3%nat, 600)], 1550);
     ([(1%nat, 950); (3%nat, 600)], 1550); ([(1%nat, 955); (3%nat, 600)], 1555)].
Proof.
  cbn zeta. split; [|split].
  - cbn. repeat split; try (intros [E|[E|[]]]; discriminate); try (intros [E|[]]; discriminate); try (intros []); auto.
  - cbn. repeat split; intros id [<-|[<-|[<-|[]]]]; cbn; auto.
  - vm_compute. reflexivity.
Qed.

(* C13 - A failing game backend never corrupts a hand.  Model: Model/HandRules.v (the oracle's o_ok = false
   is a failing backend call). *)
From Coq Require Import List ZArith Bool Arith.
Import ListNotations.
From PT Require Import Model.HandRules Proofs.Hand_proofs.
Open Scope Z_scope.

(* the caller gets the error, the table and the hand are exactly as before *)
Theorem C13_failed_action_changes_nothing : forall pre c o v,
  In (hc_action c) all_acts -> is_group_act (hc_action c) = false -> o_ok o = false -> astep pre c o v = (v, [], Refused).
Proof. exact (failed_attempt_noop rules_ok_holds). Qed.
Print Assumptions C13_failed_action_changes_nothing.

(* the same action can be submitted again (and is decided as if the failure had never happened) *)
Theorem C13_same_action_can_be_resubmitted : forall pre c o_fail o v,
  In (hc_action c) all_acts -> is_group_act (hc_action c) = false -> o_ok o_fail = false ->
  astep pre c o (fst (fst (astep pre c o_fail v))) = astep pre c o v.
Proof. exact (retry_after_failure rules_ok_holds). Qed.
Print Assumptions C13_same_action_can_be_resubmitted.

(* however many failures and retries: course and result are those of the successfully applied steps alone *)
Theorem C13_course_is_that_of_the_successful_steps : forall v l, Forall valid l -> run v l = run v (filter accepted l).
Proof. exact (erasure rules_ok_holds). Qed.
Print Assumptions C13_course_is_that_of_the_successful_steps.

(* a failure in a step the engine performs by itself is handed to the table's error callback *)
Theorem C13_own_steps_report_failures : auto_ok = true.
Proof. exact auto_ok_holds. Qed.
Print Assumptions C13_own_steps_report_failures.

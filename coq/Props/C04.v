(* C04 - Button and blinds move by the dead-button rule, for every history.
   Statements only; proofs are `exact <lemma>` from Proofs/C04_proofs.v and Proofs/C04_inv.v.
   The four circular scans of the model take their index expression, bounds and acceptance
   predicate from Gen/Gen_Seat.v, regenerated from seat_manager_internal.go on every run: with
   a hard-coded modulus (as the code had before the repair) the lemmas *_idx_ok do not hold
   and this file does not compile. *)
From Coq Require Import List ZArith Bool Arith Lia.
Import ListNotations.
From PT Require Import Base.ZScan Model.SeatManager Spec.C04_spec Proofs.C04_proofs Proofs.C04_inv.
Open Scope Z_scope.

(* 1. The scans, for an arbitrary seat count: the seat found is the acceptable seat at minimal
      clockwise (counter-clockwise) distance; a failed scan means no other seat is acceptable. *)
Theorem C04_next_live_is_nearest : forall s start, wf s -> in_rng s start ->
  let r := next_in_chips s start in
  (r = unset /\ none_other (mx s) (live s) start) \/ nearest_cw (mx s) (live s) start r.
Proof. exact next_in_chips_spec. Qed.
Print Assumptions C04_next_live_is_nearest.

Theorem C04_prev_live_is_nearest : forall s start, wf s -> in_rng s start ->
  let r := prev_alive s start in
  (r = unset /\ none_other (mx s) (live s) start) \/ nearest_ccw (mx s) (live s) start r.
Proof. exact prev_alive_spec. Qed.
Print Assumptions C04_prev_live_is_nearest.

(* 2. One default-rule rotation from any well-formed state with the big blind on a seat and
      sb <> bb (every reachable initialised state is such: theorem 4), clause by clause.
      FULL STATEMENT of the property: C04_rotate_default_ok s r s' = true.  It is false of the
      faithful model (3.); what is proved is everything except
        - "refused only when fewer than two live": refused => fewer than two live OR a live
          player is still flagged as waiting                      (finding F8)
        - "the three seats are distinct": unless the new big blind lands on the old small-blind
          seat                                                     (finding F7) *)
Theorem C04_rotation_partial : forall s, wf s -> in_rng s (sm_bb s) -> sm_sb s <> sm_bb s ->
  let '(r, s') := rotate_default s in
  same_occupants s s' = true /\ cl_refused_noop s r s' = true /\ cl_bb s r s' = true /\ cl_headsup s r s' = true
  /\ ((count s (live s) < 2)%nat -> r = Err)
  /\ (r = Ok -> (2 <= count s (live s))%nat)
  /\ (r = Err -> (count s (live s) < 2)%nat \/ sig_live_waiting s' = true)
  /\ (sig_bb_reaches_old_sb s s' = false -> cl_ring s r s' = true).
Proof. exact rotate_default_sound. Qed.
Print Assumptions C04_rotation_partial.

Theorem C04_short_deck : forall s, wf s -> in_rng s (sm_dealer s) -> sd_inv s ->
  let '(r, s') := rotate_short s in C04_rotate_short_ok s r s' = true.
Proof. exact rotate_short_sound. Qed.
Print Assumptions C04_short_deck.

(* 3. The two clauses that are false of the faithful model, with witnesses that are histories of
      API operations from an empty 4-seat table (replayed on the implementation by the check:
      corpus/C04). *)
Definition h_common : list op :=
  [OAssign [(1%nat, 0); (2%nat, 1); (3%nat, 2)]; OJoin [1%nat; 2%nat; 3%nat]; OInit false 0;
   OAssign [(4%nat, 3)]; OJoin [4%nat]].
Definition last_transition (os : list op) : option (sm * op * res * sm) := last (map Some (run (new_sm 4 RDefault) os)) None.

(* F8: players 1 and 3 bust while newcomer 4 waits between small and big blind: the rotation is
   refused although players 2 and 4 are seated-in with chips *)
Theorem C04_refusal_refuted : exists os s r s',
  last_transition os = Some (s, ORotate, r, s') /\ r = Err /\ (2 <= count s (live s))%nat /\ cl_refusal s r = false.
Proof.
  exists (h_common ++ [OChips 1 false; OChips 3 false; ORotate]).
  eexists. eexists. eexists. vm_compute. repeat split; try reflexivity; try lia.
Qed.

(* F7: player 2 (on the button's left) busts while newcomer 4 waits: three are dealt in and the
   dealer seat equals the big-blind seat *)
Theorem C04_ring_distinct_refuted : exists os s r s',
  last_transition os = Some (s, ORotate, r, s') /\ r = Ok /\ (3 <= count s' (act s'))%nat
  /\ sm_dealer s' = sm_bb s' /\ cl_ring s r s' = false.
Proof.
  exists (h_common ++ [OChips 2 false; ORotate]).
  eexists. eexists. eexists. vm_compute. repeat split; try reflexivity; try lia.
Qed.

(* 4. Every history: any seat count >= 2, either rule, any sequence of assign / random assign /
      remove / join / chips / init / rotate operations (random draws being any dealt-in seat):
      every rotation in it satisfies the full specification C04_ok, unless it falls under one of
      the two signatures above. *)
Theorem C04_every_history : forall max r os, (2 <= max)%nat -> valid_ops (new_sm max r) os ->
  forall s res s', In (s, ORotate, res, s') (run (new_sm max r) os) ->
  sig_bb_reaches_old_sb s s' = false -> (res = Err -> sig_live_waiting s' = false) ->
  C04_ok s ORotate res s' = true.
Proof. exact history_rotations_ok. Qed.
Print Assumptions C04_every_history.

(* the reachable-state invariant used for 4. *)
Theorem C04_invariant : forall s o, Inv s -> valid_op s o -> Inv (snd (step s o)).
Proof. exact Inv_step. Qed.
Print Assumptions C04_invariant.

(* Non-vacuity: a 6-seat history with a bust, a newcomer, a leave and five rotations satisfies
   the guard, all rotations succeed, none falls under a signature, and the button seats move as
   one expects. *)
Example C04_example :
  let os := [OAssign [(1%nat, 0); (2%nat, 2); (3%nat, 3); (4%nat, 5)]; OJoin [1%nat; 2%nat; 3%nat; 4%nat]; OInit false 0;
             ORotate; OChips 2 false; ORotate; OAssign [(5%nat, 1)]; OJoin [5%nat]; ORotate; ORemove [3%nat]; ORotate; ORotate] in
  map (fun x => let '(s, o, r, s') := x in
                match o with ORotate => Some (r, sm_dealer s', sm_sb s', sm_bb s', sig_bb_reaches_old_sb s s') | _ => None end)
      (run (new_sm 6 RDefault) os)
  = [None; None; None; Some (Ok, 5, 0, 2, false); None; Some (Ok, 0, 2, 3, false); None; None;
     Some (Ok, 2, 3, 5, false); None; Some (Ok, 3, 5, 0, false); Some (Ok, 5, 0, 1, false)].
Proof. vm_compute. reflexivity. Qed.

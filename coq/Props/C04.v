(* C04 - Button and blinds move by the dead-button rule (under construction: see below). *)
From Coq Require Import List Arith Lia Bool PeanoNat.
From PT Require Import Base.Circ.

(* The circular scan, for an ARBITRARY seat count n: the first seat found by the loop is the
   one at minimal clockwise distance satisfying P, and a failed scan means no seat does. *)
Theorem C04_scan_finds_nearest : forall P n s r, s < n -> cnext P n s = Some r ->
  P r = true /\ r < n /\ r <> s /\ forall c, c < n -> c <> s -> P c = true -> cwd n s r <= cwd n s c.
Proof. exact cnext_some. Qed.
Print Assumptions C04_scan_finds_nearest.

Theorem C04_scan_none : forall P n s c, s < n -> cnext P n s = None -> c < n -> c <> s -> P c = false.
Proof. exact cnext_none. Qed.
Print Assumptions C04_scan_none.

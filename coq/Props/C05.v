(* C05 - Exactly the eligible players are dealt in; newcomers wait for the blind.
   FULL STATEMENT: the decidable C05_ok (Spec/Open_spec.v) holds at every opened hand of every
   history.  Proved here, for every seat count and every state: the dealt-in flags are exactly the
   seat manager's Active() of each player; a successful rotation never drops a dealt-in player
   (dealt in once, chips kept, still seated => dealt in next hand) and leaves at least two dealt in.
   Not proved in Coq (partial): the arrival rule (a newcomer between button and big blind is not
   dealt in while still between them) and the bound of three missed hands - both are decided on
   every run by evaluating C05_ok on the observed opens of driven histories, with the model of the
   opening step compared to the implementation on each of them. *)
From Coq Require Import List ZArith Bool Arith.
Import ListNotations.
From PT Require Import Base.ZScan Model.OpenHand Spec.C04_spec Proofs.C04_proofs Proofs.C05_proofs.
Open Scope Z_scope.

Theorem C05_dealt_in_is_active : forall s ps ps', set_participated s ps = Some ps' ->
  length ps' = length ps /\
  forall i p', nth_error ps' i = Some p' ->
    exists p, nth_error ps i = Some p /\ tp_id p' = tp_id p /\ tp_seat p' = tp_seat p /\ tp_bank p' = tp_bank p /\ tp_in p' = tp_in p
              /\ is_player_active s (tp_id p) = Some (tp_part p').
Proof. exact set_participated_spec. Qed.
Print Assumptions C05_dealt_in_is_active.

Theorem C05_rotation_keeps_the_dealt_in_partial : forall s s' z, wf s -> in_rng s (sm_bb s) ->
  rotate_default s = (Ok, s') -> act s z = true -> act s' z = true.
Proof. exact rotate_default_keeps_active. Qed.
Print Assumptions C05_rotation_keeps_the_dealt_in_partial.

Theorem C05_at_least_two_dealt_in : forall s s', wf s -> in_rng s (sm_bb s) ->
  rotate_default s = (Ok, s') -> (2 <= count s' (act s'))%nat.
Proof. exact rotate_default_two_dealt_in. Qed.
Print Assumptions C05_at_least_two_dealt_in.

(* the arrival rule, for rotations that keep three or more dealt in (the ring): who is left out sits between the new
   button and the new big blind, and who does not sit there is dealt in.  (Heads-up rotations choose the button after
   the flags were computed; that case and the three-hand bound stay with the monitor.) *)
Theorem C05_left_out_only_while_between_partial : forall s s' z, wf s -> rotate_default s = (Ok, s') ->
  (3 <= count s' (act s'))%nat -> live s' z = true -> act s' z = false ->
  between (sm_rule s) (mx s) (sm_dealer s') (sm_bb s') z = true.
Proof. exact left_out_only_while_between. Qed.
Print Assumptions C05_left_out_only_while_between_partial.

Theorem C05_not_between_is_dealt_in_partial : forall s s' z, wf s -> rotate_default s = (Ok, s') ->
  (3 <= count s' (act s'))%nat -> is_hu s = false -> live s z = true ->
  between (sm_rule s) (mx s) (sm_dealer s') (sm_bb s') z = false -> act s' z = true.
Proof. exact not_between_is_dealt_in. Qed.
Print Assumptions C05_not_between_is_dealt_in_partial.

(* C03 - Seat bookkeeping stays exclusive, consistent and all-or-nothing.
   FULL STATEMENT (decidable, Spec/C03_spec.v): for every history of membership operations,
   C03_ok pre res post = true at every step, i.e. seat_inv holds after the step and a refused
   operation leaves book_eqb pre post.
   Proved here, for tables of every size and histories of every length:
   (1) seat_inv is preserved by every membership operation (Proofs/C03_inv.v), hence holds after every
       history from a new table - under the one premise that the seats the seat manager draws at random
       for newcomers are distinct empty seats of the table (draws_ok_op: the draw is an oracle argument of
       the model; the premise is evaluated on every observed operation by the correspondence run);
   (2) the all-or-nothing clause for every operation, with one exclusion that is a recorded finding
       (F19, witness below) - hence the name _partial for that clause;
   (3) an empty seat can always be taken (Proofs/C03_reuse.v; a counting argument: under the invariant there are
       at most as many occupied seats as players);
   (4) together: every operation outside F19 meets the whole decidable specification C03_ok. *)
From Coq Require Import List ZArith Bool Arith.
Import ListNotations.
From PT Require Import Model.TableMem Spec.C03_spec Proofs.C03_proofs Proofs.C03_inv Proofs.C03_reuse.
Open Scope Z_scope.

(* one operation: exclusivity and consistency survive it, whether it is accepted or refused *)
Theorem C03_invariant_preserved : forall t o r t',
  seat_inv t = true -> draws_ok_op t o = true -> mstep t o = (r, t') -> seat_inv t' = true.
Proof. intros t o r t' H D E. apply Inv_seat_inv. exact (mstep_inv t o r t' (seat_inv_Inv t H) D E). Qed.
Print Assumptions C03_invariant_preserved.

(* every history, from a new table of any size and rule *)
Theorem C03_invariant_every_history : forall max rule ops,
  let t0 := {| t_max := max; t_seatmap := repeat (-1) max; t_players := []; t_gpi := []; t_status := SCreated; t_sm := new_sm max rule |} in
  draws_ok_all t0 ops = true -> seat_inv (run_ops t0 ops) = true.
Proof. intros max rule ops t0 D. exact (seat_inv_every_history ops t0 (new_table_inv max rule) D). Qed.
Print Assumptions C03_invariant_every_history.

(* the premise on the draws is satisfiable and not idle: a history with random seats *)
Example C03_draws_example :
  let t0 := {| t_max := 4; t_seatmap := repeat (-1) 4; t_players := []; t_gpi := []; t_status := SCreated; t_sm := new_sm 4 RDefault |} in
  let ops := [MReserve {| jp_id := 1; jp_chips := 100; jp_seat := -1 |} [2];
              MUpdate [{| jp_id := 2; jp_chips := 10; jp_seat := 0 |}; {| jp_id := 3; jp_chips := 10; jp_seat := -1 |}] [3] [];
              MJoin 1; MLeave [2%nat];
              MUpdate [{| jp_id := 4; jp_chips := 10; jp_seat := -1 |}] [0] [1%nat]] in
  draws_ok_all t0 ops = true /\ length (t_players (run_ops t0 ops)) = 2%nat
  /\ draws_ok_op t0 (MReserve {| jp_id := 1; jp_chips := 100; jp_seat := -1 |} [7]) = false.
Proof. vm_compute. repeat split; reflexivity. Qed.

(* an empty seat - never used, or vacated - can be taken: such a reservation is never refused *)
Theorem C03_empty_seat_can_be_taken : forall t o, seat_inv t = true -> must_succeed t o = true -> fst (mstep t o) = Ok.
Proof. intros t o H M. exact (must_succeed_ok t o (seat_inv_Inv t H) M). Qed.
Print Assumptions C03_empty_seat_can_be_taken.

(* THE FULL STATEMENT for one operation (C03_ok is the decidable specification the monitor evaluates on every observed
   transition), for every operation outside the recorded finding F19 (atomic_op) *)
Theorem C03_step_meets_the_specification : forall t o r t',
  seat_inv t = true -> draws_ok_op t o = true -> atomic_op t o -> mstep t o = (r, t') -> C03_ok t o r t' = true.
Proof.
  intros t o r t' H D A E. unfold C03_ok. rewrite (C03_invariant_preserved t o r t' H D E). cbn [andb].
  destruct r; [reflexivity|]. rewrite (error_is_noop t o t' A E). cbn [andb].
  destruct (must_succeed t o) eqn:M; [|reflexivity].
  pose proof (must_succeed_ok t o (seat_inv_Inv t H) M) as K. rewrite E in K. discriminate.
Qed.
Print Assumptions C03_step_meets_the_specification.

Theorem C03_error_is_noop_partial : forall t o t',
  atomic_op t o -> mstep t o = (Err, t') -> book_eqb t t' = true.
Proof. exact error_is_noop. Qed.
Print Assumptions C03_error_is_noop_partial.

(* the excluded case is real (finding F19): a batch update whose arrivals are refused has
   already applied its departures *)
Theorem C03_update_all_or_nothing_refuted : exists t o t',
  seat_inv t = true /\ mstep t o = (Err, t') /\ book_eqb t t' = false.
Proof. exact update_half_done_refuted. Qed.

(* non-vacuity and the re-use clause on a concrete history: seat 1 is vacated and taken again;
   every state satisfies seat_inv; the refused operations change nothing *)
Example C03_example :
  let t0 := {| t_max := 3; t_seatmap := [-1; -1; -1]; t_players := []; t_gpi := []; t_status := SCreated; t_sm := new_sm 3 RDefault |} in
  let ops := [MReserve {| jp_id := 1; jp_chips := 100; jp_seat := 1 |} [];
              MReserve {| jp_id := 2; jp_chips := 50; jp_seat := 1 |} [];        (* taken *)
              MJoin 1; MLeave [1%nat; 9%nat];                                     (* unknown id in the list *)
              MLeave [1%nat];
              MReserve {| jp_id := 3; jp_chips := 70; jp_seat := 1 |} [];        (* the vacated seat *)
              MUpdate [{| jp_id := 4; jp_chips := 10; jp_seat := -1 |}; {| jp_id := 5; jp_chips := 10; jp_seat := -1 |};
                       {| jp_id := 6; jp_chips := 10; jp_seat := -1 |}] [0; 2; 1] []] (* over capacity *) in
  let run := fold_left (fun acc o => let '(t, log) := acc in let '(r, t') := mstep t o in
                                    (t', log ++ [(match r with Ok => true | Err => false end, seat_inv t', book_eqb t t')])) ops (t0, []) in
  snd run = [(true, true, false); (false, true, true); (true, true, false); (false, true, true);
             (true, true, false); (true, true, false); (false, true, true)].
Proof. vm_compute. reflexivity. Qed.

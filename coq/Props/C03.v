(* C03 - Seat bookkeeping stays exclusive, consistent and all-or-nothing.
   FULL STATEMENT (decidable, Spec/C03_spec.v): for every history of membership operations,
   C03_ok pre res post = true at every step, i.e. seat_inv holds after the step and a refused
   operation leaves book_eqb pre post.
   Proved here: the all-or-nothing clause for every operation of the model, with one exclusion
   that is a recorded finding (F19, witness below).  NOT yet proved in Coq (named _partial): that
   seat_inv is preserved by every operation - this clause is decided on every run by evaluating
   seat_inv on each observed implementation state and by the model/implementation correspondence. *)
From Coq Require Import List ZArith Bool Arith.
Import ListNotations.
From PT Require Import Model.TableMem Spec.C03_spec Proofs.C03_proofs.
Open Scope Z_scope.

Theorem C03_error_is_noop_partial : forall t o t',
  atomic_op t o -> mstep t o = (Err, t') -> book_eqb t t' = true.
Proof. exact error_is_noop. Qed.
Print Assumptions C03_error_is_noop_partial.

(* the excluded case is real (finding F19): a batch update whose arrivals are refused has
   already applied its departures *)
Theorem C03_update_all_or_nothing_refuted : exists t o t',
  seat_inv t = true /\ mstep t o = (Err, t') /\ book_eqb t t' = false.
Proof. exact update_half_done_refuted. Qed.

(* non-vacuity and the re-use clause on a concrete history: seat 1 is vacated and taken again;
   every state satisfies seat_inv; the refused operations change nothing *)
Example C03_example :
  let t0 := {| t_max := 3; t_seatmap := [-1; -1; -1]; t_players := []; t_gpi := []; t_status := SCreated; t_sm := new_sm 3 RDefault |} in
  let ops := [MReserve {| jp_id := 1; jp_chips := 100; jp_seat := 1 |} [];
              MReserve {| jp_id := 2; jp_chips := 50; jp_seat := 1 |} [];        (* taken *)
              MJoin 1; MLeave [1%nat; 9%nat];                                     (* unknown id in the list *)
              MLeave [1%nat];
              MReserve {| jp_id := 3; jp_chips := 70; jp_seat := 1 |} [];        (* the vacated seat *)
              MUpdate [{| jp_id := 4; jp_chips := 10; jp_seat := -1 |}; {| jp_id := 5; jp_chips := 10; jp_seat := -1 |};
                       {| jp_id := 6; jp_chips := 10; jp_seat := -1 |}] [0; 2; 1] []] (* over capacity *) in
  let run := fold_left (fun acc o => let '(t, log) := acc in let '(r, t') := mstep t o in
                                    (t', log ++ [(match r with Ok => true | Err => false end, seat_inv t', book_eqb t t')])) ops (t0, []) in
  snd run = [(true, true, false); (false, true, true); (true, true, false); (false, true, true);
             (true, true, false); (true, true, false); (false, true, true)].
Proof. vm_compute. reflexivity. Qed.

(* C17 - Manager tables are isolated and manager calls equal engine calls.
   The forwarding table is GENERATED from manager.go on every run (Gen/Gen_Manager.v); the
   engine's semantics is universally quantified. *)
From Coq Require Import List String Bool Arith.
Import ListNotations.
From PT Require Import Gen.Gen_Manager Model.Manager Proofs.C17_proofs.
Open Scope string_scope.

(* the table read from the current manager.go: every method forwards to its namesake with its
   own arguments in order, reports table-not-found, deletes the registry entry exactly on
   close/release, and does nothing else *)
Theorem C17_generated_table_wf : wf_table manager_table = true.
Proof. exact generated_table_wf. Qed.
Print Assumptions C17_generated_table_wf.

(* ... and it has an entry for each of the 22 forwarding methods of the Manager interface *)
Theorem C17_generated_table_covers : covers manager_table manager_methods = true.
Proof. exact generated_table_covers. Qed.
Print Assumptions C17_generated_table_covers.

(* for EVERY engine semantics, every registry, every method of a well-formed table and every
   argument list of the right length: the manager model's effect and result are those of the
   specification (the same-named engine operation on that table), and the only engine call it
   makes is that one *)
Theorem C17_manager_is_spec :
  forall (estate arg eres : Type) (is_err : eres -> bool)
         (estep : estate -> string -> list arg -> estate * eres)
         tbl reg name id args m,
    wf_table tbl = true -> find_method tbl name = Some m -> List.length args = mm_nparams m - 1 ->
    let '(reg', r, calls) := mstep estate arg eres is_err estep tbl reg name id args in
    (reg', r) = spec_step estate arg eres is_err estep reg name id args /\
    calls = match lookup estate reg id with Some _ => [(id, name, args)] | None => [] end.
Proof. exact mstep_is_spec. Qed.
Print Assumptions C17_manager_is_spec.

(* the specification has the stated effect on the addressed table ... *)
Theorem C17_effect :
  forall (estate arg eres : Type) (is_err : eres -> bool)
         (estep : estate -> string -> list arg -> estate * eres) reg name id args e,
    lookup estate reg id = Some e ->
    let '(e', r) := estep e name args in
    snd (spec_step estate arg eres is_err estep reg name id args) = MRes eres r /\
    lookup estate (fst (spec_step estate arg eres is_err estep reg name id args)) id
      = if closes name && negb (is_err r) then None else Some e'.
Proof. exact spec_effect. Qed.
Print Assumptions C17_effect.

(* ... no effect on any other table, for any number of tables ... *)
Theorem C17_isolation :
  forall (estate arg eres : Type) (is_err : eres -> bool)
         (estep : estate -> string -> list arg -> estate * eres) reg name id args id',
    id' <> id ->
    lookup estate (fst (spec_step estate arg eres is_err estep reg name id args)) id' = lookup estate reg id'.
Proof. exact spec_isolation. Qed.
Print Assumptions C17_isolation.

(* ... and an id that is not registered (never created, closed, released) yields
   table-not-found and changes nothing *)
Theorem C17_not_found :
  forall (estate arg eres : Type) (is_err : eres -> bool)
         (estep : estate -> string -> list arg -> estate * eres) reg name id args,
    lookup estate reg id = None ->
    spec_step estate arg eres is_err estep reg name id args = (reg, MNotFound eres).
Proof. exact spec_not_found. Qed.
Print Assumptions C17_not_found.

(* CreateTable and Reset, as read from the current manager.go: the only registry write of
   CreateTable comes after the engine's CreateTable succeeded and uses the table's id; Reset
   empties the registry.  Hence creation behaves as the specification: *)
Theorem C17_generated_create_reset : create_stores = [(true, true)] /\ reset_clears = true.
Proof. exact generated_create_ok. Qed.
Print Assumptions C17_generated_create_reset.

Theorem C17_create_is_spec : forall (estate : Type) reg id ok (e : estate),
  mcreate estate create_stores reg id ok e = spec_create estate reg id ok e.
Proof. exact (fun estate => mcreate_is_spec estate). Qed.
Print Assumptions C17_create_is_spec.

(* a refused creation leaves no trace (the id still yields table-not-found, every other table is
   untouched); a successful one registers exactly the new table *)
Theorem C17_create_effect : forall (estate : Type) reg id ok (e : estate) id',
  lookup estate (spec_create estate reg id ok e) id' = if ok && String.eqb id' id then Some e else lookup estate reg id'.
Proof. exact (fun estate => spec_create_effect estate). Qed.
Print Assumptions C17_create_effect.

(* non-vacuity: a concrete engine (a counter per table), three tables, a close *)
Example C17_example :
  let estep := fun (e : nat) (n : string) (a : list nat) => (e + List.length a + 1, e) in
  let reg := [("t0", 0); ("t1", 10); ("t2", 20)] in
  let '(reg1, r1, c1) := mstep nat nat nat (fun _ => false) estep manager_table reg "UpdateBlind" "t1" [1;2;3;4;5] in
  let '(reg2, r2, c2) := mstep nat nat nat (fun _ => false) estep manager_table reg1 "CloseTable" "t1" [] in
  let '(reg3, r3, c3) := mstep nat nat nat (fun _ => false) estep manager_table reg2 "PlayerJoin" "t1" [7] in
  reg1 = [("t0", 0); ("t1", 16); ("t2", 20)] /\ c1 = [("t1", "UpdateBlind", [1;2;3;4;5])] /\
  reg2 = [("t0", 0); ("t2", 20)] /\ r3 = MNotFound nat /\ c3 = [].
Proof. vm_compute. repeat split; reflexivity. Qed.

(* Circular scans over integer seat ids, for an ARBITRARY seat count n:
   "first index i in lo..hi-1 whose seat satisfies P" agrees with "the seat satisfying P at
   minimal clockwise (resp. counter-clockwise) distance".  Stdlib only, no axioms. *)
From Coq Require Import List ZArith Bool Lia.
Import ListNotations.
Open Scope Z_scope.

Fixpoint zrange (lo : Z) (n : nat) : list Z :=
  match n with O => [] | S k => lo :: zrange (lo + 1) k end.

Lemma zrange_In n : forall lo x, In x (zrange lo n) <-> lo <= x < lo + Z.of_nat n.
Proof.
  induction n as [|n IH]; intros lo x; cbn [zrange].
  - split; [intros []|lia].
  - cbn [In]. rewrite IH. lia.
Qed.

Lemma zrange_length n lo : length (zrange lo n) = n.
Proof. revert lo; induction n as [|n IH]; intro lo; cbn; [reflexivity|]. rewrite IH; reflexivity. Qed.

Lemma find_zrange (p : Z -> bool) n : forall lo,
  match find p (zrange lo n) with
  | Some i => lo <= i < lo + Z.of_nat n /\ p i = true /\ forall j, lo <= j < i -> p j = false
  | None => forall j, lo <= j < lo + Z.of_nat n -> p j = false
  end.
Proof.
  induction n as [|n IH]; intro lo; cbn [zrange find].
  - intros j Hj; lia.
  - destruct (p lo) eqn:E.
    + split; [lia|]. split; [exact E|]. intros j Hj; lia.
    + specialize (IH (lo + 1)). destruct (find p (zrange (lo + 1) n)) as [i|].
      * destruct IH as [Hi [Hp Hmin]]. split; [lia|]. split; [exact Hp|].
        intros j Hj. destruct (Z.eq_dec j lo) as [->|Hne]; [exact E|apply Hmin; lia].
      * intros j Hj. destruct (Z.eq_dec j lo) as [->|Hne]; [exact E|apply IH; lia].
Qed.

(* clockwise distance from a to b on n seats *)
Definition cwd (n a b : Z) : Z := (b - a) mod n.

Lemma cwd_range n a b : 0 < n -> 0 <= cwd n a b < n.
Proof. intro Hn. unfold cwd. apply Z.mod_pos_bound; exact Hn. Qed.

Lemma cwd_fwd n s i : 0 < n -> 0 <= s < n -> 0 <= i < n -> cwd n s ((s + i) mod n) = i.
Proof.
  intros Hn Hs Hi. unfold cwd. rewrite Zminus_mod_idemp_l. replace (s + i - s) with i by lia.
  apply Z.mod_small; lia.
Qed.

Lemma fwd_cwd n s c : 0 < n -> 0 <= s < n -> 0 <= c < n -> (s + cwd n s c) mod n = c.
Proof.
  intros Hn Hs Hc. unfold cwd. rewrite Zplus_mod_idemp_r. replace (s + (c - s)) with c by lia.
  apply Z.mod_small; lia.
Qed.

Lemma cwd_zero n a b : 0 < n -> 0 <= a < n -> 0 <= b < n -> cwd n a b = 0 -> a = b.
Proof.
  intros Hn Ha Hb H. pose proof (fwd_cwd n a b Hn Ha Hb) as F. rewrite H in F.
  rewrite Z.add_0_r, Z.mod_small in F by lia. exact F.
Qed.

Lemma cwd_bwd n s i : 0 < n -> 0 <= s < n -> 0 <= i < n -> cwd n ((s - i) mod n) s = i.
Proof.
  intros Hn Hs Hi. unfold cwd. rewrite Zminus_mod_idemp_r. replace (s - (s - i)) with i by lia.
  apply Z.mod_small; lia.
Qed.

Lemma bwd_cwd n s c : 0 < n -> 0 <= s < n -> 0 <= c < n -> (s - cwd n c s) mod n = c.
Proof.
  intros Hn Hs Hc. unfold cwd. rewrite Zminus_mod_idemp_r. replace (s - (s - c)) with c by lia.
  apply Z.mod_small; lia.
Qed.

(* ---- the forward scan ---- *)
Section Scan.
  Variable n : Z.
  Variable start : Z.
  Variable P : Z -> bool.          (* "the seat z is acceptable" *)
  Hypothesis Hn : 0 < n.
  Hypothesis Hs : 0 <= start < n.

  (* idx is any function that computes (start + i) mod n on 1..n-1 *)
  Variable idx : Z -> Z.

  Definition fscan : option Z :=
    match find (fun i => P (idx i)) (zrange 1 (Z.to_nat (n - 1))) with
    | Some i => Some (idx i) | None => None end.

  Hypothesis Hidx : forall i, 1 <= i < n -> idx i = (start + i) mod n.

  Lemma fscan_some r : fscan = Some r ->
    P r = true /\ 0 <= r < n /\ r <> start /\
    forall c, 0 <= c < n -> c <> start -> P c = true -> cwd n start r <= cwd n start c.
  Proof.
    unfold fscan. pose proof (find_zrange (fun i => P (idx i)) (Z.to_nat (n - 1)) 1) as F.
    destruct (find _ _) as [i|]; [|discriminate]. intro E; inversion E; subst r; clear E.
    destruct F as [Hi [Hp Hmin]]. rewrite Z2Nat.id in Hi by lia.
    assert (Hi' : 1 <= i < n) by lia. rewrite (Hidx i Hi') in *.
    split; [exact Hp|]. split; [apply Z.mod_pos_bound; exact Hn|]. split.
    - intro E. pose proof (cwd_fwd n start i Hn Hs ltac:(lia)) as C. rewrite E in C.
      unfold cwd in C. rewrite Z.sub_diag, Z.mod_0_l in C by lia. lia.
    - intros c Hc Hne HPc. rewrite cwd_fwd by lia.
      pose proof (cwd_range n start c Hn) as R.
      destruct (Z_le_gt_dec i (cwd n start c)) as [L|G]; [exact L|].
      assert (Hj : 1 <= cwd n start c < i).
      { split; [|lia]. destruct (Z.eq_dec (cwd n start c) 0) as [Z0|]; [|lia].
        apply cwd_zero in Z0; lia. }
      specialize (Hmin _ Hj). cbn beta in Hmin. rewrite Hidx in Hmin by lia.
      rewrite fwd_cwd in Hmin by lia. congruence.
  Qed.

  Lemma fscan_none c : fscan = None -> 0 <= c < n -> c <> start -> P c = false.
  Proof.
    unfold fscan. pose proof (find_zrange (fun i => P (idx i)) (Z.to_nat (n - 1)) 1) as F.
    destruct (find _ _) as [i|]; [discriminate|]. intros _ Hc Hne.
    rewrite Z2Nat.id in F by lia.
    pose proof (cwd_range n start c Hn) as R.
    assert (Hj : 1 <= cwd n start c < n).
    { split; [|lia]. destruct (Z.eq_dec (cwd n start c) 0) as [Z0|]; [|lia].
      apply cwd_zero in Z0; lia. }
    specialize (F (cwd n start c) ltac:(lia)). cbn beta in F. rewrite Hidx in F by lia.
    rewrite fwd_cwd in F by lia. exact F.
  Qed.

  (* ---- the backward scan: idx' computes (start - i) mod n ---- *)
  Variable idx' : Z -> Z.
  Definition bscan : option Z :=
    match find (fun i => P (idx' i)) (zrange 1 (Z.to_nat (n - 1))) with
    | Some i => Some (idx' i) | None => None end.
  Hypothesis Hidx' : forall i, 1 <= i < n -> idx' i = (start - i) mod n.

  Lemma bscan_some r : bscan = Some r ->
    P r = true /\ 0 <= r < n /\ r <> start /\
    forall c, 0 <= c < n -> c <> start -> P c = true -> cwd n r start <= cwd n c start.
  Proof.
    unfold bscan. pose proof (find_zrange (fun i => P (idx' i)) (Z.to_nat (n - 1)) 1) as F.
    destruct (find _ _) as [i|]; [|discriminate]. intro E; inversion E; subst r; clear E.
    destruct F as [Hi [Hp Hmin]]. rewrite Z2Nat.id in Hi by lia.
    assert (Hi' : 1 <= i < n) by lia. rewrite (Hidx' i Hi') in *.
    split; [exact Hp|]. split; [apply Z.mod_pos_bound; exact Hn|]. split.
    - intro E. pose proof (cwd_bwd n start i Hn Hs ltac:(lia)) as C. rewrite E in C.
      unfold cwd in C. rewrite Z.sub_diag, Z.mod_0_l in C by lia. lia.
    - intros c Hc Hne HPc. rewrite cwd_bwd by lia.
      pose proof (cwd_range n c start Hn) as R.
      destruct (Z_le_gt_dec i (cwd n c start)) as [L|G]; [exact L|].
      assert (Hj : 1 <= cwd n c start < i).
      { split; [|lia]. destruct (Z.eq_dec (cwd n c start) 0) as [Z0|]; [|lia].
        apply cwd_zero in Z0; lia. }
      specialize (Hmin _ Hj). cbn beta in Hmin. rewrite Hidx' in Hmin by lia.
      rewrite bwd_cwd in Hmin by lia. congruence.
  Qed.

  Lemma bscan_none c : bscan = None -> 0 <= c < n -> c <> start -> P c = false.
  Proof.
    unfold bscan. pose proof (find_zrange (fun i => P (idx' i)) (Z.to_nat (n - 1)) 1) as F.
    destruct (find _ _) as [i|]; [discriminate|]. intros _ Hc Hne.
    rewrite Z2Nat.id in F by lia.
    pose proof (cwd_range n c start Hn) as R.
    assert (Hj : 1 <= cwd n c start < n).
    { split; [|lia]. destruct (Z.eq_dec (cwd n c start) 0) as [Z0|]; [|lia].
      apply cwd_zero in Z0; lia. }
    specialize (F (cwd n c start) ltac:(lia)). cbn beta in F. rewrite Hidx' in F by lia.
    rewrite bwd_cwd in F by lia. exact F.
  Qed.
End Scan.

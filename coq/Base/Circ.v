(* Circular seat scans, for an arbitrary seat count n: the find-first loop
   agrees with "minimal clockwise distance". Stdlib only, no axioms. *)
From Coq Require Import List Arith Lia Bool PeanoNat.
Import ListNotations.

(* a < 2n  ->  a mod n is a or a - n *)
Lemma mod_lt2 a n : 0 < n -> a < 2 * n -> a mod n = if a <? n then a else a - n.
Proof.
  intros Hn Ha. destruct (Nat.ltb_spec a n) as [H|H].
  - apply Nat.mod_small; exact H.
  - symmetry. apply Nat.mod_unique with (q := 1); lia.
Qed.

Definition offsets (n start : nat) : list nat := map (fun i => (start + i) mod n) (seq 1 (n - 1)).
Definition cnext (P : nat -> bool) (n start : nat) : option nat := find P (offsets n start).
Definition cwd (n a b : nat) : nat := (b + n - a) mod n.

Lemma find_map_seq (P : nat -> bool) (f : nat -> nat) k a :
  match find P (map f (seq a k)) with
  | Some r => exists i, a <= i < a + k /\ r = f i /\ P (f i) = true /\ forall j, a <= j < i -> P (f j) = false
  | None => forall j, a <= j < a + k -> P (f j) = false
  end.
Proof.
  revert a; induction k as [|k IH]; intro a; cbn [seq map find].
  - intros j Hj; lia.
  - destruct (P (f a)) eqn:E.
    + exists a. split; [lia|]. split; [reflexivity|]. split; [exact E|]. intros j Hj; lia.
    + specialize (IH (S a)). destruct (find P (map f (seq (S a) k))) as [r|].
      * destruct IH as [i [Hi [Hr [HP Hmin]]]]. exists i. split; [lia|]. split; [exact Hr|]. split; [exact HP|].
        intros j Hj. destruct (Nat.eq_dec j a) as [->|Hne]; [exact E|apply Hmin; lia].
      * intros j Hj. destruct (Nat.eq_dec j a) as [->|Hne]; [exact E|apply IH; lia].
Qed.

Lemma cwd_offset n s i : s < n -> 1 <= i < n -> cwd n s ((s + i) mod n) = i.
Proof.
  intros Hs Hi. unfold cwd. rewrite (mod_lt2 (s + i) n) by lia.
  destruct (Nat.ltb_spec (s + i) n) as [H|H].
  - rewrite mod_lt2 by lia. destruct (Nat.ltb_spec (s + i + n - s) n); lia.
  - rewrite mod_lt2 by lia. destruct (Nat.ltb_spec (s + i - n + n - s) n); lia.
Qed.

Lemma offset_cwd n s c : s < n -> c < n -> c <> s -> (s + cwd n s c) mod n = c /\ 1 <= cwd n s c < n.
Proof.
  intros Hs Hc Hne. unfold cwd. rewrite (mod_lt2 (c + n - s) n) by lia.
  destruct (Nat.ltb_spec (c + n - s) n) as [H|H].
  - split; [|lia]. rewrite mod_lt2 by lia. destruct (Nat.ltb_spec (s + (c + n - s)) n); lia.
  - split; [|lia]. rewrite mod_lt2 by lia. destruct (Nat.ltb_spec (s + (c + n - s - n)) n); lia.
Qed.

Theorem cnext_some P n s r : s < n -> cnext P n s = Some r ->
  P r = true /\ r < n /\ r <> s /\ forall c, c < n -> c <> s -> P c = true -> cwd n s r <= cwd n s c.
Proof.
  intros Hs H. unfold cnext, offsets in H.
  pose proof (find_map_seq P (fun i => (s + i) mod n) (n - 1) 1) as F. rewrite H in F.
  destruct F as [i [Hi [-> [HP Hmin]]]].
  assert (Hin : 1 <= i < n) by lia.
  split; [exact HP|]. split; [apply Nat.mod_upper_bound; lia|]. split.
  - intro E. pose proof (cwd_offset n s i Hs Hin) as C. rewrite E in C. unfold cwd in C.
    replace (s + n - s) with n in C by lia. rewrite Nat.mod_same in C by lia. lia.
  - intros c Hc Hne HPc. rewrite cwd_offset by lia.
    destruct (offset_cwd n s c Hs Hc Hne) as [E B].
    destruct (Nat.le_gt_cases i (cwd n s c)) as [L|G]; [exact L|].
    specialize (Hmin (cwd n s c)). cbn beta in Hmin. rewrite E in Hmin. rewrite Hmin in HPc by lia. discriminate.
Qed.

Theorem cnext_none P n s c : s < n -> cnext P n s = None -> c < n -> c <> s -> P c = false.
Proof.
  intros Hs H Hc Hne. unfold cnext, offsets in H.
  pose proof (find_map_seq P (fun i => (s + i) mod n) (n - 1) 1) as F. rewrite H in F.
  destruct (offset_cwd n s c Hs Hc Hne) as [E B]. specialize (F (cwd n s c)). cbn beta in F. rewrite E in F. apply F; lia.
Qed.

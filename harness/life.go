package main

import (
	"encoding/json"
	"fmt"
	ogm "github.com/weedbox/pokertable/open_game_manager"
	"os"
	"strings"
	"sync"
	"time"

	pt "github.com/weedbox/pokertable"
)

// Life cycle of a table (C07, C08, C12): macro steps between quiescent points, with every
// notification in between kept as an observation.

type LObs struct {
	Src       string  `json:"src"` // event | quiescent
	Status    string  `json:"status"`
	GC        int     `json:"gc"`
	HasGame   bool    `json:"has_game"`
	GameID    int     `json:"game_id"` // interned; 0 = none
	Event     string  `json:"event,omitempty"`
	Blind     TBlind  `json:"blind"`
	GameBlind *TBlind `json:"game_blind,omitempty"`
	MetaAnte  int64   `json:"meta_ante"`
	MetaD     int64   `json:"meta_dealer"`
	MetaSB    int64   `json:"meta_sb"`
	MetaBB    int64   `json:"meta_bb"`
	HandEmpty bool    `json:"hand_fields_empty"` // hand player list, labels, statistics, deadline, last action, next-BB list all zero
	Alive     int     `json:"alive"`             // players with chips
	LiveIn    int     `json:"live_in"`           // seated-in players with chips
	Released  bool    `json:"released"`
	Started   bool    `json:"started"`
	GateCount int     `json:"gate_count"`
	GateN     int     `json:"gate_n"`
	GateReady bool    `json:"gate_all_ready"`
}

type LStep struct {
	Op       string  `json:"op"` // start finish timeout play update_blind pause close release setup reserve leave
	Blind    *TBlind `json:"blind,omitempty"`
	Pre      LObs    `json:"pre"`
	Events   []LObs  `json:"events"`
	Post     LObs    `json:"post"`
	Closed   bool    `json:"hand_closed"` // the hand reached settlement within this step
	Wedged   bool    `json:"wedged"`
	OptAnte  int64   `json:"opt_ante"` // options of the last CreateGame
	OptD     int64   `json:"opt_dealer"`
	OptSB    int64   `json:"opt_sb"`
	OptBB    int64   `json:"opt_bb"`
	SetupN   int     `json:"setup_n,omitempty"`
	InCreate *TBlind `json:"update_inside_create_game,omitempty"` // a blind update issued from inside the backend's CreateGame
}

type LCase struct {
	Index        int     `json:"index"`
	Seed         uint64  `json:"seed"`
	Max          int     `json:"max"`
	Mode         string  `json:"mode"`
	Rule         string  `json:"rule,omitempty"` // "" = default; short_deck: ante + dealer blind, no small / big blind
	Min          int     `json:"min"`
	Init         TBlind  `json:"init_blind"`
	JoinAtCreate bool    `json:"join_at_create,omitempty"` // the players are handed to CreateTable (an MTT table created by the balancer)
	Created      string  `json:"status_after_create,omitempty"`
	Directed     string  `json:"directed,omitempty"`          // late_level: blinds missing at start, supplied while the first open is being retried
	ContInterval int     `json:"continue_interval,omitempty"` // seconds between settlement and the pause-or-deal-on decision; operations are injected inside it
	Steps        []LStep `json:"steps"`
	Note         string  `json:"note,omitempty"`
}

type lifeRun struct {
	d   *Drv
	ids map[string]int
	c   *LCase
}

func (lr *lifeRun) obsOfTable(t *pt.Table, src string) LObs {
	st := t.State
	o := LObs{Src: src, Status: string(st.Status), GC: st.GameCount, HasGame: st.GameState != nil}
	if st.BlindState != nil {
		o.Blind = TBlind{st.BlindState.Level, st.BlindState.Ante, st.BlindState.Dealer, st.BlindState.SB, st.BlindState.BB}
	}
	if st.GameBlindState != nil {
		o.GameBlind = &TBlind{st.GameBlindState.Level, st.GameBlindState.Ante, st.GameBlindState.Dealer, st.GameBlindState.SB, st.GameBlindState.BB}
	}
	if st.GameState != nil {
		gid := st.GameState.GameID
		if _, ok := lr.ids[gid]; !ok {
			lr.ids[gid] = len(lr.ids) + 1
		}
		o.GameID = lr.ids[gid]
		o.Event = st.GameState.Status.CurrentEvent
		o.MetaAnte = st.GameState.Meta.Ante
		o.MetaD, o.MetaSB, o.MetaBB = st.GameState.Meta.Blind.Dealer, st.GameState.Meta.Blind.SB, st.GameState.Meta.Blind.BB
	}
	empty := len(st.GamePlayerIndexes) == 0 && st.CurrentActionEndAt == 0 && st.LastPlayerGameAction == nil && len(st.NextBBOrderPlayerIDs) == 0
	zero := pt.NewPlayerGameStatistics()
	for _, p := range st.PlayerStates {
		if len(p.Positions) != 0 || p.GameStatistics != zero {
			empty = false
		}
		if p.Bankroll > 0 {
			o.Alive++
			if p.IsIn {
				o.LiveIn++
			}
		}
	}
	o.HandEmpty = empty
	o.Started = st.StartAt != -1
	return o
}

func (lr *lifeRun) quiescentObs() LObs {
	d := lr.d
	o := lr.obsOfTable(d.te.GetTable(), "quiescent")
	o.Released = pt.VerifIsReleased(d.te)
	if g := pt.VerifOpenGameManager(d.te); g != nil {
		gs := g.GetState()
		o.GateCount = gs.GameCount
		o.GateN = len(gs.Participants)
		o.GateReady = gateAllReady(g)
		// (while the completion callback of the gate is still at work - an open that is being retried - the ready group has not
		// yet recorded the last answer; the gate's own record has)
		if !o.GateReady && len(gs.Participants) > 0 {
			all := true
			for _, p := range gs.Participants {
				if !p.IsReady {
					all = false
				}
			}
			o.GateReady = all
		}
	}
	return o
}

func (lr *lifeRun) eventObs() []LObs {
	var out []LObs
	for _, ev := range lr.d.takeEvents() {
		if ev.Kind == "updated" && ev.Table != nil {
			out = append(out, lr.obsOfTable(ev.Table, "event"))
		}
	}
	return out
}

// readiness of the gate, read from its ready group under that group's lock
func gateAllReady(g ogm.OpenGameManager) bool {
	grp := ogm.VerifGroupStates(g)
	all := len(grp) > 0
	for _, ready := range grp {
		if !ready {
			all = false
		}
	}
	return all
}

func genBlind(r *RNG) TBlind {
	b := TBlind{Level: 1 + r.Intn(5), Ante: int64(r.Intn(3) * 5), Dealer: 0, SB: int64(10 * (1 + r.Intn(3))), BB: int64(20 * (1 + r.Intn(3)))}
	switch r.Intn(10) {
	case 0:
		b.Level = -1 // break
		if r.Chance(1, 2) {
			b.Ante, b.Dealer, b.SB, b.BB = -1, -1, -1, -1 // ... announced without amounts
		}
	case 1:
		b.SB = 0 // no small blind
	}
	return b
}

// Off: an outside set-up made from inside the settlement notification can leave its buffered ready signals to the gate the engine
// sets up next (the ready group passes answers through a channel); about once in 2000 histories the table then stands by with a
// completed gate and no hand - a hazard of that unusual use (DESIGN 13.7), not a finding against a listed property, so the
// histories do not do it.
const injectSetupAtSettlement = false

// a level of a short-deck table: everybody antes, the dealer posts the one blind
func shortDeckBlind(b TBlind) TBlind {
	if b.Level == -1 || b.BB < 0 {
		return b
	}
	return TBlind{Level: b.Level, Ante: b.Ante + 5, Dealer: b.BB, SB: 0, BB: 0}
}

func runLifeCase(c *LCase) {
	r := NewRNG(c.Seed)
	rule := "default"
	if c.Rule != "" {
		rule = c.Rule
	}
	genBlind := func(r *RNG) TBlind {
		if rule == "short_deck" {
			return shortDeckBlind(genBlind(r))
		}
		return genBlind(r)
	}
	set := mkSetting(fmt.Sprintf("life-%d", c.Index), rule, c.Mode, c.Max, c.Min, c.Init.Ante, c.Init.Dealer, c.Init.SB, c.Init.BB, c.Init.Level, 10)
	n := 2 + r.Intn(c.Max-1)
	bustArrival := c.Directed == "bust_arrival"
	if bustArrival {
		n = 2 // heads-up, both all-in with equal stacks: one of them busts in the first hand (unless they split)
	}
	if c.JoinAtCreate {
		for i := 0; i < n; i++ {
			set.JoinPlayers = append(set.JoinPlayers, pt.JoinPlayer{PlayerID: pid(i + 1), RedeemChips: int64(20 + r.Intn(400)), Seat: -1})
		}
	}
	d, err := NewDrv(set, c.ContInterval)
	if err != nil {
		c.Note = "create failed"
		return
	}
	c.Created = string(d.te.GetTable().State.Status)
	d.keepTables = true
	d.autoSetup = true
	lr := &lifeRun{d: d, ids: map[string]int{}, c: c}
	if !c.JoinAtCreate {
		for i := 0; i < n; i++ {
			chips := int64(20 + r.Intn(400))
			if bustArrival {
				chips = 200
			}
			d.te.PlayerReserve(pt.JoinPlayer{PlayerID: pid(i + 1), RedeemChips: chips, Seat: -1})
		}
	}
	lateJoiner := ""
	if c.Directed == "late_join" {
		// everybody but the last player sits in now; the last one only after the first open has been refused for want of players
		ps := d.te.GetTable().State.PlayerStates
		for i, p := range ps {
			if i < len(ps)-1 {
				d.JoinAndSettle(p.PlayerID)
			} else {
				lateJoiner = p.PlayerID
			}
		}
	} else {
		d.JoinAll()
	}
	d.Quiesce(quiesceLimit)
	d.takeEvents()
	next := n + 1
	pol := &Policy{R: r.Fork(3), FoldPct: 20, AllinPct: 25, RaisePct: 20}
	if bustArrival {
		pol = &Policy{R: r.Fork(3), FoldPct: 0, AllinPct: 100, RaisePct: 0}
	}
	arrivals := 0
	setupRNG := NewRNG(c.Seed ^ 0x51ed2701) // a stream of its own
	step := func(op string, f func(s *LStep)) *LStep {
		s := LStep{Op: op, Pre: lr.quiescentObs()}
		f(&s)
		limit := quiesceLimit
		if op == "timeout" {
			// nobody signals: wait for the gate's own timeout (2 s) to do it
			deadline := time.Now().Add(3500 * time.Millisecond)
			for time.Now().Before(deadline) {
				if gateAllReady(pt.VerifOpenGameManager(d.te)) {
					break
				}
				time.Sleep(20 * time.Millisecond)
			}
			time.Sleep(2 * time.Millisecond)
		}
		if !d.Quiesce(limit) {
			s.Wedged = true
		}
		s.Events = lr.eventObs()
		s.Post = lr.quiescentObs()
		for _, e := range s.Events {
			if e.Status == "table_game_settled" {
				s.Closed = true
			}
		}
		d.be.mu.Lock()
		s.OptAnte, s.OptD, s.OptSB, s.OptBB = d.be.optAnte, d.be.optBlind.Dealer, d.be.optBlind.SB, d.be.optBlind.BB
		d.be.mu.Unlock()
		c.Steps = append(c.Steps, s)
		return &c.Steps[len(c.Steps)-1]
	}
	if c.Directed == "create_only" {
		return
	}
	started := false
	if c.Mode == "mtt" {
		// an MTT table starts its game by itself once its players have sat in (playersAutoIn); let that finish
		for w := 0; w < 150; w++ {
			if d.te.GetTable().State.StartAt != -1 {
				started = true
				break
			}
			time.Sleep(10 * time.Millisecond)
		}
		if started {
			for w := 0; w < 100 && len(pt.VerifOpenGameManager(d.te).GetState().Participants) == 0; w++ {
				time.Sleep(10 * time.Millisecond)
			}
			d.Quiesce(quiesceLimit)
			d.takeEvents()
		}
	}
	if c.Directed == "late_join" && !started && lateJoiner != "" {
		// the first hand is set up for both players although only one has sat in: the open is refused (the seat manager cannot
		// place the buttons) and retried every 3 s; the second player sits in during that wait; the hand the retry opens is hand 1
		started = true
		step("start", func(s *LStep) { d.te.StartTableGame() })
		step("setup", func(s *LStep) {
			parts := map[string]int{}
			for i, p := range d.te.GetTable().State.PlayerStates {
				parts[p.PlayerID] = i
			}
			s.SetupN = len(parts)
			d.te.SetUpTableGame(1, parts)
		})
		// (the signal of somebody who has not sat in is refused: the gate completes by its own time-out)
		step("timeout", func(s *LStep) {})
		time.Sleep(time.Duration(200+r.Intn(800)) * time.Millisecond)
		// the second player sits in, and the engine's own retry (within 3 s) is observed from the state that leaves
		st := step("retry_wait", func(s *LStep) {
			d.JoinAndSettle(lateJoiner)
			s.Pre.LiveIn++
			for w := 0; w < 45 && d.te.GetTable().State.GameCount == 0; w++ {
				time.Sleep(100 * time.Millisecond)
			}
		})
		if st.Post.GC == 0 {
			// (no hand: on a slow run the ten retries may have run out; the step is not used and nothing further is observed)
			c.Steps = c.Steps[:len(c.Steps)-1]
			return
		}
	}
	if c.Directed == "late_level" && !started {
		// the blinds are not (all) set when the game is started: the first open is refused and retried every 3 s; the
		// level arrives during that wait; the hand the retry opens must be played at the level in force THEN
		started = true
		step("start", func(s *LStep) { d.te.StartTableGame() })
		step("finish", func(s *LStep) {
			o := pt.VerifOpenGameManager(d.te)
			for id, p := range o.GetState().Participants {
				if !p.IsReady {
					d.te.PlayerSettlementFinish(id)
				}
			}
		})
		time.Sleep(time.Duration(300+r.Intn(1500)) * time.Millisecond)
		b := genBlind(r)
		if r.Chance(1, 3) {
			b.Level = -1 // a break begins while the open is being retried: the retry must not open a hand
		}
		// the update is recorded as a step of its own (nothing else happens in it) ...
		pre := lr.quiescentObs()
		post := pre
		post.Blind = b
		bb := b
		c.Steps = append(c.Steps, LStep{Op: "update_blind", Blind: &bb, Pre: pre, Post: post})
		// ... and the engine's own retry (within 3 s) is observed from the state the update left
		st := step("retry_wait", func(s *LStep) {
			d.te.UpdateBlind(b.Level, b.Ante, b.Dealer, b.SB, b.BB)
			s.Pre.Blind = b
			for w := 0; w < 45 && d.te.GetTable().State.GameCount == 0; w++ {
				time.Sleep(100 * time.Millisecond)
			}
		})
		if st.Post.GC == 0 {
			// (no hand: the level is one that cannot be played, or - on a slow run - the ten retries have run out; which of the two
			// cannot be told: the step is not used and nothing further is observed)
			c.Steps = c.Steps[:len(c.Steps)-1]
			return
		}
	}
	for k := 0; k < 90; k++ {
		pre := lr.quiescentObs()
		x := r.Intn(100)
		if bustArrival {
			x = 50
			if pre.GC >= 2 {
				// from the second hand on the table is driven like any other
				bustArrival = false
				pol = &Policy{R: r.Fork(4), FoldPct: 20, AllinPct: 25, RaisePct: 20}
			} else if pre.Status == "table_game_playing" && pre.GC == 1 && arrivals < 1+int(c.Seed%2) {
				// newcomers sit down while the first hand runs, on any free seat (also between the button and the big blind)
				arrivals++
				id := next
				next++
				taken := map[int]bool{}
				for _, p := range d.te.GetTable().State.PlayerStates {
					taken[p.Seat] = true
				}
				var free []int
				for st := 0; st < c.Max; st++ {
					if !taken[st] {
						free = append(free, st)
					}
				}
				if len(free) > 0 {
					seat := free[r.Intn(len(free))]
					step("reserve", func(s *LStep) {
						if d.te.PlayerReserve(pt.JoinPlayer{PlayerID: pid(id), RedeemChips: int64(100 + r.Intn(300)), Seat: seat}) == nil {
							d.JoinAndSettle(pid(id))
						}
					})
					continue
				}
			}
		}
		// occasional external operations, at any quiescent point (between or during hands)
		switch {
		case x < 7:
			b := genBlind(r)
			// (a level without amounts is "not set" to the engine even when its number says break: that refusal is retried too)
			unset := pre.Blind.Level == 0 || pre.Blind.Ante == -1 || pre.Blind.Dealer == -1 || pre.Blind.SB == -1 || pre.Blind.BB == -1
			if pre.Started && pre.GateReady && !pre.HasGame && pre.GateN >= 2 && (pre.Status != "table_pausing" || unset) && pre.Status != "table_closed" {
				// the gate has completed and no hand runs: the engine may still be retrying a refused open (every 3 s, for 30 s);
				// a level supplied now can let the next retry through.  Recorded as the update (a step of its own) followed by the
				// engine's own retry, observed from the state the update left.
				post := pre
				post.Blind = b
				bb := b
				c.Steps = append(c.Steps, LStep{Op: "update_blind", Blind: &bb, Pre: pre, Post: post})
				gc0 := pre.GC
				st := step("retry_wait", func(s *LStep) {
					d.te.UpdateBlind(b.Level, b.Ante, b.Dealer, b.SB, b.BB)
					s.Pre.Blind = b
					for w := 0; w < 45 && d.te.GetTable().State.GameCount == gc0; w++ {
						time.Sleep(100 * time.Millisecond)
					}
				})
				if st.Post.GC == gc0 {
					// no hand: the level may be one that cannot be played, or the retries (ten, 3 s apart, counted from the refused
					// open) may have run out - on a slow run they do; which of the two cannot be told, so the step is not used
					c.Steps = c.Steps[:len(c.Steps)-1]
					k = 1000 // nothing further is observed on this table
				}
				continue
			}
			step("update_blind", func(s *LStep) { s.Blind = &b; d.te.UpdateBlind(b.Level, b.Ante, b.Dealer, b.SB, b.BB) })
			continue
		case x < 9:
			step("pause", func(s *LStep) { d.te.PauseTable() })
			if pre.HasGame {
				// PauseTable during a hand freezes it (player actions are refused while the status is not
				// "playing"); nothing further can be observed on this table
				k = 1000
			}
			continue
		case x < 10 && k > 10:
			if r.Chance(1, 2) {
				step("close", func(s *LStep) { d.te.CloseTable() })
			} else {
				step("release", func(s *LStep) { d.te.ReleaseTable() })
			}
			continue
		case x < 12:
			// chips for somebody who busted, through the add-on call (the seat manager learns of it when the next hand ends)
			busted := ""
			for _, p := range d.te.GetTable().State.PlayerStates {
				if p.Bankroll == 0 && p.IsIn {
					busted = p.PlayerID
				}
			}
			if busted == "" {
				continue
			}
			step("reserve", func(s *LStep) {
				d.te.PlayerRedeemChips(pt.JoinPlayer{PlayerID: busted, RedeemChips: int64(50 + r.Intn(300)), Seat: -1})
			})
			continue
		case x < 16 && next < 40:
			id := next
			next++
			step("reserve", func(s *LStep) {
				if d.te.PlayerReserve(pt.JoinPlayer{PlayerID: pid(id), RedeemChips: int64(20 + r.Intn(300)), Seat: -1}) == nil {
					d.JoinAndSettle(pid(id))
				}
			})
			continue
		}
		inHand := pre.Status == "table_game_playing"
		switch {
		case !started:
			started = true
			step("start", func(s *LStep) {
				d.te.StartTableGame()
			})
		case inHand:
			if r.Chance(1, 30) {
				// a blind update from inside the backend's CreateGame cannot be placed here (the hand runs):
				// it is armed for the next open instead
				b := genBlind(r)
				if b.Level > 0 {
					bb := b
					d.be.inCreate = func() { d.te.UpdateBlind(bb.Level, bb.Ante, bb.Dealer, bb.SB, bb.BB); d.be.inCreate = nil }
					c.Steps = append(c.Steps, LStep{Op: "arm_update_inside_create_game", InCreate: &bb, Pre: pre, Post: pre})
				}
			}
			if c.ContInterval == 0 {
				step("play", func(s *LStep) {
					if injectSetupAtSettlement && setupRNG.Chance(1, 6) {
						// should the hand be settled in this step: from inside the settlement notification the next hand is set up by an
						// outside caller and everybody signals at once, and the listener takes its time - the gate completes while the
						// table is still in the settled status; no hand may open before this one has been put away
						var once sync.Once
						d.tap = func(t *pt.Table) {
							if t.State.Status != pt.TableStateStatus_TableGameSettled {
								return
							}
							once.Do(func() {
								parts := map[string]int{}
								i := 0
								for _, p := range t.State.PlayerStates {
									if p.Bankroll > 0 && p.IsIn {
										parts[p.PlayerID] = i
										i++
									}
								}
								alive := 0
								for _, p := range t.State.PlayerStates {
									if p.Bankroll > 0 {
										alive++
									}
								}
								// (only when the table will deal on: a table that pauses keeps the outside set-up, which is another story)
								if len(parts) >= 2 && alive >= t.Meta.TableMinPlayerCount && t.State.BlindState.Level != -1 {
									d.te.SetUpTableGame(t.State.GameCount+1, parts)
									for id := range parts {
										d.te.PlayerSettlementFinish(id)
									}
									time.Sleep(700 * time.Millisecond)
								}
							})
						}
					}
					d.Advance(pol)
					d.tap = nil
				})
			} else {
				// the decision "pause or deal on" is taken only when the continue interval has elapsed: whatever happens
				// inside the interval (a re-buy, a newcomer, a blind update, also to a break) must be taken into account
				var inj *TBlind
				gc0 := pre.GC
				choice := r.Intn(4)
				bnew := genBlind(r)
				delay := time.Duration(50+r.Intn(300)) * time.Millisecond
				var injWG sync.WaitGroup
				var once sync.Once
				closedHere := false
				st := step("play", func(s *LStep) {
					// the injection is released by the settlement notification itself, so that it falls inside the interval
					d.tap = func(t *pt.Table) {
						if t.State.Status != pt.TableStateStatus_TableGameSettled {
							return
						}
						once.Do(func() {
							closedHere = true
							injWG.Add(1)
							go func() {
								defer injWG.Done()
								time.Sleep(delay)
								switch choice {
								case 0:
									inj = &bnew
									d.te.UpdateBlind(bnew.Level, bnew.Ante, bnew.Dealer, bnew.SB, bnew.BB)
								case 1:
									for _, p := range d.te.GetTable().State.PlayerStates {
										if p.Bankroll == 0 {
											d.te.PlayerReserve(pt.JoinPlayer{PlayerID: p.PlayerID, RedeemChips: int64(50 + r.Intn(300)), Seat: -1})
											break
										}
									}
								case 2:
									if next < 40 {
										id := next
										next++
										if d.te.PlayerReserve(pt.JoinPlayer{PlayerID: pid(id), RedeemChips: int64(20 + r.Intn(300)), Seat: -1}) == nil {
											d.JoinAndSettle(pid(id))
										}
									}
								}
							}()
						})
					}
					d.Advance(pol)
					d.tap = nil
					if !closedHere {
						return
					}
					injWG.Wait()
					// wait for the continue handler: the table pauses, or the gate is set up for the next hand
					for w := 0; w < 60; w++ {
						tt := d.te.GetTable()
						o := pt.VerifOpenGameManager(d.te).GetState()
						if tt.State.Status == pt.TableStateStatus_TablePausing || tt.State.Status == pt.TableStateStatus_TableClosed ||
							(o.GameCount == gc0+1 && len(o.Participants) > 0) || tt.State.GameCount > gc0 {
							break
						}
						time.Sleep(50 * time.Millisecond)
					}
				})
				if inj != nil {
					// recorded as: the level changed (a step of its own), then the hand closed and the decision was taken
					k := len(c.Steps) - 1
					upd := LStep{Op: "update_blind", Blind: inj, Pre: st.Pre, Post: st.Pre}
					upd.Post.Blind = *inj
					c.Steps[k].Pre.Blind = *inj
					c.Steps = append(c.Steps[:k], append([]LStep{upd}, c.Steps[k:]...)...)
				}
			}
		case pre.Status == "table_game_standby" || pre.Status == "table_pausing" || pre.Status == "table_created" || pre.Status == "table_balancing" || pre.Status == "table_closed":
			if pre.GateN > 0 && !pre.GateReady && (pre.GateCount == pre.GC+1 || pre.GC == 0) {
				if r.Chance(1, 7) {
					step("timeout", func(s *LStep) {}) // nobody signals: the gate's own timeout (2 s) must do it
				} else {
					step("finish", func(s *LStep) {
						o := pt.VerifOpenGameManager(d.te)
						for id, p := range o.GetState().Participants {
							if !p.IsReady {
								d.te.PlayerSettlementFinish(id)
							}
						}
					})
				}
			} else if pre.Status == "table_pausing" && !pre.Released && pre.LiveIn >= 2 {
				// the competition layer resumes a paused table by setting the next hand up
				step("setup", func(s *LStep) {
					parts := map[string]int{}
					i := 0
					for _, p := range d.te.GetTable().State.PlayerStates {
						if p.Bankroll > 0 && p.IsIn {
							parts[p.PlayerID] = i
							i++
						}
					}
					s.SetupN = len(parts)
					d.te.SetUpTableGame(d.te.GetTable().State.GameCount+1, parts)
				})
			} else {
				k = 1000 // nothing can happen any more
			}
		default:
			k = 1000
		}
		if len(c.Steps) > 0 && c.Steps[len(c.Steps)-1].Wedged && c.Steps[len(c.Steps)-1].Op != "timeout" {
			break
		}
	}
}

func genLife(root *RNG, i int, seed uint64, mode string) LCase {
	r := root.Fork(uint64(i))
	c := LCase{Index: i, Seed: seed*1000211 + uint64(i), Max: 2 + r.Intn(7), Mode: "ct", Min: 2}
	if r.Chance(1, 3) {
		c.Mode = "mtt"
	}
	if r.Chance(1, 4) && c.Max > 2 {
		c.Min = 3
	}
	c.Init = genBlind(r)
	c.JoinAtCreate = r.Chance(1, 3)
	if mode == "interval" || r.Chance(1, 4) {
		c.ContInterval = 1
	}
	if mode == "create" {
		// nothing but CreateTable, over every combination of mode / players handed over at creation / kind of level
		c.Mode = []string{"ct", "mtt", "cash"}[i%3]
		c.JoinAtCreate = (i/3)%2 == 1
		switch (i / 6) % 3 {
		case 0:
			c.Init.Level = -1
		case 1:
			c.Init = TBlind{Level: 0, Ante: -1, Dealer: -1, SB: -1, BB: -1}
		}
		c.Directed = "create_only"
		return c
	}
	if mode == "bust_arrival" {
		// heads-up, one of the two busts in the first hand while newcomers have sat down during it: the table must deal on
		c.Directed = "bust_arrival"
		c.Mode, c.Min, c.JoinAtCreate = "ct", 2, false
		c.Max = 3 + r.Intn(7)
		c.Init = TBlind{Level: 1, Ante: int64(r.Intn(2) * 5), Dealer: 0, SB: 10, BB: 20}
		return c
	}
	if mode == "late_join" {
		c.Directed = "late_join"
		c.Mode, c.Min, c.JoinAtCreate, c.ContInterval = "ct", 2, false, 0
		c.Max = 2 // two seats, two players: until the second has sat in nobody can be dealt in
		c.Init = TBlind{Level: 1, Ante: 0, Dealer: 0, SB: 10, BB: 20}
		return c
	}
	if mode == "late_level" || r.Chance(1, 12) {
		c.Directed = "late_level"
	}
	if c.Directed == "late_level" || r.Chance(1, 7) {
		c.Init = TBlind{Level: 0, Ante: -1, Dealer: -1, SB: -1, BB: -1} // blinds not set yet
		if r.Chance(1, 2) {
			// ... or only partly: each field alone can be the one still missing
			c.Init = TBlind{Level: 1, Ante: 0, Dealer: 0, SB: 10, BB: 20}
			switch r.Intn(5) {
			case 0:
				c.Init.Level = 0
			case 1:
				c.Init.Ante = -1
			case 2:
				c.Init.Dealer = -1
			case 3:
				c.Init.SB = -1
			default:
				c.Init.BB = -1
			}
		}
	}
	if c.Directed == "" && mode == "" && NewRNG(seed*7919+uint64(i)).Chance(1, 5) { // (a stream of its own)
		c.Rule = "short_deck"
		c.Init = shortDeckBlind(c.Init)
	}
	return c
}

// ---- Gallina ----

func coqBlind(b TBlind) string {
	return fmt.Sprintf("(mkb %s %s %s %s %s)", coqZi(b.Level), coqZi(int(b.Ante)), coqZi(int(b.Dealer)), coqZi(int(b.SB)), coqZi(int(b.BB)))
}

func (o LObs) Coq() string {
	gb := "None"
	if o.GameBlind != nil {
		gb = "(Some " + coqBlind(*o.GameBlind) + ")"
	}
	return fmt.Sprintf("(mklo %v %s %s %v %d %s %s %s %v %d %d %v %v %s %d %v)", o.Src == "event", coqStatus(o.Status), coqZi(o.GC), o.HasGame, o.GameID,
		coqBlind(o.Blind), gb, coqBlind(TBlind{0, o.MetaAnte, o.MetaD, o.MetaSB, o.MetaBB}), o.HandEmpty, o.Alive, o.LiveIn, o.Released, o.Started, coqZi(o.GateCount), o.GateN, o.GateReady)
}

func (s LStep) Coq() string {
	op := "LPlay"
	switch s.Op {
	case "start":
		op = "LStart"
	case "finish":
		op = "LFinish"
	case "timeout":
		op = "LTimeout"
	case "retry_wait":
		op = "LRetry"
	case "update_blind":
		op = "(LUpdateBlind " + coqBlind(*s.Blind) + ")"
	case "pause":
		op = "LPause"
	case "close":
		op = "LClose"
	case "release":
		op = "LRelease"
	case "setup":
		op = fmt.Sprintf("(LSetup %d)", s.SetupN)
	case "reserve":
		op = "LMember"
	case "arm_update_inside_create_game":
		op = "(LArm " + coqBlind(*s.InCreate) + ")"
	}
	evs := make([]string, len(s.Events))
	for i, e := range s.Events {
		evs[i] = e.Coq()
	}
	return fmt.Sprintf("mkls %s %s [%s] %s %v %v %s", op, s.Pre.Coq(), strings.Join(evs, "; "), s.Post.Coq(), s.Closed, s.Wedged,
		coqBlind(TBlind{0, s.OptAnte, s.OptD, s.OptSB, s.OptBB}))
}

func (c LCase) Coq() string {
	xs := make([]string, len(c.Steps))
	for i, s := range c.Steps {
		xs[i] = s.Coq()
	}
	created := "None"
	if c.Created != "" {
		created = "(Some " + coqStatus(c.Created) + ")"
	}
	return fmt.Sprintf("mklc %d %s %v %s [%s]", c.Min, coqBlind(c.Init), c.JoinAtCreate && c.Mode == "mtt", created, strings.Join(xs, ";\n    "))
}

func runLife(opt Opts) error {
	var cases []LCase
	if opt.Replay != "" {
		data, err := os.ReadFile(opt.Replay)
		if err != nil {
			return err
		}
		if err := json.Unmarshal(data, &cases); err != nil {
			return err
		}
		for i := range cases {
			cases[i].Steps = nil
			cases[i].Note = ""
		}
	} else {
		root := NewRNG(opt.Seed)
		for i := 0; i < opt.N; i++ {
			cases = append(cases, genLife(root, i, opt.Seed, opt.Mode))
		}
	}
	if ij, err := json.Marshal(cases); err == nil {
		os.MkdirAll(opt.Out, 0o755)
		os.WriteFile(opt.Out+"/inputs.json", ij, 0o644)
	}
	var wg sync.WaitGroup
	sem := make(chan struct{}, 24)
	for i := range cases {
		wg.Add(1)
		sem <- struct{}{}
		go func(c *LCase) {
			defer wg.Done()
			defer func() { <-sem }()
			done := make(chan bool, 1)
			cp := *c
			go func() { runLifeCase(&cp); done <- true }()
			select {
			case <-done:
				*c = cp
			case <-time.After(150 * time.Second):
				c.Note = "hung"
			}
		}(&cases[i])
	}
	wg.Wait()
	return writeCases(opt.Out, "Life_run", cases, func(i int) string { return cases[i].Coq() }, len(cases))
}

package main

import (
	"crypto/sha1"
	"encoding/json"
	"fmt"
	"os"
	"sort"
	"strings"
	"sync"
	"sync/atomic"
	"time"

	"github.com/weedbox/pokerface"
	pt "github.com/weedbox/pokertable"
)

// In-hand behaviour (C10, C13, C14, C15, C11): hands are played action by action; before the
// legal action of a step a batch of ILLEGAL attempts may be submitted (out of turn, wrong kind,
// not dealt in, stranger, no hand); chosen backend calls are made to fail.  Every attempt is one
// observation: table before, call, result, table after, events, backend calls, clock.

type HEntry struct {
	ID      int      `json:"id"` // player id of this hand entry (through GamePlayerIndexes)
	Allowed []string `json:"allowed"`
	Acted   bool     `json:"acted"`
	Did     string   `json:"did"`
	Fold    bool     `json:"fold"`
	Stack   int64    `json:"stack"`
	Init    int64    `json:"init_stack"`
	Wager   int64    `json:"wager"`
	Pos     []string `json:"pos"`
}

type HStat struct {
	ID     int    `json:"id"`
	Action int    `json:"action_times"`
	Raise  int    `json:"raise_times"`
	Call   int    `json:"call_times"`
	Check  int    `json:"check_times"`
	Fold   bool   `json:"is_fold"`
	FoldR  string `json:"fold_round"`
	Flags  []bool `json:"flags"` // vpipC vpip pfrC pfr atsC ats 3bC 3b ft3bC ft3b crC cr cbC cb ftcbC ftcb sdC sd
}

type HLast struct {
	ID     int    `json:"id"`
	Seat   int    `json:"seat"`
	Action string `json:"action"`
	Round  string `json:"round"`
	GameID int    `json:"game_id"`
	GC     int    `json:"gc"`
	Chips  int64  `json:"chips"`
}

type HSnap struct {
	Status  string   `json:"status"`
	GC      int      `json:"gc"`
	GameID  int      `json:"game_id"`
	Event   string   `json:"event"`
	Round   string   `json:"round"`
	Cur     int      `json:"cur"`    // hand index of the current player
	Raiser  int      `json:"raiser"` // as the hand wrapper holds it
	WRound  string   `json:"wrapper_round"`
	CurW    int64    `json:"cur_wager"`
	MiniBet int64    `json:"mini_bet"`
	PrevR   int64    `json:"prev_raise"`
	Entries []HEntry `json:"entries"`
	EndAt   int64    `json:"end_at"`
	Last    *HLast   `json:"last"`
	Stats   []HStat  `json:"stats"`
	Hash    int      `json:"hash"`      // interned hash of the complete table JSON
	HandH   int      `json:"hand_hash"` // interned hash of the hand state JSON (game wrapper's copy)
	Group   []int    `json:"group"`     // hand ready group: hand indexes still awaited
	GroupN  int      `json:"group_n"`
	Ante    int64    `json:"ante"`
	BlindD  int64    `json:"blind_dealer"`
	BlindSB int64    `json:"blind_sb"`
	BlindBB int64    `json:"blind_bb"`
}

type HCall struct {
	Player   int    `json:"player"`
	Action   string `json:"action"`
	Chips    int64  `json:"chips"`
	Why      string `json:"why"` // turn | out_of_turn | wrong_kind | not_dealt_in | stranger | no_hand | group (ready/pay)
	FailBE   bool   `json:"fail_backend"`
	FailAuto string `json:"fail_auto,omitempty"` // the engine's own next backend call of this kind fails
}

type HAct struct {
	ID     int    `json:"id"`
	Seat   int    `json:"seat"`
	Action string `json:"action"`
	Round  string `json:"round"`
	GameID int    `json:"game_id"`
	GC     int    `json:"gc"`
	Chips  int64  `json:"chips"`
}

type HStep struct {
	Call    HCall    `json:"call"`
	Pre     HSnap    `json:"pre"`
	ErrText string   `json:"err,omitempty"`
	Ok      bool     `json:"ok"`
	Post    HSnap    `json:"post"`  // right after the call returned (before the engine's reaction is awaited)
	Quiet   HSnap    `json:"quiet"` // at the next quiescent point
	Acts    []HAct   `json:"action_events"`
	Errs    int      `json:"error_events"`
	BE      []string `json:"backend_calls"` // kind or kind! (failed)
	Now0    int64    `json:"now_before"`
	Now1    int64    `json:"now_after"`
	Now2    int64    `json:"now_quiet"`
	Seen    []string `json:"events_seen"`   // hand events delivered up to the quiescent point
	SeenEnd []int64  `json:"events_end_at"` // the deadline published with each of them
	Settle  []HStat  `json:"settle_stats,omitempty"`
	Closed  bool     `json:"hand_closed"`
	Wedged  bool     `json:"wedged"`
	Panic   bool     `json:"panicked,omitempty"`           // the API call panicked (recovered by the harness)
	ExtInj  bool     `json:"extension_injected,omitempty"` // a deadline extension was served inside the engine's Next step of this attempt
	Ret     int64    `json:"returned,omitempty"`           // value returned by a deadline extension
	ResultN int      `json:"result_entries"`               // at settlement: entries of the hand's result
	HandN   int      `json:"hand_participants"`            // at settlement: participants of the hand
}

type HTwin struct {
	Final [][2]int64 `json:"final_bankrolls"`
}

type HCase struct {
	Twin         *HTwin     `json:"twin,omitempty"` // the same history without injected backend failures
	Index        int        `json:"index"`
	Seed         uint64     `json:"seed"`
	Max          int        `json:"max"`
	N            int        `json:"players"`
	Ante         int64      `json:"ante"`
	Dealer       int64      `json:"dealer_blind"`
	SB           int64      `json:"sb"`
	BB           int64      `json:"bb"`
	ActionTime   int        `json:"action_time"`
	FaultPct     int        `json:"fault_pct"`
	AutoFault    string     `json:"auto_fault,omitempty"` // kind of the engine's own step that fails (ends the history)
	AutoAt       int        `json:"auto_at,omitempty"`    // ... at its k-th opportunity
	FirstDealer  int        `json:"first_dealer,omitempty"`
	WantDealer   int        `json:"-"`
	Withhold     bool       `json:"withhold,omitempty"`              // one participant never answers one request: the 17 s timeout must move the hand on
	Started      bool       `json:"started_backend,omitempty"`       // the backend names the betting event "Started"
	LeavePct     int        `json:"bystander_leave_pct,omitempty"`   // chance per step that the seated, never-joined player leaves mid-hand
	PartLeavePct int        `json:"participant_leave_pct,omitempty"` // chance per step that a dealt-in player leaves mid-hand (ends the history)
	SlowPct      int        `json:"slow_listener_pct,omitempty"`     // chance that the action listener takes 150 ms (it runs under the engine lock, before the statistics are written)
	WithholdAt   string     `json:"withhold_at,omitempty"`           // ready | ante | blinds
	StateOnFail  bool       `json:"state_with_error,omitempty"`      // an injected backend failure returns the state the engine computed together with the error (a lost reply)
	LateExtPct   int        `json:"late_extend_pct,omitempty"`       // chance that a deadline extension is served right after a betting round closed (inside Next)
	PausePct     int        `json:"pause_pct,omitempty"`             // chance of letting 1.1 s pass before a legal action
	IllegalPct   int        `json:"illegal_pct"`
	ExtendPct    int        `json:"extend_pct"`
	Hands        int        `json:"hands"`
	Steps        []HStep    `json:"steps"`
	Final        [][2]int64 `json:"final_bankrolls"`
	Note         string     `json:"note,omitempty"`
}

type handRun struct {
	injected *int32
	d        *Drv
	gids     map[string]int
	hashes   map[string]int
}

func (hr *handRun) intern(m map[string]int, s string) int {
	if v, ok := m[s]; ok {
		return v
	}
	m[s] = len(m) + 1
	return m[s]
}

var flagNames = 18

func (hr *handRun) snap() HSnap {
	d := hr.d
	t := d.te.GetTable()
	st := t.State
	s := HSnap{Status: string(st.Status), GC: st.GameCount, Cur: -1, Raiser: -1, EndAt: st.CurrentActionEndAt}
	js, _ := t.GetJSON()
	h := sha1.Sum([]byte(js))
	s.Hash = hr.intern(hr.hashes, string(h[:]))
	if g := d.te.GetGame(); g != nil && g.GetGameState() != nil {
		s.Raiser, s.WRound = g.GetGameState().Status.CurrentRaiser, g.GetGameState().Status.Round
		gj, _ := json.Marshal(g.GetGameState())
		gh := sha1.Sum(gj)
		s.HandH = hr.intern(hr.hashes, "g"+string(gh[:]))
	}
	idOfIdx := func(gp int) int {
		if gp >= 0 && gp < len(st.GamePlayerIndexes) {
			pi := st.GamePlayerIndexes[gp]
			if pi >= 0 && pi < len(st.PlayerStates) {
				return idOf(st.PlayerStates[pi].PlayerID)
			}
		}
		return 997
	}
	if gs := st.GameState; gs != nil {
		s.GameID = hr.intern(hr.gids, gs.GameID)
		s.Event, s.Round = gs.Status.CurrentEvent, gs.Status.Round
		s.Cur = gs.Status.CurrentPlayer
		s.CurW, s.MiniBet, s.PrevR = gs.Status.CurrentWager, gs.Status.MiniBet, gs.Status.PreviousRaiseSize
		s.Ante, s.BlindD, s.BlindSB, s.BlindBB = gs.Meta.Ante, gs.Meta.Blind.Dealer, gs.Meta.Blind.SB, gs.Meta.Blind.BB
		for gp, p := range gs.Players {
			s.Entries = append(s.Entries, HEntry{ID: idOfIdx(gp), Allowed: append([]string{}, p.AllowedActions...), Acted: p.Acted, Did: p.DidAction,
				Fold: p.Fold, Stack: p.StackSize, Init: p.InitialStackSize, Wager: p.Wager, Pos: append([]string{}, p.Positions...)})
		}
	}
	if la := st.LastPlayerGameAction; la != nil {
		s.Last = &HLast{ID: idOf(la.PlayerID), Seat: la.Seat, Action: la.Action, Round: la.Round, GameID: hr.intern(hr.gids, la.GameID), GC: la.GameCount, Chips: la.Chips}
		if la.GameID == "" {
			s.Last.GameID = 0
		}
	}
	for _, p := range st.PlayerStates {
		s.Stats = append(s.Stats, statOf(p))
	}
	grp := pt.VerifGameGroupStates(d.te)
	s.GroupN = len(grp)
	for k, ready := range grp {
		if !ready {
			s.Group = append(s.Group, int(k))
		}
	}
	sortInts(s.Group)
	return s
}

func statOf(p *pt.TablePlayerState) HStat {
	g := p.GameStatistics
	return HStat{ID: idOf(p.PlayerID), Action: g.ActionTimes, Raise: g.RaiseTimes, Call: g.CallTimes, Check: g.CheckTimes,
		Fold: g.IsFold, FoldR: g.FoldRound,
		Flags: []bool{g.IsVPIPChance, g.IsVPIP, g.IsPFRChance, g.IsPFR, g.IsATSChance, g.IsATS, g.Is3BChance, g.Is3B, g.IsFt3BChance, g.IsFt3B,
			g.IsCheckRaiseChance, g.IsCheckRaise, g.IsCBetChance, g.IsCBet, g.IsFtCBChance, g.IsFtCB, g.ShowdownWinningChance, g.IsShowdownWinning}}
}

func sortInts(xs []int) {
	for i := 1; i < len(xs); i++ {
		for j := i; j > 0 && xs[j] < xs[j-1]; j-- {
			xs[j], xs[j-1] = xs[j-1], xs[j]
		}
	}
}

func (hr *handRun) doCall(c HCall) error {
	te := hr.d.te
	id := pid(c.Player)
	switch c.Action {
	case "ready":
		return te.PlayerReady(id)
	case "pay":
		return te.PlayerPay(id, c.Chips)
	case "pass":
		return te.PlayerPass(id)
	case "fold":
		return te.PlayerFold(id)
	case "check":
		return te.PlayerCheck(id)
	case "call":
		return te.PlayerCall(id)
	case "allin":
		return te.PlayerAllin(id)
	case "bet":
		return te.PlayerBet(id, c.Chips)
	case "raise":
		return te.PlayerRaise(id, c.Chips)
	}
	return fmt.Errorf("unknown action")
}

func (hr *handRun) extend(c *HCase, player int, secs int) *HStep {
	d := hr.d
	s := HStep{Call: HCall{Player: player, Action: "extend", Chips: int64(secs), Why: "turn"}, Pre: hr.snap()}
	d.takeEvents()
	s.Now0 = time.Now().Unix()
	ret, err := d.te.PlayerExtendActionDeadline(pid(player), secs)
	s.Now1 = time.Now().Unix()
	s.Ok, s.Ret = err == nil, ret
	s.Post = hr.snap()
	d.Quiesce(quiesceLimit)
	s.Quiet = hr.snap()
	s.Now2 = time.Now().Unix()
	d.takeEvents()
	c.Steps = append(c.Steps, s)
	return &c.Steps[len(c.Steps)-1]
}

// The ready group registers an answer asynchronously (syncsaga pushes it through a channel) and
// runs its completion in yet another goroutine: wait until the answer is visible and, if it was
// the last one awaited, until the engine's own step has been made.
func (hr *handRun) awaitGroup(s *HStep) {
	d := hr.d
	gp := -1
	for i, e := range s.Pre.Entries {
		if e.ID == s.Call.Player {
			gp = i
		}
	}
	moved := func() bool {
		g := d.te.GetTable().State.GameState
		return g == nil || g.Status.CurrentEvent != s.Pre.Event || d.te.GetTable().State.Status != pt.TableStateStatus_TableGamePlaying
	}
	failed := func() bool {
		d.be.mu.Lock()
		defer d.be.mu.Unlock()
		n := len(d.be.calls)
		return n > 0 && d.be.calls[n-1].Err
	}
	for w := 0; w < 600; w++ {
		if moved() || failed() {
			return
		}
		grp := pt.VerifGameGroupStates(d.te)
		if ready, ok := grp[int64(gp)]; ok && ready {
			all := true
			for _, r := range grp {
				all = all && r
			}
			if !all {
				return
			}
		}
		time.Sleep(5 * time.Millisecond)
	}
}

func idxOfPlayer(gs *pokerface.GameState, d *Drv, player int) int {
	for gp := range gs.Players {
		if idOf(d.playerIDAt(gp)) == player {
			return gp
		}
	}
	return -1
}

// everybody but the first of calls answers; the hand must stay where it is until the response timeout
// (17 s) moves it on by itself
func (hr *handRun) withhold(c *HCase, calls []HCall, event string) {
	d := hr.d
	if len(calls) == 0 {
		return
	}
	for _, call := range calls[1:] {
		hr.attempt(c, call, true)
	}
	w := calls[0]
	// the one who owes the answer sends a signal of the other kind instead (a stray "ready" at a payment request, a stray
	// payment at the readiness request): it is not what was asked, the hand must go on waiting
	stray := HCall{Player: w.Player, Action: "ready", Why: "wrong_kind"}
	if w.Action == "ready" {
		stray = HCall{Player: w.Player, Action: "pay", Chips: 10, Why: "wrong_kind"}
	}
	hr.attempt(c, stray, true)
	w.Why = "withheld"
	s := HStep{Call: w, Pre: hr.snap()}
	d.takeEvents()
	d.be.mu.Lock()
	nbe := len(d.be.calls)
	d.be.mu.Unlock()
	s.Now0 = time.Now().Unix()
	s.Post = hr.snap()
	for k := 0; k < 230; k++ {
		time.Sleep(100 * time.Millisecond)
		if g := d.te.GetTable().State.GameState; g == nil || g.Status.CurrentEvent != event {
			break
		}
	}
	d.Quiesce(quiesceLimit)
	s.Now1 = time.Now().Unix()
	s.Now2 = s.Now1
	s.Quiet = hr.snap()
	for _, ev := range d.takeEvents() {
		if ev.Kind == "updated" && ev.Event != "" {
			s.Seen = append(s.Seen, ev.Event)
			s.SeenEnd = append(s.SeenEnd, ev.Abs.EndAt)
		}
	}
	d.be.mu.Lock()
	for _, bc := range d.be.calls[nbe:] {
		k := bc.Kind
		if bc.Err {
			k += "!"
		}
		s.BE = append(s.BE, k)
	}
	d.be.mu.Unlock()
	c.Steps = append(c.Steps, s)
	if s.Quiet.Event == event {
		c.Note = "stuck after a withheld answer"
	}
}

// a bystander (seated, never joined, not dealt in) leaves the table while the hand runs: nothing about the hand may change
func (hr *handRun) bystanderLeaves(c *HCase, id int) *HStep {
	d := hr.d
	s := HStep{Call: HCall{Player: id, Action: "leave", Why: "bystander"}, Pre: hr.snap()}
	d.takeEvents()
	s.Now0 = time.Now().Unix()
	var err error
	func() {
		defer func() {
			if rec := recover(); rec != nil {
				err = fmt.Errorf("panic: %v", rec)
				s.Panic = true
			}
		}()
		err = d.te.PlayersLeave([]string{pid(id)})
	}()
	s.Now1 = time.Now().Unix()
	s.Ok = err == nil
	if err != nil {
		s.ErrText = err.Error()
	}
	s.Post = hr.snap()
	d.Quiesce(quiesceLimit)
	s.Quiet = hr.snap()
	s.Now2 = time.Now().Unix()
	d.takeEvents()
	c.Steps = append(c.Steps, s)
	return &c.Steps[len(c.Steps)-1]
}

// one attempt = one observation
func (hr *handRun) attempt(c *HCase, call HCall, await bool) *HStep {
	d := hr.d
	s := HStep{Call: call, Pre: hr.snap()}
	d.takeEvents()
	d.be.mu.Lock()
	nbe := len(d.be.calls)
	if call.FailBE {
		d.be.failAt[nbe] = true
	}
	if call.FailAuto != "" {
		d.be.failKind = call.FailAuto
	}
	d.be.mu.Unlock()
	s.Now0 = time.Now().Unix()
	var err error
	func() {
		defer func() {
			if rec := recover(); rec != nil {
				err = fmt.Errorf("panic: %v", rec)
				s.Panic = true
			}
		}()
		err = hr.doCall(call)
	}()
	s.Now1 = time.Now().Unix()
	s.Ok = err == nil
	if err != nil {
		s.ErrText = err.Error()
	}
	s.Post = hr.snap()
	if err == nil && (call.Action == "ready" || call.Action == "pay") {
		hr.awaitGroup(&s)
	}
	if await {
		if !d.Quiesce(quiesceLimit) {
			s.Wedged = true
		}
	}
	s.Quiet = hr.snap()
	s.Now2 = time.Now().Unix()
	if hr.injected != nil && atomic.SwapInt32(hr.injected, 0) == 1 {
		s.ExtInj = true
	}
	for _, ev := range d.takeEvents() {
		switch ev.Kind {
		case "action":
			a := ev.Action
			gid := 0
			if a.GameID != "" {
				gid = hr.intern(hr.gids, a.GameID)
			}
			s.Acts = append(s.Acts, HAct{ID: idOf(a.PlayerID), Seat: a.Seat, Action: a.Action, Round: a.Round, GameID: gid, GC: a.GameCount, Chips: a.Chips})
		case "error":
			s.Errs++
		case "updated":
			if ev.Event != "" {
				s.Seen = append(s.Seen, ev.Event)
				s.SeenEnd = append(s.SeenEnd, ev.Abs.EndAt)
			}
			if ev.Status == "table_game_settled" {
				s.Closed = true
				if ev.Table != nil {
					if g := ev.Table.State.GameState; g != nil {
						s.HandN = len(g.Players)
						if g.Result != nil {
							s.ResultN = len(g.Result.Players)
						}
					}
					for _, p := range ev.Table.State.PlayerStates {
						s.Settle = append(s.Settle, statOf(p))
					}
				}
			}
		}
	}
	d.be.mu.Lock()
	for _, bc := range d.be.calls[nbe:] {
		k := bc.Kind
		if bc.Err {
			k += "!"
		}
		s.BE = append(s.BE, k)
	}
	delete(d.be.failAt, nbe)
	if d.be.failKind != "Next" { // a failing Next stays armed until a betting round closes
		d.be.failKind = ""
	}
	d.be.mu.Unlock()
	c.Steps = append(c.Steps, s)
	return &c.Steps[len(c.Steps)-1]
}

func runHandCase(c *HCase) {
	r := NewRNG(c.Seed)
	set := mkSetting(fmt.Sprintf("hand-%d", c.Index), "default", "ct", c.Max, 2, c.Ante, c.Dealer, c.SB, c.BB, 1, c.ActionTime)
	var wrap func(pt.GameBackend) pt.GameBackend
	if c.Started {
		wrap = func(b pt.GameBackend) pt.GameBackend { return &startedBackend{inner: b} }
	}
	d, err := NewDrvWith(set, 0, wrap)
	if err != nil {
		c.Note = "create failed"
		return
	}
	d.keepTables = true
	hr := &handRun{d: d, gids: map[string]int{}, hashes: map[string]int{}}
	// a time-bank click that reaches the table just after the action that closed the betting round
	lateRNG := r.Fork(91)
	var injected int32
	d.be.inNext = func() {
		if c.LateExtPct > 0 && lateRNG.Chance(c.LateExtPct, 100) {
			d.te.PlayerExtendActionDeadline(pid(1), 5+lateRNG.Intn(20))
			atomic.StoreInt32(&injected, 1)
		}
	}
	hr.injected = &injected
	if c.SlowPct > 0 {
		slowRNG := r.Fork(93)
		var smu sync.Mutex
		d.slowListener = func(a pt.TablePlayerGameAction) {
			if a.Action == "pay" {
				// payments are published by the collection callbacks outside the engine lock while the hand goes on: a slow
				// listener there outlives a fast hand and the callback then indexes a cleared hand (an engine hazard, DESIGN.md 13.7)
				return
			}
			smu.Lock()
			slow := slowRNG.Chance(c.SlowPct, 100)
			smu.Unlock()
			if slow {
				time.Sleep(150 * time.Millisecond)
			}
		}
	}
	d.be.stateOnFail = c.StateOnFail
	// reproducible decks: replace the shuffled deck of every new hand by a seeded permutation
	deckRNG := r.Fork(77)
	d.be.fixDeck = func(gs *pokerface.GameState) {
		n := len(gs.Meta.Deck)
		sort.Strings(gs.Meta.Deck) // the backend has shuffled it already: start from a canonical order
		perm := deckRNG.Perm(n)
		nd := make([]string, n)
		for i, k := range perm {
			nd[i] = gs.Meta.Deck[k]
		}
		gs.Meta.Deck = nd
	}
	// one player who sits at the table but never joins (not dealt in); reserved FIRST now and then, so that it precedes the
	// participants in the table's player list
	sitOut := 0
	sitFirst := c.N < c.Max && r.Chance(2, 3)
	if sitFirst && r.Chance(1, 2) {
		sitOut = c.N + 1
		d.te.PlayerReserve(pt.JoinPlayer{PlayerID: pid(sitOut), RedeemChips: 500, Seat: c.N})
	}
	for i := 0; i < c.N; i++ {
		chips := int64(40 + r.Intn(600))
		if r.Chance(1, 5) {
			chips = int64(1 + r.Intn(45))
		}
		d.te.PlayerReserve(pt.JoinPlayer{PlayerID: pid(i + 1), RedeemChips: chips, Seat: i})
	}
	// ... or last; one stranger id (99)
	if sitOut == 0 && sitFirst {
		sitOut = c.N + 1
		d.te.PlayerReserve(pt.JoinPlayer{PlayerID: pid(sitOut), RedeemChips: 500, Seat: c.N})
	}
	for i := 0; i < c.N; i++ {
		d.JoinAndSettle(pid(i + 1))
	}
	d.Quiesce(quiesceLimit)
	// an action while no hand is being played
	if r.Chance(1, 2) {
		hr.attempt(c, HCall{Player: 1, Action: "check", Why: "no_hand"}, true)
	}
	if d.StartAndOpenFirst() != "ok" {
		c.Note = "first hand did not open"
		return
	}
	// a seated player who never joined is part of the first set-up and never signals: the gate's own 2 s timeout opens the hand
	for w := 0; w < 40 && d.te.GetTable().State.Status != pt.TableStateStatus_TableGamePlaying; w++ {
		time.Sleep(100 * time.Millisecond)
	}
	d.Quiesce(quiesceLimit)
	// the first dealer is drawn by the seat manager (math/rand): a twin run is only comparable when it drew the same one
	dealer := 0
	if g := d.te.GetTable().State.GameState; g != nil {
		for gp := range g.Players {
			if g.HasPosition(gp, "dealer") {
				dealer = idOf(d.playerIDAt(gp))
			}
		}
	}
	if c.WantDealer != 0 && dealer != c.WantDealer {
		c.Note = "dealer-mismatch"
		return
	}
	c.FirstDealer = dealer
	pol := &Policy{R: r.Fork(9), FoldPct: 12, AllinPct: 8, RaisePct: 35}
	fr := r.Fork(55) // fault decisions have their own stream: the fault-free twin makes the same other choices
	autoSeen := 0
	withheld := false
	autoNow := func(kind string) string {
		if c.AutoFault != kind {
			return ""
		}
		autoSeen++
		if autoSeen == c.AutoAt {
			return kind
		}
		return ""
	}
	stuck := func(s *HStep) bool {
		for _, b := range s.BE {
			if b == "ReadyForAll!" || b == "PayAnte!" || b == "PayBlinds!" || b == "Next!" {
				c.Note = "auto-fault"
				return true
			}
		}
		return false
	}
	kinds := []string{"fold", "check", "call", "allin", "bet", "raise", "pass", "ready", "pay"}
	ir := NewRNG(c.Seed ^ 0x5bd1e995) // a stream of its own: the other draws of a history stay what they were
	hands := 0
	for step := 0; step < 600 && hands < c.Hands; step++ {
		t := d.te.GetTable()
		st := t.State
		if st.Status == pt.TableStateStatus_TableGameStandby {
			hands = st.GameCount
			if hands >= c.Hands {
				break
			}
			if r.Chance(c.IllegalPct, 100) {
				hr.attempt(c, HCall{Player: 1 + r.Intn(c.N), Action: kinds[r.Intn(7)], Chips: 10, Why: "no_hand"}, true)
			}
			_, res := d.Advance(pol)
			if res != "ok" {
				break
			}
			continue
		}
		if st.Status != pt.TableStateStatus_TableGamePlaying || st.GameState == nil {
			c.Note = "table is " + string(st.Status) + " when a hand should be in progress"
			break
		}
		if sitOut != 0 && c.LeavePct > 0 && r.Chance(c.LeavePct, 100) {
			hr.bystanderLeaves(c, sitOut)
			sitOut = 0
			continue
		}
		if c.PartLeavePct > 0 && r.Chance(c.PartLeavePct, 100) && len(st.GameState.Players) >= 3 {
			// a DEALT-IN player (not the one to act) leaves the table while the hand runs; the history ends here
			gp := r.Intn(len(st.GameState.Players))
			if gp != st.GameState.Status.CurrentPlayer {
				s := hr.bystanderLeaves(c, idOf(d.playerIDAt(gp)))
				s.Call.Why = "participant"
				c.Note = "a participant left mid-hand"
				// the hand's index list no longer matches the hand: letting the hand go on would crash the engine's own
				// goroutines (and this process with them); the hand is frozen instead
				d.be.mu.Lock()
				d.be.failAll = true
				d.be.mu.Unlock()
				break
			}
		}
		gs := st.GameState
		if gs.Status.CurrentEvent == "Started" { // the harness's own choices do not depend on the name
			gs = relabel(gs, "Started", "RoundStarted")
		}
		// illegal attempts first
		if r.Chance(c.IllegalPct, 100) {
			nIllegal := 1 + r.Intn(3)
			for k := 0; k < nIllegal; k++ {
				var call HCall
				switch r.Intn(5) {
				case 0:
					call = HCall{Player: 99, Action: kinds[r.Intn(len(kinds))], Chips: 10, Why: "stranger"}
				case 1:
					if sitOut == 0 {
						continue
					}
					call = HCall{Player: sitOut, Action: kinds[r.Intn(len(kinds))], Chips: 10, Why: "not_dealt_in"}
				case 2, 3:
					// a dealt-in player who is not the one the hand waits for
					gp := r.Intn(len(gs.Players))
					if gs.Status.CurrentEvent == "RoundStarted" && gp == gs.Status.CurrentPlayer {
						continue
					}
					if gs.Status.CurrentEvent != "RoundStarted" && gs.HasAction(gp, "ready") || gs.HasAction(gp, "pay") {
						continue
					}
					call = HCall{Player: idOf(d.playerIDAt(gp)), Action: kinds[r.Intn(7)], Chips: gs.Status.MiniBet, Why: "out_of_turn"}
				default:
					// the right player, an action that is not allowed now
					if gs.Status.CurrentEvent != "RoundStarted" {
						continue
					}
					gp := gs.Status.CurrentPlayer
					p := gs.GetPlayer(gp)
					if p == nil {
						continue
					}
					var cand []string
					for _, k := range kinds {
						if !has(p.AllowedActions, k) {
							cand = append(cand, k)
						}
					}
					if len(cand) == 0 {
						continue
					}
					call = HCall{Player: idOf(d.playerIDAt(gp)), Action: cand[r.Intn(len(cand))], Chips: gs.Status.MiniBet, Why: "wrong_kind"}
				}
				hr.attempt(c, call, true)
			}
			gs = d.te.GetTable().State.GameState
			if gs == nil || d.te.GetTable().State.Status != pt.TableStateStatus_TableGamePlaying {
				continue
			}
			if gs.Status.CurrentEvent == "Started" {
				gs = relabel(gs, "Started", "RoundStarted")
			}
		}
		switch gs.Status.CurrentEvent {
		case "ReadyRequested":
			order := r.Perm(len(gs.Players))
			fa := autoNow("ReadyForAll")
			if c.Withhold && !withheld && c.WithholdAt == "ready" {
				withheld = true
				var calls []HCall
				for _, gp := range order {
					calls = append(calls, HCall{Player: idOf(d.playerIDAt(gp)), Action: "ready", Why: "group"})
				}
				hr.withhold(c, calls, "ReadyRequested")
				continue
			}
			for k, gp := range order {
				call := HCall{Player: idOf(d.playerIDAt(gp)), Action: "ready", Why: "group"}
				if k == len(order)-1 {
					call.FailAuto = fa
				}
				s := hr.attempt(c, call, true)
				if stuck(s) {
					return
				}
				if r.Chance(1, 6) { // a repeated signal
					hr.attempt(c, HCall{Player: s.Call.Player, Action: "ready", Why: "group"}, true)
				}
			}
		case "AnteRequested":
			fa := autoNow("PayAnte")
			order := r.Perm(len(gs.Players))
			if c.Withhold && !withheld && c.WithholdAt == "ante" {
				withheld = true
				var calls []HCall
				for _, gp := range order {
					calls = append(calls, HCall{Player: idOf(d.playerIDAt(gp)), Action: "pay", Chips: gs.Meta.Ante, Why: "group"})
				}
				hr.withhold(c, calls, "AnteRequested")
				continue
			}
			for k, gp := range order {
				call := HCall{Player: idOf(d.playerIDAt(gp)), Action: "pay", Chips: gs.Meta.Ante, Why: "group"}
				if k == len(order)-1 {
					call.FailAuto = fa
				}
				if stuck(hr.attempt(c, call, true)) {
					return
				}
			}
		case "BlindsRequested":
			fa := autoNow("PayBlinds")
			if c.Withhold && !withheld && c.WithholdAt == "blinds" {
				withheld = true
				var calls []HCall
				for _, gp := range r.Perm(len(gs.Players)) {
					if gs.HasAction(gp, "pay") {
						amt := gs.Meta.Blind.Dealer
						if gs.HasPosition(gp, "bb") {
							amt = gs.Meta.Blind.BB
						} else if gs.HasPosition(gp, "sb") {
							amt = gs.Meta.Blind.SB
						}
						calls = append(calls, HCall{Player: idOf(d.playerIDAt(gp)), Action: "pay", Chips: amt, Why: "group"})
					}
				}
				// withhold the highest hand index now and then (the answers are keyed by hand index)
				if len(calls) > 1 && r.Chance(1, 2) {
					hi := 0
					for k := range calls {
						if idxOfPlayer(gs, d, calls[k].Player) > idxOfPlayer(gs, d, calls[hi].Player) {
							hi = k
						}
					}
					calls[0], calls[hi] = calls[hi], calls[0]
				}
				hr.withhold(c, calls, "BlindsRequested")
				continue
			}
			for _, gp := range r.Perm(len(gs.Players)) {
				if !gs.HasAction(gp, "pay") {
					continue
				}
				amt := gs.Meta.Blind.Dealer
				if gs.HasPosition(gp, "bb") {
					amt = gs.Meta.Blind.BB
				} else if gs.HasPosition(gp, "sb") {
					amt = gs.Meta.Blind.SB
				}
				if stuck(hr.attempt(c, HCall{Player: idOf(d.playerIDAt(gp)), Action: "pay", Chips: amt, Why: "group", FailAuto: fa}, true)) {
					return
				}
			}
		case "RoundStarted":
			gp := gs.Status.CurrentPlayer
			p := gs.GetPlayer(gp)
			if p == nil || len(p.AllowedActions) == 0 {
				c.Note = "nobody to act"
				return
			}
			act, chips := pol.choose(gs.Status.CurrentWager, gs.Status.PreviousRaiseSize, gs.Status.MiniBet, p.AllowedActions, p.InitialStackSize, p.StackSize, p.Wager)
			call := HCall{Player: idOf(d.playerIDAt(gp)), Action: act, Chips: chips, Why: "turn"}
			// the player to act first asks for something the hand engine refuses on its merits (a raise that is no raise, a bet below
			// the minimum): the request fails and the hand is as it was
			if c.IllegalPct > 0 && ir.Chance(12, 100) {
				var ms *HStep
				if has(p.AllowedActions, "raise") {
					ms = hr.attempt(c, HCall{Player: call.Player, Action: "raise", Chips: gs.Status.CurrentWager - int64(ir.Intn(2)), Why: "turn"}, true)
				} else if has(p.AllowedActions, "bet") && gs.Status.MiniBet > 1 {
					// (the hand engine takes a bet below the minimum: then that was this turn's action)
					ms = hr.attempt(c, HCall{Player: call.Player, Action: "bet", Chips: 1, Why: "turn"}, true)
				}
				if ms != nil {
					if stuck(ms) {
						return // (the engine's own step after it was made to fail: the history ends here, as after any other action)
					}
					if ms.Wedged {
						c.Note = "wedged"
						return
					}
					if ms.Ok {
						continue
					}
				}
			}
			// the backend may fail this call once, twice, ... ; the same action is then submitted again
			fails := 0
			for fr.Chance(c.FaultPct, 100) && fails < 3 {
				fc := call
				fc.FailBE = true
				hr.attempt(c, fc, true)
				fails++
			}
			// deadline extensions, any number
			for k := 0; k < 3 && fr.Chance(c.ExtendPct, 100); k++ {
				hr.extend(c, call.Player, 1+fr.Intn(40))
			}
			if c.PausePct > 0 && fr.Chance(c.PausePct, 100) {
				time.Sleep(1100 * time.Millisecond)
			}
			call.FailAuto = autoNow("Next") // armed from the k-th turn on: fails the Next that follows the round's last action
			s := hr.attempt(c, call, true)
			if stuck(s) {
				return
			}
			if s.Wedged {
				c.Note = "wedged"
				return
			}
		default:
			c.Note = "unexpected event " + gs.Status.CurrentEvent
			return
		}
	}
	a := d.Abs()
	for _, p := range a.Players {
		c.Final = append(c.Final, [2]int64{int64(p.ID), p.Bankroll})
	}
}

func genHand(root *RNG, i int, seed uint64) HCase {
	r := root.Fork(uint64(i))
	c := HCase{Index: i, Seed: seed*1000303 + uint64(i), Max: 2 + r.Intn(8), SB: 10, BB: 20, ActionTime: 5 + r.Intn(30), Hands: 2 + r.Intn(3),
		FaultPct: 0, IllegalPct: 35}
	c.N = 2 + r.Intn(c.Max-1)
	if c.N > 6 {
		c.N = 6
	}
	if r.Chance(1, 3) {
		c.Ante = int64(1 + r.Intn(5))
	}
	if r.Chance(1, 8) {
		c.SB = 0
	}
	if r.Chance(1, 10) {
		c.Dealer = 5
	}
	c.ExtendPct = []int{0, 10, 30}[r.Intn(3)]
	if r.Chance(1, 4) {
		c.PausePct = 6
	}
	if r.Chance(2, 3) {
		c.LeavePct = 20
	}
	if r.Chance(1, 8) {
		c.PartLeavePct = 6
	}
	if r.Chance(1, 5) {
		c.SlowPct = 30
	}
	if r.Chance(1, 4) {
		c.LateExtPct = 50
	}
	switch r.Intn(4) {
	case 0:
		c.FaultPct = 10 + r.Intn(30)
		c.StateOnFail = r.Chance(1, 2)
	case 1:
		c.AutoFault = []string{"ReadyForAll", "PayAnte", "PayBlinds", "Next"}[r.Intn(4)]
		if c.AutoFault == "PayAnte" && c.Ante == 0 {
			c.Ante = 2
		}
		c.AutoAt = 1 + r.Intn(4)
	}
	return c
}

func runHand(opt Opts) error {
	var cases []HCase
	if opt.Replay != "" {
		data, err := os.ReadFile(opt.Replay)
		if err != nil {
			return err
		}
		if err := json.Unmarshal(data, &cases); err != nil {
			return err
		}
		for i := range cases {
			cases[i].Steps, cases[i].Final, cases[i].Note, cases[i].Twin = nil, nil, "", nil
		}
	} else {
		root := NewRNG(opt.Seed)
		for i := 0; i < opt.N; i++ {
			c := genHand(root, i, opt.Seed)
			if opt.Mode == "started" {
				c.Started, c.FaultPct, c.AutoFault = true, 0, ""
			}
			if opt.Mode == "withhold" {
				c.Withhold, c.Hands, c.FaultPct, c.AutoFault = true, 1, 0, ""
				c.WithholdAt = []string{"ready", "ante", "blinds", "blinds"}[i%4]
				if c.WithholdAt == "ante" && c.Ante == 0 {
					c.Ante = 2
				}
				if c.WithholdAt == "blinds" && c.N < 3 && c.Max >= 3 {
					c.N = 3
				}
			}
			if opt.Mode == "faults" {
				c.FaultPct = 25
				c.IllegalPct = 5
				c.StateOnFail = i%2 == 0
			}
			cases = append(cases, c)
		}
	}
	if ij, err := json.Marshal(cases); err == nil {
		os.MkdirAll(opt.Out, 0o755)
		os.WriteFile(opt.Out+"/inputs.json", ij, 0o644)
	}
	var wg sync.WaitGroup
	sem := make(chan struct{}, 14)
	for i := range cases {
		wg.Add(1)
		sem <- struct{}{}
		go func(c *HCase) {
			defer wg.Done()
			defer func() { <-sem }()
			done := make(chan bool, 1)
			cp := *c
			go func() {
				if cp.FirstDealer != 0 {
					// a replay: the seat manager draws the first dealer itself; repeat until it draws the recorded one
					in := cp
					for try := 0; try < 80; try++ {
						cp = in
						cp.WantDealer = in.FirstDealer
						runHandCase(&cp)
						if cp.Note != "dealer-mismatch" {
							break
						}
					}
				} else {
					runHandCase(&cp)
				}
				if cp.FaultPct > 0 && cp.AutoFault == "" && cp.Note == "" {
					for try := 0; try < 60; try++ {
						tw := cp
						tw.FaultPct, tw.Steps, tw.Final, tw.Twin, tw.WantDealer = 0, nil, nil, nil, cp.FirstDealer
						runHandCase(&tw)
						if tw.Note == "" {
							cp.Twin = &HTwin{Final: tw.Final}
							break
						}
					}
				}
				done <- true
			}()
			select {
			case <-done:
				*c = cp
			case <-time.After(120 * time.Second):
				c.Note = "hung"
			}
		}(&cases[i])
	}
	wg.Wait()
	return writeCases(opt.Out, "Hand_run", cases, func(i int) string { return cases[i].Coq() }, len(cases))
}

var _ = strings.Join

func coqAct(a string) string {
	switch a {
	case "ready":
		return "AReady"
	case "pay":
		return "APay"
	case "pass":
		return "APass"
	case "fold":
		return "AFold"
	case "check":
		return "ACheck"
	case "call":
		return "ACall"
	case "allin":
		return "AAllin"
	case "bet":
		return "ABet"
	case "raise":
		return "ARaise"
	case "extend":
		return "AExtend"
	case "leave":
		return "ALeave"
	}
	return "APass"
}

func coqActs(xs []string) string {
	ys := []string{}
	for _, x := range xs {
		ys = append(ys, coqAct(x))
	}
	return "[" + strings.Join(ys, "; ") + "]"
}

func coqEv(e string) string {
	switch e {
	case "ReadyRequested":
		return "EReady"
	case "AnteRequested":
		return "EAnte"
	case "BlindsRequested":
		return "EBlinds"
	case "RoundStarted", "Started":
		return "ERoundStarted"
	case "RoundClosed":
		return "ERoundClosed"
	case "GameClosed":
		return "EGameClosed"
	case "":
		return "ENone"
	}
	return "EOther"
}

func coqRound(r string) string {
	switch r {
	case "preflop":
		return "RPreflop"
	case "flop":
		return "RFlop"
	case "turn":
		return "RTurn"
	case "river":
		return "RRiver"
	}
	return "RNoRound"
}

func coqBools(xs []bool) string {
	ys := make([]string, len(xs))
	for i, x := range xs {
		ys[i] = fmt.Sprint(x)
	}
	return "[" + strings.Join(ys, "; ") + "]"
}

func (st HStat) Coq() string {
	return fmt.Sprintf("mkst %d %d %d %d %d %v %s %s", st.ID, st.Action, st.Raise, st.Call, st.Check, st.Fold, coqRound(st.FoldR), coqBools(st.Flags))
}

func coqStats(xs []HStat) string {
	ys := make([]string, len(xs))
	for i, x := range xs {
		ys[i] = x.Coq()
	}
	return "[" + strings.Join(ys, "; ") + "]"
}

func (h HSnap) Coq() string {
	es := make([]string, len(h.Entries))
	for i, e := range h.Entries {
		es[i] = fmt.Sprintf("mke %d %s %v %v %s %s %s %v %v %v", e.ID, coqActs(e.Allowed), e.Acted, e.Fold, coqZi(int(e.Stack)), coqZi(int(e.Init)), coqZi(int(e.Wager)),
			has(e.Pos, "sb"), has(e.Pos, "bb"), has(e.Pos, "dealer"))
	}
	last := "None"
	if h.Last != nil {
		last = fmt.Sprintf("(Some (mkl %d %s %s %d %s %s))", h.Last.ID, coqAct(h.Last.Action), coqRound(h.Last.Round), h.Last.GameID, coqZi(h.Last.GC), coqZi(int(h.Last.Chips)))
	}
	return fmt.Sprintf("(mkh %s %s %d %s %s %s %s %s [%s] %s %s %s %d %d %s %d %s %s %s %s)", coqStatus(h.Status), coqZi(h.GC), h.GameID, coqEv(h.Event), coqRound(h.Round),
		coqZi(h.Cur), coqZi(h.Raiser), coqRound(h.WRound), strings.Join(es, "; "), coqZi(int(h.EndAt)), last, coqStats(h.Stats), h.Hash, h.HandH, natList(h.Group), h.GroupN,
		coqZi(int(h.Ante)), coqZi(int(h.BlindD)), coqZi(int(h.BlindSB)), coqZi(int(h.BlindBB)))
}

var beKinds = map[string]int{"ReadyForAll": 1, "PayAnte": 2, "PayBlinds": 3, "Next": 4, "Pay": 5, "Fold": 6, "Check": 7, "Call": 8, "Allin": 9, "Bet": 10, "Raise": 11, "Pass": 12, "CreateGame": 13}

func coqWhy(w string) string {
	switch w {
	case "turn":
		return "WTurn"
	case "out_of_turn":
		return "WOutOfTurn"
	case "wrong_kind":
		return "WWrongKind"
	case "not_dealt_in":
		return "WNotDealtIn"
	case "stranger":
		return "WStranger"
	case "no_hand":
		return "WNoHand"
	case "withheld":
		return "WWithheld"
	case "bystander":
		return "WBystander"
	case "participant":
		return "WParticipant"
	}
	return "WGroup"
}

func (s HStep) Coq() string {
	acts := make([]string, len(s.Acts))
	for i, a := range s.Acts {
		acts[i] = fmt.Sprintf("mkl %d %s %s %d %s %s", a.ID, coqAct(a.Action), coqRound(a.Round), a.GameID, coqZi(a.GC), coqZi(int(a.Chips)))
	}
	be := make([]string, len(s.BE))
	for i, b := range s.BE {
		failed := strings.HasSuffix(b, "!")
		be[i] = fmt.Sprintf("(%d%%nat, %v)", beKinds[strings.TrimSuffix(b, "!")], failed)
	}
	seen := make([]string, len(s.Seen))
	for i, e := range s.Seen {
		seen[i] = fmt.Sprintf("(%s, %s)", coqEv(e), coqZi(int(s.SeenEnd[i])))
	}
	c := s.Call
	return fmt.Sprintf("mkstep (mkcall %d %s %s %s %v) %s %v %s %s [%s] %d [%s] %s %s %s [%s] %v %v %s %s %d %d %v %v", c.Player, coqAct(c.Action), coqZi(int(c.Chips)), coqWhy(c.Why), c.FailBE,
		s.Pre.Coq(), s.Ok, s.Post.Coq(), s.Quiet.Coq(), strings.Join(acts, "; "), s.Errs, strings.Join(be, "; "),
		coqZi(int(s.Now0)), coqZi(int(s.Now1)), coqZi(int(s.Now2)), strings.Join(seen, "; "), s.Closed, s.Wedged, coqStats(s.Settle), coqZi(int(s.Ret)), s.ResultN, s.HandN, s.ExtInj, s.Panic)
}

func coqFinal(xs [][2]int64) string {
	ys := make([]string, len(xs))
	for i, x := range xs {
		ys[i] = fmt.Sprintf("(%d%%nat, %s)", x[0], coqZi(int(x[1])))
	}
	return "[" + strings.Join(ys, "; ") + "]"
}

func (c HCase) Coq() string {
	xs := make([]string, len(c.Steps))
	for i, s := range c.Steps {
		xs[i] = s.Coq()
	}
	tw, has := "[]", false
	if c.Twin != nil {
		tw, has = coqFinal(c.Twin.Final), true
	}
	// the history ended because the hand could not go on although nothing was made to fail and nobody left
	stranded := c.Note == "nobody to act" || c.Note == "wedged" || c.Note == "stuck after a withheld answer" || strings.HasPrefix(c.Note, "unexpected event")
	return fmt.Sprintf("mkcase %s [%s] %s %s %v %v", coqZi(c.ActionTime), strings.Join(xs, ";\n    "), coqFinal(c.Final), tw, has, stranded)
}

package main

import (
	"encoding/json"
	"fmt"
	ogm "github.com/weedbox/pokertable/open_game_manager"
	"sort"
	"sync"
	"sync/atomic"
	"time"

	"github.com/weedbox/pokerface"
	pt "github.com/weedbox/pokertable"
	sm "github.com/weedbox/pokertable/seat_manager"
)

// ---------------------------------------------------------------------------
// Table driver: a real table engine with a recording game backend and callbacks,
// an abstraction function (table JSON + verif hooks -> TAbs) and a state-based
// quiescence wait (no sleeping for "long enough").
// ---------------------------------------------------------------------------

type TPlayer struct {
	ID        int      `json:"id"`
	Seat      int      `json:"seat"`
	In        bool     `json:"in"`
	Part      bool     `json:"part"`
	Bankroll  int64    `json:"bankroll"`
	Positions []string `json:"positions,omitempty"`
}

type TBlind struct {
	Level  int   `json:"level"`
	Ante   int64 `json:"ante"`
	Dealer int64 `json:"dealer"`
	SB     int64 `json:"sb"`
	BB     int64 `json:"bb"`
}

type TAbs struct {
	Status    string    `json:"status"`
	GameCount int       `json:"game_count"`
	SeatMap   []int     `json:"seat_map"`
	Players   []TPlayer `json:"players"`
	GPI       []int     `json:"gpi"`
	Dealer    int       `json:"dealer"`
	SB        int       `json:"sb"`
	BB        int       `json:"bb"`
	EndAt     int64     `json:"end_at"`
	HasGame   bool      `json:"has_game"`
	Event     string    `json:"event,omitempty"`
	Round     string    `json:"round,omitempty"`
	Blind     TBlind    `json:"blind"`
	GameBlind *TBlind   `json:"game_blind,omitempty"`
	SM        SMState   `json:"sm"`
	OGMCount  int       `json:"ogm_count"`
	OGMParts  []C09Part `json:"ogm_parts"`
	Released  bool      `json:"released"`
	StartAt   int64     `json:"start_at"`
	NextBB    []int     `json:"next_bb,omitempty"`
}

func idOf(s string) int {
	var id int
	if _, err := fmt.Sscanf(s, "p%d", &id); err != nil {
		return 999
	}
	return id
}

type backendCall struct {
	Kind  string
	Ord   int
	Err   bool
	Stamp int64 // UpdatedAt of the state the call returned
	In    int64 // UpdatedAt of the state the call was made on
	Cur   int   // player to act in the state the call was made on
}

// recBackend wraps the native backend: logs calls, can fail chosen calls, counts produced states.
type recBackend struct {
	inner       pt.GameBackend
	mu          sync.Mutex
	calls       []backendCall
	inflight    int32
	lastProd    int64                             // UpdatedAt of the last state handed to the table
	failAt      map[int]bool                      // call ordinals that must fail
	failKind    string                            // the next call of this kind must fail (once)
	failAll     bool                              // every further call fails: the hand is frozen (used after a history has ended inside a hand)
	stateOnFail bool                              // a failing call still returns the state the engine computed (a lost reply)
	delay       func()                            // run inside every call (a slow, remote engine)
	onCreate    func(opts *pokerface.GameOptions) // observe the options of CreateGame
	fixDeck     func(gs *pokerface.GameState)     // make the deck reproducible
	inCreate    func()                            // run inside CreateGame (before it returns)
	inNext      func()                            // run inside Next (the engine's own step after a closed betting round)
	settings    []*pokerface.PlayerSetting        // last CreateGame player settings (copied)
	optAnte     int64
	optBlind    pokerface.BlindSetting
}

var errInjected = fmt.Errorf("injected backend failure")

func (b *recBackend) do(kind string, f func() (*pokerface.GameState, error), in ...*pokerface.GameState) (*pokerface.GameState, error) {
	atomic.AddInt32(&b.inflight, 1)
	defer atomic.AddInt32(&b.inflight, -1)
	if b.delay != nil {
		b.delay()
	}
	b.mu.Lock()
	ord := len(b.calls)
	fail := b.failAt[ord] || b.failAll
	if b.failKind != "" && b.failKind == kind {
		fail = true
		b.failKind = ""
	}
	b.mu.Unlock()
	var gs *pokerface.GameState
	var err error
	if fail {
		if b.stateOnFail {
			gs, _ = f()
		}
		err = errInjected
	} else {
		gs, err = f()
	}
	c := backendCall{Kind: kind, Ord: ord, Err: err != nil, Cur: -1}
	if len(in) == 1 && in[0] != nil {
		c.In, c.Cur = in[0].UpdatedAt, in[0].Status.CurrentPlayer
	}
	if err == nil && gs != nil {
		c.Stamp = gs.UpdatedAt
	}
	b.mu.Lock()
	b.calls = append(b.calls, c)
	if err == nil && gs != nil {
		b.lastProd = gs.UpdatedAt
	}
	b.mu.Unlock()
	if err != nil {
		if b.stateOnFail {
			return gs, err
		}
		return nil, err
	}
	return gs, nil
}

func (b *recBackend) CreateGame(opts *pokerface.GameOptions) (*pokerface.GameState, error) {
	b.mu.Lock()
	b.settings = nil
	for _, p := range opts.Players {
		cp := *p
		cp.Positions = append([]string{}, p.Positions...)
		b.settings = append(b.settings, &cp)
	}
	b.optAnte, b.optBlind = opts.Ante, opts.Blind
	b.mu.Unlock()
	if b.onCreate != nil {
		b.onCreate(opts)
	}
	return b.do("CreateGame", func() (*pokerface.GameState, error) {
		gs, err := b.inner.CreateGame(opts)
		if err == nil && b.fixDeck != nil {
			b.fixDeck(gs)
		}
		if err == nil && b.inCreate != nil {
			b.inCreate()
		}
		return gs, err
	})
}
func (b *recBackend) ReadyForAll(gs *pokerface.GameState) (*pokerface.GameState, error) {
	return b.do("ReadyForAll", func() (*pokerface.GameState, error) { return b.inner.ReadyForAll(gs) }, gs)
}
func (b *recBackend) PayAnte(gs *pokerface.GameState) (*pokerface.GameState, error) {
	return b.do("PayAnte", func() (*pokerface.GameState, error) { return b.inner.PayAnte(gs) }, gs)
}
func (b *recBackend) PayBlinds(gs *pokerface.GameState) (*pokerface.GameState, error) {
	return b.do("PayBlinds", func() (*pokerface.GameState, error) { return b.inner.PayBlinds(gs) }, gs)
}
func (b *recBackend) Next(gs *pokerface.GameState) (*pokerface.GameState, error) {
	return b.do("Next", func() (*pokerface.GameState, error) {
		if b.inNext != nil {
			b.inNext()
		}
		return b.inner.Next(gs)
	}, gs)
}
func (b *recBackend) Pay(gs *pokerface.GameState, chips int64) (*pokerface.GameState, error) {
	return b.do("Pay", func() (*pokerface.GameState, error) { return b.inner.Pay(gs, chips) }, gs)
}
func (b *recBackend) Fold(gs *pokerface.GameState) (*pokerface.GameState, error) {
	return b.do("Fold", func() (*pokerface.GameState, error) { return b.inner.Fold(gs) }, gs)
}
func (b *recBackend) Check(gs *pokerface.GameState) (*pokerface.GameState, error) {
	return b.do("Check", func() (*pokerface.GameState, error) { return b.inner.Check(gs) }, gs)
}
func (b *recBackend) Call(gs *pokerface.GameState) (*pokerface.GameState, error) {
	return b.do("Call", func() (*pokerface.GameState, error) { return b.inner.Call(gs) }, gs)
}
func (b *recBackend) Allin(gs *pokerface.GameState) (*pokerface.GameState, error) {
	return b.do("Allin", func() (*pokerface.GameState, error) { return b.inner.Allin(gs) }, gs)
}
func (b *recBackend) Bet(gs *pokerface.GameState, chips int64) (*pokerface.GameState, error) {
	return b.do("Bet", func() (*pokerface.GameState, error) { return b.inner.Bet(gs, chips) }, gs)
}
func (b *recBackend) Raise(gs *pokerface.GameState, chipLevel int64) (*pokerface.GameState, error) {
	return b.do("Raise", func() (*pokerface.GameState, error) { return b.inner.Raise(gs, chipLevel) }, gs)
}
func (b *recBackend) Pass(gs *pokerface.GameState) (*pokerface.GameState, error) {
	return b.do("Pass", func() (*pokerface.GameState, error) { return b.inner.Pass(gs) }, gs)
}

// one notification from the engine, with what matters copied at callback time
type TEvent struct {
	Kind   string                    `json:"kind"` // updated | error | state | action | first_game | auto_end
	Name   string                    `json:"name,omitempty"`
	Status string                    `json:"status,omitempty"`
	Event  string                    `json:"event,omitempty"`
	Stamp  int64                     `json:"-"`
	Abs    *TAbs                     `json:"abs,omitempty"`
	Action *pt.TablePlayerGameAction `json:"action,omitempty"`
	Err    string                    `json:"err,omitempty"`
	Table  *pt.Table                 `json:"-"` // deep copy taken in the callback (only when keepTables)
}

type Drv struct {
	te           pt.TableEngine
	be           *recBackend
	mu           sync.Mutex
	events       []TEvent
	delivered    int64 // UpdatedAt of the last hand state seen in an OnTableUpdated callback
	keepTables   bool
	max          int
	rule         string
	autoSetup    bool            // answer OnReadyOpenFirstTableGame with SetUpTableGame (as the competition layer does)
	tap          func(*pt.Table) // called with the engine's own table on every table update, before anything else
	slowListener func(pt.TablePlayerGameAction)
}

func NewDrv(setting pt.TableSetting, continueInterval int) (*Drv, error) {
	return NewDrvWith(setting, continueInterval, nil)
}

// startedBackend: a game backend that names the betting event "Started" (as the statistics code of the
// table expects, game_statistics.go validateGameStatisticGameState) instead of pokerface v0.1.10's
// "RoundStarted".  GameBackend is the table's documented extension point for other hand engines.
type startedBackend struct{ inner pt.GameBackend }

func relabel(gs *pokerface.GameState, from, to string) *pokerface.GameState {
	if gs == nil {
		return nil
	}
	data, _ := json.Marshal(gs)
	var cp pokerface.GameState
	json.Unmarshal(data, &cp)
	if cp.Status.CurrentEvent == from {
		cp.Status.CurrentEvent = to
	}
	return &cp
}
func (b *startedBackend) out(gs *pokerface.GameState, err error) (*pokerface.GameState, error) {
	return relabel(gs, "RoundStarted", "Started"), err
}
func in(gs *pokerface.GameState) *pokerface.GameState { return relabel(gs, "Started", "RoundStarted") }
func (b *startedBackend) CreateGame(o *pokerface.GameOptions) (*pokerface.GameState, error) {
	return b.out(b.inner.CreateGame(o))
}
func (b *startedBackend) ReadyForAll(gs *pokerface.GameState) (*pokerface.GameState, error) {
	return b.out(b.inner.ReadyForAll(in(gs)))
}
func (b *startedBackend) PayAnte(gs *pokerface.GameState) (*pokerface.GameState, error) {
	return b.out(b.inner.PayAnte(in(gs)))
}
func (b *startedBackend) PayBlinds(gs *pokerface.GameState) (*pokerface.GameState, error) {
	return b.out(b.inner.PayBlinds(in(gs)))
}
func (b *startedBackend) Next(gs *pokerface.GameState) (*pokerface.GameState, error) {
	return b.out(b.inner.Next(in(gs)))
}
func (b *startedBackend) Pay(gs *pokerface.GameState, c int64) (*pokerface.GameState, error) {
	return b.out(b.inner.Pay(in(gs), c))
}
func (b *startedBackend) Fold(gs *pokerface.GameState) (*pokerface.GameState, error) {
	return b.out(b.inner.Fold(in(gs)))
}
func (b *startedBackend) Check(gs *pokerface.GameState) (*pokerface.GameState, error) {
	return b.out(b.inner.Check(in(gs)))
}
func (b *startedBackend) Call(gs *pokerface.GameState) (*pokerface.GameState, error) {
	return b.out(b.inner.Call(in(gs)))
}
func (b *startedBackend) Allin(gs *pokerface.GameState) (*pokerface.GameState, error) {
	return b.out(b.inner.Allin(in(gs)))
}
func (b *startedBackend) Bet(gs *pokerface.GameState, c int64) (*pokerface.GameState, error) {
	return b.out(b.inner.Bet(in(gs), c))
}
func (b *startedBackend) Raise(gs *pokerface.GameState, c int64) (*pokerface.GameState, error) {
	return b.out(b.inner.Raise(in(gs), c))
}
func (b *startedBackend) Pass(gs *pokerface.GameState) (*pokerface.GameState, error) {
	return b.out(b.inner.Pass(in(gs)))
}

func NewDrvWith(setting pt.TableSetting, continueInterval int, wrap func(pt.GameBackend) pt.GameBackend) (*Drv, error) {
	d := &Drv{max: setting.Meta.TableMaxSeatCount, rule: setting.Meta.Rule, autoSetup: true}
	d.be = &recBackend{inner: pt.NewNativeGameBackend(), failAt: map[int]bool{}}
	var be pt.GameBackend = d.be
	if wrap != nil {
		be = wrap(d.be)
	}
	opts := pt.NewTableEngineOptions()
	opts.GameContinueInterval = continueInterval
	d.te = pt.NewTableEngine(opts, pt.WithGameBackend(be))
	d.te.OnTableUpdated(func(t *pt.Table) {
		if tap := d.tap; tap != nil {
			tap(t)
		}
		ev := TEvent{Kind: "updated", Status: string(t.State.Status)}
		if t.State.GameState != nil {
			ev.Event = t.State.GameState.Status.CurrentEvent
			ev.Stamp = t.State.GameState.UpdatedAt
		}
		a := d.absOf(t)
		ev.Abs = &a
		if d.keepTables {
			if c, err := t.Clone(); err == nil {
				ev.Table = c
			}
		}
		d.mu.Lock()
		if ev.Stamp != 0 {
			d.delivered = ev.Stamp
		}
		d.events = append(d.events, ev)
		d.mu.Unlock()
	})
	d.te.OnTableErrorUpdated(func(t *pt.Table, err error) {
		d.mu.Lock()
		d.events = append(d.events, TEvent{Kind: "error", Err: err.Error()})
		d.mu.Unlock()
	})
	d.te.OnTableStateUpdated(func(name string, t *pt.Table) {
		d.mu.Lock()
		d.events = append(d.events, TEvent{Kind: "state", Name: name, Status: string(t.State.Status)})
		d.mu.Unlock()
	})
	d.te.OnGamePlayerActionUpdated(func(a pt.TablePlayerGameAction) {
		if f := d.slowListener; f != nil {
			f(a) // a listener that takes its time (it runs inside the Player<Action> call, under the engine lock)
		}
		cp := a
		cp.Positions = append([]string{}, a.Positions...)
		d.mu.Lock()
		d.events = append(d.events, TEvent{Kind: "action", Action: &cp})
		d.mu.Unlock()
	})
	d.te.OnReadyOpenFirstTableGame(func(comp, tid string, gameCount int, players []*pt.TablePlayerState) {
		d.mu.Lock()
		d.events = append(d.events, TEvent{Kind: "first_game"})
		auto := d.autoSetup
		d.mu.Unlock()
		if auto {
			parts := map[string]int{}
			for idx, p := range players {
				parts[p.PlayerID] = idx
			}
			d.te.SetUpTableGame(gameCount, parts)
		}
	})
	d.te.OnAutoGameOpenEnd(func(comp, tid string) {
		d.mu.Lock()
		d.events = append(d.events, TEvent{Kind: "auto_end"})
		d.mu.Unlock()
	})
	if _, err := d.te.CreateTable(setting); err != nil {
		return d, err
	}
	return d, nil
}

func (d *Drv) absOf(t *pt.Table) TAbs {
	st := t.State
	a := TAbs{Status: string(st.Status), GameCount: st.GameCount, SeatMap: append([]int{}, st.SeatMap...),
		GPI: append([]int{}, st.GamePlayerIndexes...), Dealer: st.CurrentDealerSeat, SB: st.CurrentSBSeat, BB: st.CurrentBBSeat,
		EndAt: st.CurrentActionEndAt, HasGame: st.GameState != nil, StartAt: st.StartAt}
	for _, id := range st.NextBBOrderPlayerIDs {
		a.NextBB = append(a.NextBB, idOf(id))
	}
	if st.GameState != nil {
		a.Event = st.GameState.Status.CurrentEvent
		a.Round = st.GameState.Status.Round
	}
	if st.BlindState != nil {
		a.Blind = TBlind{st.BlindState.Level, st.BlindState.Ante, st.BlindState.Dealer, st.BlindState.SB, st.BlindState.BB}
	}
	if st.GameBlindState != nil {
		a.GameBlind = &TBlind{st.GameBlindState.Level, st.GameBlindState.Ante, st.GameBlindState.Dealer, st.GameBlindState.SB, st.GameBlindState.BB}
	}
	for _, p := range st.PlayerStates {
		a.Players = append(a.Players, TPlayer{ID: idOf(p.PlayerID), Seat: p.Seat, In: p.IsIn, Part: p.IsParticipated,
			Bankroll: p.Bankroll, Positions: append([]string{}, p.Positions...)})
	}
	if a.Players == nil {
		a.Players = []TPlayer{}
	}
	if a.GPI == nil {
		a.GPI = []int{}
	}
	if m := pt.VerifSeatManager(d.te); m != nil {
		a.SM = snapSM(m, d.max, smRule(d.rule))
	}
	if o := pt.VerifOpenGameManager(d.te); o != nil {
		os := o.GetState()
		a.OGMCount = os.GameCount
		a.OGMParts = partsFromState(os)
	}
	a.Released = pt.VerifIsReleased(d.te)
	return a
}

func smRule(r string) string { return r }

// Abs reads the live table; call it only at quiescent points.
func (d *Drv) Abs() TAbs { return d.absOf(d.te.GetTable()) }

func (d *Drv) groupPending(states map[int64]bool) (nonEmpty, allReady bool) {
	if len(states) == 0 {
		return false, false
	}
	for _, r := range states {
		if !r {
			return true, false
		}
	}
	return true, true
}

// Quiesce waits until no internal step of the engine is enabled:
//   - no backend call is executing and every produced hand state has been delivered to the table,
//   - the hand's ready group is not complete-but-unprocessed,
//   - a RoundClosed / GameClosed state is not the current one (they are consumed automatically),
//   - after a hand: the table is in standby with the open-game gate set up for the next count, or pausing / closed.
//
// Returns false if that does not happen within the time limit (the caller reports a wedge).
// slowFactor (-slow N) multiplies the time the table has to look settled before it is believed to be (confirmation runs)
var slowFactor = 1

func (d *Drv) Quiesce(limit time.Duration) bool {
	sf := slowFactor
	if sf > 5 {
		sf = 5
	}
	deadline := time.Now().Add(limit * time.Duration(sf))
	stableFor := 0
	need := 8 * slowFactor
	for {
		if d.stableNow() {
			stableFor++
			// the gate's and the hand's ready groups register an answer a moment after the call returned (syncsaga passes it
			// through a channel): "stable" has to hold for a few milliseconds
			if stableFor >= need {
				return true
			}
		} else {
			stableFor = 0
		}
		if time.Now().After(deadline) {
			return false
		}
		t0 := time.Now()
		time.Sleep(400 * time.Microsecond)
		// a sleep that overshoots by milliseconds means the machine is busy: the engine's goroutines may be waiting for a
		// processor too, so "nothing moved" has to hold for longer before it means "nothing will move"
		if time.Since(t0) > 3*time.Millisecond && need < 50*slowFactor {
			need = 50 * slowFactor
			stableFor = 0
		}
	}
}

func (d *Drv) stableNow() (stable bool) {
	// the engine's structures are read while its goroutines may still be writing them: a torn read
	// simply counts as "not quiescent yet"
	defer func() {
		if r := recover(); r != nil {
			stable = false
		}
	}()
	if atomic.LoadInt32(&d.be.inflight) != 0 {
		return false
	}
	d.be.mu.Lock()
	prod := d.be.lastProd
	d.be.mu.Unlock()
	d.mu.Lock()
	deliv := d.delivered
	d.mu.Unlock()
	t := d.te.GetTable()
	if t == nil || t.State == nil {
		return true
	}
	st := t.State
	inHand := st.Status == pt.TableStateStatus_TableGameOpened || st.Status == pt.TableStateStatus_TableGamePlaying || st.Status == pt.TableStateStatus_TableGameSettled
	if inHand {
		if prod != deliv || pt.VerifGameQueueLen(d.te) != 0 {
			return false
		}
		gs := st.GameState
		if gs == nil || st.Status != pt.TableStateStatus_TableGamePlaying {
			return false // opened / settled are transient
		}
		switch gs.Status.CurrentEvent {
		case "ReadyRequested", "AnteRequested", "BlindsRequested":
			ne, all := d.groupPending(pt.VerifGameGroupStates(d.te))
			if !ne {
				return true // nobody is asked: nothing will ever happen by itself
			}
			return !all
		case "RoundStarted", "Started":
			return true
		default:
			return false
		}
	}
	// between hands: is the open-game gate complete for the hand that comes next (a fire is in flight
	// or the open is being retried)?
	o := pt.VerifOpenGameManager(d.te)
	if o == nil {
		return true
	}
	os := o.GetState()
	forNext := os.GameCount == st.GameCount+1 || (st.GameCount == 0 && os.GameCount == 0 && st.StartAt != -1)
	// readiness is read from the gate's ready group under its lock (the gate's own participant map is written by its callbacks)
	grp := ogm.VerifGroupStates(o)
	if forNext && len(grp) > 1 {
		all := true
		for _, ready := range grp {
			if !ready {
				all = false
			}
		}
		if all {
			return false
		}
	}
	if st.Status == pt.TableStateStatus_TableGameStandby && os.GameCount != st.GameCount+1 {
		return false // the continue handler has not set the gate up yet
	}
	return true
}

func (d *Drv) takeEvents() []TEvent {
	d.mu.Lock()
	ev := d.events
	d.events = nil
	d.mu.Unlock()
	return ev
}

func sortedInts(m map[int]bool) []int {
	xs := make([]int, 0, len(m))
	for k := range m {
		xs = append(xs, k)
	}
	sort.Ints(xs)
	return xs
}

func mustJSON(v interface{}) string {
	b, _ := json.Marshal(v)
	return string(b)
}

var _ = sm.UnsetSeatID

package main

import (
	"fmt"
	"time"

	pt "github.com/weedbox/pokertable"
)

// Hand play on top of the driver: each call to Advance performs the externally expected
// inputs for the current quiescent point (ready signals, ante / blind payments, one betting
// action chosen by the policy, settlement-finished signals) and waits for the next quiescent point.

type Policy struct {
	R *RNG
	// probabilities (percent) when the action is allowed
	FoldPct, AllinPct, RaisePct int
}

type ActRec struct {
	Phase  string `json:"phase"` // ready ante blinds bet finish
	Player int    `json:"player"`
	Action string `json:"action"`
	Chips  int64  `json:"chips,omitempty"`
	Err    string `json:"err,omitempty"`
}

const quiesceLimit = 6 * time.Second

func (d *Drv) playerIDAt(gpIdx int) string {
	t := d.te.GetTable()
	if gpIdx < 0 || gpIdx >= len(t.State.GamePlayerIndexes) {
		return ""
	}
	pi := t.State.GamePlayerIndexes[gpIdx]
	if pi < 0 || pi >= len(t.State.PlayerStates) {
		return ""
	}
	return t.State.PlayerStates[pi].PlayerID
}

func errStr(err error) string {
	if err == nil {
		return ""
	}
	return err.Error()
}

// Advance returns the inputs it gave, and "wedged" if the table did not reach a quiescent
// point afterwards, "idle" if there was nothing to do (paused / closed / waiting for players).
func (d *Drv) Advance(pol *Policy) ([]ActRec, string) {
	t := d.te.GetTable()
	st := t.State
	var recs []ActRec
	switch st.Status {
	case pt.TableStateStatus_TableGamePlaying:
		gs := st.GameState
		if gs == nil {
			return nil, "idle"
		}
		switch gs.Status.CurrentEvent {
		case "ReadyRequested":
			for gp := range gs.Players {
				id := d.playerIDAt(gp)
				err := d.te.PlayerReady(id)
				recs = append(recs, ActRec{Phase: "ready", Player: idOf(id), Action: "ready", Err: errStr(err)})
			}
		case "AnteRequested":
			for gp := range gs.Players {
				id := d.playerIDAt(gp)
				err := d.te.PlayerPay(id, gs.Meta.Ante)
				recs = append(recs, ActRec{Phase: "ante", Player: idOf(id), Action: "pay", Chips: gs.Meta.Ante, Err: errStr(err)})
			}
		case "BlindsRequested":
			for gp, p := range gs.Players {
				if !gs.HasAction(gp, "pay") {
					continue
				}
				amt := gs.Meta.Blind.Dealer
				if gs.HasPosition(gp, "bb") {
					amt = gs.Meta.Blind.BB
				} else if gs.HasPosition(gp, "sb") {
					amt = gs.Meta.Blind.SB
				}
				_ = p
				id := d.playerIDAt(gp)
				err := d.te.PlayerPay(id, amt)
				recs = append(recs, ActRec{Phase: "blinds", Player: idOf(id), Action: "pay", Chips: amt, Err: errStr(err)})
			}
		case "RoundStarted":
			gp := gs.Status.CurrentPlayer
			p := gs.GetPlayer(gp)
			if p == nil || len(p.AllowedActions) == 0 {
				return nil, "idle"
			}
			id := d.playerIDAt(gp)
			act, chips := pol.choose(gs.Status.CurrentWager, gs.Status.PreviousRaiseSize, gs.Status.MiniBet, p.AllowedActions, p.InitialStackSize, p.StackSize, p.Wager)
			var err error
			switch act {
			case "pass":
				err = d.te.PlayerPass(id)
			case "fold":
				err = d.te.PlayerFold(id)
			case "check":
				err = d.te.PlayerCheck(id)
			case "call":
				err = d.te.PlayerCall(id)
			case "allin":
				err = d.te.PlayerAllin(id)
			case "bet":
				err = d.te.PlayerBet(id, chips)
			case "raise":
				err = d.te.PlayerRaise(id, chips)
			}
			recs = append(recs, ActRec{Phase: "bet", Player: idOf(id), Action: act, Chips: chips, Err: errStr(err)})
		default:
			return nil, "idle"
		}
	case pt.TableStateStatus_TableGameStandby:
		o := pt.VerifOpenGameManager(d.te)
		os := o.GetState()
		any := false
		for k, p := range os.Participants {
			if !p.IsReady {
				err := d.te.PlayerSettlementFinish(k)
				recs = append(recs, ActRec{Phase: "finish", Player: idOf(k), Action: "settlement_finish", Err: errStr(err)})
				any = true
			}
		}
		if !any {
			return nil, "idle"
		}
	default:
		return nil, "idle"
	}
	if !d.Quiesce(quiesceLimit) {
		return recs, "wedged"
	}
	return recs, "ok"
}

func has(xs []string, x string) bool {
	for _, y := range xs {
		if y == x {
			return true
		}
	}
	return false
}

// choose a betting action among the allowed ones
func (pol *Policy) choose(curWager, prevRaise, miniBet int64, allowed []string, initStack, stack, wager int64) (string, int64) {
	r := pol.R
	if has(allowed, "pass") {
		return "pass", 0
	}
	x := r.Intn(100)
	if has(allowed, "fold") && x < pol.FoldPct {
		return "fold", 0
	}
	x = r.Intn(100)
	if has(allowed, "allin") && x < pol.AllinPct {
		return "allin", 0
	}
	x = r.Intn(100)
	if x < pol.RaisePct {
		if has(allowed, "raise") {
			lo := curWager + prevRaise
			if lo < curWager+1 {
				lo = curWager + 1
			}
			hi := initStack
			if hi > lo {
				return "raise", lo + int64(r.Intn(int(minI64(hi-lo, 4*lo)+1)))
			}
			return "raise", hi
		}
		if has(allowed, "bet") {
			lo := miniBet
			hi := initStack
			if hi > lo {
				return "bet", lo + int64(r.Intn(int(minI64(hi-lo, 4*lo)+1)))
			}
			return "bet", hi
		}
	}
	if has(allowed, "check") {
		return "check", 0
	}
	if has(allowed, "call") {
		return "call", 0
	}
	if has(allowed, "fold") {
		return "fold", 0
	}
	if has(allowed, "allin") {
		return "allin", 0
	}
	return allowed[0], 0
}

func minI64(a, b int64) int64 {
	if a < b {
		return a
	}
	return b
}

// StartFirstHand: join everybody who is not in, start the table game and signal settlement-finish
// for the first hand's gate.
func (d *Drv) JoinAll() {
	t := d.te.GetTable()
	for _, p := range t.State.PlayerStates {
		if !p.IsIn {
			d.JoinAndSettle(p.PlayerID)
		}
	}
}

// JoinAndSettle: PlayerJoin signals the join group asynchronously; wait until that signal has been
// consumed (and, if it completed the group, until the completion callback has had room to run) so
// that neither can act on a later state of the table.  Re-arming the group while its goroutine is
// still inside validate() can also dead-lock syncsaga (nested RLock against a pending writer).
func (d *Drv) JoinAndSettle(id string) error {
	idx := d.te.GetTable().FindPlayerIdx(id)
	err := d.te.PlayerJoin(id)
	if idx >= 0 {
		for w := 0; w < 400; w++ {
			st := pt.VerifJoinGroupStates(d.te)
			if ready, ok := st[int64(idx)]; !ok || ready {
				break
			}
			time.Sleep(100 * time.Microsecond)
		}
		time.Sleep(300 * time.Microsecond)
		if ne, all := d.groupPending(pt.VerifJoinGroupStates(d.te)); ne && all {
			time.Sleep(500 * time.Microsecond)
		}
	}
	return err
}

func (d *Drv) StartAndOpenFirst() string {
	if err := d.te.StartTableGame(); err != nil {
		return "start error: " + err.Error()
	}
	o := pt.VerifOpenGameManager(d.te)
	for k, p := range o.GetState().Participants {
		if !p.IsReady {
			d.te.PlayerSettlementFinish(k)
		}
	}
	if !d.Quiesce(quiesceLimit) {
		return "wedged"
	}
	return "ok"
}

func mkSetting(id string, rule, mode string, max, min int, ante, dealer, sb, bb int64, level int, actionTime int) pt.TableSetting {
	return pt.TableSetting{TableID: id, Meta: pt.TableMeta{CompetitionID: "comp", Rule: rule, Mode: mode,
		MaxDuration: 36000, TableMaxSeatCount: max, TableMinPlayerCount: min, MinChipUnit: 1, ActionTime: actionTime},
		Blind: pt.TableBlindState{Level: level, Ante: ante, Dealer: dealer, SB: sb, BB: bb}}
}

var _ = fmt.Sprintf

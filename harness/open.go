package main

import (
	"encoding/json"
	"fmt"
	"os"
	"strings"
	"sync"
	"time"

	pt "github.com/weedbox/pokertable"
)

// Opens of hands (C02, C05, C06): real tables with explicit seat layouts, players who sit out,
// busts, re-buys, arrivals and departures between hands; one case per opened hand.

type OpenPlayer struct {
	ID        int      `json:"id"`
	Seat      int      `json:"seat"`
	In        bool     `json:"in"`
	Bankroll  int64    `json:"bankroll"`
	Part      bool     `json:"part"`
	Positions []string `json:"positions"`
	Fresh     bool     `json:"fresh"`   // got the seat (or re-bought from zero) after positions were first set and not dealt in since
	Waiting   bool     `json:"waiting"` // fresh, and the seat was strictly between button and big blind at that moment
	Missed    int      `json:"missed"`  // consecutive opened hands missed while seated-in with chips (this one included)
}

type OpenSetting struct {
	Stack     int64    `json:"stack"`
	Positions []string `json:"positions"`
}

type OpenCase struct {
	Kind      string        `json:"kind"` // open | next_bb (a settlement snapshot carrying the next-big-blind order)
	Hist      int           `json:"hist"`
	GameCount int           `json:"game_count"`
	Max       int           `json:"max"`
	Rule      string        `json:"rule"`
	SeatMap   []int         `json:"seat_map"`
	Players   []OpenPlayer  `json:"players"`
	GPI       []int         `json:"gpi"`
	Dealer    int           `json:"dealer"`
	SB        int           `json:"sb"`
	BB        int           `json:"bb"`
	SM        SMState       `json:"sm"`
	Settings  []OpenSetting `json:"settings"`
	NextBB    []int         `json:"next_bb,omitempty"`
	// labels seen on a later snapshot of the same hand (playing / settled) that differ from the opened snapshot's: player id -> labels
	LabelsLater map[int][]string `json:"labels_changed_during_hand,omitempty"`
}

type OpenHist struct {
	Index int    `json:"index"`
	Seed  uint64 `json:"seed"`
	Max   int    `json:"max"`
	Rule  string `json:"rule"`
	Hands int    `json:"hands"`
	Churn bool   `json:"button_churn,omitempty"` // after every hand a button-seat player may go and a newcomer take that very seat without sitting in
	Note  string `json:"note,omitempty"`
}

func runOpenHist(h *OpenHist) []OpenCase {
	r := NewRNG(h.Seed)
	set := mkSetting(fmt.Sprintf("open-%d", h.Index), h.Rule, "ct", h.Max, 2, 0, 0, 10, 20, 1, 10)
	if h.Rule == "short_deck" {
		set.Blind = pt.TableBlindState{Level: 1, Ante: 10, Dealer: 20, SB: 0, BB: 0}
	}
	d, err := NewDrv(set, 0)
	if err != nil {
		h.Note = "create failed"
		return nil
	}
	var cases []OpenCase
	next := 1
	fresh := map[int]bool{}
	waiting := map[int]bool{}
	missed := map[int]int{}
	between := func(a TAbs, seat int) bool {
		// strictly between the button and the big blind, clockwise, on the positions in force now
		if !a.SM.Init || a.SM.Rule != "default" {
			return false
		}
		n := a.SM.Max
		dt := ((seat-a.SM.Dealer)%n + n) % n
		db := ((a.SM.BB-a.SM.Dealer)%n + n) % n
		return dt > 0 && dt < db
	}
	freeSeats := func() []int {
		a := d.Abs()
		var fs []int
		for s, pi := range a.SeatMap {
			if pi == -1 {
				fs = append(fs, s)
			}
		}
		return fs
	}
	wantSeat := -1 // a seat just vacated: the next newcomer takes exactly that one
	arrive := func(joinNow bool) {
		fs := freeSeats()
		if len(fs) == 0 {
			return
		}
		id := next
		next++
		seat := fs[r.Intn(len(fs))]
		for _, f := range fs {
			if f == wantSeat {
				seat = f
			}
		}
		wantSeat = -1
		chips := int64(30 + r.Intn(1500))
		if r.Chance(1, 5) {
			chips = int64(1 + r.Intn(30))
		}
		if d.te.PlayerReserve(pt.JoinPlayer{PlayerID: pid(id), RedeemChips: chips, Seat: seat}) == nil {
			ab := d.Abs()
			fresh[id] = ab.SM.Init
			waiting[id] = ab.SM.Init && between(ab, seat)
			if joinNow {
				d.JoinAndSettle(pid(id))
			}
		}
	}
	// several newcomers brought in by ONE call (UpdateTablePlayers with two or three arrivals), on seats of their own choice or any
	br := NewRNG(h.Seed ^ 0xb47c0ffe) // a stream of its own: the other draws of a history stay what they were
	arriveBatch := func(k int) {
		fs := freeSeats()
		if len(fs) < k {
			return
		}
		br.Shuffle(len(fs), func(i, j int) { fs[i], fs[j] = fs[j], fs[i] })
		var joins []pt.JoinPlayer
		var ids []int
		for i := 0; i < k; i++ {
			seat := fs[i]
			if br.Chance(1, 3) {
				seat = -1
			}
			joins = append(joins, pt.JoinPlayer{PlayerID: pid(next), RedeemChips: int64(30 + br.Intn(1500)), Seat: seat})
			ids = append(ids, next)
			next++
		}
		if _, err := d.te.UpdateTablePlayers(joins, nil); err == nil {
			ab := d.Abs()
			for _, id := range ids {
				for _, p := range ab.Players {
					if p.ID == id {
						fresh[id] = ab.SM.Init
						waiting[id] = ab.SM.Init && between(ab, p.Seat)
					}
				}
				if !br.Chance(1, 6) {
					d.JoinAndSettle(pid(id))
				}
			}
		}
	}
	n0 := 2 + r.Intn(h.Max-1)
	if br.Chance(1, 4) && n0 >= 3 {
		arriveBatch(n0 - 1) // most of the first players come in one call
		n0 = 1
	}
	for i := 0; i < n0; i++ {
		arrive(!r.Chance(1, 8))
	}
	// make sure two players are in
	a := d.Abs()
	inCount := 0
	for _, p := range a.Players {
		if p.In {
			inCount++
		}
	}
	if inCount < 2 {
		d.JoinAll()
	}
	collect := func() {
		for _, ev := range d.takeEvents() {
			// the labels published when the hand opened stay what they are until the hand is settled
			if ev.Kind == "updated" && ev.Abs != nil && (ev.Status == "table_game_playing" || ev.Status == "table_game_settled") {
				for k := len(cases) - 1; k >= 0; k-- {
					if cases[k].Kind != "open" {
						continue
					}
					if cases[k].GameCount == ev.Abs.GameCount {
						for _, p := range ev.Abs.Players {
							for _, q := range cases[k].Players {
								if q.ID == p.ID && strings.Join(q.Positions, ",") != strings.Join(p.Positions, ",") {
									if cases[k].LabelsLater == nil {
										cases[k].LabelsLater = map[int][]string{}
									}
									cases[k].LabelsLater[p.ID] = append([]string{}, p.Positions...)
								}
							}
						}
					}
					break
				}
			}
			if ev.Kind == "updated" && ev.Status == "table_game_settled" && ev.Abs != nil {
				ab := ev.Abs
				c := OpenCase{Kind: "next_bb", Hist: h.Index, GameCount: ab.GameCount, Max: h.Max, Rule: h.Rule, SeatMap: ab.SeatMap,
					BB: ab.SM.BB, Dealer: ab.SM.Dealer, SB: ab.SM.SB, SM: ab.SM, GPI: ab.GPI, NextBB: ab.NextBB}
				if c.NextBB == nil {
					c.NextBB = []int{}
				}
				for _, p := range ab.Players {
					c.Players = append(c.Players, OpenPlayer{ID: p.ID, Seat: p.Seat, In: p.In, Bankroll: p.Bankroll, Part: p.Part, Positions: p.Positions})
				}
				cases = append(cases, c)
				continue
			}
			if ev.Kind != "updated" || ev.Status != "table_game_opened" || ev.Abs == nil {
				continue
			}
			ab := ev.Abs
			c := OpenCase{Kind: "open", Hist: h.Index, GameCount: ab.GameCount, Max: h.Max, Rule: h.Rule, SeatMap: ab.SeatMap, GPI: ab.GPI,
				Dealer: ab.Dealer, SB: ab.SB, BB: ab.BB, SM: ab.SM}
			for _, p := range ab.Players {
				live := p.In && p.Bankroll > 0
				if p.Part {
					missed[p.ID] = 0
				} else if live {
					missed[p.ID]++
				} else {
					missed[p.ID] = 0
				}
				c.Players = append(c.Players, OpenPlayer{ID: p.ID, Seat: p.Seat, In: p.In, Bankroll: p.Bankroll, Part: p.Part,
					Positions: p.Positions, Fresh: fresh[p.ID], Waiting: waiting[p.ID], Missed: missed[p.ID]})
				if p.Part {
					fresh[p.ID] = false
					waiting[p.ID] = false
				}
			}
			cases = append(cases, c)
		}
	}
	attachSettings := func() {
		// the CreateGame that followed the last opened snapshot
		if len(cases) > 0 && cases[len(cases)-1].Kind == "open" && cases[len(cases)-1].Settings == nil {
			d.be.mu.Lock()
			for _, s := range d.be.settings {
				cases[len(cases)-1].Settings = append(cases[len(cases)-1].Settings, OpenSetting{Stack: s.Bankroll, Positions: append([]string{}, s.Positions...)})
			}
			d.be.mu.Unlock()
		}
	}
	if d.StartAndOpenFirst() != "ok" {
		h.Note = "first hand did not open"
		collect()
		return cases
	}
	collect()
	attachSettings()
	pol := &Policy{R: r.Fork(5), FoldPct: 20 + r.Intn(20), AllinPct: 5 + r.Intn(25), RaisePct: 10 + r.Intn(30)}
	for step := 0; step < 1500 && len(cases) < 2*h.Hands; step++ {
		a := d.Abs()
		if betweenHands(a) {
			if a.Status == "table_pausing" || a.Status == "table_closed" {
				break
			}
			// churn between hands
			if r.Chance(1, 3) {
				arrive(!r.Chance(1, 6))
			}
			if br.Chance(1, 5) {
				arriveBatch(2 + br.Intn(2))
			}
			if (r.Chance(1, 6) || (h.Churn && r.Chance(1, 2))) && len(a.Players) > 2 {
				p := a.Players[r.Intn(len(a.Players))]
				// now and then it is the small blind or the dealer of the hand just played who goes
				for _, q := range a.Players {
					if (q.Seat == a.SB || q.Seat == a.Dealer) && (r.Chance(1, 3) || h.Churn) {
						p = q
					}
				}
				if d.te.PlayersLeave([]string{pid(p.ID)}) == nil {
					delete(fresh, p.ID)
					delete(waiting, p.ID)
					delete(missed, p.ID)
					if r.Chance(1, 2) || h.Churn {
						// a newcomer reserves the very seat that was vacated and does not sit in before the next hand
						wantSeat = p.Seat
						arrive(false)
					}
				}
			}
			// a busted player re-buys
			for _, p := range a.Players {
				if p.Bankroll == 0 && r.Chance(1, 4) {
					// chips added through the add-on call instead of a new reservation: eligible again like a newcomer (the seat
					// manager learns of it when the next hand ends; the three-hand bound applies)
					if d.te.PlayerRedeemChips(pt.JoinPlayer{PlayerID: pid(p.ID), RedeemChips: int64(50 + r.Intn(800)), Seat: -1}) == nil {
						fresh[p.ID] = true
						waiting[p.ID] = a.SM.Init && between(a, p.Seat)
					}
				} else if p.Bankroll == 0 && r.Chance(1, 2) {
					if d.te.PlayerReserve(pt.JoinPlayer{PlayerID: pid(p.ID), RedeemChips: int64(50 + r.Intn(800)), Seat: -1}) == nil {
						fresh[p.ID] = a.SM.Init
						waiting[p.ID] = a.SM.Init && between(a, p.Seat)
					}
				}
			}
			// somebody who sat out joins
			for _, p := range a.Players {
				if !p.In && r.Chance(1, 2) {
					d.JoinAndSettle(pid(p.ID))
				}
			}
		}
		_, res := d.Advance(pol)
		collect()
		attachSettings()
		if res == "wedged" {
			h.Note = fmt.Sprintf("wedged at step %d", step)
			break
		}
		if res == "idle" {
			a := d.Abs()
			if betweenHands(a) && a.Status != "table_game_standby" {
				break
			}
			if a.Status == "table_game_standby" {
				// nobody left to signal: wait for the gate's own timeout
				if !d.Quiesce(4 * time.Second) {
					h.Note = fmt.Sprintf("wedged in standby at step %d", step)
					break
				}
			}
		}
	}
	return cases
}

// ---- Gallina ----

func coqLabel(s string) string {
	switch s {
	case "dealer":
		return "LDealer"
	case "sb":
		return "LSB"
	case "bb":
		return "LBB"
	case "ug":
		return "LUG"
	case "ug2":
		return "LUG2"
	case "ug3":
		return "LUG3"
	case "mp":
		return "LMP"
	case "mp2":
		return "LMP2"
	case "hj":
		return "LHJ"
	case "co":
		return "LCO"
	}
	return "LCO"
}

func coqLabels(xs []string) string {
	ys := make([]string, len(xs))
	for i, x := range xs {
		ys[i] = coqLabel(x)
	}
	return "[" + strings.Join(ys, "; ") + "]"
}

func (c OpenCase) Coq() string {
	if c.Kind == "next_bb" {
		ps := make([]string, len(c.Players))
		for i, p := range c.Players {
			ps[i] = fmt.Sprintf("(%d%%nat, %s, %s)", p.ID, coqZi(p.Seat), coqZi(int(p.Bankroll)))
		}
		return fmt.Sprintf("mknc %d %s [%s] %s %s", c.Max, zList(c.SeatMap), strings.Join(ps, "; "), coqZi(c.BB), natList(c.NextBB))
	}
	ps := make([]string, len(c.Players))
	for i, p := range c.Players {
		ps[i] = fmt.Sprintf("mkop %d %s %v %s %v %s %v %v %d", p.ID, coqZi(p.Seat), p.In, coqZi(int(p.Bankroll)), p.Part, coqLabels(p.Positions), p.Fresh, p.Waiting, p.Missed)
	}
	st := make([]string, len(c.Settings))
	for i, s := range c.Settings {
		st[i] = fmt.Sprintf("(%s, %s)", coqZi(int(s.Stack)), coqLabels(s.Positions))
	}
	return fmt.Sprintf("mkoc %d %s [%s] %s %s %s %s %s [%s] %v", c.Max, zList(c.SeatMap), strings.Join(ps, "; "), zList(c.GPI),
		coqZi(c.Dealer), coqZi(c.SB), coqZi(c.BB), c.SM.Coq(), strings.Join(st, "; "), len(c.LabelsLater) == 0)
}

func runOpen(opt Opts) error {
	var hists []OpenHist
	if opt.Replay != "" {
		data, err := os.ReadFile(opt.Replay)
		if err != nil {
			return err
		}
		if err := json.Unmarshal(data, &hists); err != nil {
			return err
		}
	} else {
		root := NewRNG(opt.Seed)
		for i := 0; i < opt.N; i++ {
			r := root.Fork(uint64(i))
			h := OpenHist{Index: i, Seed: opt.Seed*1000033 + uint64(i), Max: 2 + r.Intn(9), Rule: "default", Hands: 6 + r.Intn(10), Churn: i%4 == 1}
			if h.Churn && h.Max < 5 {
				h.Max = 5 + r.Intn(5)
			}
			if opt.Mode == "short" || (opt.Mode == "" && r.Chance(1, 6)) {
				h.Rule = "short_deck"
			}
			hists = append(hists, h)
		}
	}
	out := make([][]OpenCase, len(hists))
	if ij, err := json.Marshal(hists); err == nil {
		os.MkdirAll(opt.Out, 0o755)
		os.WriteFile(opt.Out+"/inputs.json", ij, 0o644)
	}
	var wg sync.WaitGroup
	sem := make(chan struct{}, 14)
	for i := range hists {
		wg.Add(1)
		sem <- struct{}{}
		go func(i int) {
			defer wg.Done()
			defer func() { <-sem }()
			done := make(chan []OpenCase, 1)
			go func() { done <- runOpenHist(&hists[i]) }()
			select {
			case cs := <-done:
				out[i] = cs
			case <-time.After(90 * time.Second):
				hists[i].Note = "hung"
			}
		}(i)
	}
	wg.Wait()
	var cases []OpenCase
	for _, cs := range out {
		cases = append(cases, cs...)
	}
	if err := writeCases(opt.Out, "OH_run", cases, func(i int) string { return cases[i].Coq() }, len(cases)); err != nil {
		return err
	}
	hj, _ := json.Marshal(hists)
	return os.WriteFile(opt.Out+"/histories.json", hj, 0o644)
}

package main

import (
	"encoding/json"
	"fmt"
	"os"
	"sort"
	"strings"

	sm "github.com/weedbox/pokertable/seat_manager"
)

// Seat-manager transitions: the real seat manager is built in an explicit state (verif hook),
// one API operation is applied, and the state afterwards is recorded.

type SMSeat struct {
	ID    int  `json:"id"`
	In    bool `json:"in"`
	Btw   bool `json:"btw"`
	Chips bool `json:"chips"`
}

type SMState struct {
	Max    int       `json:"max"`
	Seats  []*SMSeat `json:"seats"`
	Dealer int       `json:"dealer"`
	SB     int       `json:"sb"`
	BB     int       `json:"bb"`
	Rule   string    `json:"rule"`
	Init   bool      `json:"init"`
	Extra  []int     `json:"extra_keys,omitempty"` // keys of the seat map outside 0..max-1
}

type SMOp struct {
	Kind   string   `json:"kind"` // assign random remove join chips init rotate
	Pairs  [][2]int `json:"pairs,omitempty"`
	IDs    []int    `json:"ids,omitempty"`
	Drawn  []int    `json:"drawn,omitempty"`
	ID     int      `json:"id,omitempty"`
	B      bool     `json:"b,omitempty"`
	Random bool     `json:"random,omitempty"`
	First  int      `json:"first,omitempty"`
}

type SMCase struct {
	Synthetic bool    `json:"synthetic,omitempty"` // pre-state enumerated, not reached through the API: only model = implementation is checked
	Pre       SMState `json:"pre"`
	Op        SMOp    `json:"op"`
	Res       string  `json:"res"`
	Err       string  `json:"err,omitempty"`
	Post      SMState `json:"post"`
}

func (s SMState) key() string {
	var b strings.Builder
	fmt.Fprintf(&b, "%d|%s|%v|%d,%d,%d|", s.Max, s.Rule, s.Init, s.Dealer, s.SB, s.BB)
	for _, p := range s.Seats {
		if p == nil {
			b.WriteString("_;")
		} else {
			fmt.Fprintf(&b, "%d%v%v%v;", p.ID, p.In, p.Btw, p.Chips)
		}
	}
	return b.String()
}

func (s SMState) build() sm.SeatManager {
	seats := map[int]*sm.SeatPlayer{}
	for i, p := range s.Seats {
		if p != nil {
			seats[i] = &sm.SeatPlayer{ID: pid(p.ID), IsIn: p.In, IsBetweenDealerBB: p.Btw, HasChips: p.Chips}
		}
	}
	return sm.VerifNewSeatManager(s.Max, s.Rule, seats, s.Dealer, s.SB, s.BB, s.Init)
}

func snapSM(m sm.SeatManager, max int, rule string) SMState {
	seats, d, sb, bb, init := sm.VerifSnapshot(m)
	st := SMState{Max: max, Seats: make([]*SMSeat, max), Dealer: d, SB: sb, BB: bb, Rule: rule, Init: init}
	for k, v := range seats {
		if k < 0 || k >= max {
			st.Extra = append(st.Extra, k)
			continue
		}
		if v != nil {
			var id int
			fmt.Sscanf(v.ID, "p%d", &id)
			st.Seats[k] = &SMSeat{ID: id, In: v.IsIn, Btw: v.IsBetweenDealerBB, Chips: v.HasChips}
		}
	}
	sort.Ints(st.Extra)
	return st
}

func pids(ids []int) []string {
	xs := make([]string, len(ids))
	for i, id := range ids {
		xs[i] = pid(id)
	}
	return xs
}

// apply one operation to a freshly built manager in state pre
func applySM(pre SMState, op SMOp) SMCase {
	m := pre.build()
	var err error
	switch op.Kind {
	case "assign":
		mp := map[string]int{}
		for _, p := range op.Pairs {
			mp[pid(p[0])] = p[1]
		}
		err = m.AssignSeats(mp)
	case "random":
		err = m.RandomAssignSeats(pids(op.IDs))
	case "remove":
		err = m.RemoveSeats(pids(op.IDs))
	case "join":
		err = m.JoinPlayers(pids(op.IDs))
	case "chips":
		err = m.UpdatePlayerHasChips(pid(op.ID), op.B)
	case "init":
		err = m.InitPositions(op.Random)
	case "rotate":
		err = m.RotatePositions()
	}
	post := snapSM(m, pre.Max, pre.Rule)
	c := SMCase{Pre: pre, Op: op, Res: "ok", Post: post}
	if err != nil {
		c.Res = "err"
		c.Err = err.Error()
	}
	if op.Kind == "random" {
		// which seats were drawn: seats that were empty and now hold the id, in id order
		drawn := []int{}
		used := map[int]bool{}
		for _, id := range op.IDs {
			found := -1
			for k, p := range post.Seats {
				if p != nil && p.ID == id && !used[k] && (pre.Seats[k] == nil || pre.Seats[k].ID != id || true) {
					if pre.Seats[k] != nil && pre.Seats[k].ID == id {
						continue // that is the old seat of an id that was seated twice
					}
					found = k
					break
				}
			}
			if found >= 0 {
				used[found] = true
			}
			drawn = append(drawn, found)
		}
		c.Op.Drawn = drawn
	}
	if op.Kind == "init" {
		c.Op.First = -1
		if err == nil {
			if pre.Rule == "short_deck" {
				c.Op.First = post.Dealer
			} else {
				c.Op.First = post.BB
			}
		} else if op.Random {
			// a failed initialisation may already have written the chosen big blind
			c.Op.First = post.BB
		}
	}
	return c
}

// ---- exhaustive exploration of the states reachable through the API ----

func (s SMState) hasDup() bool {
	seen := map[int]bool{}
	for _, p := range s.Seats {
		if p != nil {
			if seen[p.ID] {
				return true
			}
			seen[p.ID] = true
		}
	}
	return false
}

func (s SMState) seatedIDs() []int {
	var ids []int
	for _, p := range s.Seats {
		if p != nil {
			ids = append(ids, p.ID)
		}
	}
	sort.Ints(ids)
	return ids
}

func (s SMState) freshID() int {
	used := map[int]bool{}
	for _, p := range s.Seats {
		if p != nil {
			used[p.ID] = true
		}
	}
	for id := 1; ; id++ {
		if !used[id] {
			return id
		}
	}
}

func smOpsFor(s SMState) []SMOp {
	var ops []SMOp
	fresh := s.freshID()
	for seat := 0; seat < s.Max; seat++ {
		ops = append(ops, SMOp{Kind: "assign", Pairs: [][2]int{{fresh, seat}}})
	}
	ids := s.seatedIDs()
	for _, p := range s.Seats {
		if p == nil {
			continue
		}
		ops = append(ops, SMOp{Kind: "remove", IDs: []int{p.ID}})
		if !p.In {
			ops = append(ops, SMOp{Kind: "join", IDs: []int{p.ID}})
		}
		ops = append(ops, SMOp{Kind: "chips", ID: p.ID, B: !p.Chips})
	}
	if len(ids) > 0 {
		// an already seated id named again, an unknown id
		ops = append(ops, SMOp{Kind: "assign", Pairs: [][2]int{{ids[0], (s.Max - 1)}}})
	}
	ops = append(ops, SMOp{Kind: "remove", IDs: []int{99}}, SMOp{Kind: "join", IDs: []int{99}}, SMOp{Kind: "chips", ID: 99, B: true})
	ops = append(ops, SMOp{Kind: "init", Random: false})
	if !s.Init {
		for k := 0; k < 6; k++ {
			ops = append(ops, SMOp{Kind: "init", Random: true})
		}
	}
	ops = append(ops, SMOp{Kind: "rotate"})
	return ops
}

func smBFS(max int, rule string, cap int) []SMCase {
	start := SMState{Max: max, Seats: make([]*SMSeat, max), Dealer: -1, SB: -1, BB: -1, Rule: rule}
	seen := map[string]bool{start.key(): true}
	queue := []SMState{start}
	var cases []SMCase
	tseen := map[string]bool{}
	for len(queue) > 0 {
		s := queue[0]
		queue = queue[1:]
		for _, op := range smOpsFor(s) {
			c := applySM(s, op)
			oj, _ := json.Marshal(c.Op)
			tk := s.key() + string(oj)
			if !tseen[tk] {
				tseen[tk] = true
				cases = append(cases, c)
			}
			if len(c.Post.Extra) > 0 || c.Post.hasDup() {
				continue
			}
			k := c.Post.key()
			if !seen[k] && (cap <= 0 || len(seen) < cap) {
				seen[k] = true
				queue = append(queue, c.Post)
			}
		}
	}
	return cases
}

// ---- every state, reachable or not: the model must agree with the implementation on all of them ----

func smAll(max int, rule string) []SMCase {
	var cases []SMCase
	nopt := 9 // empty or occupied with 3 flags
	total := 1
	for i := 0; i < max; i++ {
		total *= nopt
	}
	poss := []int{}
	for d := 0; d < max; d++ {
		poss = append(poss, d)
	}
	for code := 0; code < total; code++ {
		seats := make([]*SMSeat, max)
		c := code
		for i := 0; i < max; i++ {
			v := c % nopt
			c /= nopt
			if v > 0 {
				v--
				seats[i] = &SMSeat{ID: i + 1, In: v&1 != 0, Btw: v&2 != 0, Chips: v&4 != 0}
			}
		}
		if rule == "short_deck" {
			for _, d := range poss {
				st := SMState{Max: max, Seats: seats, Dealer: d, SB: -1, BB: -1, Rule: rule, Init: true}
				cs := applySM(st, SMOp{Kind: "rotate"})
				cs.Synthetic = true
				cases = append(cases, cs)
			}
			continue
		}
		for _, d := range poss {
			for _, sb := range poss {
				for _, bb := range poss {
					st := SMState{Max: max, Seats: seats, Dealer: d, SB: sb, BB: bb, Rule: rule, Init: true}
					cs := applySM(st, SMOp{Kind: "rotate"})
					cs.Synthetic = true
					cases = append(cases, cs)
				}
			}
		}
		st := SMState{Max: max, Seats: seats, Dealer: -1, SB: -1, BB: -1, Rule: rule, Init: false}
		cs := applySM(st, SMOp{Kind: "init", Random: false})
		cs.Synthetic = true
		cases = append(cases, cs)
	}
	return cases
}

// ---- random API histories ----

func smRandom(r *RNG, n int) []SMCase {
	var cases []SMCase
	for h := 0; h < n; h++ {
		max := 2 + r.Intn(9)
		rule := "default"
		switch r.Intn(10) {
		case 0, 1, 2:
			rule = "short_deck"
		case 3:
			if r.Chance(1, 3) {
				rule = "omaha"
			}
		}
		s := SMState{Max: max, Seats: make([]*SMSeat, max), Dealer: -1, SB: -1, BB: -1, Rule: rule}
		steps := 10 + r.Intn(40)
		nextID := 1
		for k := 0; k < steps; k++ {
			var op SMOp
			ids := s.seatedIDs()
			x := r.Intn(100)
			switch {
			case x < 14:
				// batch assign, mostly valid
				cnt := 1 + r.Intn(3)
				seen := map[int]bool{}
				for j := 0; j < cnt; j++ {
					seat := r.Intn(max)
					if r.Chance(1, 25) {
						seat = max + r.Intn(3) // outside the table
					}
					if r.Chance(1, 40) {
						seat = -2 - r.Intn(2)
					}
					id := nextID
					nextID++
					if r.Chance(1, 12) && len(ids) > 0 {
						id = ids[r.Intn(len(ids))]
					}
					if seen[id] {
						continue
					}
					seen[id] = true
					op.Pairs = append(op.Pairs, [2]int{id, seat})
				}
				op.Kind = "assign"
			case x < 26:
				cnt := 1 + r.Intn(3)
				op.Kind = "random"
				for j := 0; j < cnt; j++ {
					id := nextID
					nextID++
					if r.Chance(1, 15) && len(ids) > 0 {
						id = ids[r.Intn(len(ids))]
					}
					op.IDs = append(op.IDs, id)
				}
			case x < 36 && len(ids) > 0:
				op.Kind = "remove"
				op.IDs = []int{ids[r.Intn(len(ids))]}
				if r.Chance(1, 6) {
					op.IDs = append(op.IDs, 900+r.Intn(3))
				}
				if r.Chance(1, 6) && len(ids) > 1 {
					op.IDs = append(op.IDs, ids[r.Intn(len(ids))])
				}
			case x < 52 && len(ids) > 0:
				op.Kind = "join"
				cnt := 1 + r.Intn(len(ids))
				for _, j := range r.Perm(len(ids))[:cnt] {
					op.IDs = append(op.IDs, ids[j])
				}
				if r.Chance(1, 10) {
					op.IDs = append(op.IDs, 900)
				}
			case x < 68 && len(ids) > 0:
				op.Kind = "chips"
				op.ID = ids[r.Intn(len(ids))]
				op.B = r.Chance(1, 2)
				if r.Chance(1, 15) {
					op.ID = 900
				}
			case x < 76:
				op.Kind = "init"
				op.Random = r.Chance(1, 2)
			default:
				op.Kind = "rotate"
				if !s.Init && r.Chance(2, 3) {
					op.Kind = "init"
					op.Random = r.Chance(1, 2)
				}
			}
			if op.Kind == "" {
				op = SMOp{Kind: "random", IDs: []int{nextID}}
				nextID++
			}
			c := applySM(s, op)
			cases = append(cases, c)
			if len(c.Post.Extra) > 0 || c.Post.hasDup() {
				break // keys outside the table or a player seated twice: that transition is reported; stop this history
			}
			s = c.Post
		}
	}
	return cases
}

// ---- Gallina ----

func coqZi(n int) string { return fmt.Sprintf("(%d)%%Z", n) }

func (s SMState) Coq() string {
	xs := make([]string, len(s.Seats))
	for i, p := range s.Seats {
		if p == nil {
			xs[i] = "None"
		} else {
			xs[i] = fmt.Sprintf("mksp %d %v %v %v", p.ID, p.In, p.Btw, p.Chips)
		}
	}
	rule := "ROther"
	switch s.Rule {
	case "default":
		rule = "RDefault"
	case "short_deck":
		rule = "RShortDeck"
	}
	return fmt.Sprintf("(mksm %d [%s] %s %s %s %s %v)", s.Max, strings.Join(xs, "; "), coqZi(s.Dealer), coqZi(s.SB), coqZi(s.BB), rule, s.Init)
}

func natList(xs []int) string {
	ys := make([]string, len(xs))
	for i, x := range xs {
		ys[i] = fmt.Sprintf("%d%%nat", x)
	}
	return "[" + strings.Join(ys, "; ") + "]"
}
func zList(xs []int) string {
	ys := make([]string, len(xs))
	for i, x := range xs {
		ys[i] = coqZi(x)
	}
	return "[" + strings.Join(ys, "; ") + "]"
}

func (o SMOp) Coq() string {
	switch o.Kind {
	case "assign":
		// Go iterates a map: the model's answer does not depend on the order, we print id order
		ps := append([][2]int{}, o.Pairs...)
		sort.Slice(ps, func(i, j int) bool { return ps[i][0] < ps[j][0] })
		xs := make([]string, len(ps))
		for i, p := range ps {
			xs[i] = fmt.Sprintf("(%d%%nat, %s)", p[0], coqZi(p[1]))
		}
		return "(OAssign [" + strings.Join(xs, "; ") + "])"
	case "random":
		return fmt.Sprintf("(ORandom %s %s)", natList(o.IDs), zList(o.Drawn))
	case "remove":
		return fmt.Sprintf("(ORemove %s)", natList(o.IDs))
	case "join":
		return fmt.Sprintf("(OJoin %s)", natList(o.IDs))
	case "chips":
		return fmt.Sprintf("(OChips %d %v)", o.ID, o.B)
	case "init":
		return fmt.Sprintf("(OInit %v %s)", o.Random, coqZi(o.First))
	}
	return "ORotate"
}

func (c SMCase) Coq() string {
	res := "Ok"
	if c.Res != "ok" {
		res = "Err"
	}
	return fmt.Sprintf("mkc %s %s %s %s %v", c.Pre.Coq(), c.Op.Coq(), res, c.Post.Coq(), len(c.Post.Extra) > 0)
}

// modes:  bfs:<max>:<rule>[:cap]   |   rand   |   replay file
func runSM(opt Opts) error {
	var cases []SMCase
	switch {
	case opt.Replay != "":
		data, err := os.ReadFile(opt.Replay)
		if err != nil {
			return err
		}
		var in []SMCase
		if err := json.Unmarshal(data, &in); err != nil {
			return err
		}
		for _, c := range in {
			op := c.Op
			op.Drawn = nil
			cases = append(cases, applySM(c.Pre, op))
		}
	case strings.HasPrefix(opt.Mode, "all:"):
		parts := strings.Split(opt.Mode, ":")
		cases = smAll(atoi(parts[1]), parts[2])
	case strings.HasPrefix(opt.Mode, "bfs:"):
		parts := strings.Split(opt.Mode, ":")
		max := atoi(parts[1])
		rule := parts[2]
		cap := 0
		if len(parts) > 3 {
			cap = atoi(parts[3])
		}
		all := smBFS(max, rule, cap)
		// shard: -n = shard size, -seed = shard index (0-based); n = 0 -> everything
		if opt.N > 0 {
			lo := int(opt.Seed) * opt.N
			hi := lo + opt.N
			if lo > len(all) {
				lo = len(all)
			}
			if hi > len(all) {
				hi = len(all)
			}
			all = all[lo:hi]
		}
		cases = all
	default:
		cases = smRandom(NewRNG(opt.Seed), opt.N)
	}
	return writeCases(opt.Out, "SM_run", cases, func(i int) string { return cases[i].Coq() }, len(cases))
}

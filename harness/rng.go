package main

// splitmix64: every random choice of the harness derives from one seed, so a
// disagreement replays exactly.
type RNG struct{ s uint64 }

func NewRNG(seed uint64) *RNG { return &RNG{s: seed*0x9E3779B97F4A7C15 + 0x1234567} }

func (r *RNG) Next() uint64 {
	r.s += 0x9E3779B97F4A7C15
	z := r.s
	z = (z ^ (z >> 30)) * 0xBF58476D1CE4E5B9
	z = (z ^ (z >> 27)) * 0x94D049BB133111EB
	return z ^ (z >> 31)
}

// Intn returns a value in [0, n)
func (r *RNG) Intn(n int) int {
	if n <= 0 {
		return 0
	}
	return int(r.Next() % uint64(n))
}

func (r *RNG) Chance(num, den int) bool { return r.Intn(den) < num }

func (r *RNG) Fork(tag uint64) *RNG { return NewRNG(r.Next() ^ (tag * 0xD6E8FEB86659FD93)) }

func (r *RNG) Perm(n int) []int {
	p := make([]int, n)
	for i := range p {
		p[i] = i
	}
	for i := n - 1; i > 0; i-- {
		j := r.Intn(i + 1)
		p[i], p[j] = p[j], p[i]
	}
	return p
}

func (r *RNG) Shuffle(n int, swap func(i, j int)) {
	for i := n - 1; i > 0; i-- {
		swap(i, r.Intn(i+1))
	}
}

package main

import (
	"crypto/sha1"
	"encoding/json"
	"fmt"
	ogm "github.com/weedbox/pokertable/open_game_manager"
	"os"
	"strings"
	"sync"
	"time"

	"github.com/weedbox/pokerface"
	pt "github.com/weedbox/pokertable"
	"github.com/weedbox/pokertable/actor"
)

// C18 / C19 / C20: the actors are wired exactly as in production (actor + runner + the real
// tableEngineAdapter, which is what copies the table), except that the adapter's ACTION methods record the
// call instead of forwarding it: the hand itself is played by the harness, so that every reachable hand
// state can be shown to bots, player runners and observers.  A recorded call is then tried on a copy of
// the hand state with the real hand engine.

type ACall struct {
	Action   string `json:"action"`
	Chips    int64  `json:"chips"`
	DelayMs  int64  `json:"delay_ms"`
	Accepted bool   `json:"accepted_by_hand_engine"`
	Panic    string `json:"panic,omitempty"` // the actor panicked instead of answering (recorded as an unacceptable call)
}

type PView struct {
	Allowed []string `json:"allowed"`
	Event   string   `json:"event"`
	SB      bool     `json:"sb"`
	BB      bool     `json:"bb"`
	Ante    int64    `json:"ante"`
	BD      int64    `json:"blind_dealer"`
	BSB     int64    `json:"blind_sb"`
	BBB     int64    `json:"blind_bb"`
	MiniBet int64    `json:"mini_bet"`
	CW      int64    `json:"current_wager"`
	PRS     int64    `json:"previous_raise_size"`
	Init    int64    `json:"initial_stack"`
	Stack   int64    `json:"stack"`
	Wager   int64    `json:"wager"`
	Fold    bool     `json:"fold"`
}

type BView struct {
	AtTable bool `json:"at_table"`
	SatIn   bool `json:"sat_in"`
	HasGame bool `json:"has_game"`
	NewGame bool `json:"new_game"`
	Fresher bool `json:"fresher"`
	Playing bool `json:"playing"`
	DealtIn bool `json:"dealt_in"`
}

type OPlayer struct {
	Hole  int  `json:"hole_cards"`
	Combo bool `json:"combination"`
	Fold  bool `json:"fold"`
}
type OGame struct {
	Deck    int       `json:"deck"`
	Burned  int       `json:"burned"`
	Closed  bool      `json:"closed"`
	Players []OPlayer `json:"players"`
}

type AObs struct {
	Kind       string   `json:"kind"` // bot | player | observer
	Player     int      `json:"player,omitempty"`
	B          *BView   `json:"b,omitempty"`
	V          *PView   `json:"v,omitempty"`
	Calls      []ACall  `json:"calls"`
	AutoJoin   int      `json:"auto_join_requests,omitempty"`
	Status     string   `json:"status,omitempty"` // player runner: running | idle | suspended
	ActionTime int      `json:"action_time,omitempty"`
	System     bool     `json:"system,omitempty"`
	Filtered   bool     `json:"filtered_status,omitempty"`
	Pre        *OGame   `json:"pre,omitempty"`
	View       *OGame   `json:"view,omitempty"`
	EngineSame bool     `json:"engine_table_unchanged,omitempty"`
	OthersSame bool     `json:"other_actors_unaffected,omitempty"`
	TableStat  string   `json:"table_status,omitempty"`
	Seq        []SeqReq `json:"sequence,omitempty"`               // playerseq: status calls, then a request left to run its course, ...
	Accessor   bool     `json:"adapter_accessor_probe,omitempty"` // observer: the adapter's GetGameState was called and its result filtered
	Edge       bool     `json:"edge_of_sizing_rules,omitempty"`   // bot: the asked player's round stack was set to an edge value
}

type SeqReq struct {
	Events []string `json:"status_calls"` // idle | resume | suspend, made before the request is delivered
	V      *PView   `json:"v"`
	Calls  []ACall  `json:"calls"`
}

type ACase struct {
	Index   int    `json:"index"`
	Seed    uint64 `json:"seed"`
	Kind    string `json:"kind"` // views | bots
	Max     int    `json:"max"`
	N       int    `json:"players"`
	Ante    int64  `json:"ante"`
	Dealer  int64  `json:"dealer_blind"`
	SB      int64  `json:"sb"`
	BB      int64  `json:"bb"`
	Hands   int    `json:"hands"`
	Obs     []AObs `json:"observations"`
	Settled int    `json:"hands_settled"`
	Opened  int    `json:"hands_opened"`
	Refused int    `json:"bot_calls_refused"`
	Calls   int    `json:"bot_calls"`
	Note    string `json:"note,omitempty"`
}

// recAdapter: the real table-engine adapter does the copying; action methods record
type recAdapter struct {
	inner actor.Adapter
	mu    *sync.Mutex
	calls *[]ACall
	t0    time.Time
	fwd   func(action string, chips int64) error // nil: record only
}

func (r *recAdapter) SetActor(a actor.Actor)                 { r.inner.SetActor(a) }
func (r *recAdapter) UpdateTableState(t *pt.Table) error     { return r.inner.UpdateTableState(t) }
func (r *recAdapter) GetGamePlayerIndex(id string) int       { return r.inner.GetGamePlayerIndex(id) }
func (r *recAdapter) GetGameState() *pokerface.GameState     { return r.inner.GetGameState() }
func (r *recAdapter) ExtendTime(string, time.Duration) error { return nil }
func (r *recAdapter) rec(action string, chips int64) error {
	r.mu.Lock()
	*r.calls = append(*r.calls, ACall{Action: action, Chips: chips, DelayMs: time.Since(r.t0).Milliseconds()})
	r.mu.Unlock()
	if r.fwd != nil {
		return r.fwd(action, chips)
	}
	return nil
}
func (r *recAdapter) Pass(string) error           { return r.rec("pass", 0) }
func (r *recAdapter) Ready(string) error          { return r.rec("ready", 0) }
func (r *recAdapter) Pay(_ string, c int64) error { return r.rec("pay", c) }
func (r *recAdapter) Check(string) error          { return r.rec("check", 0) }
func (r *recAdapter) Bet(_ string, c int64) error { return r.rec("bet", c) }
func (r *recAdapter) Call(string) error           { return r.rec("call", 0) }
func (r *recAdapter) Fold(string) error           { return r.rec("fold", 0) }
func (r *recAdapter) Allin(string) error          { return r.rec("allin", 0) }
func (r *recAdapter) Raise(_ string, c int64) error {
	return r.rec("raise", c)
}

func ogameOf(gs *pokerface.GameState) *OGame {
	if gs == nil {
		return nil
	}
	g := &OGame{Deck: len(gs.Meta.Deck), Burned: len(gs.Status.Burned), Closed: gs.Status.CurrentEvent == "GameClosed"}
	for _, p := range gs.Players {
		g.Players = append(g.Players, OPlayer{Hole: len(p.HoleCards), Combo: p.Combination != nil, Fold: p.Fold})
	}
	return g
}

func pviewOf(gs *pokerface.GameState, gp int) *PView {
	p := gs.GetPlayer(gp)
	if p == nil {
		return nil
	}
	return &PView{Allowed: append([]string{}, p.AllowedActions...), Event: gs.Status.CurrentEvent, SB: gs.HasPosition(gp, "sb"), BB: gs.HasPosition(gp, "bb"),
		Ante: gs.Meta.Ante, BD: gs.Meta.Blind.Dealer, BSB: gs.Meta.Blind.SB, BBB: gs.Meta.Blind.BB, MiniBet: gs.Status.MiniBet, CW: gs.Status.CurrentWager,
		PRS: gs.Status.PreviousRaiseSize, Init: p.InitialStackSize, Stack: p.StackSize, Wager: p.Wager, Fold: p.Fold}
}

// would the real hand engine accept this call on this state?
func tryOnEngine(gs *pokerface.GameState, gp int, c ACall) bool {
	if gs == nil {
		return false
	}
	be := pt.NewNativeGameBackend()
	var err error
	switch c.Action {
	case "ready", "pay":
		return gs.HasAction(gp, c.Action)
	case "pass":
		if gs.Status.CurrentPlayer != gp || !gs.HasAction(gp, "pass") {
			return false
		}
		_, err = be.Pass(gs)
	default:
		if gs.Status.CurrentPlayer != gp {
			return false
		}
		switch c.Action {
		case "fold":
			_, err = be.Fold(gs)
		case "check":
			_, err = be.Check(gs)
		case "call":
			_, err = be.Call(gs)
		case "allin":
			_, err = be.Allin(gs)
		case "bet":
			_, err = be.Bet(gs, c.Chips)
		case "raise":
			_, err = be.Raise(gs, c.Chips)
		}
	}
	return err == nil
}

type botSlot struct {
	id       int
	ad       *recAdapter
	calls    []ACall
	autoJoin int
	curGame  string
	last     int64
}

// an engine whose table is a stand-in object with the real engine's content
type standIn struct {
	pt.TableEngine
	t *pt.Table
}

func (s standIn) GetTable() *pt.Table { return s.t }

// hand a table snapshot to an actor; a panic inside the actor is reported, not propagated
func deliver(ad *recAdapter, t *pt.Table) (panicked string) {
	defer func() {
		if rec := recover(); rec != nil {
			panicked = fmt.Sprint(rec)
		}
	}()
	ad.UpdateTableState(t)
	return ""
}

func jsonHash(t *pt.Table) string {
	js, _ := t.GetJSON()
	h := sha1.Sum([]byte(js))
	return string(h[:])
}

func runActorViews(c *ACase) {
	r := NewRNG(c.Seed)
	set := mkSetting(fmt.Sprintf("actor-%d", c.Index), "default", "ct", c.Max, 2, c.Ante, c.Dealer, c.SB, c.BB, 1, 1)
	d, err := NewDrv(set, 0)
	if err != nil {
		c.Note = "create failed"
		return
	}
	var mu sync.Mutex
	bots := map[int]*botSlot{}
	mkBot := func(id int) *botSlot {
		b := &botSlot{id: id}
		a := actor.NewActor()
		b.ad = &recAdapter{inner: actor.NewTableEngineAdapter(d.te, nil), mu: &mu, calls: &b.calls}
		br := actor.NewBotRunner(pid(id))
		br.OnTableAutoJoinActionRequested(func(string, string, string) {
			mu.Lock()
			b.autoJoin++
			mu.Unlock()
		})
		// the two setters are independent: adapter first, runner first, or an adapter that is replaced afterwards (a bot moved
		// to another table) - the bot answers through the adapter it has when it is asked
		switch (uint64(id) + c.Seed) % 3 {
		case 0:
			a.SetAdapter(b.ad)
			a.SetRunner(br)
		case 1:
			a.SetRunner(br)
			a.SetAdapter(b.ad)
		default:
			var stray []ACall
			old := &recAdapter{inner: actor.NewTableEngineAdapter(d.te, nil), mu: &mu, calls: &stray}
			a.SetAdapter(old)
			a.SetRunner(br)
			a.SetAdapter(b.ad)
		}
		return b
	}
	var pending sync.WaitGroup
	sampleRNG := r.Fork(5)
	var last *pt.Table
	feed := func(t *pt.Table, repeat bool) {
		gs := t.State.GameState
		h0 := jsonHash(t)
		// ---- bots: one persistent bot per player at the table (plus one that is not at the table)
		ids := []int{99}
		for _, p := range t.State.PlayerStates {
			ids = append(ids, idOf(p.PlayerID))
		}
		for _, id := range ids {
			b := bots[id]
			if b == nil {
				b = mkBot(id)
				bots[id] = b
			}
			o := AObs{Kind: "bot", Player: id, B: &BView{}, TableStat: string(t.State.Status)}
			for _, p := range t.State.PlayerStates {
				if p.PlayerID == pid(id) {
					o.B.AtTable, o.B.SatIn = true, p.IsIn
				}
			}
			o.B.HasGame = gs != nil
			o.B.Playing = t.State.Status == pt.TableStateStatus_TableGamePlaying
			gp := t.GamePlayerIndex(pid(id))
			o.B.DealtIn = gp != -1
			if gs != nil {
				o.B.NewGame = gs.GameID != b.curGame
				o.B.Fresher = gs.UpdatedAt > b.last
				if gp != -1 {
					o.V = pviewOf(gs, gp)
				}
			}
			// the harness's own record of what this bot has seen (mirrors nothing but the order of deliveries)
			if o.B.AtTable && o.B.SatIn && gs != nil {
				if o.B.NewGame {
					b.curGame, b.last = gs.GameID, gs.UpdatedAt
				} else if o.B.Fresher {
					b.last = gs.UpdatedAt
				}
			}
			mu.Lock()
			b.calls, b.autoJoin = nil, 0
			mu.Unlock()
			b.ad.t0 = time.Now()
			if pn := deliver(b.ad, t); pn != "" {
				mu.Lock()
				b.calls = append(b.calls, ACall{Action: "raise", Chips: -1, Panic: pn})
				mu.Unlock()
			}
			if o.B.AtTable && !o.B.SatIn {
				// the auto-join request is made 100 ms later (later still on a busy machine: waited for, within reason)
				for w := 0; w < 60*slowFactor; w++ {
					time.Sleep(10 * time.Millisecond)
					mu.Lock()
					n := b.autoJoin
					mu.Unlock()
					if n >= 1 && w >= 13 {
						break
					}
				}
			}
			mu.Lock()
			o.Calls = append([]ACall{}, b.calls...)
			o.AutoJoin = b.autoJoin
			mu.Unlock()
			for k := range o.Calls {
				o.Calls[k].Accepted = tryOnEngine(gs, gp, o.Calls[k])
			}
			c.Obs = append(c.Obs, o)
		}
		if repeat {
			return
		}
		// ---- bots at the edges of the sizing rules: the same request with the asked player's round stack set to the smallest
		// value for which the hand engine still offers the bet / raise (a fresh bot each time; the answer is tried on the engine)
		if gs != nil && t.State.Status == pt.TableStateStatus_TableGamePlaying && gs.Status.CurrentEvent == "RoundStarted" {
			gp := gs.Status.CurrentPlayer
			if p := gs.GetPlayer(gp); p != nil && !p.Fold && p.StackSize > 0 {
				edge := int64(-1)
				switch {
				case has(p.AllowedActions, "bet") && p.Wager == 0 && gs.Status.MiniBet > 0:
					edge = gs.Status.MiniBet
				case has(p.AllowedActions, "raise") && p.Wager < gs.Status.CurrentWager:
					edge = gs.Status.CurrentWager + gs.Status.PreviousRaiseSize + 1
				case has(p.AllowedActions, "raise") && p.Wager == gs.Status.CurrentWager && gs.Status.CurrentWager+gs.Status.PreviousRaiseSize >= gs.Status.MiniBet:
					edge = gs.Status.CurrentWager + gs.Status.PreviousRaiseSize
				}
				if edge > p.Wager && edge != p.InitialStackSize {
					data, _ := json.Marshal(t)
					var t2 pt.Table
					if json.Unmarshal(data, &t2) == nil && t2.State.GameState != nil {
						gs2 := t2.State.GameState
						p2 := gs2.GetPlayer(gp)
						p2.InitialStackSize, p2.StackSize = edge, edge-p2.Wager
						id := idOf(d.playerIDAt(gp))
						eb := mkBot(id)
						o := AObs{Kind: "bot", Player: id, B: &BView{AtTable: true, SatIn: true, HasGame: true, NewGame: true, Fresher: true, Playing: true, DealtIn: true},
							V: pviewOf(gs2, gp), TableStat: string(t2.State.Status), Edge: true}
						eb.ad.t0 = time.Now()
						if pn := deliver(eb.ad, &t2); pn != "" {
							mu.Lock()
							eb.calls = append(eb.calls, ACall{Action: "raise", Chips: -1, Panic: pn})
							mu.Unlock()
						}
						mu.Lock()
						o.Calls = append([]ACall{}, eb.calls...)
						mu.Unlock()
						for k := range o.Calls {
							if o.Calls[k].Panic == "" {
								o.Calls[k].Accepted = tryOnEngine(gs2, gp, o.Calls[k])
							}
						}
						c.Obs = append(c.Obs, o)
					}
				}
			}
		}
		// ---- player runners: a fresh runner per sampled request
		if gs != nil && t.State.Status == pt.TableStateStatus_TableGamePlaying {
			for gp, p := range gs.Players {
				if len(p.AllowedActions) == 0 || !sampleRNG.Chance(1, 4) {
					continue
				}
				id := idOf(d.playerIDAt(gp))
				status := []string{"running", "idle", "suspended"}[sampleRNG.Intn(3)]
				o := &AObs{Kind: "player", Player: id, Status: status, ActionTime: t.Meta.ActionTime, V: pviewOf(gs, gp), TableStat: string(t.State.Status)}
				calls := []ACall{}
				ad := &recAdapter{inner: actor.NewTableEngineAdapter(d.te, nil), mu: &mu, calls: &calls, t0: time.Now()}
				a := actor.NewActor()
				a.SetAdapter(ad)
				pr := actor.NewPlayerRunner(pid(id))
				switch status {
				case "idle":
					pr.Idle()
				case "suspended":
					pr.Suspend()
				}
				a.SetRunner(pr)
				gsCopy := relabel(gs, "", "")
				ad.UpdateTableState(t)
				pending.Add(1)
				go func(gp int) {
					defer pending.Done()
					time.Sleep(time.Duration(t.Meta.ActionTime)*time.Second + 600*time.Millisecond)
					mu.Lock()
					o.Calls = append([]ACall{}, calls...)
					mu.Unlock()
					for k := range o.Calls {
						o.Calls[k].Accepted = tryOnEngine(gsCopy, gp, o.Calls[k])
					}
					mu.Lock()
					c.Obs = append(c.Obs, *o)
					mu.Unlock()
				}(gp)
			}
		}
		// ---- observers and copies: several actors attached in a random order, all handed the engine's own table
		type att struct {
			kind string
			ad   actor.Adapter
			view *pt.Table
		}
		var atts []*att
		for _, kind := range []string{"observer", "system", "player", "bot"} {
			x := &att{kind: kind}
			a := actor.NewActor()
			calls := []ACall{}
			x.ad = &recAdapter{inner: actor.NewTableEngineAdapter(d.te, nil), mu: &mu, calls: &calls, t0: time.Now()}
			a.SetAdapter(x.ad)
			switch kind {
			case "observer", "system":
				ob := actor.NewObserverRunner()
				ob.EnabledSystemMode(kind == "system")
				ob.OnTableStateUpdated(func(v *pt.Table) { x.view = v })
				a.SetRunner(ob)
			case "player":
				pr := actor.NewPlayerRunner(pid(ids[len(ids)-1]))
				pr.Suspend()
				pr.OnTableStateUpdated(func(v *pt.Table) { x.view = v })
				a.SetRunner(pr)
			default:
				a.SetRunner(actor.NewBotRunner(pid(ids[len(ids)-1])))
			}
			atts = append(atts, x)
		}
		sampleRNG.Shuffle(len(atts), func(i, j int) { atts[i], atts[j] = atts[j], atts[i] })
		pre := ogameOf(gs)
		for _, x := range atts {
			x.ad.UpdateTableState(t)
		}
		h1 := jsonHash(t)
		for _, x := range atts {
			if x.kind != "observer" && x.kind != "system" {
				continue
			}
			o := AObs{Kind: "observer", System: x.kind == "system", Pre: pre, EngineSame: h0 == h1, TableStat: string(t.State.Status),
				Filtered: t.State.Status == pt.TableStateStatus_TableGamePlaying || t.State.Status == pt.TableStateStatus_TableGameSettled}
			if x.view != nil {
				o.View = ogameOf(x.view.State.GameState)
				// what the system observer was handed is exactly the engine's table: nothing another actor hid or changed leaks into it
				o.OthersSame = x.kind != "system" || jsonHash(x.view) == h0
			}
			c.Obs = append(c.Obs, o)
		}
	}
	// ---- persistent actors, attached once as production does (the adapter is built on the engine's own table)
	type preq struct {
		at     int64 // ms since the history began
		v      *PView
		gp     int
		gs     *pokerface.GameState
		arming bool // arms the thinking-time wait (anything but a pass, which is answered at once)
	}
	type pslot struct {
		id      int
		calls   []ACall // DelayMs = ms since the history began
		ad      *recAdapter
		reqs    []preq
		curGame string    // the hand of the last request
		lastAsk *pt.Table // the snapshot of the last request (re-delivered once the next hand has begun: it is out of date then)
	}
	// requests kept for the status sequence played at the end of the history: (snapshot, hand index), for one player
	type askSnap struct {
		t  *pt.Table
		gp int
		id int
	}
	var asks []askSnap
	t00 := time.Now()
	prs := map[int]*pslot{}
	type oslot struct {
		ad    actor.Adapter
		views []*pt.Table
	}
	var pobs *oslot
	persistent := func(t *pt.Table) {
		gs := t.State.GameState
		// player runners (status running) that live through the whole history: a new request calls the pending wait off,
		// and a wait that was called off must not act
		if gs != nil && t.State.Status == pt.TableStateStatus_TableGamePlaying {
			for gp, p := range gs.Players {
				if len(p.AllowedActions) == 0 {
					continue
				}
				id := idOf(d.playerIDAt(gp))
				sl := prs[id]
				if sl == nil {
					sl = &pslot{id: id}
					sl.ad = &recAdapter{inner: actor.NewTableEngineAdapter(d.te, nil), mu: &mu, calls: &sl.calls, t0: t00}
					a := actor.NewActor()
					a.SetAdapter(sl.ad)
					a.SetRunner(actor.NewPlayerRunner(pid(id)))
					prs[id] = sl
				}
				sl.reqs = append(sl.reqs, preq{at: time.Since(t00).Milliseconds(), v: pviewOf(gs, gp), gp: gp, gs: relabel(gs, "", ""), arming: !gs.HasAction(gp, "pass")})
				sl.ad.UpdateTableState(t)
				// a late copy of the previous hand's last request arrives after the new hand's: it is out of date and must be ignored
				if sl.lastAsk != nil && sl.curGame != gs.GameID && sampleRNG.Chance(1, 2) {
					sl.ad.UpdateTableState(sl.lastAsk)
				}
				sl.curGame = gs.GameID
				if cp, err := t.Clone(); err == nil {
					sl.lastAsk = cp
					if !gs.HasAction(gp, "pass") && len(asks) < 40 {
						asks = append(asks, askSnap{t: cp, gp: gp, id: id})
					}
				}
			}
		}
		// an observer attached the way production attaches one: the adapter is built on the table object the engine hands out, and
		// that same object is then delivered (twice: a replay after a reconnect), and now and then two views arrive at the same moment
		// from several goroutines.  A stand-in object with the engine's content plays the engine's table, so that a leak shows as a
		// change of the stand-in instead of corrupting the running hand.
		eng, err := t.Clone()
		if err != nil {
			return
		}
		pobs = &oslot{}
		calls := []ACall{}
		pobs.ad = &recAdapter{inner: actor.NewTableEngineAdapter(d.te, eng), mu: &mu, calls: &calls, t0: time.Now()}
		a := actor.NewActor()
		a.SetAdapter(pobs.ad)
		ob := actor.NewObserverRunner()
		ob.OnTableStateUpdated(func(v *pt.Table) {
			mu.Lock()
			pobs.views = append(pobs.views, v)
			mu.Unlock()
		})
		a.SetRunner(ob)
		h0 := jsonHash(eng)
		pre := ogameOf(gs)
		filtered := t.State.Status == pt.TableStateStatus_TableGamePlaying || t.State.Status == pt.TableStateStatus_TableGameSettled
		pobs.ad.UpdateTableState(eng)
		pobs.ad.UpdateTableState(eng)
		nseq := 2
		if last != nil && filtered && sampleRNG.Chance(1, 4) {
			var wg sync.WaitGroup
			start := make(chan struct{})
			for k := 0; k < 6; k++ {
				x := eng
				if k%2 == 1 {
					x = last
				}
				wg.Add(1)
				go func(x *pt.Table) {
					defer wg.Done()
					<-start
					for rep := 0; rep < 2; rep++ {
						pobs.ad.UpdateTableState(x)
					}
				}(x)
			}
			close(start)
			wg.Wait()
		}
		h1 := jsonHash(eng)
		// the adapter's own accessor to the hand: asked before the first update (an actor attached between two deliveries, holding a
		// snapshot without a hand) and after one, it must hand out nothing or a copy - what the caller does to it (here: the
		// observer's filter) must not reach the engine's table.  The engine is again a stand-in holding the same content.
		if eng2, err := t.Clone(); err == nil && gs != nil {
			idle, _ := t.Clone()
			idle.State.GameState = nil
			ad2 := actor.NewTableEngineAdapter(standIn{TableEngine: d.te, t: eng2}, idle)
			a2 := actor.NewActor()
			a2.SetAdapter(ad2)
			a2.SetRunner(actor.NewObserverRunner())
			g0 := jsonHash(eng2)
			if g := ad2.GetGameState(); g != nil {
				g.AsObserver()
			}
			ad2.UpdateTableState(eng2)
			if g := ad2.GetGameState(); g != nil {
				g.AsObserver()
			}
			c.Obs = append(c.Obs, AObs{Kind: "observer", System: true, EngineSame: g0 == jsonHash(eng2), OthersSame: true, TableStat: string(t.State.Status), Accessor: true})
		}
		mu.Lock()
		views := append([]*pt.Table{}, pobs.views...)
		mu.Unlock()
		for k, v := range views {
			o := AObs{Kind: "observer", System: false, Filtered: filtered, Pre: pre, View: ogameOf(v.State.GameState), EngineSame: h0 == h1, OthersSame: true, TableStat: string(t.State.Status)}
			if k >= nseq {
				// concurrent deliveries: which of the views this is cannot be told; it must hide everything whichever it is
				o.Pre = o.View
				o.Filtered = true
			}
			c.Obs = append(c.Obs, o)
		}
	}
	var askSnapT *pt.Table // the latest snapshot in which somebody was asked, and the hand it belongs to
	askGame := ""
	d.tap = func(t *pt.Table) {
		defer func() {
			if rec := recover(); rec != nil {
				mu.Lock()
				c.Note = fmt.Sprintf("an actor panicked on a %s snapshot: %v", t.State.Status, rec)
				mu.Unlock()
			}
		}()
		feed(t, false)
		if sampleRNG.Chance(1, 6) {
			feed(t, true) // the very same view delivered again
		}
		if last != nil && sampleRNG.Chance(1, 6) {
			feed(last, true) // an old view delivered again
		}
		// the last request of the previous hand arrives once more after the new hand has begun (a late copy): for a bot a view of
		// another hand than the one it follows is a new hand, whatever its time stamp, and is answered
		if g := t.State.GameState; g != nil && t.State.Status == pt.TableStateStatus_TableGamePlaying {
			if g.GameID != askGame && askSnapT != nil && sampleRNG.Chance(1, 2) {
				feed(askSnapT, true)
				askSnapT = nil
			}
			for _, p := range g.Players {
				if len(p.AllowedActions) > 0 {
					if cp, err := t.Clone(); err == nil {
						if g.GameID != askGame {
							askGame = g.GameID
						}
						askSnapT = cp
					}
					break
				}
			}
		}
		persistent(t)
		if cp, err := t.Clone(); err == nil {
			last = cp
		}
	}
	for i := 0; i < c.N; i++ {
		chips := int64(30 + r.Intn(500))
		if r.Chance(1, 4) {
			chips = int64(1 + r.Intn(30)) // stacks from one chip: minimum bets above the stack, forced all-ins
		}
		d.te.PlayerReserve(pt.JoinPlayer{PlayerID: pid(i + 1), RedeemChips: chips, Seat: -1})
	}
	for i := 0; i < c.N; i++ {
		d.JoinAndSettle(pid(i + 1))
	}
	d.Quiesce(quiesceLimit)
	if d.StartAndOpenFirst() != "ok" {
		c.Note = "first hand did not open"
		return
	}
	pol := &Policy{R: r.Fork(9), FoldPct: 10, AllinPct: 12, RaisePct: 35}
	for step := 0; step < 500; step++ {
		a := d.Abs()
		if a.GameCount >= c.Hands && betweenHands(a) {
			break
		}
		// in every other history with an ante the level clock moves on right after a hand has opened: the table's level is then
		// no longer the one the running hand is played at (the ante and blinds asked for are the running hand's)
		if c.Ante > 0 && c.Seed%2 == 0 {
			if tt := d.te.GetTable(); tt.State.Status == pt.TableStateStatus_TableGamePlaying && tt.State.GameState != nil &&
				tt.State.GameState.Status.CurrentEvent == "ReadyRequested" && tt.State.BlindState.Ante == tt.State.GameState.Meta.Ante {
				b := tt.State.BlindState
				d.te.UpdateBlind(b.Level+1, b.Ante+5, b.Dealer, b.SB*2, b.BB*2)
			}
		}
		if _, res := d.Advance(pol); res != "ok" {
			break
		}
	}
	// now and then the table is closed in the middle of one more hand: the snapshot published for that still carries the hand
	if c.Seed%5 == 3 {
		for step := 0; step < 40; step++ {
			tt := d.te.GetTable()
			if g := tt.State.GameState; tt.State.Status == pt.TableStateStatus_TableGamePlaying && g != nil && g.Status.CurrentEvent == "RoundStarted" {
				d.te.CloseTable()
				d.Quiesce(quiesceLimit)
				break
			}
			if _, res := d.Advance(pol); res != "ok" {
				break
			}
		}
	}
	d.tap = nil
	// the last request of every persistent player runner is allowed to run its course
	time.Sleep(time.Duration(set.Meta.ActionTime)*time.Second + 600*time.Millisecond)
	// every recorded call is attributed to the request whose wait it ends: a wait runs its full thinking time unless a newer
	// arming request called it off (the time bank holds one task); a pass is answered at once
	at := int64(set.Meta.ActionTime) * 1000
	for _, sl := range prs {
		mu.Lock()
		calls := append([]ACall{}, sl.calls...)
		mu.Unlock()
		attached := make([][]ACall, len(sl.reqs))
		superseded := make([]bool, len(sl.reqs))
		for i, q := range sl.reqs {
			if !q.arming {
				continue
			}
			for j := i + 1; j < len(sl.reqs); j++ {
				if sl.reqs[j].arming && sl.reqs[j].at < q.at+at-100 {
					superseded[i] = true
				}
			}
		}
		for _, cl := range calls {
			best := -1
			for i, q := range sl.reqs {
				if q.arming && !superseded[i] && cl.DelayMs >= q.at+at-20 && cl.DelayMs <= q.at+at+450 {
					best = i
				}
				if !q.arming && cl.Action == "pass" && cl.DelayMs >= q.at && cl.DelayMs <= q.at+450 {
					best = i
				}
			}
			if best == -1 {
				// belongs to no wait that was allowed to run out: charge it to the latest request before it
				for i, q := range sl.reqs {
					if q.at <= cl.DelayMs {
						best = i
					}
				}
			}
			if best >= 0 {
				cl.DelayMs -= sl.reqs[best].at
				cl.Accepted = tryOnEngine(sl.reqs[best].gs, sl.reqs[best].gp, cl)
				attached[best] = append(attached[best], cl)
			}
		}
		for i, q := range sl.reqs {
			o := AObs{Kind: "player", Player: sl.id, Status: "running", ActionTime: set.Meta.ActionTime, V: q.v, Calls: attached[i], TableStat: "table_game_playing"}
			if superseded[i] {
				o.Status = "superseded"
			}
			c.Obs = append(c.Obs, o)
		}
	}
	pending.Wait()
	c.Settled = d.Abs().GameCount
	// ---- one runner taken through status calls (Idle / Resume / Suspend) with requests left to run their course in between: who is
	// suspended - and therefore answered for at once - is decided by the model from the calls and the time-outs
	if c.Seed%2 == 0 {
		count := map[int]int{}
		best := 0
		for _, a := range asks {
			count[a.id]++
			if count[a.id] > count[best] {
				best = a.id
			}
		}
		var mine []askSnap
		for _, a := range asks {
			if a.id == best && len(mine) < 3 {
				mine = append(mine, a)
			}
		}
		scripts := [][][]string{
			{{"idle"}, {"resume"}, {}},    // idle, one time-out, resumed: running again, the count forgotten
			{{"idle"}, {}, {}},            // idle, two time-outs in a row: suspended
			{{"suspend"}, {"resume"}, {}}, // suspended, resumed
		}
		script := scripts[int(c.Seed/2)%len(scripts)]
		if len(mine) == 3 {
			calls := []ACall{}
			ad := &recAdapter{inner: actor.NewTableEngineAdapter(d.te, nil), mu: &mu, calls: &calls, t0: time.Now()}
			a := actor.NewActor()
			a.SetAdapter(ad)
			pr := actor.NewPlayerRunner(pid(best))
			a.SetRunner(pr)
			o := AObs{Kind: "playerseq", Player: best, ActionTime: set.Meta.ActionTime, TableStat: "table_game_playing"}
			for k, ask := range mine {
				for _, e := range script[k] {
					switch e {
					case "idle":
						pr.Idle()
					case "resume":
						pr.Resume()
					case "suspend":
						pr.Suspend()
					}
				}
				mu.Lock()
				calls = calls[:0]
				mu.Unlock()
				ad.t0 = time.Now()
				ad.UpdateTableState(ask.t)
				time.Sleep(time.Duration(set.Meta.ActionTime)*time.Second + 600*time.Millisecond)
				mu.Lock()
				got := append([]ACall{}, calls...)
				mu.Unlock()
				for i := range got {
					got[i].Accepted = tryOnEngine(ask.t.State.GameState, ask.gp, got[i])
				}
				o.Seq = append(o.Seq, SeqReq{Events: script[k], V: pviewOf(ask.t.State.GameState, ask.gp), Calls: got})
			}
			c.Obs = append(c.Obs, o)
		}
	}
}

// a table played by bots only, wired as in production: every hand must reach settlement and every call a bot
// makes must be accepted
func runActorBots(c *ACase) {
	r := NewRNG(c.Seed)
	set := mkSetting(fmt.Sprintf("bots-%d", c.Index), "default", "ct", c.Max, 2, c.Ante, c.Dealer, c.SB, c.BB, 1, 3)
	d, err := NewDrv(set, 0)
	if err != nil {
		c.Note = "create failed"
		return
	}
	var mu sync.Mutex
	var actors []actor.Actor
	for i := 0; i < c.N; i++ {
		id := i + 1
		calls := []ACall{}
		ad := &recAdapter{inner: actor.NewTableEngineAdapter(d.te, nil), mu: &mu, calls: &calls, t0: time.Now()}
		hr := &handRun{d: d}
		ad.fwd = func(action string, chips int64) error {
			err := hr.doCall(HCall{Player: id, Action: action, Chips: chips})
			mu.Lock()
			c.Calls++
			if err != nil {
				c.Refused++
				if c.Note == "" {
					c.Note = fmt.Sprintf("bot %d: %s(%d) refused: %v", id, action, chips, err)
				}
			}
			mu.Unlock()
			return err
		}
		a := actor.NewActor()
		a.SetAdapter(ad)
		br := actor.NewBotRunner(pid(id))
		br.OnTableAutoJoinActionRequested(func(_, _, p string) { go d.te.PlayerJoin(p) })
		a.SetRunner(br)
		actors = append(actors, a)
	}
	d.tap = func(t *pt.Table) {
		for _, a := range actors {
			a.GetTable().UpdateTableState(t)
		}
	}
	for i := 0; i < c.N; i++ {
		chips := int64(20 + r.Intn(300))
		if r.Chance(1, 3) {
			chips = int64(1 + r.Intn(25))
		}
		d.te.PlayerReserve(pt.JoinPlayer{PlayerID: pid(i + 1), RedeemChips: chips, Seat: -1})
	}
	time.Sleep(400 * time.Millisecond) // the bots ask to be seated in
	d.te.StartTableGame()
	deadline := time.Now().Add(25 * time.Second)
	for time.Now().Before(deadline) {
		t := d.te.GetTable()
		alive := 0
		for _, p := range t.State.PlayerStates {
			if p.Bankroll > 0 {
				alive++
			}
		}
		between := t.State.Status == pt.TableStateStatus_TableGameStandby || t.State.Status == pt.TableStateStatus_TablePausing
		if between && (t.State.GameCount >= c.Hands || alive < 2) {
			break
		}
		// the players signal that they have seen the settlement once the gate for the next hand stands (the gate keeps its
		// participants in an unguarded map: signalling while the engine is still setting it up can crash the process)
		if grp := ogm.VerifGroupStates(pt.VerifOpenGameManager(d.te)); t.State.Status == pt.TableStateStatus_TableGameStandby && len(grp) > 0 {
			pendingSig := false
			for _, ready := range grp {
				if !ready {
					pendingSig = true
				}
			}
			if pendingSig {
				for _, p := range t.State.PlayerStates {
					if p.Bankroll > 0 && p.IsIn {
						d.te.PlayerSettlementFinish(p.PlayerID)
					}
				}
			}
		}
		time.Sleep(20 * time.Millisecond)
	}
	t := d.te.GetTable()
	c.Opened = t.State.GameCount
	c.Settled = t.State.GameCount
	if t.State.Status == pt.TableStateStatus_TableGamePlaying || t.State.Status == pt.TableStateStatus_TableGameOpened || t.State.Status == pt.TableStateStatus_TableGameSettled {
		c.Settled--
		if c.Note == "" {
			c.Note = "a hand played by bots did not reach settlement in time: " + string(t.State.Status)
		}
	}
	d.tap = nil
	d.te.CloseTable()
}

func genActor(root *RNG, i int, seed uint64, mode string) ACase {
	r := root.Fork(uint64(i))
	c := ACase{Index: i, Seed: seed*1000721 + uint64(i), Kind: "views", Max: 2 + r.Intn(8), SB: 10, BB: 20, Hands: 2 + r.Intn(2)}
	if i%4 == 3 {
		c.Kind = "bots"
	}
	if mode != "" {
		c.Kind = mode
	}
	c.N = 2 + r.Intn(c.Max-1)
	if c.N > 5 {
		c.N = 5
	}
	if r.Chance(1, 3) {
		c.Ante = int64(1 + r.Intn(5))
	}
	if r.Chance(1, 8) {
		c.SB = 0
	}
	if r.Chance(1, 8) {
		c.Dealer = 5
	}
	return c
}

func runActor(opt Opts) error {
	var cases []ACase
	if opt.Replay != "" {
		data, err := os.ReadFile(opt.Replay)
		if err != nil {
			return err
		}
		if err := json.Unmarshal(data, &cases); err != nil {
			return err
		}
		for i := range cases {
			cases[i].Obs, cases[i].Note, cases[i].Settled, cases[i].Opened, cases[i].Refused, cases[i].Calls = nil, "", 0, 0, 0, 0
		}
	} else {
		root := NewRNG(opt.Seed)
		for i := 0; i < opt.N; i++ {
			cases = append(cases, genActor(root, i, opt.Seed, opt.Mode))
		}
	}
	if ij, err := json.Marshal(cases); err == nil {
		os.MkdirAll(opt.Out, 0o755)
		os.WriteFile(opt.Out+"/inputs.json", ij, 0o644)
	}
	var wg sync.WaitGroup
	sem := make(chan struct{}, 10)
	for i := range cases {
		wg.Add(1)
		sem <- struct{}{}
		go func(c *ACase) {
			defer wg.Done()
			defer func() { <-sem }()
			done := make(chan bool, 1)
			cp := *c
			go func() {
				if cp.Kind == "bots" {
					runActorBots(&cp)
				} else {
					runActorViews(&cp)
				}
				done <- true
			}()
			select {
			case <-done:
				*c = cp
			case <-time.After(120 * time.Second):
				c.Note = "hung"
			}
		}(&cases[i])
	}
	wg.Wait()
	return writeCases(opt.Out, "Actor_run", cases, func(i int) string { return cases[i].Coq() }, len(cases))
}

func (v *PView) Coq() string {
	return fmt.Sprintf("(mkpv %s %s %v %v %s %s %s %s %s %s %s %s %s %s %v)", coqActs(v.Allowed), coqEv(v.Event), v.SB, v.BB, coqZi(int(v.Ante)), coqZi(int(v.BD)),
		coqZi(int(v.BSB)), coqZi(int(v.BBB)), coqZi(int(v.MiniBet)), coqZi(int(v.CW)), coqZi(int(v.PRS)), coqZi(int(v.Init)), coqZi(int(v.Stack)), coqZi(int(v.Wager)), v.Fold)
}

func coqMove(c ACall) string {
	switch c.Action {
	case "ready":
		return "MvReady"
	case "pass":
		return "MvPass"
	case "pay":
		return "(MvPay " + coqZi(int(c.Chips)) + ")"
	case "check":
		return "MvCheck"
	case "call":
		return "MvCall"
	case "fold":
		return "MvFold"
	case "allin":
		return "MvAllin"
	case "bet":
		return "(MvBet " + coqZi(int(c.Chips)) + ")"
	}
	return "(MvRaise " + coqZi(int(c.Chips)) + ")"
}

func coqCalls(cs []ACall) string {
	xs := make([]string, len(cs))
	for i, c := range cs {
		xs[i] = fmt.Sprintf("(%s, %s, %v)", coqMove(c), coqZi(int(c.DelayMs)), c.Accepted)
	}
	return "[" + strings.Join(xs, "; ") + "]"
}

func (g *OGame) Coq() string {
	if g == nil {
		return "None"
	}
	ps := make([]string, len(g.Players))
	for i, p := range g.Players {
		ps[i] = fmt.Sprintf("(%d%%nat, %v, %v)", p.Hole, p.Combo, p.Fold)
	}
	return fmt.Sprintf("(Some (mkog %d %d %v [%s]))", g.Deck, g.Burned, g.Closed, strings.Join(ps, "; "))
}

func (o AObs) Coq() string {
	switch o.Kind {
	case "bot":
		v := "None"
		if o.V != nil {
			v = "(Some " + o.V.Coq() + ")"
		}
		return fmt.Sprintf("OBot (mkbv %v %v %v %v %v %v %v) %s %s %d", o.B.AtTable, o.B.SatIn, o.B.HasGame, o.B.NewGame, o.B.Fresher, o.B.Playing, o.B.DealtIn, v, coqCalls(o.Calls), o.AutoJoin)
	case "playerseq":
		rs := make([]string, len(o.Seq))
		for i, q := range o.Seq {
			evs := make([]string, len(q.Events))
			for k, e := range q.Events {
				evs[k] = map[string]string{"idle": "RIdle", "resume": "RResume", "suspend": "RSuspend"}[e]
			}
			rs[i] = fmt.Sprintf("([%s], %s, %s)", strings.Join(evs, "; "), q.V.Coq(), coqCalls(q.Calls))
		}
		return fmt.Sprintf("OPlayerSeq %s [%s]", coqZi(o.ActionTime), strings.Join(rs, "; "))
	case "player":
		if o.Status == "superseded" {
			return fmt.Sprintf("OSuperseded %s %s", o.V.Coq(), coqCalls(o.Calls))
		}
		st := map[string]string{"running": "PRunning", "idle": "PIdle", "suspended": "PSuspended"}[o.Status]
		return fmt.Sprintf("OPlayer %s %s %s %s", st, coqZi(o.ActionTime), o.V.Coq(), coqCalls(o.Calls))
	}
	return fmt.Sprintf("OObserver %v %v %s %s %v %v", o.System, o.Filtered, o.Pre.Coq(), o.View.Coq(), o.EngineSame, o.OthersSame)
}

func (c ACase) Coq() string {
	xs := make([]string, len(c.Obs))
	for i, o := range c.Obs {
		xs[i] = o.Coq()
	}
	return fmt.Sprintf("mkac %v [%s] %d %d %d %d %v", c.Kind == "bots", strings.Join(xs, ";\n    "), c.Hands, c.Settled, c.Calls, c.Refused, c.Note != "")
}

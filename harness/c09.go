package main

import (
	"encoding/json"
	"fmt"
	"os"
	"path/filepath"
	"sort"
	"strings"
	"sync"
	"time"

	ogm "github.com/weedbox/pokertable/open_game_manager"
)

// ---- history representation (printed as Gallina and as JSON) ----

type C09Part struct {
	ID    int  `json:"id"`
	Idx   int  `json:"idx"`
	Ready bool `json:"ready"`
}

type C09Op struct {
	Kind  string    `json:"kind"` // setup | ready | timeout | restore
	GC    int       `json:"gc,omitempty"`
	Parts []C09Part `json:"parts,omitempty"` // setup: (id, idx); restore: (id, idx, ready)
	ID    int       `json:"id,omitempty"`
	Tmo   int       `json:"tmo,omitempty"`
	Gap   int       `json:"gap_ms,omitempty"` // setup: real time let pass before it (a set-up superseded well before its deadline)
}

type C09Obs struct {
	Op      C09Op     `json:"op"`
	Out     string    `json:"out"` // none | err | fire | many
	FireGC  int       `json:"fire_gc,omitempty"`
	FirePs  []C09Part `json:"fire_parts,omitempty"`
	NFires  int       `json:"n_fires,omitempty"`
	GC      int       `json:"gc"`
	Parts   []C09Part `json:"parts"`
	WaitedS float64   `json:"waited_s,omitempty"`
}

type C09Case struct {
	Index int      `json:"index"`
	Tmo   int      `json:"tmo"`
	Ops   []C09Op  `json:"ops"`
	Trace []C09Obs `json:"trace,omitempty"`
}

func pid(id int) string { return fmt.Sprintf("p%03d", id) }

func partsFromState(st ogm.OpenGameState) []C09Part {
	ps := make([]C09Part, 0, len(st.Participants))
	for k, p := range st.Participants {
		var id int
		fmt.Sscanf(k, "p%d", &id)
		ps = append(ps, C09Part{ID: id, Idx: p.Index, Ready: p.IsReady})
	}
	sort.Slice(ps, func(i, j int) bool { return ps[i].ID < ps[j].ID })
	return ps
}

// ---- generation ----

func genC09(r *RNG, idx int) C09Case {
	c := C09Case{Index: idx}
	withTimeout := r.Chance(1, 5)
	if withTimeout {
		c.Tmo = 1
	}
	pool := []int{10, 11, 12, 13, 14, 15, 16, 17}
	var cur []C09Part // participants of the current set-up as the generator believes them (id, idx)
	gc := 0
	mkSetup := func() C09Op {
		n := r.Intn(6) // 0..5 participants; 0 is the degenerate "nobody" set-up
		if r.Chance(1, 12) {
			n = 6 + r.Intn(3)
		}
		perm := r.Perm(len(pool))
		ids := append([]int{}, perm[:n]...)
		sort.Ints(ids)
		ps := make([]C09Part, 0, n)
		idxs := r.Perm(n)
		sparse := r.Chance(1, 4)
		inOrder := r.Chance(1, 2)
		for k, pi := range ids {
			ix := idxs[k]
			if inOrder {
				ix = k
			}
			if sparse {
				ix = ix*3 + 1
			}
			ps = append(ps, C09Part{ID: pool[pi], Idx: ix})
		}
		if !r.Chance(1, 5) { // now and then the same hand number is set up again
			gc += 1 + r.Intn(3)
		}
		cur = ps
		return C09Op{Kind: "setup", GC: gc, Parts: ps}
	}
	if withTimeout {
		// few operations before the timeout so that real time stays far from the 1 s timer
		c.Ops = append(c.Ops, mkSetup())
		k := r.Intn(4)
		for i := 0; i < k; i++ {
			if len(cur) > 0 && r.Chance(4, 5) {
				c.Ops = append(c.Ops, C09Op{Kind: "ready", ID: cur[r.Intn(len(cur))].ID})
			} else {
				c.Ops = append(c.Ops, C09Op{Kind: "ready", ID: 90 + r.Intn(5)})
			}
		}
		if r.Chance(1, 2) {
			// the set-up is superseded before anything expired: only the new one may fire, once, at ITS deadline
			op2 := mkSetup()
			op2.Gap = 450
			c.Ops = append(c.Ops, op2)
			if len(cur) > 0 && r.Chance(1, 2) {
				c.Ops = append(c.Ops, C09Op{Kind: "ready", ID: cur[r.Intn(len(cur))].ID})
			}
		}
		c.Ops = append(c.Ops, C09Op{Kind: "timeout"})
		// after the expiry: repeats, a second expiry-that-cannot-happen is not generated
		k = r.Intn(3)
		for i := 0; i < k; i++ {
			if len(cur) > 0 {
				c.Ops = append(c.Ops, C09Op{Kind: "ready", ID: cur[r.Intn(len(cur))].ID})
			}
		}
		return c
	}
	nops := 3 + r.Intn(14)
	for i := 0; i < nops; i++ {
		x := r.Intn(100)
		switch {
		case i == 0 && x < 85, x < 18:
			c.Ops = append(c.Ops, mkSetup())
		case x < 70 && len(cur) > 0:
			c.Ops = append(c.Ops, C09Op{Kind: "ready", ID: cur[r.Intn(len(cur))].ID})
		case x < 82:
			id := 90 + r.Intn(5)
			if r.Chance(1, 2) {
				id = pool[r.Intn(len(pool))] // possibly a participant of an earlier set-up
			}
			c.Ops = append(c.Ops, C09Op{Kind: "ready", ID: id})
		case x < 92:
			c.Ops = append(c.Ops, C09Op{Kind: "restore", Tmo: 0}) // snapshot of the live gate, filled in at run time
		default:
			if len(cur) > 0 {
				// everybody signals in a random order: the common completing line
				for _, k := range r.Perm(len(cur)) {
					c.Ops = append(c.Ops, C09Op{Kind: "ready", ID: cur[k].ID})
				}
			}
		}
	}
	return c
}

// ---- execution against the real open_game_manager ----

type fireRec struct {
	gen int
	gc  int
	ps  []C09Part
}

func runC09Case(c *C09Case, slow int) {
	settle := time.Duration(40*slow) * time.Millisecond
	extra := time.Duration(8*slow) * time.Millisecond
	fires := make(chan fireRec, 64)
	gen := 0
	mkOpt := func(g int, tmo int) ogm.OpenGameOption {
		return ogm.OpenGameOption{Timeout: tmo, OnOpenGameReady: func(st ogm.OpenGameState) {
			fires <- fireRec{gen: g, gc: st.GameCount, ps: partsFromState(st)}
		}}
	}
	m := ogm.NewOpenGameManager(mkOpt(gen, c.Tmo))
	armedAt := time.Now()
	c.Trace = nil
	collect := func(wait time.Duration) []fireRec {
		var got []fireRec
		deadline := time.After(wait)
		for {
			select {
			case f := <-fires:
				if f.gen == gen {
					got = append(got, f)
					// look a little longer for an (illegal) second invocation
					deadline = time.After(extra)
				}
			case <-deadline:
				return got
			}
		}
	}
	for i := range c.Ops {
		op := &c.Ops[i]
		obs := C09Obs{}
		isErr := false
		wait := settle
		switch op.Kind {
		case "setup":
			if op.Gap > 0 {
				time.Sleep(time.Duration(op.Gap) * time.Millisecond)
			}
			parts := map[string]int{}
			for _, p := range op.Parts {
				parts[pid(p.ID)] = p.Idx
			}
			m.Setup(op.GC, parts)
			armedAt = time.Now()
		case "ready":
			if err := m.Ready(pid(op.ID)); err != nil {
				isErr = true
			}
		case "timeout":
			// wait until the configured timeout has certainly elapsed since the last arming
			until := armedAt.Add(time.Duration(c.Tmo)*time.Second + time.Duration(350*slow)*time.Millisecond)
			wait = time.Until(until)
			if wait < settle {
				wait = settle
			}
			obs.WaitedS = wait.Seconds()
		case "restore":
			st := m.GetState()
			snap := ogm.OpenGameState{Timeout: st.Timeout, GameCount: st.GameCount, Participants: map[string]*ogm.OpenGameParticipant{}}
			op.Parts = partsFromState(st)
			op.GC = st.GameCount
			op.Tmo = c.Tmo
			for k, p := range st.Participants {
				cp := *p
				snap.Participants[k] = &cp
			}
			gen++
			m = ogm.NewOpenGameManagerFromState(snap, mkOpt(gen, c.Tmo))
			armedAt = time.Now()
		}
		var got []fireRec
		early := 0
		if op.Kind == "timeout" {
			// nothing may fire before the CURRENT set-up's deadline (a superseded set-up's timer must be dead)
			before := time.Until(armedAt.Add(time.Duration(c.Tmo)*time.Second - 250*time.Millisecond))
			if before > 0 {
				early = len(collect(before))
			}
			got = collect(time.Until(armedAt.Add(time.Duration(c.Tmo)*time.Second + time.Duration(350*slow)*time.Millisecond)))
		} else {
			got = collect(wait)
		}
		switch {
		case early > 0:
			obs.Out = "many" // fired before the deadline of the set-up in force (and possibly again at it)
			obs.NFires = early + len(got)
		case isErr:
			obs.Out = "err"
		case len(got) == 0:
			obs.Out = "none"
		case len(got) == 1:
			obs.Out = "fire"
			obs.FireGC = got[0].gc
			obs.FirePs = got[0].ps
		default:
			obs.Out = "many"
			obs.NFires = len(got)
		}
		st := m.GetState()
		obs.GC = st.GameCount
		obs.Parts = partsFromState(st)
		obs.Op = *op
		c.Trace = append(c.Trace, obs)
	}
}

// ---- Gallina printing ----

func coqParts(ps []C09Part) string {
	xs := make([]string, len(ps))
	for i, p := range ps {
		xs[i] = fmt.Sprintf("mkp %d %d %v", p.ID, p.Idx, p.Ready)
	}
	return "[" + strings.Join(xs, "; ") + "]"
}

func coqZ(n int) string { return fmt.Sprintf("(%d)%%Z", n) }

func (o C09Op) Coq() string {
	switch o.Kind {
	case "setup":
		xs := make([]string, len(o.Parts))
		for i, p := range o.Parts {
			xs[i] = fmt.Sprintf("(%d, %d)", p.ID, p.Idx)
		}
		return fmt.Sprintf("(Setup %s [%s])", coqZ(o.GC), strings.Join(xs, "; "))
	case "ready":
		return fmt.Sprintf("(Ready %d)", o.ID)
	case "timeout":
		return "Timeout"
	case "restore":
		return fmt.Sprintf("(Restore %d %s %s)", o.Tmo, coqZ(o.GC), coqParts(o.Parts))
	}
	return "Timeout"
}

func (o C09Obs) Coq() string {
	out := "ONone"
	switch o.Out {
	case "err":
		out = "OErr"
	case "fire":
		out = fmt.Sprintf("(OFire %s %s)", coqZ(o.FireGC), coqParts(o.FirePs))
	case "many":
		out = fmt.Sprintf("(OMany %d)", o.NFires)
	}
	return fmt.Sprintf("mko %s %s %s %s", o.Op.Coq(), out, coqZ(o.GC), coqParts(o.Parts))
}

func (c C09Case) Coq() string {
	xs := make([]string, len(c.Trace))
	for i, o := range c.Trace {
		xs[i] = o.Coq()
	}
	return fmt.Sprintf("{| c_tmo := %d; c_trace := [%s] |}", c.Tmo, strings.Join(xs, ";\n    "))
}

// ---- driver ----

func runC09(opt Opts) error {
	var cases []C09Case
	if opt.Replay != "" {
		data, err := os.ReadFile(opt.Replay)
		if err != nil {
			return err
		}
		if err := json.Unmarshal(data, &cases); err != nil {
			return err
		}
	} else {
		root := NewRNG(opt.Seed)
		for i := 0; i < opt.N; i++ {
			cases = append(cases, genC09(root.Fork(uint64(i)), i))
		}
	}
	// histories mostly sleep: run many at once
	var wg sync.WaitGroup
	sem := make(chan struct{}, 256)
	for i := range cases {
		wg.Add(1)
		sem <- struct{}{}
		go func(c *C09Case) {
			defer wg.Done()
			defer func() { <-sem }()
			runC09Case(c, opt.Slow)
		}(&cases[i])
	}
	wg.Wait()
	return writeCases(opt.Out, "C09_run", cases, func(i int) string { return cases[i].Coq() }, len(cases))
}

// writeCases prints the Gallina case files and their JSON twins, in chunks of at most
// caseChunk cases (cases_000.v / cases_000.json, ...), so that the Coq side can be evaluated in
// parallel and no single file grows beyond what coqc parses quickly.
var caseChunk = 1500

func writeCases(dir, corrModule string, cases interface{}, coq func(int) string, n int) error {
	if err := os.MkdirAll(dir, 0o755); err != nil {
		return err
	}
	js, err := json.Marshal(cases)
	if err != nil {
		return err
	}
	var raw []json.RawMessage
	if err := json.Unmarshal(js, &raw); err != nil {
		return err
	}
	if n == 0 {
		raw = nil
	}
	for k, lo := 0, 0; lo < n || k == 0; k, lo = k+1, lo+caseChunk {
		hi := lo + caseChunk
		if hi > n {
			hi = n
		}
		part, _ := json.Marshal(raw[lo:hi])
		if err := os.WriteFile(filepath.Join(dir, fmt.Sprintf("cases_%03d.json", k)), part, 0o644); err != nil {
			return err
		}
		var b strings.Builder
		b.WriteString("From Coq Require Import List ZArith Bool String.\nImport ListNotations.\n")
		b.WriteString("From PT Require Import Corr." + corrModule + ".\n")
		b.WriteString("Definition cases : list case := [\n")
		for i := lo; i < hi; i++ {
			if i > lo {
				b.WriteString(";\n")
			}
			b.WriteString("  " + coq(i))
		}
		b.WriteString("\n].\n")
		b.WriteString("Definition M := Eval vm_compute in (check_all 0 cases).\nPrint M.\n")
		if err := os.WriteFile(filepath.Join(dir, fmt.Sprintf("cases_%03d.v", k)), []byte(b.String()), 0o644); err != nil {
			return err
		}
	}
	return nil
}

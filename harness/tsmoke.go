package main

import (
	"fmt"
	"os"
	"time"

	pt "github.com/weedbox/pokertable"
)

// smoke run of the table driver: prints one line per quiescent point (stderr)
func runTSmoke(opt Opts) error {
	r := NewRNG(opt.Seed)
	for h := 0; h < opt.N; h++ {
		max := 2 + r.Intn(8)
		n := 2 + r.Intn(max-1)
		set := mkSetting(fmt.Sprintf("t%d", h), "default", "ct", max, 2, int64(r.Intn(2)*5), 0, 10, 20, 1, 10)
		d, err := NewDrv(set, 0)
		if err != nil {
			return err
		}
		for i := 0; i < n; i++ {
			if err := d.te.PlayerReserve(pt.JoinPlayer{PlayerID: pid(i + 1), RedeemChips: int64(100 + r.Intn(2000)), Seat: -1}); err != nil {
				fmt.Fprintln(os.Stderr, "reserve:", err)
			}
		}
		d.JoinAll()
		t0 := time.Now()
		res := d.StartAndOpenFirst()
		pol := &Policy{R: r.Fork(7), FoldPct: 15, AllinPct: 8, RaisePct: 30}
		steps, hands := 0, 0
		for steps < 400 && res == "ok" {
			a := d.Abs()
			if a.Status == "table_game_standby" {
				hands++
				if hands >= 6 {
					break
				}
			}
			_, res = d.Advance(pol)
			steps++
		}
		a := d.Abs()
		sum := int64(0)
		for _, p := range a.Players {
			sum += p.Bankroll
		}
		fmt.Fprintf(os.Stderr, "table %d: max=%d n=%d steps=%d hands=%d res=%s status=%s gc=%d chips=%d in %v\n", h, max, n, steps, hands, res, a.Status, a.GameCount, sum, time.Since(t0))
	}
	return nil
}

package main

import (
	"encoding/json"
	"errors"
	"fmt"
	"os"
	"sort"
	"strings"
	"sync"

	pt "github.com/weedbox/pokertable"
)

// C17: every engine registered in a real Manager is replaced (verif hook) by a recording
// proxy, so that for each manager call we see exactly which engine calls it made, on which
// table, with which arguments, and what they returned.

type C17Call struct {
	Table  string   `json:"table"`
	Method string   `json:"method"`
	Args   []string `json:"args"`
}

type C17Step struct {
	Method  string    `json:"method"`
	Table   string    `json:"table"`
	Raw     []string  `json:"raw"`       // generator's arguments
	Args    []string  `json:"args"`      // canonical form of what the manager was called with
	NotFnd  bool      `json:"not_found"` // manager returned ErrManagerTableNotFound
	Known   bool      `json:"known"`     // registry held the id before the call
	Calls   []C17Call `json:"calls"`     // engine calls observed during the manager call
	MgrErr  bool      `json:"mgr_err"`   // manager returned a non-nil error
	MgrRes  string    `json:"mgr_res"`
	EngErr  bool      `json:"eng_err"`
	EngRes  string    `json:"eng_res"`
	Present bool      `json:"present_after"`
	GenPre  int       `json:"gen_before"` // generation of the engine registered under the id: -1 none, -2 an engine that is not one of ours
	GenPost int       `json:"gen_after"`
	NewGen  int       `json:"new_gen"` // CreateTable: generation given to the engine if the creation succeeds
}

type C17Case struct {
	Index  int       `json:"index"`
	Tables []string  `json:"tables"`
	Ops    []C17Step `json:"ops"` // method/table/args filled by the generator; the rest by the run
}

type recorder struct {
	mu    sync.Mutex
	calls []C17Call
	last  string
	lastE bool
}

func (r *recorder) rec(table, method string, args ...string) {
	r.mu.Lock()
	if args == nil {
		args = []string{}
	}
	r.calls = append(r.calls, C17Call{Table: table, Method: method, Args: args})
	r.mu.Unlock()
}

func (r *recorder) res(err error, extra string) {
	r.mu.Lock()
	r.lastE = err != nil
	r.last = resString(err, extra)
	r.mu.Unlock()
}

func resString(err error, extra string) string {
	s := "nil"
	if err != nil {
		s = err.Error()
	}
	if extra != "" {
		s += "|" + extra
	}
	return s
}

func fmtJoin(j pt.JoinPlayer) string {
	return fmt.Sprintf("%s/%d/%d", j.PlayerID, j.RedeemChips, j.Seat)
}
func fmtJoins(js []pt.JoinPlayer) string {
	xs := make([]string, len(js))
	for i, j := range js {
		xs[i] = fmtJoin(j)
	}
	return "[" + strings.Join(xs, ",") + "]"
}
func fmtStrs(xs []string) string { return "[" + strings.Join(xs, ",") + "]" }
func fmtMap(m map[string]int) string {
	ks := make([]string, 0, len(m))
	for k := range m {
		ks = append(ks, k)
	}
	sort.Strings(ks)
	xs := make([]string, len(ks))
	for i, k := range ks {
		xs[i] = fmt.Sprintf("%s:%d", k, m[k])
	}
	return "{" + strings.Join(xs, ",") + "}"
}

// proxyEngine forwards everything to inner and records the calls.
type proxyEngine struct {
	pt.TableEngine
	id  string
	r   *recorder
	gen int
}

func genOf(m pt.Manager, id string) int {
	te, err := m.GetTableEngine(id)
	if err != nil {
		return -1
	}
	if p, ok := te.(*proxyEngine); ok {
		return p.gen
	}
	return -2
}

func (p *proxyEngine) ReleaseTable() error {
	p.r.rec(p.id, "ReleaseTable")
	e := p.TableEngine.ReleaseTable()
	p.r.res(e, "")
	return e
}
func (p *proxyEngine) PauseTable() error {
	p.r.rec(p.id, "PauseTable")
	e := p.TableEngine.PauseTable()
	p.r.res(e, "")
	return e
}
func (p *proxyEngine) CloseTable() error {
	p.r.rec(p.id, "CloseTable")
	e := p.TableEngine.CloseTable()
	p.r.res(e, "")
	return e
}
func (p *proxyEngine) StartTableGame() error {
	p.r.rec(p.id, "StartTableGame")
	e := p.TableEngine.StartTableGame()
	p.r.res(e, "")
	return e
}
func (p *proxyEngine) UpdateBlind(level int, ante, dealer, sb, bb int64) {
	p.r.rec(p.id, "UpdateBlind", fmt.Sprint(level), fmt.Sprint(ante), fmt.Sprint(dealer), fmt.Sprint(sb), fmt.Sprint(bb))
	p.TableEngine.UpdateBlind(level, ante, dealer, sb, bb)
	p.r.res(nil, "")
}
func (p *proxyEngine) SetUpTableGame(gameCount int, participants map[string]int) {
	p.r.rec(p.id, "SetUpTableGame", fmt.Sprint(gameCount), fmtMap(participants))
	p.TableEngine.SetUpTableGame(gameCount, participants)
	p.r.res(nil, "")
}
func (p *proxyEngine) UpdateTablePlayers(j []pt.JoinPlayer, l []string) (map[string]int, error) {
	p.r.rec(p.id, "UpdateTablePlayers", fmtJoins(j), fmtStrs(l))
	m, e := p.TableEngine.UpdateTablePlayers(j, l)
	p.r.res(e, fmtMap(m))
	return m, e
}
func (p *proxyEngine) PlayerReserve(j pt.JoinPlayer) error {
	p.r.rec(p.id, "PlayerReserve", fmtJoin(j))
	e := p.TableEngine.PlayerReserve(j)
	p.r.res(e, "")
	return e
}
func (p *proxyEngine) PlayerJoin(id string) error {
	p.r.rec(p.id, "PlayerJoin", id)
	e := p.TableEngine.PlayerJoin(id)
	p.r.res(e, "")
	return e
}
func (p *proxyEngine) PlayerSettlementFinish(id string) error {
	p.r.rec(p.id, "PlayerSettlementFinish", id)
	e := p.TableEngine.PlayerSettlementFinish(id)
	p.r.res(e, "")
	return e
}
func (p *proxyEngine) PlayerRedeemChips(j pt.JoinPlayer) error {
	p.r.rec(p.id, "PlayerRedeemChips", fmtJoin(j))
	e := p.TableEngine.PlayerRedeemChips(j)
	p.r.res(e, "")
	return e
}
func (p *proxyEngine) PlayersLeave(ids []string) error {
	p.r.rec(p.id, "PlayersLeave", fmtStrs(ids))
	e := p.TableEngine.PlayersLeave(ids)
	p.r.res(e, "")
	return e
}
func (p *proxyEngine) PlayerExtendActionDeadline(id string, d int) (int64, error) {
	p.r.rec(p.id, "PlayerExtendActionDeadline", id, fmt.Sprint(d))
	v, e := p.TableEngine.PlayerExtendActionDeadline(id, d)
	p.r.res(e, fmt.Sprint(v))
	return v, e
}
func (p *proxyEngine) PlayerReady(id string) error {
	p.r.rec(p.id, "PlayerReady", id)
	e := p.TableEngine.PlayerReady(id)
	p.r.res(e, "")
	return e
}
func (p *proxyEngine) PlayerPay(id string, c int64) error {
	p.r.rec(p.id, "PlayerPay", id, fmt.Sprint(c))
	e := p.TableEngine.PlayerPay(id, c)
	p.r.res(e, "")
	return e
}
func (p *proxyEngine) PlayerBet(id string, c int64) error {
	p.r.rec(p.id, "PlayerBet", id, fmt.Sprint(c))
	e := p.TableEngine.PlayerBet(id, c)
	p.r.res(e, "")
	return e
}
func (p *proxyEngine) PlayerRaise(id string, c int64) error {
	p.r.rec(p.id, "PlayerRaise", id, fmt.Sprint(c))
	e := p.TableEngine.PlayerRaise(id, c)
	p.r.res(e, "")
	return e
}
func (p *proxyEngine) PlayerCall(id string) error {
	p.r.rec(p.id, "PlayerCall", id)
	e := p.TableEngine.PlayerCall(id)
	p.r.res(e, "")
	return e
}
func (p *proxyEngine) PlayerAllin(id string) error {
	p.r.rec(p.id, "PlayerAllin", id)
	e := p.TableEngine.PlayerAllin(id)
	p.r.res(e, "")
	return e
}
func (p *proxyEngine) PlayerCheck(id string) error {
	p.r.rec(p.id, "PlayerCheck", id)
	e := p.TableEngine.PlayerCheck(id)
	p.r.res(e, "")
	return e
}
func (p *proxyEngine) PlayerFold(id string) error {
	p.r.rec(p.id, "PlayerFold", id)
	e := p.TableEngine.PlayerFold(id)
	p.r.res(e, "")
	return e
}
func (p *proxyEngine) PlayerPass(id string) error {
	p.r.rec(p.id, "PlayerPass", id)
	e := p.TableEngine.PlayerPass(id)
	p.r.res(e, "")
	return e
}

var c17Methods = []string{"ReleaseTable", "PauseTable", "CloseTable", "StartTableGame", "SetUpTableGame", "UpdateBlind",
	"UpdateTablePlayers", "PlayerReserve", "PlayerJoin", "PlayerSettlementFinish", "PlayerRedeemChips",
	"PlayersLeave", "PlayerExtendActionDeadline", "PlayerReady", "PlayerPay", "PlayerBet", "PlayerRaise",
	"PlayerCall", "PlayerAllin", "PlayerCheck", "PlayerFold", "PlayerPass"}

func genC17(r *RNG, idx int) C17Case {
	c := C17Case{Index: idx}
	nt := 2 + r.Intn(8)
	for i := 0; i < nt; i++ {
		c.Tables = append(c.Tables, fmt.Sprintf("t%d", i))
	}
	nops := 30 + r.Intn(40)
	players := []string{"a", "b", "c", "d", "e", "zz"}
	perm := r.Perm(len(c17Methods))
	for i := 0; i < nops; i++ {
		// every method appears at least once per history, then random
		m := c17Methods[perm[i%len(perm)]]
		if i >= len(perm) {
			m = c17Methods[r.Intn(len(c17Methods))]
		}
		// closing is rarer so that tables stay around
		if (m == "CloseTable" || m == "ReleaseTable") && i >= len(perm) && r.Chance(2, 3) {
			m = "PlayerJoin"
		}
		tb := c.Tables[r.Intn(len(c.Tables))]
		if r.Chance(1, 10) {
			tb = "nosuch"
		}
		if i >= len(perm) && r.Chance(1, 7) {
			// the three non-forwarding methods
			switch r.Intn(8) {
			case 0:
				m = "Reset"
			case 1, 2:
				m = "GetTableEngine"
			default:
				m = "CreateTable"
				if r.Chance(1, 2) {
					tb = fmt.Sprintf("n%d", r.Intn(4)) // an id that may not exist yet
				}
			}
		}
		pl := players[r.Intn(len(players))]
		var args []string
		switch m {
		case "CreateTable":
			args = []string{"ok"}
			if r.Chance(1, 2) {
				args = []string{"toomany"} // more join players than seats: the engine refuses
			}
		case "SetUpTableGame":
			args = []string{fmt.Sprint(1 + r.Intn(5)), pl} // at most one participant: the callback then opens nothing
		case "UpdateBlind":
			args = []string{fmt.Sprint(1 + r.Intn(3)), fmt.Sprint(r.Intn(3) * 5), "0", fmt.Sprint(10 * (1 + r.Intn(3))), fmt.Sprint(20 * (1 + r.Intn(3)))}
		case "UpdateTablePlayers":
			args = []string{pl, fmt.Sprint(100 + r.Intn(900)), fmt.Sprint(r.Intn(6) - 1), players[r.Intn(len(players))]}
		case "PlayerReserve", "PlayerRedeemChips":
			args = []string{pl, fmt.Sprint(100 + r.Intn(900)), fmt.Sprint(r.Intn(6) - 1)}
		case "PlayersLeave":
			switch r.Intn(4) {
			case 0:
				args = []string{} // nobody: still a call that must reach the engine (or be refused for an unknown table)
			case 1:
				args = []string{pl, players[r.Intn(len(players))]}
			default:
				args = []string{pl}
			}
		case "PlayerJoin", "PlayerSettlementFinish", "PlayerReady", "PlayerCall", "PlayerAllin", "PlayerCheck", "PlayerFold", "PlayerPass":
			args = []string{pl}
		case "PlayerExtendActionDeadline", "PlayerPay", "PlayerBet", "PlayerRaise":
			args = []string{pl, fmt.Sprint(1 + r.Intn(50))}
		}
		c.Ops = append(c.Ops, C17Step{Method: m, Table: tb, Raw: args})
	}
	return c
}

func atoi(s string) int {
	var n int
	fmt.Sscanf(s, "%d", &n)
	return n
}

func runC17Case(c *C17Case) {
	m := pt.NewManager()
	rec := &recorder{}
	opts := pt.NewTableEngineOptions()
	gen := 0
	mkSetting := func(id string, tooMany bool) pt.TableSetting {
		st := pt.TableSetting{TableID: id, Meta: pt.TableMeta{CompetitionID: "comp", Rule: "default", Mode: "ct",
			MaxDuration: 3600, TableMaxSeatCount: 6, TableMinPlayerCount: 2, MinChipUnit: 1, ActionTime: 10},
			Blind: pt.TableBlindState{Level: 1, Ante: 0, Dealer: 0, SB: 10, BB: 20}}
		if tooMany {
			for k := 0; k < 7; k++ {
				st.JoinPlayers = append(st.JoinPlayers, pt.JoinPlayer{PlayerID: fmt.Sprintf("j%d", k), RedeemChips: 100, Seat: -1})
			}
		}
		return st
	}
	wrap := func(tid string, g int) {
		pt.VerifWrapTableEngine(m, tid, func(te pt.TableEngine) pt.TableEngine {
			if _, ok := te.(*proxyEngine); ok {
				return te
			}
			return &proxyEngine{TableEngine: te, id: tid, r: rec, gen: g}
		})
	}
	for _, id := range c.Tables {
		if _, err := m.CreateTable(opts, nil, mkSetting(id, false)); err != nil {
			panic(err)
		}
		gen++
		wrap(id, gen)
	}
	panicked := false
	for i := range c.Ops {
		if panicked {
			c.Ops = c.Ops[:i]
			break
		}
		s := &c.Ops[i]
		func() {
			defer func() {
				if r := recover(); r != nil {
					// a panic inside a manager call is an observation, not a crash of the harness
					panicked = true
					s.MgrErr = true
					s.MgrRes = fmt.Sprintf("PANIC: %v", r)
					rec.mu.Lock()
					s.Calls = append([]C17Call{}, rec.calls...)
					if s.Calls == nil {
						s.Calls = []C17Call{}
					}
					s.EngErr, s.EngRes = rec.lastE, rec.last
					rec.mu.Unlock()
					if s.Args == nil {
						s.Args = []string{}
					}
					s.Present = pt.VerifHasTable(m, s.Table)
					s.GenPost = genOf(m, s.Table)
				}
			}()
			rec.mu.Lock()
			rec.calls = nil
			rec.last, rec.lastE = "", false
			rec.mu.Unlock()
			s.Known = pt.VerifHasTable(m, s.Table)
			s.GenPre = genOf(m, s.Table)
			var err error
			extra := ""
			a := s.Raw
			var canon []string
			switch s.Method {
			case "CreateTable":
				canon = []string{a[0]}
				s.NewGen = gen + 1
				_, err = m.CreateTable(opts, nil, mkSetting(s.Table, a[0] == "toomany"))
				rec.res(err, "")
				if err == nil {
					gen++
					// the registry now holds the raw engine; give it the announced generation
					pt.VerifWrapTableEngine(m, s.Table, func(te pt.TableEngine) pt.TableEngine {
						return &proxyEngine{TableEngine: te, id: s.Table, r: rec, gen: gen}
					})
				}
			case "Reset":
				m.Reset()
			case "GetTableEngine":
				_, err = m.GetTableEngine(s.Table)
			case "ReleaseTable":
				err = m.ReleaseTable(s.Table)
			case "PauseTable":
				err = m.PauseTable(s.Table)
			case "CloseTable":
				err = m.CloseTable(s.Table)
			case "StartTableGame":
				err = m.StartTableGame(s.Table)
			case "SetUpTableGame":
				parts := map[string]int{a[1]: 0}
				canon = []string{a[0], fmtMap(parts)}
				err = m.SetUpTableGame(s.Table, atoi(a[0]), parts)
			case "UpdateBlind":
				canon = a
				err = m.UpdateBlind(s.Table, atoi(a[0]), int64(atoi(a[1])), int64(atoi(a[2])), int64(atoi(a[3])), int64(atoi(a[4])))
			case "UpdateTablePlayers":
				j := []pt.JoinPlayer{{PlayerID: a[0], RedeemChips: int64(atoi(a[1])), Seat: atoi(a[2])}}
				l := []string{a[3]}
				canon = []string{fmtJoins(j), fmtStrs(l)}
				var mp map[string]int
				mp, err = m.UpdateTablePlayers(s.Table, j, l)
				extra = fmtMap(mp)
			case "PlayerReserve":
				j := pt.JoinPlayer{PlayerID: a[0], RedeemChips: int64(atoi(a[1])), Seat: atoi(a[2])}
				canon = []string{fmtJoin(j)}
				err = m.PlayerReserve(s.Table, j)
			case "PlayerRedeemChips":
				j := pt.JoinPlayer{PlayerID: a[0], RedeemChips: int64(atoi(a[1])), Seat: atoi(a[2])}
				canon = []string{fmtJoin(j)}
				err = m.PlayerRedeemChips(s.Table, j)
			case "PlayerJoin":
				canon = a
				err = m.PlayerJoin(s.Table, a[0])
			case "PlayerSettlementFinish":
				canon = a
				err = m.PlayerSettlementFinish(s.Table, a[0])
			case "PlayersLeave":
				canon = []string{fmtStrs(a)}
				err = m.PlayersLeave(s.Table, a)
			case "PlayerExtendActionDeadline":
				canon = a
				var v int64
				v, err = m.PlayerExtendActionDeadline(s.Table, a[0], atoi(a[1]))
				extra = fmt.Sprint(v)
			case "PlayerReady":
				canon = a
				err = m.PlayerReady(s.Table, a[0])
			case "PlayerPay":
				canon = a
				err = m.PlayerPay(s.Table, a[0], int64(atoi(a[1])))
			case "PlayerBet":
				canon = a
				err = m.PlayerBet(s.Table, a[0], int64(atoi(a[1])))
			case "PlayerRaise":
				canon = a
				err = m.PlayerRaise(s.Table, a[0], int64(atoi(a[1])))
			case "PlayerCall":
				canon = a
				err = m.PlayerCall(s.Table, a[0])
			case "PlayerAllin":
				canon = a
				err = m.PlayerAllin(s.Table, a[0])
			case "PlayerCheck":
				canon = a
				err = m.PlayerCheck(s.Table, a[0])
			case "PlayerFold":
				canon = a
				err = m.PlayerFold(s.Table, a[0])
			case "PlayerPass":
				canon = a
				err = m.PlayerPass(s.Table, a[0])
			}
			if canon == nil {
				canon = []string{}
			}
			s.Args = canon
			s.NotFnd = errors.Is(err, pt.ErrManagerTableNotFound)
			s.MgrErr = err != nil
			s.MgrRes = resString(err, extra)
			rec.mu.Lock()
			s.Calls = append([]C17Call{}, rec.calls...)
			s.EngErr, s.EngRes = rec.lastE, rec.last
			rec.mu.Unlock()
			s.Present = pt.VerifHasTable(m, s.Table)
			s.GenPost = genOf(m, s.Table)
		}()
	}
}

func coqStr(s string) string { return "\"" + strings.ReplaceAll(s, "\"", "\"\"") + "\"%string" }
func coqStrs(xs []string) string {
	ys := make([]string, len(xs))
	for i, x := range xs {
		ys[i] = coqStr(x)
	}
	return "[" + strings.Join(ys, "; ") + "]"
}

func (s C17Step) Coq() string {
	calls := make([]string, len(s.Calls))
	for i, c := range s.Calls {
		calls[i] = fmt.Sprintf("(%s, %s, %s)", coqStr(c.Table), coqStr(c.Method), coqStrs(c.Args))
	}
	return fmt.Sprintf("mks %s %s %s %v [%s] %v %v %s %v %s %v %s %s %d", coqStr(s.Method), coqStr(s.Table), coqStrs(s.Args), s.Known,
		strings.Join(calls, "; "), s.NotFnd, s.MgrErr, coqStr(s.MgrRes), s.EngErr, coqStr(s.EngRes), s.Present, coqZ(s.GenPre), coqZ(s.GenPost), s.NewGen)
}

func (c C17Case) Coq() string {
	xs := make([]string, len(c.Ops))
	for i, o := range c.Ops {
		xs[i] = o.Coq()
	}
	return fmt.Sprintf("{| c_tables := %s; c_steps := [%s] |}", coqStrs(c.Tables), strings.Join(xs, ";\n    "))
}

func runC17(opt Opts) error {
	var cases []C17Case
	if opt.Replay != "" {
		data, err := os.ReadFile(opt.Replay)
		if err != nil {
			return err
		}
		if err := json.Unmarshal(data, &cases); err != nil {
			return err
		}
	} else {
		root := NewRNG(opt.Seed)
		for i := 0; i < opt.N; i++ {
			cases = append(cases, genC17(root.Fork(uint64(i)), i))
		}
	}
	var wg sync.WaitGroup
	sem := make(chan struct{}, 16)
	for i := range cases {
		wg.Add(1)
		sem <- struct{}{}
		go func(c *C17Case) {
			defer wg.Done()
			defer func() { <-sem }()
			runC17Case(c)
		}(&cases[i])
	}
	wg.Wait()
	return writeCases(opt.Out, "C17_run", cases, func(i int) string { return cases[i].Coq() }, len(cases))
}

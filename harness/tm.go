package main

import (
	"encoding/json"
	"fmt"
	"os"
	"strings"
	"sync"
	"time"

	pt "github.com/weedbox/pokertable"
)

// Table membership transitions (C03 table level, C01 ledger, C16 sequential reference):
// a real table engine is driven through histories of reserve / join / redeem / leave / batch
// update operations, valid and invalid, before the first hand and between hands; every
// operation yields one case (abstract state before, operation, result, abstract state after).

type TMJoin struct {
	ID    int   `json:"id"`
	Chips int64 `json:"chips"`
	Seat  int   `json:"seat"`
}

type TMOp struct {
	Kind  string   `json:"kind"` // reserve join redeem leave update
	Join  *TMJoin  `json:"join,omitempty"`
	Joins []TMJoin `json:"joins,omitempty"`
	IDs   []int    `json:"ids,omitempty"`
	ID    int      `json:"id,omitempty"`
	Chips int64    `json:"chips,omitempty"`
	Drawn []int    `json:"drawn,omitempty"`
}

type TMCase struct {
	Hist int    `json:"hist"`
	Step int    `json:"step"`
	Pre  TAbs   `json:"pre"`
	Op   TMOp   `json:"op"`
	Res  string `json:"res"` // ok | err | panic
	Err  string `json:"err,omitempty"`
	Post TAbs   `json:"post"`
}

type TMHist struct {
	Index   int      `json:"index"`
	Max     int      `json:"max"`
	Rule    string   `json:"rule"`
	Mode    string   `json:"mode"`
	Level   int      `json:"level"`
	Init    []TMJoin `json:"init"`
	Ops     []TMOp   `json:"ops"`
	Play    []int    `json:"play"`                   // after which op indexes a hand is played (to get between-hands states)
	PolSeed uint64   `json:"pol_seed"`               // seed of the betting policy used for those hands
	AutoIn  bool     `json:"auto_seat_in,omitempty"` // at the end one reserved player is left to the engine's own seating-in (17 s)
	Foreign int      `json:"steps_with_a_timed_engine_transition,omitempty"`
}

func (d *Drv) applyTM(op *TMOp) (res string, errText string) {
	defer func() {
		if r := recover(); r != nil {
			res = "panic"
			errText = fmt.Sprint(r)
		}
	}()
	var err error
	jp := func(j TMJoin) pt.JoinPlayer {
		return pt.JoinPlayer{PlayerID: pid(j.ID), RedeemChips: j.Chips, Seat: j.Seat}
	}
	switch op.Kind {
	case "reserve":
		err = d.te.PlayerReserve(jp(*op.Join))
	case "join":
		err = d.JoinAndSettle(pid(op.ID))
	case "redeem":
		err = d.te.PlayerRedeemChips(pt.JoinPlayer{PlayerID: pid(op.ID), RedeemChips: op.Chips, Seat: -1})
	case "leave":
		err = d.te.PlayersLeave(pids(op.IDs))
	case "update":
		js := []pt.JoinPlayer{}
		for _, j := range op.Joins {
			js = append(js, jp(j))
		}
		_, err = d.te.UpdateTablePlayers(js, pids(op.IDs))
	}
	if err != nil {
		return "err", err.Error()
	}
	return "ok", ""
}

func drawnSeats(op *TMOp, pre, post TAbs) []int {
	var want []int
	switch op.Kind {
	case "reserve":
		if op.Join.Seat == -1 {
			want = append(want, op.Join.ID)
		}
	case "update":
		for _, j := range op.Joins {
			if j.Seat == -1 {
				want = append(want, j.ID)
			}
		}
	}
	out := []int{}
	for _, id := range want {
		seat := -1
		// the seat manager's view: a draw may have happened even if the table then refused
		for k, p := range post.SM.Seats {
			if p != nil && p.ID == id {
				was := k < len(pre.SM.Seats) && pre.SM.Seats[k] != nil && pre.SM.Seats[k].ID == id
				if was && op.Kind == "update" {
					for _, l := range op.IDs {
						if l == id {
							was = false // the player left and came back in the same call: the seat was drawn anew
						}
					}
				}
				if !was {
					seat = k
				}
			}
		}
		out = append(out, seat)
	}
	return out
}

func genTMHist(r *RNG, idx int) TMHist {
	h := TMHist{Index: idx, Max: 2 + r.Intn(9), Rule: "default", Mode: "ct", Level: 1}
	if r.Chance(1, 4) {
		h.Rule = "short_deck"
	}
	if r.Chance(1, 3) {
		h.Mode = "mtt"
	}
	if r.Chance(1, 10) {
		h.Level = -1
	}
	next := 1
	if r.Chance(1, 3) {
		n := r.Intn(h.Max + 1)
		for i := 0; i < n; i++ {
			h.Init = append(h.Init, TMJoin{ID: next, Chips: int64(100 + r.Intn(900)), Seat: -1})
			next++
		}
	}
	known := func() []int {
		xs := []int{}
		for i := 1; i < next; i++ {
			xs = append(xs, i)
		}
		return xs
	}
	seat := func() int {
		x := r.Intn(100)
		switch {
		case x < 45:
			return -1
		case x < 93:
			return r.Intn(h.Max)
		case x < 97:
			return h.Max + r.Intn(3)
		default:
			return -2 - r.Intn(3)
		}
	}
	nops := 8 + r.Intn(30)
	for k := 0; k < nops; k++ {
		var op TMOp
		x := r.Intn(100)
		ks := known()
		switch {
		case x < 30:
			id := next
			next++
			if r.Chance(1, 8) && len(ks) > 0 {
				id = ks[r.Intn(len(ks))] // re-buy, or a player who left
			}
			op = TMOp{Kind: "reserve", Join: &TMJoin{ID: id, Chips: int64(50 + r.Intn(950)), Seat: seat()}}
		case x < 48 && len(ks) > 0:
			op = TMOp{Kind: "join", ID: ks[r.Intn(len(ks))]}
			if r.Chance(1, 12) {
				op.ID = 900
			}
		case x < 56 && len(ks) > 0:
			op = TMOp{Kind: "redeem", ID: ks[r.Intn(len(ks))], Chips: int64(10 + r.Intn(500))}
			if r.Chance(1, 10) {
				op.ID = 901
			}
		case x < 74 && len(ks) > 0:
			op = TMOp{Kind: "leave"}
			cnt := 1 + r.Intn(2)
			for j := 0; j < cnt; j++ {
				op.IDs = append(op.IDs, ks[r.Intn(len(ks))])
			}
			if r.Chance(1, 6) {
				op.IDs = append(op.IDs, 902) // an unknown id mixed with known ones
			}
		default:
			op = TMOp{Kind: "update"}
			nj := r.Intn(4)
			for j := 0; j < nj; j++ {
				id := next
				next++
				if r.Chance(1, 10) && len(ks) > 0 {
					id = ks[r.Intn(len(ks))]
				}
				op.Joins = append(op.Joins, TMJoin{ID: id, Chips: int64(50 + r.Intn(950)), Seat: seat()})
			}
			if r.Chance(1, 12) && len(op.Joins) > 0 {
				op.Joins = append(op.Joins, op.Joins[0]) // the same id twice in one batch
			}
			if r.Chance(1, 2) && len(ks) > 0 {
				op.IDs = []int{ks[r.Intn(len(ks))]}
				if r.Chance(1, 8) {
					op.IDs = append(op.IDs, 903)
				}
			}
			if len(op.Joins) == 0 && len(op.IDs) == 0 {
				op.IDs = []int{904}
			}
		}
		h.Ops = append(h.Ops, op)
		if r.Chance(1, 9) {
			h.Play = append(h.Play, k)
		}
	}
	h.AutoIn = idx%10 == 3
	if h.AutoIn {
		h.Play = nil // nothing else may happen during the waiting period: the table's game is never started
		if h.Mode == "mtt" {
			h.Mode = "ct" // an MTT table starts its game by itself once everybody has sat in
		}
	}
	return h
}

func runTMHist(h *TMHist, seed uint64) []TMCase {
	set := mkSetting(fmt.Sprintf("tm%d", h.Index), h.Rule, h.Mode, h.Max, 2, 0, 0, 10, 20, h.Level, 10)
	for _, j := range h.Init {
		set.JoinPlayers = append(set.JoinPlayers, pt.JoinPlayer{PlayerID: pid(j.ID), RedeemChips: j.Chips, Seat: j.Seat})
	}
	d, err := NewDrv(set, 0)
	if err != nil {
		return nil
	}
	var cases []TMCase
	pol := &Policy{R: NewRNG(seed), FoldPct: 25, AllinPct: 10, RaisePct: 20}
	played := 0
	for k := range h.Ops {
		op := h.Ops[k]
		pre := d.Abs()
		res, et := d.applyTM(&op)
		d.Quiesce(quiesceLimit)
		post := d.Abs()
		op.Drawn = drawnSeats(&op, pre, post)
		// the engine has transitions of its own that run on a clock (it seats a reserved player in after its waiting period, an MTT
		// table starts by itself): when one of them lands between the two snapshots the step shows two transitions at once and is
		// not used (on a busy machine a history takes long enough for that to happen)
		if foreignTransition(&op, pre, post) {
			h.Foreign++
		} else {
			cases = append(cases, TMCase{Hist: h.Index, Step: k, Pre: pre, Op: op, Res: res, Err: et, Post: post})
		}
		h.Ops[k] = op
		if res == "panic" {
			break
		}
		for _, pk := range h.Play {
			if pk == k && played < 3 && h.Level > 0 {
				// play one hand (or start the first) to reach a between-hands state
				d.JoinAll()
				a := d.Abs()
				if a.Status == "table_game_standby" || a.StartAt == -1 {
					if a.StartAt == -1 {
						if d.StartAndOpenFirst() != "ok" {
							break
						}
					}
					for s := 0; s < 200; s++ {
						_, r := d.Advance(pol)
						if r != "ok" {
							break
						}
						if st := d.Abs().Status; st == "table_game_standby" || st == "table_pausing" {
							if d.te.GetTable().State.GameCount > played {
								break
							}
						}
					}
					played++
				}
			}
		}
		if st := d.Abs().Status; st == "table_game_opened" || st == "table_game_playing" || st == "table_game_settled" {
			break // membership during a hand is not C03's subject (C01/C02 look at it)
		}
	}
	if h.AutoIn && !betweenHandsBusy(d.Abs()) && d.Abs().StartAt == -1 && h.Mode != "mtt" {
		// whoever has a seat but has not sat in is seated in by the engine itself after its waiting period (17 s): the
		// same transition as an explicit PlayerJoin.  All but one are joined explicitly so that the step is one MJoin.
		var waiting []int
		for _, p := range d.Abs().Players {
			if !p.In {
				waiting = append(waiting, p.ID)
			}
		}
		if len(waiting) > 0 {
			for _, id := range waiting[1:] {
				d.JoinAndSettle(pid(id))
			}
			d.Quiesce(quiesceLimit)
			pre := d.Abs()
			id := waiting[0]
			// a fresh reservation restarts the waiting period: re-buy one chip for that player
			d.te.PlayerReserve(pt.JoinPlayer{PlayerID: pid(id), RedeemChips: 1, Seat: -1})
			d.Quiesce(quiesceLimit)
			pre = d.Abs()
			for w := 0; w < 200; w++ {
				in := false
				for _, p := range d.Abs().Players {
					if p.ID == id && p.In {
						in = true
					}
				}
				if in {
					break
				}
				time.Sleep(100 * time.Millisecond)
			}
			d.Quiesce(quiesceLimit)
			post := d.Abs()
			cases = append(cases, TMCase{Hist: h.Index, Step: len(h.Ops), Pre: pre, Op: TMOp{Kind: "join", ID: id}, Res: "ok", Post: post})
		}
	}
	d.takeEvents()
	return cases
}

func foreignTransition(op *TMOp, pre, post TAbs) bool {
	if pre.Status != post.Status || pre.GameCount != post.GameCount || pre.StartAt != post.StartAt || pre.SM.Init != post.SM.Init {
		return true
	}
	subject := map[int]bool{}
	switch op.Kind {
	case "reserve":
		subject[op.Join.ID] = true
	case "join", "redeem":
		subject[op.ID] = true
	case "update":
		for _, j := range op.Joins {
			subject[j.ID] = true
		}
	}
	for _, p := range pre.Players {
		if p.In || subject[p.ID] {
			continue
		}
		for _, q := range post.Players {
			if q.ID == p.ID && q.In {
				return true
			}
		}
	}
	return false
}

func betweenHandsBusy(a TAbs) bool {
	return a.Status == "table_game_opened" || a.Status == "table_game_playing" || a.Status == "table_game_settled"
}

// ---- Gallina ----

func (p TPlayer) Coq() string {
	return fmt.Sprintf("mkp %d %s %v %s %v", p.ID, coqZi(p.Seat), p.In, coqZi(int(p.Bankroll)), p.Part)
}

func coqStatus(s string) string {
	switch s {
	case "table_created":
		return "SCreated"
	case "table_pausing":
		return "SPausing"
	case "table_restoring":
		return "SRestoring"
	case "table_balancing":
		return "SBalancing"
	case "table_closed":
		return "SClosed"
	case "table_game_opened":
		return "SOpened"
	case "table_game_playing":
		return "SPlaying"
	case "table_game_settled":
		return "SSettled"
	case "table_game_standby":
		return "SStandby"
	}
	return "SCreated"
}

func (a TAbs) CoqTbl(max int) string {
	ps := make([]string, len(a.Players))
	for i, p := range a.Players {
		ps[i] = p.Coq()
	}
	return fmt.Sprintf("(mkt %d %s [%s] %s %s %s)", max, zList(a.SeatMap), strings.Join(ps, "; "), zList(a.GPI), coqStatus(a.Status), a.SM.Coq())
}

func (j TMJoin) Coq() string {
	return fmt.Sprintf("mkj %d %s %s", j.ID, coqZi(int(j.Chips)), coqZi(j.Seat))
}

func (o TMOp) Coq() string {
	switch o.Kind {
	case "reserve":
		return fmt.Sprintf("(MReserve (%s) %s)", o.Join.Coq(), zList(o.Drawn))
	case "join":
		return fmt.Sprintf("(MJoin %d)", o.ID)
	case "redeem":
		return fmt.Sprintf("(MRedeem %d %s)", o.ID, coqZi(int(o.Chips)))
	case "leave":
		return fmt.Sprintf("(MLeave %s)", natList(o.IDs))
	}
	js := make([]string, len(o.Joins))
	for i, j := range o.Joins {
		js[i] = j.Coq()
	}
	return fmt.Sprintf("(MUpdate [%s] %s %s)", strings.Join(js, "; "), zList(o.Drawn), natList(o.IDs))
}

func (c TMCase) Coq() string {
	res := "Ok"
	if c.Res != "ok" {
		res = "Err"
	}
	return fmt.Sprintf("mkc %s %s %s %v %s", c.Pre.CoqTbl(c.Pre.SM.Max), c.Op.Coq(), res, c.Res == "panic", c.Post.CoqTbl(c.Pre.SM.Max))
}

func runTM(opt Opts) error {
	var hists []TMHist
	if opt.Replay != "" {
		data, err := os.ReadFile(opt.Replay)
		if err != nil {
			return err
		}
		// a replay file holds either histories or single cases (then the case's history is not known:
		// the operation is re-applied to a table rebuilt by replaying... not possible) -> histories only
		if err := json.Unmarshal(data, &hists); err != nil {
			return err
		}
	} else {
		root := NewRNG(opt.Seed)
		for i := 0; i < opt.N; i++ {
			h := genTMHist(root.Fork(uint64(i)), i)
			h.PolSeed = opt.Seed*7919 + uint64(i)
			hists = append(hists, h)
		}
	}
	out := make([][]TMCase, len(hists))
	var hung []int
	if ij, err := json.Marshal(hists); err == nil {
		os.MkdirAll(opt.Out, 0o755)
		os.WriteFile(opt.Out+"/inputs.json", ij, 0o644)
	}
	var wg sync.WaitGroup
	sem := make(chan struct{}, 12)
	for i := range hists {
		wg.Add(1)
		sem <- struct{}{}
		go func(i int) {
			defer wg.Done()
			defer func() { <-sem }()
			// a history that hangs inside the engine is abandoned after a while (and counted)
			done := make(chan []TMCase, 1)
			go func() { done <- runTMHist(&hists[i], hists[i].PolSeed) }()
			select {
			case cs := <-done:
				out[i] = cs
			case <-time.After(40 * time.Second):
				hung = append(hung, hists[i].Index)
			}
		}(i)
	}
	wg.Wait()
	if len(hung) > 0 {
		hj, _ := json.Marshal(hung)
		os.WriteFile(opt.Out+"/hung.json", hj, 0o644)
	}
	var cases []TMCase
	for _, cs := range out {
		cases = append(cases, cs...)
	}
	if err := writeCases(opt.Out, "TM_run", cases, func(i int) string { return cases[i].Coq() }, len(cases)); err != nil {
		return err
	}
	hj, _ := json.Marshal(hists)
	return os.WriteFile(opt.Out+"/histories.json", hj, 0o644)
}

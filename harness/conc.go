package main

import (
	"encoding/json"
	"fmt"
	"os"
	"strings"
	"sync"
	"time"

	pt "github.com/weedbox/pokertable"
	sm "github.com/weedbox/pokertable/seat_manager"
)

// C16: many goroutines issue operations at the same moment (released together from a barrier).
//   members : PlayerReserve / PlayersLeave / UpdateTablePlayers on one table
//   seats   : RandomAssignSeats / AssignSeats / RemoveSeats on one seat manager
//   actions : at every turn of a hand every participant submits actions at once (the player to act twice)
// Observed: every call's result, the state before and after the burst, and for actions the chain of
// hand states handed to / returned by the backend.

type CMem struct {
	Pre  TAbs     `json:"pre"`
	Ops  []TMOp   `json:"ops"`
	Res  []string `json:"res"`
	Post TAbs     `json:"post"`
}

type CSeatOp struct {
	Kind  string      `json:"kind"` // random assign remove
	IDs   []int       `json:"ids,omitempty"`
	Seats map[int]int `json:"seats,omitempty"` // player id -> seat
}

type CSeats struct {
	Pre  SMState   `json:"pre"`
	Ops  []CSeatOp `json:"ops"`
	Res  []string  `json:"res"`
	Post SMState   `json:"post"`
}

type CSub struct {
	Player int    `json:"player"`
	GP     int    `json:"hand_index"`
	Action string `json:"action"`
	Chips  int64  `json:"chips"`
	Ok     bool   `json:"ok"`
}

type CBE struct {
	Kind string `json:"kind"`
	In   int64  `json:"in"`  // stamp of the hand state the call was made on
	Out  int64  `json:"out"` // stamp of the state it returned (0: failed)
	Cur  int    `json:"cur"` // player to act in the state it was made on
}

type CTurn struct {
	Cur  int    `json:"cur"`
	Subs []CSub `json:"subs"`
	BE   []CBE  `json:"backend"`
}

type CAct struct {
	Turns   []CTurn `json:"turns"`
	SumPre  int64   `json:"chips_before"`
	SumPost int64   `json:"chips_after"`
	Settled int     `json:"hands_settled"`
	Hands   int     `json:"hands"`
}

type CCase struct {
	Index int     `json:"index"`
	Seed  uint64  `json:"seed"`
	Kind  string  `json:"kind"`
	Max   int     `json:"max"`
	N     int     `json:"goroutines"`
	Slow  bool    `json:"slow_backend,omitempty"` // the backend takes 1-3 ms per call (a remote engine)
	Mem   *CMem   `json:"members,omitempty"`
	Seats *CSeats `json:"seats,omitempty"`
	Act   *CAct   `json:"actions,omitempty"`
	Note  string  `json:"note,omitempty"`
}

func burst(n int, f func(i int)) {
	var wg, ready sync.WaitGroup
	start := make(chan struct{})
	for i := 0; i < n; i++ {
		wg.Add(1)
		ready.Add(1)
		go func(i int) {
			defer wg.Done()
			ready.Done()
			<-start
			f(i)
		}(i)
	}
	ready.Wait()
	close(start)
	wg.Wait()
}

func runConcMembers(c *CCase) {
	r := NewRNG(c.Seed)
	set := mkSetting(fmt.Sprintf("conc-%d", c.Index), "default", "ct", c.Max, 2, 0, 0, 10, 20, 1, 10)
	d, err := NewDrv(set, 0)
	if err != nil {
		c.Note = "create failed"
		return
	}
	k := r.Intn(c.Max)
	for i := 0; i < k; i++ {
		d.te.PlayerReserve(pt.JoinPlayer{PlayerID: pid(i + 1), RedeemChips: int64(100 + r.Intn(900)), Seat: -1})
	}
	d.Quiesce(quiesceLimit)
	m := &CMem{Pre: d.Abs()}
	next := 50
	present := []int{}
	for _, p := range m.Pre.Players {
		present = append(present, p.ID)
	}
	// who may re-buy and who may leave in this burst are different players: somebody who left and came back within the burst
	// holds a seat nobody observed (he may be gone again), and the explanation by orders needs every drawn seat
	stay := present[:len(present)/2]
	present = present[len(present)/2:]
	for i := 0; i < c.N; i++ {
		var op TMOp
		switch x := r.Intn(12); {
		case x < 2 && len(stay) > 0:
			// a re-buy of somebody who is at the table (while others leave)
			op = TMOp{Kind: "reserve", Join: &TMJoin{ID: stay[r.Intn(len(stay))], Chips: int64(1 + r.Intn(500)), Seat: -1}}
		case x < 6:
			seat := -1
			if r.Chance(1, 3) {
				seat = r.Intn(c.Max) // several callers may ask for the same seat
			}
			op = TMOp{Kind: "reserve", Join: &TMJoin{ID: next, Chips: int64(1 + r.Intn(500)), Seat: seat}}
			if !r.Chance(1, 4) { // now and then the next caller reserves for the same new player
				next++
			}
		case x < 10 && len(present) > 0:
			op = TMOp{Kind: "leave", IDs: []int{present[r.Intn(len(present))]}} // the same player may be named by several callers
		default:
			op = TMOp{Kind: "update"}
			nj := r.Intn(3)
			for j := 0; j < nj; j++ {
				op.Joins = append(op.Joins, TMJoin{ID: next, Chips: int64(1 + r.Intn(500)), Seat: -1})
				next++
			}
			if len(present) > 0 && r.Chance(1, 2) {
				op.IDs = []int{present[r.Intn(len(present))]}
			}
		}
		m.Ops = append(m.Ops, op)
	}
	m.Res = make([]string, len(m.Ops))
	burst(len(m.Ops), func(i int) {
		res, _ := d.applyTM(&m.Ops[i])
		m.Res[i] = res
	})
	d.Quiesce(quiesceLimit)
	m.Post = d.Abs()
	// the seat a newcomer drew is the seat it holds afterwards
	for i := range m.Ops {
		op := &m.Ops[i]
		var want []int
		if op.Kind == "reserve" && op.Join.Seat == -1 {
			want = []int{op.Join.ID}
		}
		if op.Kind == "update" {
			for _, j := range op.Joins {
				want = append(want, j.ID)
			}
		}
		op.Drawn = []int{}
		for _, id := range want {
			seat := -1
			for s, p := range m.Post.SM.Seats {
				if p != nil && p.ID == id {
					seat = s
				}
			}
			op.Drawn = append(op.Drawn, seat)
		}
	}
	c.Mem = m
}

// A full table, one caller swapping a member by batch update (one leaves, one joins), the others reserving for newcomers:
// in every one-at-a-time order the update succeeds and every reservation is refused (no empty seat before it, none after it).
// Many rounds are run on the same table; the round reported is the first whose results are not those (or the last one).
func runConcSwap(c *CCase) {
	r := NewRNG(c.Seed)
	set := mkSetting(fmt.Sprintf("swap-%d", c.Index), "default", "ct", c.Max, 2, 0, 0, 10, 20, 1, 10)
	d, err := NewDrv(set, 0)
	if err != nil {
		c.Note = "create failed"
		return
	}
	for i := 0; i < c.Max; i++ {
		d.te.PlayerReserve(pt.JoinPlayer{PlayerID: pid(i + 1), RedeemChips: int64(100 + r.Intn(900)), Seat: -1})
	}
	d.Quiesce(quiesceLimit)
	next := 50
	var m *CMem
	for round := 0; round < 150; round++ {
		m = &CMem{Pre: d.Abs()}
		if len(m.Pre.Players) != c.Max {
			break
		}
		leaver := m.Pre.Players[r.Intn(len(m.Pre.Players))].ID
		m.Ops = append(m.Ops, TMOp{Kind: "update", Joins: []TMJoin{{ID: next, Chips: int64(1 + r.Intn(500)), Seat: -1}}, IDs: []int{leaver}})
		next++
		for i := 1; i < c.N; i++ {
			m.Ops = append(m.Ops, TMOp{Kind: "reserve", Join: &TMJoin{ID: next, Chips: int64(1 + r.Intn(500)), Seat: -1}})
			next++
		}
		r.Shuffle(len(m.Ops), func(i, j int) { m.Ops[i], m.Ops[j] = m.Ops[j], m.Ops[i] })
		m.Res = make([]string, len(m.Ops))
		burst(len(m.Ops), func(i int) {
			res, _ := d.applyTM(&m.Ops[i])
			m.Res[i] = res
		})
		d.Quiesce(quiesceLimit)
		m.Post = d.Abs()
		odd := false
		for i := range m.Ops {
			op := &m.Ops[i]
			var want []int
			if op.Kind == "reserve" {
				want = []int{op.Join.ID}
				odd = odd || m.Res[i] == "ok"
			} else {
				want = []int{op.Joins[0].ID}
				odd = odd || m.Res[i] != "ok"
			}
			op.Drawn = []int{}
			for _, id := range want {
				seat := -1
				for s, p := range m.Post.SM.Seats {
					if p != nil && p.ID == id {
						seat = s
					}
				}
				op.Drawn = append(op.Drawn, seat)
			}
		}
		if odd {
			break
		}
	}
	c.Mem = m
}

// Membership calls released together with the signals that open the next hand: the hand is opened from a copy of the table that is
// swapped in afterwards; a reservation, re-buy or departure accepted at that moment must not be lost with the old copy.
func runConcOpen(c *CCase) {
	r := NewRNG(c.Seed)
	set := mkSetting(fmt.Sprintf("copen-%d", c.Index), "default", "ct", c.Max, 2, 0, 0, 10, 20, 1, 10)
	d, err := NewDrv(set, 0)
	if err != nil {
		c.Note = "create failed"
		return
	}
	np := 2 + r.Intn(2)
	if np > c.Max-1 {
		np = c.Max - 1
	}
	for i := 0; i < np; i++ {
		d.te.PlayerReserve(pt.JoinPlayer{PlayerID: pid(i + 1), RedeemChips: int64(500 + r.Intn(500)), Seat: -1})
	}
	for i := 0; i < np; i++ {
		d.JoinAndSettle(pid(i + 1))
	}
	d.Quiesce(quiesceLimit)
	if d.StartAndOpenFirst() != "ok" {
		c.Note = "first hand did not open"
		return
	}
	// somebody who takes a seat while the first hand runs and does not sit in (no part in the hands)
	by := 40
	d.te.PlayerReserve(pt.JoinPlayer{PlayerID: pid(by), RedeemChips: 300, Seat: -1})
	d.Quiesce(quiesceLimit)
	pol := &Policy{R: r.Fork(3), FoldPct: 60, AllinPct: 0, RaisePct: 0}
	for step := 0; step < 200; step++ {
		if st := d.te.GetTable().State.Status; st == pt.TableStateStatus_TableGameStandby || st == pt.TableStateStatus_TablePausing {
			break
		}
		if _, res := d.Advance(pol); res != "ok" {
			break
		}
	}
	if d.te.GetTable().State.Status != pt.TableStateStatus_TableGameStandby {
		c.Note = "no second hand to open: " + string(d.te.GetTable().State.Status)
		return
	}
	d.Quiesce(quiesceLimit)
	m := &CMem{Pre: d.Abs()}
	var signals []string
	for id, p := range pt.VerifOpenGameManager(d.te).GetState().Participants {
		if !p.IsReady {
			signals = append(signals, id)
		}
	}
	next := 50
	for i := 0; i < c.N; i++ {
		switch r.Intn(4) {
		case 0:
			m.Ops = append(m.Ops, TMOp{Kind: "reserve", Join: &TMJoin{ID: by, Chips: int64(1 + r.Intn(200)), Seat: -1}}) // a re-buy
		default:
			m.Ops = append(m.Ops, TMOp{Kind: "reserve", Join: &TMJoin{ID: next, Chips: int64(1 + r.Intn(500)), Seat: -1}})
			next++
		}
	}
	m.Res = make([]string, len(m.Ops))
	burst(len(m.Ops)+len(signals), func(i int) {
		if i < len(signals) {
			d.te.PlayerSettlementFinish(signals[i])
			return
		}
		k := i - len(signals)
		res, _ := d.applyTM(&m.Ops[k])
		m.Res[k] = res
	})
	d.Quiesce(quiesceLimit)
	m.Post = d.Abs()
	for i := range m.Ops {
		op := &m.Ops[i]
		op.Drawn = []int{}
		seat := -1
		for s, p := range m.Post.SM.Seats {
			if p != nil && p.ID == op.Join.ID {
				seat = s
			}
		}
		op.Drawn = append(op.Drawn, seat)
	}
	c.Mem = m
}

func runConcSeats(c *CCase) {
	r := NewRNG(c.Seed)
	mgr := sm.NewSeatManager(c.Max, "default")
	k := r.Intn(c.Max)
	ids := []int{}
	for i := 0; i < k; i++ {
		ids = append(ids, i+1)
	}
	mgr.RandomAssignSeats(pids(ids))
	s := &CSeats{Pre: snapSM(mgr, c.Max, "default")}
	next := 50
	for i := 0; i < c.N; i++ {
		var op CSeatOp
		switch x := r.Intn(10); {
		case x < 4:
			op = CSeatOp{Kind: "random", IDs: []int{next}}
			next++
			if r.Chance(1, 4) {
				op.IDs = append(op.IDs, next)
				next++
			}
		case x < 7:
			op = CSeatOp{Kind: "assign", Seats: map[int]int{next: r.Intn(c.Max)}}
			next++
		default:
			if len(ids) == 0 {
				op = CSeatOp{Kind: "random", IDs: []int{next}}
				next++
			} else {
				op = CSeatOp{Kind: "remove", IDs: []int{ids[r.Intn(len(ids))]}}
			}
		}
		s.Ops = append(s.Ops, op)
	}
	s.Res = make([]string, len(s.Ops))
	burst(len(s.Ops), func(i int) {
		op := s.Ops[i]
		var err error
		switch op.Kind {
		case "random":
			err = mgr.RandomAssignSeats(pids(op.IDs))
		case "assign":
			m := map[string]int{}
			for id, seat := range op.Seats {
				m[pid(id)] = seat
			}
			err = mgr.AssignSeats(m)
		case "remove":
			err = mgr.RemoveSeats(pids(op.IDs))
		}
		if err != nil {
			s.Res[i] = "err"
		} else {
			s.Res[i] = "ok"
		}
	})
	s.Post = snapSM(mgr, c.Max, "default")
	c.Seats = s
}

func runConcActions(c *CCase) {
	r := NewRNG(c.Seed)
	set := mkSetting(fmt.Sprintf("conca-%d", c.Index), "default", "ct", c.Max, 2, 0, 0, 10, 20, 1, 10)
	d, err := NewDrv(set, 0)
	if err != nil {
		c.Note = "create failed"
		return
	}
	if c.Slow {
		d.be.delay = func() { time.Sleep(time.Duration(1+r.Intn(3)) * time.Millisecond) }
	}
	np := 2 + r.Intn(c.Max-1)
	if np > 6 {
		np = 6
	}
	for i := 0; i < np; i++ {
		d.te.PlayerReserve(pt.JoinPlayer{PlayerID: pid(i + 1), RedeemChips: int64(200 + r.Intn(800)), Seat: -1})
	}
	for i := 0; i < np; i++ {
		d.JoinAndSettle(pid(i + 1))
	}
	d.Quiesce(quiesceLimit)
	a := &CAct{Hands: 2}
	for _, p := range d.Abs().Players {
		a.SumPre += p.Bankroll
	}
	if d.StartAndOpenFirst() != "ok" {
		c.Note = "first hand did not open"
		return
	}
	kinds := []string{"fold", "check", "call", "allin", "bet", "raise", "pass"}
	pol := &Policy{R: r.Fork(3), FoldPct: 15, AllinPct: 5, RaisePct: 30}
	for step := 0; step < 400; step++ {
		t := d.te.GetTable()
		st := t.State
		if st.Status == pt.TableStateStatus_TableGameStandby || st.Status == pt.TableStateStatus_TablePausing {
			a.Settled = st.GameCount
			if st.GameCount >= a.Hands || st.Status == pt.TableStateStatus_TablePausing {
				break
			}
			if _, res := d.Advance(pol); res != "ok" {
				break
			}
			continue
		}
		gs := st.GameState
		if st.Status != pt.TableStateStatus_TableGamePlaying || gs == nil {
			break
		}
		if gs.Status.CurrentEvent != "RoundStarted" {
			if _, res := d.Advance(pol); res != "ok" {
				c.Note = "collection did not advance"
				break
			}
			continue
		}
		cur := gs.Status.CurrentPlayer
		p := gs.GetPlayer(cur)
		if p == nil || len(p.AllowedActions) == 0 {
			c.Note = "nobody to act"
			break
		}
		turn := CTurn{Cur: cur}
		// the player to act submits the chosen action and (a double click) a second, different one; everybody
		// else submits something at the same moment
		act, chips := pol.choose(gs.Status.CurrentWager, gs.Status.PreviousRaiseSize, gs.Status.MiniBet, p.AllowedActions, p.InitialStackSize, p.StackSize, p.Wager)
		turn.Subs = append(turn.Subs, CSub{Player: idOf(d.playerIDAt(cur)), GP: cur, Action: act, Chips: chips})
		if len(p.AllowedActions) > 1 {
			other := p.AllowedActions[r.Intn(len(p.AllowedActions))]
			if other != act && other != "bet" && other != "raise" {
				turn.Subs = append(turn.Subs, CSub{Player: idOf(d.playerIDAt(cur)), GP: cur, Action: other})
			}
		}
		for gp := range gs.Players {
			if gp != cur {
				turn.Subs = append(turn.Subs, CSub{Player: idOf(d.playerIDAt(gp)), GP: gp, Action: kinds[r.Intn(len(kinds))], Chips: gs.Status.MiniBet})
			}
		}
		r.Shuffle(len(turn.Subs), func(i, j int) { turn.Subs[i], turn.Subs[j] = turn.Subs[j], turn.Subs[i] })
		d.be.mu.Lock()
		nbe := len(d.be.calls)
		d.be.mu.Unlock()
		hr := &handRun{d: d}
		burst(len(turn.Subs), func(i int) {
			s := &turn.Subs[i]
			turn.Subs[i].Ok = hr.doCall(HCall{Player: s.Player, Action: s.Action, Chips: s.Chips}) == nil
		})
		d.Quiesce(quiesceLimit)
		d.be.mu.Lock()
		for _, bc := range d.be.calls[nbe:] {
			out := bc.Stamp
			if bc.Err {
				out = 0
			}
			turn.BE = append(turn.BE, CBE{Kind: bc.Kind, In: bc.In, Out: out, Cur: bc.Cur})
		}
		d.be.mu.Unlock()
		a.Turns = append(a.Turns, turn)
	}
	ab := d.Abs()
	for _, p := range ab.Players {
		a.SumPost += p.Bankroll
	}
	a.Settled = ab.GameCount
	if !betweenHands(ab) {
		a.Settled = ab.GameCount - 1
		c.Note = "history ended inside a hand"
	}
	c.Act = a
}

func genConc(root *RNG, i int, seed uint64, mode string) CCase {
	r := root.Fork(uint64(i))
	c := CCase{Index: i, Seed: seed*1000507 + uint64(i), Max: 2 + r.Intn(9)}
	kinds := []string{"members", "members", "seats", "actions"}
	c.Kind = kinds[i%len(kinds)]
	if mode != "" && mode != "big" {
		c.Kind = mode
	}
	c.N = 2 + r.Intn(5) // small bursts: every order of the operations can be tried by the model
	if mode == "open" {
		c.Max = 4 + r.Intn(6)
		c.N = 2 + r.Intn(3)
		return c
	}
	if mode == "swap" {
		c.Max = 2 + r.Intn(5)
		c.N = 3 + r.Intn(4)
		if r.Chance(1, 2) {
			c.N = 8 + r.Intn(8) // callers queueing on the mutex
		}
		return c
	}
	if mode == "big" || r.Chance(1, 4) {
		c.N = 8 + r.Intn(40) // beyond the core count
	}
	c.Slow = r.Chance(1, 2)
	return c
}

func runConc(opt Opts) error {
	var cases []CCase
	if opt.Replay != "" {
		data, err := os.ReadFile(opt.Replay)
		if err != nil {
			return err
		}
		if err := json.Unmarshal(data, &cases); err != nil {
			return err
		}
		for i := range cases {
			cases[i].Mem, cases[i].Seats, cases[i].Act, cases[i].Note = nil, nil, nil, ""
		}
	} else {
		root := NewRNG(opt.Seed)
		for i := 0; i < opt.N; i++ {
			cases = append(cases, genConc(root, i, opt.Seed, opt.Mode))
		}
	}
	if ij, err := json.Marshal(cases); err == nil {
		os.MkdirAll(opt.Out, 0o755)
		os.WriteFile(opt.Out+"/inputs.json", ij, 0o644)
	}
	// bursts are run one case at a time so that the goroutines of a burst really compete with each other
	for i := range cases {
		c := &cases[i]
		done := make(chan bool, 1)
		cp := *c
		go func() {
			switch cp.Kind {
			case "members":
				runConcMembers(&cp)
			case "swap":
				runConcSwap(&cp)
			case "open":
				runConcOpen(&cp)
			case "seats":
				runConcSeats(&cp)
			default:
				runConcActions(&cp)
			}
			done <- true
		}()
		select {
		case <-done:
			*c = cp
		case <-time.After(90 * time.Second):
			c.Note = "hung"
		}
	}
	return writeCases(opt.Out, "Conc_run", cases, func(i int) string { return cases[i].Coq() }, len(cases))
}

func coqRes(rs []string) string {
	xs := make([]string, len(rs))
	for i, r := range rs {
		xs[i] = "Err"
		if r == "ok" {
			xs[i] = "Ok"
		}
		if r == "panic" {
			xs[i] = "Err"
		}
	}
	return "[" + strings.Join(xs, "; ") + "]"
}

func (c CCase) Coq() string {
	switch {
	case c.Mem != nil:
		ops := make([]string, len(c.Mem.Ops))
		for i, o := range c.Mem.Ops {
			ops[i] = o.Coq()
		}
		cons := "CMembers"
		if c.Kind == "open" {
			cons = "COpenMembers"
		}
		return fmt.Sprintf("%s %s [%s] %s %s", cons, c.Mem.Pre.CoqTbl(c.Max), strings.Join(ops, "; "), coqRes(c.Mem.Res), c.Mem.Post.CoqTbl(c.Max))
	case c.Seats != nil:
		ops := make([]string, len(c.Seats.Ops))
		for i, o := range c.Seats.Ops {
			switch o.Kind {
			case "random":
				ops[i] = "(SORandom " + natList(o.IDs) + ")"
			case "remove":
				ops[i] = "(SORemove " + natList(o.IDs) + ")"
			default:
				for id, seat := range o.Seats {
					ops[i] = fmt.Sprintf("(SOAssign %d %d)", id, seat)
				}
			}
		}
		return fmt.Sprintf("CSeats %s [%s] %s %s", c.Seats.Pre.Coq(), strings.Join(ops, "; "), coqRes(c.Seats.Res), c.Seats.Post.Coq())
	case c.Act != nil:
		ts := make([]string, len(c.Act.Turns))
		for i, t := range c.Act.Turns {
			subs := make([]string, len(t.Subs))
			for k, s := range t.Subs {
				subs[k] = fmt.Sprintf("(%d%%nat, %d%%nat, %v)", s.GP, beKinds[strings.ToUpper(s.Action[:1])+s.Action[1:]], s.Ok)
			}
			be := make([]string, len(t.BE))
			for k, b := range t.BE {
				be[k] = fmt.Sprintf("mkbe %d %s %s %s", beKinds[b.Kind], coqZi64(b.In), coqZi64(b.Out), coqZi(b.Cur))
			}
			ts[i] = fmt.Sprintf("mkturn %d [%s] [%s]", t.Cur, strings.Join(subs, "; "), strings.Join(be, "; "))
		}
		return fmt.Sprintf("CActions [%s] %s %s %d %d", strings.Join(ts, ";\n      "), coqZi(int(c.Act.SumPre)), coqZi(int(c.Act.SumPost)), c.Act.Settled, c.Act.Hands)
	}
	return "CNothing"
}

func coqZi64(n int64) string { return fmt.Sprintf("(%d)%%Z", n) }

package main

import (
	"encoding/json"
	"fmt"
	"os"
	"strings"
	"sync"
	"time"

	pt "github.com/weedbox/pokertable"
)

// C01: chip ledger of a real table over many hands, with buy-ins, re-buys, add-ons and
// departures injected between AND during hands.  Every chip-moving event is recorded with the
// seated players' bankrolls after it.

type C01Res struct {
	Idx     int   `json:"idx"`
	Changed int64 `json:"changed"`
	Final   int64 `json:"final"`
}

type C01Ev struct {
	Kind    string     `json:"kind"` // in topup out settle
	ID      int        `json:"id,omitempty"`
	Chips   int64      `json:"chips,omitempty"`
	IDs     []int      `json:"ids,omitempty"`
	Hand    []int      `json:"hand,omitempty"` // ids of the hand's entries at settlement (GamePlayerIndexes -> ids)
	Results []C01Res   `json:"results,omitempty"`
	Stacks  []int64    `json:"stacks,omitempty"` // stacks the hand engine started with
	After   [][2]int64 `json:"after"`            // (id, bankroll) of every seated player after the event
	Between bool       `json:"between_hands"`    // no hand in progress after the event
	Phase   string     `json:"phase,omitempty"`  // where in the hand an injected operation happened
	GameID  string     `json:"game_id,omitempty"`
}

type C01Case struct {
	Index  int     `json:"index"`
	Seed   uint64  `json:"seed"`
	Max    int     `json:"max"`
	Rule   string  `json:"rule"`
	Mode   string  `json:"mode"`
	Ante   int64   `json:"ante"`
	Dealer int64   `json:"dealer_blind"`
	SB     int64   `json:"sb"`
	BB     int64   `json:"bb"`
	Hands  int     `json:"hands"`
	Events []C01Ev `json:"events"`
	Note   string  `json:"note,omitempty"`
}

func afterOf(a TAbs) [][2]int64 {
	out := make([][2]int64, len(a.Players))
	for i, p := range a.Players {
		out[i] = [2]int64{int64(p.ID), p.Bankroll}
	}
	return out
}

func betweenHands(a TAbs) bool {
	return !(a.Status == "table_game_opened" || a.Status == "table_game_playing" || a.Status == "table_game_settled")
}

// settlements seen in the notification stream since the last call
func (d *Drv) settleEvents(c *C01Case) {
	for _, ev := range d.takeEvents() {
		if ev.Kind != "updated" || ev.Status != "table_game_settled" || ev.Table == nil {
			continue
		}
		t := ev.Table
		gs := t.State.GameState
		if gs == nil || gs.Result == nil {
			continue
		}
		e := C01Ev{Kind: "settle", After: afterOf(*ev.Abs), Between: false, GameID: gs.GameID}
		for _, pi := range t.State.GamePlayerIndexes {
			if pi >= 0 && pi < len(t.State.PlayerStates) {
				e.Hand = append(e.Hand, idOf(t.State.PlayerStates[pi].PlayerID))
			} else {
				e.Hand = append(e.Hand, 998)
			}
		}
		for _, r := range gs.Result.Players {
			e.Results = append(e.Results, C01Res{Idx: r.Idx, Changed: r.Changed, Final: r.Final})
		}
		for _, p := range gs.Players {
			e.Stacks = append(e.Stacks, p.Bankroll)
		}
		c.Events = append(c.Events, e)
	}
}

func runC01Case(c *C01Case) {
	r := NewRNG(c.Seed)
	set := mkSetting(fmt.Sprintf("c01-%d", c.Index), c.Rule, c.Mode, c.Max, 2, c.Ante, c.Dealer, c.SB, c.BB, 1, 10)
	d, err := NewDrv(set, 0)
	if err != nil {
		c.Note = "create failed: " + err.Error()
		return
	}
	d.keepTables = true
	next := 1
	buyIn := func(phase string) {
		id := next
		next++
		chips := int64(1 + r.Intn(3000))
		if r.Chance(1, 6) {
			chips = int64(1 + r.Intn(40)) // short stacks: all-ins and side pots
		}
		err := d.te.PlayerReserve(pt.JoinPlayer{PlayerID: pid(id), RedeemChips: chips, Seat: -1})
		d.Quiesce(quiesceLimit)
		d.settleEvents(c)
		if err == nil {
			if r.Chance(1, 4) {
				// more chips are brought before the player has sat in
				a := d.Abs()
				c.Events = append(c.Events, C01Ev{Kind: "in", ID: id, Chips: chips, After: afterOf(a), Between: betweenHands(a), Phase: phase + " (not yet seated in)"})
				more := int64(1 + r.Intn(900))
				if d.te.PlayerReserve(pt.JoinPlayer{PlayerID: pid(id), RedeemChips: more, Seat: -1}) == nil {
					d.Quiesce(quiesceLimit)
					d.settleEvents(c)
					a = d.Abs()
					c.Events = append(c.Events, C01Ev{Kind: "topup", ID: id, Chips: more, After: afterOf(a), Between: betweenHands(a), Phase: phase + " (before sitting in)"})
				}
				d.JoinAndSettle(pid(id))
				return
			}
			d.JoinAndSettle(pid(id))
			a := d.Abs()
			c.Events = append(c.Events, C01Ev{Kind: "in", ID: id, Chips: chips, After: afterOf(a), Between: betweenHands(a), Phase: phase})
		}
	}
	topUp := func(phase string) {
		a := d.Abs()
		if len(a.Players) == 0 {
			return
		}
		p := a.Players[r.Intn(len(a.Players))]
		chips := int64(1 + r.Intn(1500))
		var err error
		if r.Chance(1, 2) {
			err = d.te.PlayerReserve(pt.JoinPlayer{PlayerID: pid(p.ID), RedeemChips: chips, Seat: -1}) // re-buy
		} else {
			err = d.te.PlayerRedeemChips(pt.JoinPlayer{PlayerID: pid(p.ID), RedeemChips: chips, Seat: -1}) // add-on
		}
		d.Quiesce(quiesceLimit)
		d.settleEvents(c)
		if err == nil {
			a = d.Abs()
			c.Events = append(c.Events, C01Ev{Kind: "topup", ID: p.ID, Chips: chips, After: afterOf(a), Between: betweenHands(a), Phase: phase})
		}
	}
	leave := func(phase string, allowParticipant bool) {
		a := d.Abs()
		var cands []TPlayer
		inHand := !betweenHands(a)
		for i, p := range a.Players {
			part := false
			for _, g := range a.GPI {
				if g == i {
					part = true
				}
			}
			if inHand && part && !allowParticipant {
				continue
			}
			cands = append(cands, p)
		}
		if len(cands) == 0 {
			return
		}
		p := cands[r.Intn(len(cands))]
		err := d.te.PlayersLeave([]string{pid(p.ID)})
		d.Quiesce(quiesceLimit)
		d.settleEvents(c)
		if err == nil {
			a = d.Abs()
			c.Events = append(c.Events, C01Ev{Kind: "out", IDs: []int{p.ID}, After: afterOf(a), Between: betweenHands(a), Phase: phase})
		}
	}
	n0 := 2 + r.Intn(c.Max-1)
	for i := 0; i < n0; i++ {
		buyIn("before-first-hand")
	}
	if d.StartAndOpenFirst() != "ok" {
		c.Note = "first hand did not open"
		return
	}
	pol := &Policy{R: r.Fork(99), FoldPct: 10 + r.Intn(25), AllinPct: 3 + r.Intn(20), RaisePct: 10 + r.Intn(40)}
	hands := 0
	released := false
	settledGames := map[string]bool{}
	for step := 0; step < 900 && hands < c.Hands; step++ {
		a := d.Abs()
		if betweenHands(a) {
			// between hands
			if a.Status == "table_game_standby" || a.Status == "table_pausing" {
				if len(c.Events) > 0 && a.GameCount > hands {
					hands = a.GameCount
				}
			}
			if r.Chance(1, 10) && len(a.Players) < c.Max {
				buyIn("between-hands")
			}
			if r.Chance(1, 10) {
				topUp("between-hands")
			}
			if r.Chance(1, 20) && len(a.Players) > 2 {
				leave("between-hands", true)
			}
			if a.Status == "table_pausing" {
				// fewer than two players with chips: top somebody up and restart is outside the engine's
				// automatic path; end the history here
				break
			}
		} else if a.Status == "table_game_playing" {
			phase := a.Event + "/" + a.Round
			if r.Chance(1, 9) {
				topUp(phase)
			}
			if r.Chance(1, 25) && len(a.Players) < c.Max {
				buyIn(phase)
			}
			if r.Chance(1, 30) {
				leave(phase, false)
			}
			if !released && r.Chance(1, 60) {
				// the table is released while a hand runs: the hand is still played out and must be settled
				d.te.ReleaseTable()
				released = true
			}
		}
		_, res := d.Advance(pol)
		d.settleEvents(c)
		if g := d.te.GetGame(); g != nil && g.GetGameState() != nil {
			gs := g.GetGameState()
			if gs.Status.CurrentEvent == "GameClosed" && gs.Result != nil && !settledGames[gs.GameID] {
				settledGames[gs.GameID] = true
				seen := false
				for _, e := range c.Events {
					if e.Kind == "settle" && e.GameID == gs.GameID {
						seen = true
					}
				}
				if !seen {
					// the hand engine has produced the hand's result but the table published no settlement: record the result
					// the table should have applied, with the bankrolls it shows
					d.Quiesce(quiesceLimit)
					t := d.te.GetTable()
					e := C01Ev{Kind: "settle", After: afterOf(d.Abs()), Between: false, Phase: "result produced, no settlement published", GameID: gs.GameID}
					for _, pi := range t.State.GamePlayerIndexes {
						if pi >= 0 && pi < len(t.State.PlayerStates) {
							e.Hand = append(e.Hand, idOf(t.State.PlayerStates[pi].PlayerID))
						} else {
							e.Hand = append(e.Hand, 998)
						}
					}
					for _, rr := range gs.Result.Players {
						e.Results = append(e.Results, C01Res{Idx: rr.Idx, Changed: rr.Changed, Final: rr.Final})
					}
					c.Events = append(c.Events, e)
					c.Note = "a hand reached its result but was never settled"
				}
			}
		}
		if released && betweenHands(d.Abs()) {
			break
		}
		if res == "wedged" {
			c.Note = "wedged at step " + fmt.Sprint(step)
			break
		}
		if res == "idle" {
			a := d.Abs()
			if betweenHands(a) && a.Status != "table_game_standby" {
				break
			}
		}
		// mark the between-hands point after a hand
		a = d.Abs()
		if betweenHands(a) && len(c.Events) > 0 && c.Events[len(c.Events)-1].Kind == "settle" {
			// a zero top-up is not an event of the code; record the between-hands bankrolls on the settle's successor
			c.Events = append(c.Events, C01Ev{Kind: "mark", After: afterOf(a), Between: true, Phase: "after-hand"})
			hands = a.GameCount
		}
	}
	c.Hands = hands
}

func genC01(root *RNG, i int, seed uint64) C01Case {
	r := root.Fork(uint64(i))
	c := C01Case{Index: i, Seed: seed*1000003 + uint64(i), Max: 2 + r.Intn(9), Rule: "default", Mode: "ct", SB: 10, BB: 20, Hands: 3 + r.Intn(6)}
	switch r.Intn(8) {
	case 0:
		c.Rule = "short_deck"
		c.Ante = 10
		c.Dealer = 20
		c.SB = 0
		c.BB = 0
	case 1:
		// rule "omaha" is accepted by the table engine but not by its seat manager (SupportedRules): such a
		// table can never open a hand, so there is no chip movement to observe (noted in DESIGN.md)
		c.Rule = "default"
	}
	if r.Chance(1, 3) {
		c.Ante = int64(1 + r.Intn(10))
	}
	if r.Chance(1, 8) && c.Rule == "default" {
		c.SB = 0 // no small blind
	}
	switch r.Intn(3) {
	case 0:
		c.Mode = "mtt"
	case 1:
		c.Mode = "cash"
	}
	return c
}

func (e C01Ev) Coq() string {
	after := make([]string, len(e.After))
	for i, p := range e.After {
		after[i] = fmt.Sprintf("(%d%%nat, %s)", p[0], coqZi(int(p[1])))
	}
	var ev string
	switch e.Kind {
	case "in":
		ev = fmt.Sprintf("(CIn %d %s)", e.ID, coqZi(int(e.Chips)))
	case "topup":
		ev = fmt.Sprintf("(CTopUp %d %s)", e.ID, coqZi(int(e.Chips)))
	case "out":
		ev = fmt.Sprintf("(COut %s)", natList(e.IDs))
	case "mark":
		ev = "CMark"
	case "settle":
		rs := make([]string, len(e.Results))
		for i, r := range e.Results {
			rs[i] = fmt.Sprintf("mkr %d %s %s", r.Idx, coqZi(int(r.Changed)), coqZi(int(r.Final)))
		}
		ev = fmt.Sprintf("(CSettle %s [%s])", natList(e.Hand), strings.Join(rs, "; "))
	}
	return fmt.Sprintf("mko %s [%s] %v", ev, strings.Join(after, "; "), e.Between)
}

func (c C01Case) Coq() string {
	xs := make([]string, len(c.Events))
	for i, e := range c.Events {
		xs[i] = e.Coq()
	}
	return "[" + strings.Join(xs, ";\n    ") + "]"
}

func runC01(opt Opts) error {
	var cases []C01Case
	if opt.Replay != "" {
		data, err := os.ReadFile(opt.Replay)
		if err != nil {
			return err
		}
		if err := json.Unmarshal(data, &cases); err != nil {
			return err
		}
		for i := range cases {
			cases[i].Events = nil
			cases[i].Note = ""
		}
	} else {
		root := NewRNG(opt.Seed)
		for i := 0; i < opt.N; i++ {
			cases = append(cases, genC01(root, i, opt.Seed))
		}
	}
	if ij, err := json.Marshal(cases); err == nil {
		os.MkdirAll(opt.Out, 0o755)
		os.WriteFile(opt.Out+"/inputs.json", ij, 0o644)
	}
	var wg sync.WaitGroup
	sem := make(chan struct{}, 14)
	for i := range cases {
		wg.Add(1)
		sem <- struct{}{}
		go func(c *C01Case) {
			defer wg.Done()
			defer func() { <-sem }()
			done := make(chan bool, 1)
			cp := *c
			go func() { runC01Case(&cp); done <- true }()
			select {
			case <-done:
				*c = cp
			case <-time.After(60 * time.Second):
				c.Note = "hung"
			}
		}(&cases[i])
	}
	wg.Wait()
	return writeCases(opt.Out, "C01_run", cases, func(i int) string { return cases[i].Coq() }, len(cases))
}

package main

import (
	"flag"
	"fmt"
	"os"
)

// Usage: hx <property> -seed N -n N -out DIR [-replay FILE] [-slow]
// Every sub-command writes DIR/cases.v (Gallina terms for the Coq side) and
// DIR/cases.json (the same histories, for replays and evidence samples).
func main() {
	if len(os.Args) < 2 {
		fmt.Fprintln(os.Stderr, "usage: hx <property> [flags]")
		os.Exit(2)
	}
	prop := os.Args[1]
	fs := flag.NewFlagSet(prop, flag.ExitOnError)
	seed := fs.Uint64("seed", 1, "seed")
	n := fs.Int("n", 100, "number of histories")
	out := fs.String("out", ".", "output directory")
	replay := fs.String("replay", "", "replay the histories of this cases.json instead of generating")
	slow := fs.Int("slow", 1, "settle-time multiplier (confirmation runs use 10)")
	mode := fs.String("mode", "", "property-specific mode")
	chunk := fs.Int("chunk", 1500, "cases per generated Coq file")
	fs.Parse(os.Args[2:])
	caseChunk = *chunk
	if *slow > 1 {
		slowFactor = *slow
	}
	opt := Opts{Seed: *seed, N: *n, Out: *out, Replay: *replay, Slow: *slow, Mode: *mode}
	silenceStdout()
	var err error
	switch prop {
	case "c09":
		err = runC09(opt)
	case "c17":
		err = runC17(opt)
	case "sm":
		err = runSM(opt)
	case "c01":
		err = runC01(opt)
	case "conc":
		err = runConc(opt)
	case "actor":
		err = runActor(opt)
	case "hand":
		err = runHand(opt)
	case "life":
		err = runLife(opt)
	case "open":
		err = runOpen(opt)
	case "tm":
		err = runTM(opt)
	case "tsmoke":
		err = runTSmoke(opt)
	default:
		err = fmt.Errorf("unknown property %s", prop)
	}
	if err != nil {
		fmt.Fprintln(os.Stderr, "hx:", err)
		os.Exit(3)
	}
}

type Opts struct {
	Seed   uint64
	N      int
	Out    string
	Replay string
	Slow   int
	Mode   string
}

// The engine prints every event on stdout; send that to /dev/null and keep the
// original descriptor for our own (rare) messages.
var realStdout *os.File

func silenceStdout() {
	realStdout = os.Stdout
	if dn, err := os.OpenFile(os.DevNull, os.O_WRONLY, 0); err == nil {
		os.Stdout = dn
	}
}

import json, sys, glob
import jsonschema
m = json.load(open('/verif/MANIFEST.json'))
jsonschema.validate(m, json.load(open('/root/.vp/MANIFEST.schema.json')))
es = json.load(open('/root/.vp/EVIDENCE.schema.json'))
for f in sorted(glob.glob('/verif/evidence/*.json')):
    jsonschema.validate(json.load(open(f)), es)
ids = [json.loads(l)['id'] for l in open('/verif/properties.jsonl')]
cl = [c['property_id'] for c in m['checks']]
na = [c['property_id'] for c in m.get('not_applicable', [])]
assert sorted(cl + na) == sorted(ids), (cl, na)
print('manifest+evidence valid; claimed', len(cl), 'n/a', len(na))

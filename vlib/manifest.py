"""Regenerates MANIFEST.json from the table below (python3 -m vlib.manifest)."""
import json
import os
import subprocess

ROOT = os.path.dirname(os.path.dirname(os.path.abspath(__file__)))

CHECKS = {
    "C09": {
        "text": "Refinement theorem: for every timeout setting and every sequence of set-ups, signals (known/unknown/repeated), expiries and restores of pending snapshots, the gate model produces exactly the callbacks, errors and states of the specification automaton; trace-level theorems (at most one fire per set-up, a fire on a signal only after everyone signalled, fired stays fired). The model is tied to open_game_manager/*.go by running the same histories on the real package (real 1 s timers) and comparing every observation inside Coq.",
        "note": "Trusted: Coq kernel + vm_compute; hand-written model coq/Model/OpenGame.v validated by differential execution only; syncsaga ReadyGroup/timebank abstracted as atomic events; participant maps injective on indexes. Restoring an already-fired snapshot is a recorded known finding (F18).",
        "technique": "Rocq refinement proof (gate model refines spec automaton) + vm_compute differential correspondence",
        "design": "DESIGN.md 5 C09",
    },
    "C17": {
        "text": "The forwarding table is regenerated from manager.go by the translator on every run; theorems (for every engine semantics, registry size, method and argument list): a well-formed table makes the manager model equal to the specification 'same-named engine operation on that table, nothing else', with effect / isolation / not-found corollaries; wf and coverage of the generated table are proved by computation on the table as generated now. Tied to the real Manager by recording proxies in its registry: every manager call's engine calls, arguments, results and registry membership are compared with the generated model and the spec monitor in Coq.",
        "note": "Trusted: Coq kernel + vm_compute; the translator's reading of manager.go (fails loudly on unrecognised shapes; cross-checked by the proxy run); engine semantics universally quantified; sync.Map semantics.",
        "technique": "model regenerated from source (go/ast translator) + Rocq proof parametric in the engine + proxy-recorded differential run",
        "design": "DESIGN.md 5 C17",
    },
}

CHECKS["C04"] = {
    "text": "Theorems for an arbitrary seat count n >= 2: the circular scans return the acceptable seat at minimal (counter-)clockwise distance; one default-rule rotation from any well-formed initialised state satisfies every clause of the dead-button specification (occupants untouched, refused rotation moves nothing, bb = next live seat and dealt in, heads-up dealer = sb = other player, ring sb'/dealer' and distinctness, refusal iff < 2 live) except under two exclusion predicates that are recorded findings (F7, F8, each with a _refuted witness history); short-deck rotation; a reachable-state invariant preserved by all seven API operations; hence every rotation of every API history on every seat count and rule meets C04_ok outside the two signatures. The scans' index expressions, bounds and acceptance predicates are regenerated from seat_manager_internal.go by the translator on every run (a hard-coded modulus makes the proofs fail). Correspondence: the real seat manager is run from every state of 2- and 3-seat tables (all 20 000+ states, reachable or not), breadth-first over API-reachable states, and on random API histories for 2..10 seats; each transition is re-run through the model and the same C04_ok is evaluated on it, inside Coq.",
    "note": "Trusted: Coq kernel + vm_compute; translator for the scan expressions; hand-written rest of coq/Model/SeatManager.v (tied by step-local differential execution from identical pre-states); random draws enter as observed oracle values with the contract 'a dealt-in seat' (valid_op). Known findings F7, F8 are excluded from the theorem by explicit signatures and reported as KNOWN-FINDING when reproduced.",
    "technique": "Rocq proof by reachable-state invariant + general-n scan lemmas; scans regenerated from source; exhaustive small-n and random step-local correspondence",
    "design": "DESIGN.md 5 C04",
}

CHECKS["C03"] = {
    "text": "Model of the table's membership operations (reserve / re-buy / join / redeem / leave / batch update over the seat-manager model). Proved: every operation of the model that reports an error returns the bookkeeping it was given (all-or-nothing), for every state and argument, with one exclusion that is a recorded finding (F19: a batch update applies its departures before its arrivals are refused; _refuted witness). Preservation of the consistency invariant seat_inv (seat map / player list / seat manager agree, one seat per player within the table, capacity) is not yet proved in Coq (theorem named _partial): it is decided on every run by evaluating the same decidable seat_inv on every observed implementation state and by step-local model/implementation equality on ~5000 operations of random valid+invalid histories on 2..10 seats, before the first hand and between hands.",
    "note": "Trusted: Coq kernel + vm_compute; hand-written model coq/Model/TableMem.v (tied by differential execution from identical pre-states); random seat draws as observed oracle values; the join group's asynchronous auto-join is settled by the harness before the next operation (an engine/syncsaga re-arming hazard that can dead-lock is described in DESIGN.md). Four genuine defects found by this check were repaired (fix: commits), one is a known finding.",
    "technique": "Rocq proof of the all-or-nothing clause on the membership model + decidable invariant monitored on implementation states + step-local differential correspondence",
    "design": "DESIGN.md 5 C03",
}

CHECKS["C01"] = {
    "text": "Theorems over arbitrary event sequences (buy-in, re-buy / add-on also DURING hands, departures, settlements with any number of entries): after every event the seated players' bankrolls sum to brought-in minus taken-out (invariant by induction), and a settlement changes each hand entry's player by exactly that entry's result and nobody else (hand-locality). How settleGame writes a result back is regenerated from table_engine_stage.go on every run (settle_bank); the proofs need old + changed, so the overwrite the code had (Bankroll = Final, defect F1, repaired) makes them fail. Correspondence: real tables of 2..10 seats, three rules/modes, ante / no-SB structures, stacks from 1 chip, 3-8 hands each with folds, all-ins, side pots and busts, membership operations injected at every phase of a hand; the model is run on the observed events and compared bankroll by bankroll; the same conservation / locality predicates are evaluated on the observations; pokerface's result contract (changes sum to zero, entry i = index i) is evaluated on every hand.",
    "note": "Trusted: Coq kernel + vm_compute; translator for the write-back expression; the hand engine's results enter through the contract result_ok (assumed in the theorem, evaluated on every observed hand); that hand entries denote seated players is C02's subject (a dealt-in player leaving mid-hand, F9, is exercised in C02's isolated stream).",
    "technique": "Rocq invariant proof over event sequences + write-back expression regenerated from source + event-level differential correspondence",
    "design": "DESIGN.md 5 C01",
}

NOT_YET = "not built yet in this round (work in progress; the design claims it, see DESIGN.md 5)"


def main():
    props = [json.loads(l) for l in open(os.path.join(ROOT, "properties.jsonl"))]
    hooks = subprocess.run(["git", "-C", "/repo", "log", "--format=%H %s"], stdout=subprocess.PIPE, text=True).stdout.strip().split("\n")
    hook_commits = [l.split()[0] for l in hooks if "verif hooks" in l]
    m = {
        "version": 1,
        "setup_cmd": "cd /verif && python3 -m vlib.setup",
        "hooks": {"guard": "verif", "enable": "go build -tags verif (harness module with replace github.com/weedbox/pokertable => /repo)",
                  "baseline_off_cmd": "cd /repo && GOFLAGS=-mod=mod GOPROXY=off GOSUMDB=off go test -vet=off -count=1 -timeout 25m ./...",
                  "source_commits": hook_commits, "add_only": True},
        "engines": [
            {"name": "rocq-model", "path": "coq/", "serves_properties": sorted(CHECKS), "kind_free_text": "Coq 8.16.1 development: executable model, decidable specifications, theorems; vm_compute correspondence against Go traces"},
            {"name": "translator", "path": "translator/", "serves_properties": ["C01", "C04", "C17"], "kind_free_text": "go/ast translator regenerating coq/Gen/*.v from /repo on every run"},
            {"name": "harness", "path": "harness/", "serves_properties": sorted(CHECKS), "kind_free_text": "Go drivers (-tags verif) running the real packages and printing traces as Gallina terms"}],
        "checks": [], "not_applicable": [], "notes": "see DESIGN.md; known findings in known_findings.json",
    }
    for p in props:
        pid = p["id"]
        if pid in CHECKS:
            c = CHECKS[pid]
            m["checks"].append({
                "property_id": pid, "quick_cmd": "./check %s --tier quick" % pid, "thorough_cmd": "./check %s --tier thorough" % pid,
                "evidence_file": "evidence/%s.json" % pid, "replay_cmd_template": "./check %s --replay {path}" % pid,
                "engine": "rocq-model",
                "level_claimed": {"category": "proof", "text": c["text"], "design_ref": c["design"]},
                "level_note": c["note"], "technique": c["technique"]})
        else:
            m["not_applicable"].append({"property_id": pid, "reason": NOT_YET})
    json.dump(m, open(os.path.join(ROOT, "MANIFEST.json"), "w"), indent=1)


if __name__ == "__main__":
    main()

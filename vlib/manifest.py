"""Regenerates MANIFEST.json from the table below (python3 -m vlib.manifest)."""
import json
import os
import subprocess

ROOT = os.path.dirname(os.path.dirname(os.path.abspath(__file__)))

CHECKS = {
    "C09": {
        "text": "Refinement theorem: for every timeout setting and every sequence of set-ups, signals (known/unknown/repeated), expiries and restores of pending snapshots, the gate model produces exactly the callbacks, errors and states of the specification automaton; trace-level theorems (at most one fire per set-up, a fire on a signal only after everyone signalled, fired stays fired). The model is tied to open_game_manager/*.go by running the same histories on the real package (real 1 s timers) and comparing every observation inside Coq.",
        "note": "Trusted: Coq kernel + vm_compute; hand-written model coq/Model/OpenGame.v validated by differential execution only; syncsaga ReadyGroup/timebank abstracted as atomic events; participant maps injective on indexes. Restoring an already-fired snapshot is a recorded known finding (F18).",
        "technique": "Rocq refinement proof (gate model refines spec automaton) + vm_compute differential correspondence",
        "design": "DESIGN.md 5 C09",
    },
    "C17": {
        "text": "The forwarding table is regenerated from manager.go by the translator on every run; theorems (for every engine semantics, registry size, method and argument list): a well-formed table makes the manager model equal to the specification 'same-named engine operation on that table, nothing else', with effect / isolation / not-found corollaries; wf and coverage of the generated table are proved by computation on the table as generated now. Tied to the real Manager by recording proxies in its registry: every manager call's engine calls, arguments, results and registry membership are compared with the generated model and the spec monitor in Coq.",
        "note": "Trusted: Coq kernel + vm_compute; the translator's reading of manager.go (fails loudly on unrecognised shapes; cross-checked by the proxy run); engine semantics universally quantified; sync.Map semantics.",
        "technique": "model regenerated from source (go/ast translator) + Rocq proof parametric in the engine + proxy-recorded differential run",
        "design": "DESIGN.md 5 C17",
    },
}

CHECKS["C04"] = {
    "text": "Theorems for an arbitrary seat count n >= 2: the circular scans return the acceptable seat at minimal (counter-)clockwise distance; one default-rule rotation from any well-formed initialised state satisfies every clause of the dead-button specification (occupants untouched, refused rotation moves nothing, bb = next live seat and dealt in, heads-up dealer = sb = other player, ring sb'/dealer' and distinctness, refusal iff < 2 live) except under two exclusion predicates that are recorded findings (F7, F8, each with a _refuted witness history); short-deck rotation; a reachable-state invariant preserved by all seven API operations; hence every rotation of every API history on every seat count and rule meets C04_ok outside the two signatures. The scans' index expressions, bounds and acceptance predicates are regenerated from seat_manager_internal.go by the translator on every run (a hard-coded modulus makes the proofs fail). Correspondence: the real seat manager is run from every state of 2- and 3-seat tables (all 20 000+ states, reachable or not), breadth-first over API-reachable states, and on random API histories for 2..10 seats; each transition is re-run through the model and the same C04_ok is evaluated on it, inside Coq.",
    "note": "Trusted: Coq kernel + vm_compute; translator for the scan expressions; hand-written rest of coq/Model/SeatManager.v (tied by step-local differential execution from identical pre-states); random draws enter as observed oracle values with the contract 'a dealt-in seat' (valid_op). Known findings F7, F8 are excluded from the theorem by explicit signatures and reported as KNOWN-FINDING when reproduced.",
    "technique": "Rocq proof by reachable-state invariant + general-n scan lemmas; scans regenerated from source; exhaustive small-n and random step-local correspondence",
    "design": "DESIGN.md 5 C04",
}

CHECKS["C03"] = {
    "text": "Model of the table's membership operations (reserve / re-buy / join / redeem / leave / batch update over the seat-manager model). Proved: every operation of the model that reports an error returns the bookkeeping it was given (all-or-nothing), for every state and argument, with one exclusion that is a recorded finding (F19: a batch update applies its departures before its arrivals are refused; _refuted witness). Preservation of the consistency invariant seat_inv (seat map / player list / seat manager agree, one seat per player within the table, capacity) is not yet proved in Coq (theorem named _partial): it is decided on every run by evaluating the same decidable seat_inv on every observed implementation state and by step-local model/implementation equality on ~5000 operations of random valid+invalid histories on 2..10 seats, before the first hand and between hands.",
    "note": "Trusted: Coq kernel + vm_compute; hand-written model coq/Model/TableMem.v (tied by differential execution from identical pre-states); random seat draws as observed oracle values; the join group's asynchronous auto-join is settled by the harness before the next operation (an engine/syncsaga re-arming hazard that can dead-lock is described in DESIGN.md). Four genuine defects found by this check were repaired (fix: commits), one is a known finding.",
    "technique": "Rocq proof of the all-or-nothing clause on the membership model + decidable invariant monitored on implementation states + step-local differential correspondence",
    "design": "DESIGN.md 5 C03",
}

CHECKS["C01"] = {
    "text": "Theorems over arbitrary event sequences (buy-in, re-buy / add-on also DURING hands, departures, settlements with any number of entries): after every event the seated players' bankrolls sum to brought-in minus taken-out (invariant by induction), and a settlement changes each hand entry's player by exactly that entry's result and nobody else (hand-locality). How settleGame writes a result back is regenerated from table_engine_stage.go on every run (settle_bank); the proofs need old + changed, so the overwrite the code had (Bankroll = Final, defect F1, repaired) makes them fail. Correspondence: real tables of 2..10 seats, three rules/modes, ante / no-SB structures, stacks from 1 chip, 3-8 hands each with folds, all-ins, side pots and busts, membership operations injected at every phase of a hand; the model is run on the observed events and compared bankroll by bankroll; the same conservation / locality predicates are evaluated on the observations; pokerface's result contract (changes sum to zero, entry i = index i) is evaluated on every hand.",
    "note": "Trusted: Coq kernel + vm_compute; translator for the write-back expression; the hand engine's results enter through the contract result_ok (assumed in the theorem, evaluated on every observed hand); that hand entries denote seated players is C02's subject (a dealt-in player leaving mid-hand, F9, is exercised in C02's isolated stream).",
    "technique": "Rocq invariant proof over event sequences + write-back expression regenerated from source + event-level differential correspondence",
    "design": "DESIGN.md 5 C01",
}

CHECKS["C02"] = {
    "text": "Model of the opening step (who is dealt in, the hand's player list incl. the fake-dealer search, labels, PlayerSettings; Go index panics explicit). Theorems for an arbitrary seat count and any arrangement of sitting-out / busted players, live or dead button: on default-rule tables the hand's player list is one full clockwise turn of the seat map from a seat of the table - exactly the dealt-in players, each once, in strictly increasing clockwise distance (StronglySorted), given the seat-map/player-list bijection of C03 and the dealt-in big blind of C04; stack = bankroll and result routing through GamePlayerIndexes are regenerated from startGame/settleGame on every run. Short-deck order is refuted with a witness (finding F10). Correspondence: ~700 opened hands per quick run on real tables with explicit seat layouts, dead buttons, sit-outs, busts, re-buys: the model recomputes list / flags / labels / settings from the same state and is compared; C02_ok (incl. which seat the turn starts from) is evaluated on every published snapshot and on the PlayerSettings captured at CreateGame.",
    "note": "Partial: the choice of the start seat with a dead button and stability of the list while a hand runs (a dealt-in player leaving mid-hand, F9) are decided by the monitor / described in DESIGN.md, not proved. Trusted: Coq kernel + vm_compute; translator facts; hand-written Model/OpenHand.v tied by differential execution.",
    "technique": "Rocq proof (general-n clockwise-walk lemmas) + facts regenerated from source + differential correspondence on opened hands",
    "design": "DESIGN.md 5 C02",
}
CHECKS["C05"] = {
    "text": "Theorems (any seat count): the dealt-in flags set at open are exactly the seat manager's Active() per player; a successful rotation never drops a dealt-in player (dealt in, chips kept, still seated => dealt in next hand) and leaves at least two dealt in (built on C04's rotation lemmas). The arrival rule and the three-hand bound are not proved in Coq (theorem names carry _partial): they are decided on every run by the decidable C05_ok evaluated on every opened hand of driven histories (newcomer / waiting-at-arrival / missed-hand bookkeeping computed from the history), with the opening-step model compared with the implementation on each.",
    "note": "Partial as stated. Trusted: Coq kernel + vm_compute; Model/OpenHand.v and Model/SeatManager.v tied by differential execution; the harness's history bookkeeping for the monitor.",
    "technique": "Rocq proof on the rotation/opening model + decidable monitor on observed opens + differential correspondence",
    "design": "DESIGN.md 5 C05",
}
CHECKS["C06"] = {
    "text": "newPositions and the rotation offset are regenerated from position.go. Theorems: the generated rotated label table equals an independently written standard order for every slot count 3..10; for EVERY table of 2..7 seats, every set of dealt-in seats and every button placement the rotation rule can produce, the model's label hand-out is the standard order clockwise from the big blind with dead button / dead small blind skipped, nobody else carries a label, and no empty slice is indexed (finite sweep over ~64 000 configurations by vm_compute, lifted to a universally quantified theorem with the bound in its statement). Sizes 8..10, the labels the hand engine receives and the next-big-blind order are decided on every run by C06_labels_ok / C06_next_bb_ok on every observed open and settlement, with model/implementation equality on each.",
    "note": "Partial for 8..10 seats (no general-n proof of the hand-out loop). Trusted: Coq kernel + vm_compute; translator for the label table; Model/OpenHand.v tied by differential execution.",
    "technique": "label table regenerated from source + Rocq finite-sweep proof lifted by lemma (bound stated) + monitors and differential correspondence",
    "design": "DESIGN.md 5 C06",
}

_LIFE_NOTE = "Trusted: Coq kernel + vm_compute; hand-written Model/Life.v tied by differential execution at every macro step from the observed pre-state; player counts and 'hand reached settlement' as observed oracle values; GameContinueInterval = 0 (schedules inside the continue delay are not explored - a limitation named in DESIGN.md 9); three genuine defects found by these checks were repaired (F11 open after close/release, F12 gate set up with survivors only, F14 blind level read twice)."
CHECKS["C07"] = {
    "text": "Life-cycle model at the grain of macro steps between quiescent points. Theorems (every state, oracle value and operation): the hand count moves only by +1 and only when the gate's completion opens a hand, which requires no unsettled hand, table neither closed nor released, blinds set and no break; left to itself the status moves only along the cycle; a settled hand leaves no hand state. The fine grain (every notification between quiescent points: status edges, +1 counting on `opened` only, no open while a hand is unsettled, per-hand fields reset, fresh game ids) is decided on every run by the decidable C07_step_ok on the implementation's notification stream; the model is compared with the implementation after every macro step of ~150 driven histories (pause / close / release / blind updates / break and unset levels / real 2 s gate timeouts / late gate completions after close).",
    "note": _LIFE_NOTE, "technique": "Rocq case-analysis proofs on the life-cycle model + decidable monitor on the notification stream + macro-step differential correspondence", "design": "DESIGN.md 5 C07",
}
CHECKS["C08"] = {
    "text": "Theorems on the life-cycle model: after a settled hand the table pauses iff the level is a break or fewer players than the minimum have chips; otherwise the gate is set up for the next count with every seated-in player with chips; and once they have signalled (or the gate timed out) the next hand opens without any further call, provided two seated-in players have chips (two-step theorem LPlay;LFinish). Decided on the implementation by C08_step_ok on every macro step (pause decision, gate not left with <2 participants while two can play, hand really opens - wedges are detected by state, not by a sleep) and by model/implementation equality.",
    "note": _LIFE_NOTE + " Rotation refusals with two live players (C04 findings F7/F8) would surface here as a wedge; the driven tables keep all players seated-in.", "technique": "Rocq proofs on the life-cycle model + state-based wedge detection + macro-step differential correspondence", "design": "DESIGN.md 5 C08",
}
CHECKS["C12"] = {
    "text": "Theorems on the life-cycle model: a hand opens at the level in force at that moment; for ANY sequence of operations while the same hand runs - blind updates included - the hand's level is unchanged (updates affect only later hands); on a break no hand opens, the table pauses after the current hand, and a table created on a break starts paused. Decided on the implementation by C12_step_ok: GameBlindState, the options captured at CreateGame and the ante/blinds the hand charges all equal the level before the open - including when UpdateBlind is issued from INSIDE the backend's CreateGame (deterministic replay of the interleaving behind defect F14) - and stay fixed during the hand.",
    "note": _LIFE_NOTE, "technique": "Rocq proofs (induction over operation sequences) on the life-cycle model + deterministic interleaving injection + macro-step differential correspondence", "design": "DESIGN.md 5 C12",
}

_HAND_NOTE = "Trusted: Coq kernel + vm_compute; the translator's reading of table_engine.go / game.go / table_engine_internal.go / table_engine_stage.go / game_statistics.go (fails loudly on unrecognised shapes; cross-checked by the differential run); hand-written interpretation in Model/HandRules.v and Model/Collect.v; the hand engine (pokerface v0.1.10, outside this repository) enters as observed oracle values; quiescence detected through the verif hooks; GameContinueInterval = 0."
CHECKS["C10"] = {
    "text": "The per-action facts of the nine Player<Action> methods and of the hand wrapper's methods (locking, validateGameMove, validatePlayMove / validateActionMove / allowed-action checks, which wrapper and backend call is made, that the last-action record, the event and the statistics sit inside `if err == nil`) are regenerated from the sources on every run. Theorems, for every table state, caller, action and hand-engine answer: an action is accepted only while a hand is being played, only from a hand entry, for ready/pay only if allowed, for betting actions and pass only from the current player with the hand engine's consent (and a pass only if allowed); a refused action leaves last action, statistics, hand and event stream untouched; an accepted one is applied once, recorded as last action and, for betting actions and pass, published as exactly one event; over any history the number of events equals the number of accepted betting actions. The full-strength clause 'an event for EVERY accepted action' is refuted for ready and pay (known findings F13, F21). Correspondence: every attempt of driven histories (legal play plus out-of-turn / not-allowed / not-dealt-in / stranger / no-hand attempts) is decided by the model and compared; refusals are compared by SHA-1 of the complete table JSON and of the wrapper's hand state before/after.",
    "note": _HAND_NOTE + " Concurrent submission is C16's subject. One genuine defect found by this check was repaired (F20: a pass the hand does not allow was reported as accepted).",
    "technique": "per-method facts regenerated from source + Rocq proofs parametric in the hand engine's answers + attempt-level differential correspondence", "design": "DESIGN.md 5 C10",
}
CHECKS["C13"] = {
    "text": "Theorems on the same model, with a failing backend call as the oracle answer `not ok`: a failed betting action / pass returns an error and changes nothing (last action, statistics, hand, events); the same action submitted again is decided exactly as if the failure had not happened; for ANY history of attempts, failures and retries, the course (last action, statistics, hand state, event stream) equals that of the accepted attempts alone (erasure theorem by induction over the history); the four steps the engine makes by itself hand a backend error to the table's error callback (facts regenerated from game.go / startGame). Correspondence: backend calls are made to fail once..three times before the same action is retried; ReadyForAll / PayAnte / PayBlinds / Next are made to fail; each faulted history is compared (final bankrolls) with a fault-free twin run on the same seeded decks and first dealer.",
    "note": _HAND_NOTE, "technique": "Rocq erasure theorem over attempt histories + facts regenerated from source + fault-injecting backend wrapper with fault-free twin runs", "design": "DESIGN.md 5 C13",
}
CHECKS["C14"] = {
    "text": "The statistics update statements of every Player<Action> method are regenerated from the sources as guarded primitives and interpreted by the model. Theorems, for any number of players and any sequence of accepted betting actions from a cleared block: each player's action / call / check counters equal the numbers of such actions accepted from them and raises never exceed actions; fold flag and fold round are those of the player's fold; for any interleaving of accepted actions, chance markings and showdown markings every 'did X' flag implies its 'had the chance' flag and at most one player holds the 3-bet flag (refreshThreeBet modelled); continueGame replaces every block. The flag theorem rests on a stated assumption about the hand engine (a player is asked only with a clear Acted flag and the betting event is not named Started, so the seven chance flags behind validateGameStatisticGameState are never marked), watched on every observed settlement and also exercised against a backend that names the event Started. Correspondence: after every accepted action the implementation's block pushed through the model's interpretation equals the implementation's block after it; at settlement a tally of the accepted actions is compared with the published block; the first snapshot of the next hand must be all zero.",
    "note": _HAND_NOTE + " Observation (not a finding): PlayerFold sets the fold-to-c-bet flag under the fold-to-3-bet chance flag; unreachable under the stated assumption.",
    "technique": "update statements regenerated from source + Rocq invariant proofs over action sequences + per-action differential correspondence of the statistics block", "design": "DESIGN.md 5 C14",
}
CHECKS["C15"] = {
    "text": "Facts about updateCurrentActionEndAt, the round-closed handler, continueGame and PlayerExtendActionDeadline are regenerated from the sources; theorems on the deadline step function: a RoundStarted state while playing, in a betting round, whose current player has not acted and is offered only wager actions sets the deadline to request time + action time; the round-closed handler and continueGame clear it; any number of extensions moves it later by exactly the sum of the requested seconds, each returning the new value; no other hand event changes it. Correspondence: on every attempt of the driven histories the deadline published with each hand event and at quiescence is compared against the clock bracket [before the call, at quiescence] + configured action time (5..34 s), cleared deadlines with RoundClosed and after settlement, and 0..3 extensions of 1..40 s per turn.",
    "note": _HAND_NOTE + " One-second clock resolution.", "technique": "facts regenerated from source + Rocq proofs on the deadline step function + monitors on published deadlines", "design": "DESIGN.md 5 C15",
}
CHECKS["C11"] = {
    "text": "Ready-group model (syncsaga semantics: an answer is recorded only for a participant; completion starts once, when all are ready; the timeout answers for everybody still awaited). Theorems, for every set of asked players and every sequence of answers (any order, repeats, strangers): the completion starts exactly once and exactly at the first moment everyone asked has answered; a single withheld answer blocks it whatever else arrives; every order completes; after the timeout it completes; readiness and ante ask every hand entry, blinds exactly the entries holding a blind position whose blind is positive (rules regenerated from game.go). PARTIAL: 'every opened hand reaches settlement' needs the hand engine to close each betting round after finitely many actions (outside this repository); it is decided on observed hands (every fully answered hand settles with a result entry per participant, closed rounds are followed by Next without a trigger), not proved. Correspondence: answers in random orders with repeats, the group's pending set read through a verif hook before and after every answer; one-answer-withheld histories wait out the real 17 s timeout.",
    "note": _HAND_NOTE, "technique": "Rocq proofs on the ready-group model (closed form of any answer sequence) + asked-set rules regenerated from source + monitors incl. real timeout", "design": "DESIGN.md 5 C11",
}

NOT_YET = "not built yet in this round (work in progress; the design claims it, see DESIGN.md 5)"


def main():
    props = [json.loads(l) for l in open(os.path.join(ROOT, "properties.jsonl"))]
    hooks = subprocess.run(["git", "-C", "/repo", "log", "--format=%H %s"], stdout=subprocess.PIPE, text=True).stdout.strip().split("\n")
    hook_commits = [l.split()[0] for l in hooks if "verif hooks" in l]
    m = {
        "version": 1,
        "setup_cmd": "cd /verif && python3 -m vlib.setup",
        "hooks": {"guard": "verif", "enable": "go build -tags verif (harness module with replace github.com/weedbox/pokertable => /repo)",
                  "baseline_off_cmd": "cd /repo && GOFLAGS=-mod=mod GOPROXY=off GOSUMDB=off go test -vet=off -count=1 -timeout 25m ./...",
                  "source_commits": hook_commits, "add_only": True},
        "engines": [
            {"name": "rocq-model", "path": "coq/", "serves_properties": sorted(CHECKS), "kind_free_text": "Coq 8.16.1 development: executable model, decidable specifications, theorems; vm_compute correspondence against Go traces"},
            {"name": "translator", "path": "translator/", "serves_properties": ["C01", "C02", "C04", "C06", "C10", "C11", "C13", "C14", "C15", "C17"], "kind_free_text": "go/ast translator regenerating coq/Gen/*.v from /repo on every run"},
            {"name": "harness", "path": "harness/", "serves_properties": sorted(CHECKS), "kind_free_text": "Go drivers (-tags verif) running the real packages and printing traces as Gallina terms"}],
        "checks": [], "not_applicable": [], "notes": "see DESIGN.md; known findings in known_findings.json",
    }
    for p in props:
        pid = p["id"]
        if pid in CHECKS:
            c = CHECKS[pid]
            m["checks"].append({
                "property_id": pid, "quick_cmd": "./check %s --tier quick" % pid, "thorough_cmd": "./check %s --tier thorough" % pid,
                "evidence_file": "evidence/%s.json" % pid, "replay_cmd_template": "./check %s --replay {path}" % pid,
                "engine": "rocq-model",
                "level_claimed": {"category": "proof", "text": c["text"], "design_ref": c["design"]},
                "level_note": c["note"], "technique": c["technique"]})
        else:
            m["not_applicable"].append({"property_id": pid, "reason": NOT_YET})
    json.dump(m, open(os.path.join(ROOT, "MANIFEST.json"), "w"), indent=1)


if __name__ == "__main__":
    main()

"""The decision procedure shared by the checks (DESIGN.md 2.4)."""
import concurrent.futures as cf
import glob
import json
import os
import shutil

from . import core

SHARD = 1200
CHUNK = {"sm": 2500, "c17": 8, "c09": 100, "hand": 6, "conc": 40, "actor": 3}


class HarnessCrash(RuntimeError):
    def __init__(self, out, text, cmd):
        RuntimeError.__init__(self, "harness crashed (full text in %s):\n%s" % (os.path.join(out, "harness_crash.txt"), text))
        self.out, self.text, self.cmd = out, text, cmd


def bisect_crash(hx, crash):
    """The harness process died (a Go panic inside an engine goroutine cannot be recovered): run every input of
    the shard in a process of its own to find the ones that kill it."""
    ipath = os.path.join(crash.out, "inputs.json")
    if not os.path.exists(ipath):
        return []
    inputs = json.load(open(ipath))
    culprits = []

    def one(k):
        d = os.path.join(crash.out, "bisect%d" % k)
        os.makedirs(d, exist_ok=True)
        f = os.path.join(d, "in.json")
        u = dict(inputs[k]) if isinstance(inputs[k], dict) else inputs[k]
        json.dump([u], open(f, "w"))
        # a death that depends on how goroutines interleave does not repeat on every run: each input gets a few runs
        for _ in range(4):
            p = core.run_hx([hx, "-replay", f, "-out", d])
            if p.returncode != 0:
                err = p.stderr or ""
                m = err.find("panic:")
                if m < 0:
                    m = err.find("fatal error:")
                return (inputs[k], err[max(m, 0): max(m, 0) + 1500])
        return None

    with cf.ThreadPoolExecutor(max_workers=8) as ex:
        for r in ex.map(one, range(len(inputs))):
            if r:
                culprits.append(r)
    return culprits


def _eval_shard(args):
    hx, corr, seed, n, out, replay, slow, mode = args
    os.makedirs(out, exist_ok=True)
    cmd = [hx, "-seed", seed, "-n", n, "-out", out, "-slow", slow, "-chunk", CHUNK.get(hx, 1500)]
    if replay:
        cmd += ["-replay", replay]
    if mode:
        cmd += ["-mode", mode]
    p = core.run_hx(cmd)
    if p.returncode != 0:
        # a crash that does not repeat on the same inputs is a timing accident of the harness or of the
        # engine's background goroutines; it is kept on disk and the shard is run once more
        os.makedirs(out, exist_ok=True)
        open(os.path.join(out, "harness_crash_first.txt"), "w").write(p.stderr or "")
        p = core.run_hx(cmd)
    if p.returncode != 0:
        os.makedirs(out, exist_ok=True)
        open(os.path.join(out, "harness_crash.txt"), "w").write(p.stderr or "")
        err = p.stderr or ""
        m = err.find("panic:")
        f = err.find("fatal error:")
        k = min([x for x in (m, f) if x >= 0], default=0)
        raise HarnessCrash(out, err[k:k + 2500], cmd)
    cases, bad, wall = [], [], 0.0
    files = sorted(glob.glob(os.path.join(out, "cases_*.v")))
    with cf.ThreadPoolExecutor(max_workers=6) as ex:
        for f, (b, w) in zip(files, ex.map(core.coq_eval_cases, files)):
            cs = json.load(open(f[:-2] + ".json")) or []    # (a harness that produced no case writes null)
            for c in cs:
                if isinstance(c, dict):
                    c["_dir"] = out
            off = len(cases)
            cases += cs
            bad += [(i + off, code, step) for (i, code, step) in b]
            wall += w
    return cases, bad, p.wall, wall


def explore(res, hx, corr, n, seed, tag, replay=None, slow=1, mode=None, shard=None):
    """Run n generated histories (or the histories of a replay file) on the implementation
    and through the Coq side; returns (cases, [(case_obj, code, step)])."""
    base = os.path.join(core.WORK, "%s-%s-%s" % (res.prop, res.tier, tag))
    shutil.rmtree(base, ignore_errors=True)
    jobs = []
    if replay:
        jobs.append((hx, corr, seed, 0, os.path.join(base, "r"), replay, slow, mode))
    elif n == 0:
        jobs.append((hx, corr, seed, 0, os.path.join(base, "all"), None, slow, mode))
    else:
        k = 0
        left = n
        while left > 0:
            m = min(shard or SHARD, left)
            jobs.append((hx, corr, seed * 100003 + k, m, os.path.join(base, "s%d" % k), None, slow, mode))
            left -= m
            k += 1
    all_cases, all_bad = [], []
    hx_wall = coq_wall = 0.0
    with cf.ThreadPoolExecutor(max_workers=12) as ex:
        for cases, bad, hw, cw in ex.map(_eval_shard, jobs):
            off = len(all_cases)
            for c in cases:
                c["_seed_shard"] = off
            all_cases += cases
            all_bad += [(cases[i], code, step) for (i, code, step) in bad]
            hx_wall += hw
            coq_wall += cw
    res.coverage["harness_wall_s"] = round(res.coverage.get("harness_wall_s", 0) + hx_wall, 1)
    res.coverage["coq_eval_wall_s"] = round(res.coverage.get("coq_eval_wall_s", 0) + coq_wall, 1)
    return all_cases, all_bad


def strip(case):
    c = {k: v for k, v in case.items() if not k.startswith("_")}
    return c


def confirm(res, hx, corr, suspects, mode=None, unit=None):
    """Re-run suspect histories 5x slower; only what reproduces is believed (timing-sensitive harnesses).
    unit(case) gives the replayable object (default: the case itself without its observations)."""
    if not suspects:
        return []
    uniq = {}
    for c, code, step in suspects:
        if len(uniq) >= 24:          # a handful is enough: at most five violations are reported
            break
        if unit:
            u = unit(c)
            if u is None:
                continue
        else:
            u = strip(c)
            u.pop("trace", None)
        uniq.setdefault(json.dumps(u, sort_keys=True), u)
    path = os.path.join(core.WORK, "%s-%s-confirm.json" % (res.prop, res.tier))
    json.dump(list(uniq.values()), open(path, "w"))
    cases, bad = explore(res, hx, corr, 0, res.seed, "confirm", replay=path, slow=5, mode=mode)
    if not bad or hx == "conc":
        return bad      # (bursts: what the scheduler did once it need not do again; one reproduction is what there is)
    # what is still there is looked at once more, much more slowly: a machine that is busy with other work stretches every
    # settling time, and a finding must not depend on that
    again = {}
    for c, code, step in bad:
        u = unit(c) if unit else strip(c)
        if u is None:
            continue
        if not unit:
            u.pop("trace", None)
        again.setdefault(json.dumps(u, sort_keys=True), u)
    path2 = os.path.join(core.WORK, "%s-%s-confirm2.json" % (res.prop, res.tier))
    json.dump(list(again.values()), open(path2, "w"))
    cases2, bad2 = explore(res, hx, corr, 0, res.seed, "confirm2", replay=path2, slow=20, mode=mode)
    return bad2


def standard_flow(res, hx, corr, n, signature, describe, rule, nontrivial, key, stats, assumptions,
                  replay=None, mode=None, gen_obligations=None, level="proof", extra=None, shard=None, plans=None,
                  relevant=None, deterministic=False, unit=None):
    import inspect
    _sig3 = len(inspect.signature(signature).parameters) >= 3

    def sig(c, step, code):
        # a signature function may want to know which monitor fired: signature(case, step, code)
        return signature(c, step, code) if _sig3 else signature(c, step)
    builds = core.build_all()
    broken = []          # names of proof obligations / ties that no longer check
    if not builds["translator"]["ok"]:
        broken.append("translator: " + builds["translator"]["msg"][:400])
    bad_tokens = core.scan_forbidden()
    if bad_tokens:
        broken.append("forbidden declarations: " + ", ".join(bad_tokens[:5]))
    if not builds["harness"]["ok"]:
        raise RuntimeError("harness does not build against the current /repo:\n" + builds["harness"]["log"])
    props = core.check_props(res.prop)
    if not props["ok"]:
        broken.append("theorem %s in %s no longer checks" % (props.get("failed_theorem"), props["file"]))
    elif not builds["coq"]["ok"]:
        # some other file of the development is broken; this property's closure compiled
        res.notes.append("other parts of the development fail to build: " + ", ".join(builds["coq"]["failed"][:5]))
    extra_obl = []
    if gen_obligations:
        extra_obl = gen_obligations(builds)
        for name, ok in extra_obl:
            if not ok:
                broken.append("generated obligation " + name)
    core.proof_coverage(res, builds, props, extra_obl)
    res.assumptions += assumptions

    model_ok = props["ok"] or os.path.exists(os.path.join(core.COQ, "Corr", corr + ".vo"))
    cases, bad = [], []
    crashes = []
    _explore = explore

    def explore_safe(*a, **k):
        try:
            return _explore(*a, **k)
        except HarnessCrash as hc:
            found = bisect_crash(hx, hc)
            crashes.append((hc, found))
            return [], []
    corpus = sorted(glob.glob(os.path.join(core.ROOT, "corpus", res.prop, "*.json")))
    if replay:
        corpus = [replay]
    if model_ok:
        for cp in corpus:
            c1, b1 = explore_safe(res, hx, corr, 0, res.seed, "corpus", replay=cp, mode=mode)
            cases += c1
            bad += b1
        if not replay and plans:
            # several explorations: (tag, mode, n, shard, fixed_seed or None)
            for tag, pmode, pn, pshard, pseed in plans:
                c1, b1 = explore_safe(res, hx, corr, pn, res.seed if pseed is None else pseed, tag, mode=pmode, shard=pshard)
                for c in c1:
                    c["_plan"] = tag
                cases += c1
                bad += b1
        elif not replay and n > 0:
            c1, b1 = explore_safe(res, hx, corr, n, res.seed, "gen", mode=mode, shard=shard)
            cases += c1
            bad += b1
    else:
        broken.append("the Coq side of the correspondence (Corr/%s.v) does not build" % corr)

    if relevant:
        bad = [(c, code, step) for (c, code, step) in bad if relevant(c, code, step)]
    suspects = [(c, code, step) for (c, code, step) in bad if code >= 2]
    # what falls under a listed finding's signature is reported as that finding; it needs no slow re-run
    # ... unless the implementation also departs from the model on that history: a listed finding describes what the unchanged
    # code does, and the model reproduces that; a history on which the two differ shows something else
    known_sigs = {f["signature"] for f in core.known_findings(res.prop) if f.get("signature")}
    differing = {key(c) for (c, code, step) in suspects if code == 2}

    def is_listed(c, code, step):
        return code >= 3 and sig(c, step, code) in known_sigs and key(c) not in differing
    listed = [x for x in suspects if is_listed(*x)]
    suspects = [x for x in suspects if not is_listed(*x)]
    if deterministic:
        confirmed = suspects          # nothing timing-dependent in this harness: a re-run would repeat the same steps
    else:
        confirmed = confirm(res, hx, corr, suspects, mode=mode, unit=unit) if suspects else []
    confirmed = listed + confirmed
    if relevant:
        confirmed = [(c, code, step) for (c, code, step) in confirmed if relevant(c, code, step)]
    flaky = len(suspects) + len(listed) - len([1 for x in confirmed if x[1] >= 2])

    def triage(found):
        """returns (violations, correspondence_breaks)"""
        vio, corr_breaks = [], []
        differs = differing | {key(c) for (c, code, step) in found if code == 2}
        for c, code, step in found:
            if code >= 3:
                sg = sig(c, step, code)
                kf = [f for f in core.known_findings(res.prop) if f.get("signature") == sg] if sg else []
                if kf and key(c) not in differs:
                    line = "%s (%s)" % (kf[0]["what"], kf[0]["id"])
                    if line not in res.known:
                        res.known.append(line)
                else:
                    vio.append((c, code, step))
            elif code == 2:
                corr_breaks.append((c, code, step))
        return vio, corr_breaks

    vio, corr_breaks = triage(confirmed)
    # a history whose model/implementation difference falls under a listed finding's signature
    corr_breaks = [(c, code, step) for (c, code, step) in corr_breaks
                   if not (sig(c, step, code) and any(f.get("signature") == sig(c, step, code) for f in core.known_findings(res.prop)))]

    if (broken or corr_breaks) and not vio and not replay and model_ok:
        # intensified search for a concrete failing history (DESIGN 6.2)
        res.notes.append("intensified search after: " + "; ".join(broken + ["%d correspondence differences" % len(corr_breaks)]))
        for extra_seed in range(1, 4):
            sn, smode, sshard = n * 2, mode, shard
            if plans:
                rp = [p for p in plans if p[2] > 0]
                if not rp:
                    break
                sn, smode, sshard = rp[0][2] * 2, rp[0][1], rp[0][3]
            c2, b2 = explore(res, hx, corr, sn, res.seed + 7919 * extra_seed, "search%d" % extra_seed, mode=smode, shard=sshard)
            cases += c2
            s2 = [(c, code, step) for (c, code, step) in b2 if code >= 3 and (not relevant or relevant(c, code, step))]
            if s2:
                v2, _ = triage(s2 if deterministic else confirm(res, hx, corr, s2, mode=mode, unit=unit))
                if v2:
                    vio = v2
                    break

    for hc, found in crashes:
        if found:
            for inp, text in found[:3]:
                res.violation("the implementation panics on this input (the process dies: a panic inside an engine goroutine)",
                              {"replay_case": inp, "panic": text})
        else:
            res.violation("the harness process died and no single input reproduces it", {"crash": hc.text}, no_input=True)
    seen = set()
    for c, code, step in vio:
        k = (key(c), step)
        if k in seen:
            continue
        seen.add(k)
        if len(seen) > 5:
            break
        d = describe(c, step, code)
        d["replay_case"] = strip(c)
        res.violation("specification monitor fails on an implementation history", d)
    if not vio and (broken or corr_breaks):
        d = {"broken": broken, "replay_note": "no failing input found; the listed theorem / correspondence no longer checks"}
        if corr_breaks:
            c, code, step = corr_breaks[0]
            d["correspondence"] = "Corr/%s.v: model and implementation differ" % corr
            d["first_difference"] = describe(c, step, code)
            d["replay_case"] = strip(c)
        res.violation("; ".join(broken) or "model and implementation differ", d, no_input=True)

    keys = set()
    nontriv = set()
    for c in cases:
        k = key(c)
        keys.add(k)
        if nontrivial(c):
            nontriv.add(k)
    res.coverage.update({
        "evaluations": len(cases), "distinct_nontrivial": len(nontriv), "distinct": len(keys), "rule": rule,
        "traces_validated_against_impl": len(cases),
        "outside_theorem_guard": len({key(c) for (c, code, step) in bad if code == 1}),
        "timing_flakes_not_reproduced": max(0, flaky),
        "correspondence_differences": len(corr_breaks),
        "input_distribution": stats(cases) if cases else {},
        "samples": [strip(c) for c in cases[:2]],
    })
    if extra:
        extra(res, cases)
    return res.finish(level)

"""Shared machinery of the checks: builds (translator, Coq, Go harness), running the
harness and the Coq side of the correspondence, verdicts, evidence, known findings."""
import fcntl
import glob
import hashlib
import json
import os
import re
import shutil
import subprocess
import sys
import time

ROOT = os.path.dirname(os.path.dirname(os.path.abspath(__file__)))
REPO = os.environ.get("VERIF_REPO", "/repo")
COQ = os.path.join(ROOT, "coq")
WORK = os.path.join(ROOT, ".work")
BIN = os.path.join(WORK, "bin")
EVID = os.path.join(ROOT, "evidence")
REPLAYS = os.path.join(ROOT, "replays")
GO_ENV = dict(os.environ, GOFLAGS="-mod=mod", GOPROXY="off", GOSUMDB="off", GOTOOLCHAIN="local",
              CGO_ENABLED=os.environ.get("CGO_ENABLED", "0"))
TAG = "verif"

FORBIDDEN = re.compile(r"\b(Admitted|admit|Axiom|Axioms|Parameter|Parameters|Conjecture|Hypothesis|Variable|Variables)\b"
                       r"|Unset\s+Guard|bypass_check|Admit\s+Obligations|-type-in-type|-impredicative-set")


def log(*a):
    print(*a, file=sys.stderr, flush=True)


def sh(cmd, cwd=None, env=None, timeout=1200, check=False, stdin=None):
    t0 = time.time()
    p = subprocess.run(cmd, cwd=cwd, env=env, timeout=timeout, stdout=subprocess.PIPE, stderr=subprocess.PIPE,
                       text=True, input=stdin)
    if check and p.returncode != 0:
        raise RuntimeError("command failed (%d): %s\n%s\n%s" % (p.returncode, cmd, p.stdout[-4000:], p.stderr[-4000:]))
    p.wall = time.time() - t0
    return p


class Lock:
    def __init__(self, name):
        os.makedirs(WORK, exist_ok=True)
        self.path = os.path.join(WORK, name + ".lock")

    def __enter__(self):
        self.f = open(self.path, "w")
        fcntl.flock(self.f, fcntl.LOCK_EX)
        return self

    def __exit__(self, *a):
        fcntl.flock(self.f, fcntl.LOCK_UN)
        self.f.close()


# ---------------------------------------------------------------- builds

def coq_sources():
    out = []
    for d in ("Base", "Gen", "Model", "Spec", "Proofs", "Props", "Corr"):
        out += sorted(glob.glob(os.path.join(COQ, d, "*.v")))
    return [os.path.relpath(p, COQ) for p in out]


def scan_forbidden():
    """No axioms, admits or disabled checks anywhere in the development."""
    bad = []
    for rel in coq_sources():
        txt = open(os.path.join(COQ, rel)).read()
        txt = re.sub(r"\(\*.*?\*\)", "", txt, flags=re.S)
        for m in FORBIDDEN.finditer(txt):
            # Section-local Variable/Hypothesis are allowed: only inside Section ... End
            word = m.group(0)
            if word.split()[0] in ("Variable", "Variables", "Hypothesis"):
                before = txt[:m.start()]
                if len(re.findall(r"^\s*Section\s", before, flags=re.M)) > len(re.findall(r"^\s*End\s", before, flags=re.M)):
                    continue
            bad.append("%s: %s" % (rel, word))
    return bad


def run_translator():
    """Regenerate coq/Gen/*.v from the current /repo sources.  Files are replaced only when
    their content changes, so an unchanged repository costs no Coq rebuild."""
    tdir = os.path.join(ROOT, "translator")
    if not os.path.exists(os.path.join(tdir, "main.go")):
        return {"ok": True, "changed": [], "msg": "no translator yet"}
    os.makedirs(BIN, exist_ok=True)
    tbin = os.path.join(BIN, "translator")
    p = sh(["go", "build", "-o", tbin, "."], cwd=tdir, env=GO_ENV)
    if p.returncode != 0:
        return {"ok": False, "changed": [], "msg": "translator does not build: " + p.stderr[-2000:]}
    tmp = os.path.join(WORK, "gen.tmp")
    shutil.rmtree(tmp, ignore_errors=True)
    os.makedirs(tmp)
    p = sh([tbin, "-repo", REPO, "-out", tmp], env=GO_ENV)
    if p.returncode != 0:
        return {"ok": False, "changed": [], "msg": "translator failed on the current sources: " + (p.stderr or p.stdout)[-3000:]}
    changed = []
    gdir = os.path.join(COQ, "Gen")
    os.makedirs(gdir, exist_ok=True)
    for f in sorted(os.listdir(tmp)):
        new = open(os.path.join(tmp, f)).read()
        dst = os.path.join(gdir, f)
        old = open(dst).read() if os.path.exists(dst) else None
        if new != old:
            open(dst, "w").write(new)
            changed.append(f)
    return {"ok": True, "changed": changed, "msg": p.stderr[-2000:]}


def coq_make(targets=None):
    """Full .vo build of the development (never -vos/-vok)."""
    srcs = coq_sources()
    proj = "-Q . PT\n-arg -w -arg -deprecated-hint-without-locality,-deprecated-instance-without-locality,-notation-overridden\n" + "\n".join(srcs) + "\n"
    pf = os.path.join(COQ, "_CoqProject")
    if not os.path.exists(pf) or open(pf).read() != proj:
        open(pf, "w").write(proj)
        sh(["coq_makefile", "-f", "_CoqProject", "-o", "Makefile.coq"], cwd=COQ, check=True)
    if not os.path.exists(os.path.join(COQ, "Makefile.coq")):
        sh(["coq_makefile", "-f", "_CoqProject", "-o", "Makefile.coq"], cwd=COQ, check=True)
    cmd = ["timeout", "1500", "make", "-f", "Makefile.coq", "-j16", "-k"]
    if targets:
        cmd += targets
    p = sh(cmd, cwd=COQ, timeout=1600)
    failed = []
    if p.returncode != 0:
        for m in re.finditer(r'File "\./([^"]+)", line (\d+)', p.stderr + p.stdout):
            failed.append("%s:%s" % (m.group(1), m.group(2)))
    return {"ok": p.returncode == 0, "failed": sorted(set(failed)), "log": (p.stdout + p.stderr)[-6000:], "wall": p.wall}


def build_harness():
    hb = os.path.join(WORK, "hbuild")
    os.makedirs(hb, exist_ok=True)
    os.makedirs(BIN, exist_ok=True)
    src = os.path.join(ROOT, "harness")
    keep = set()
    for f in os.listdir(src):
        if f.endswith(".go"):
            keep.add(f)
            s = open(os.path.join(src, f)).read()
            d = os.path.join(hb, f)
            if not os.path.exists(d) or open(d).read() != s:
                open(d, "w").write(s)
    for f in os.listdir(hb):
        if f.endswith(".go") and f not in keep:
            os.remove(os.path.join(hb, f))
    gm = open(os.path.join(src, "go.mod.tmpl")).read().replace("/repo", REPO)
    if not os.path.exists(os.path.join(hb, "go.mod")) or "replace" not in open(os.path.join(hb, "go.mod")).read():
        open(os.path.join(hb, "go.mod"), "w").write(gm)
    shutil.copy(os.path.join(REPO, "go.sum"), os.path.join(hb, "go.sum"))
    p = sh(["go", "build", "-tags", TAG, "-o", os.path.join(BIN, "hx"), "."], cwd=hb, env=GO_ENV, timeout=600)
    return {"ok": p.returncode == 0, "log": (p.stdout + p.stderr)[-6000:], "wall": p.wall}


def build_all():
    """Translator -> Coq -> harness, serialised across concurrently started checks."""
    with Lock("build"):
        t = run_translator()
        m = coq_make() if t["ok"] else {"ok": False, "failed": [], "log": "skipped: translation failed", "wall": 0}
        h = build_harness()
    return {"translator": t, "coq": m, "harness": h}


# ---------------------------------------------------------------- proof obligations

def check_props(prop):
    """Compile Props/<prop>.v, capturing what Print Assumptions says for each theorem."""
    rel = "Props/%s.v" % prop
    src = open(os.path.join(COQ, rel)).read()
    names = re.findall(r"^\s*(?:Theorem|Example|Corollary)\s+(\w+)", src, flags=re.M)
    with Lock("props-" + prop):
        p = sh(["timeout", "600", "coqc", "-Q", ".", "PT", rel], cwd=COQ, timeout=700)
    out = p.stdout
    assumptions = []
    closed = out.count("Closed under the global context")
    axioms = re.findall(r"^Axioms:\n((?:.+\n)+)", out, flags=re.M)
    res = {"file": rel, "theorems": names, "ok": p.returncode == 0, "closed": closed,
           "axioms": [a.strip() for a in axioms], "log": (p.stdout + p.stderr)[-3000:]}
    if p.returncode != 0:
        m = re.search(r'line (\d+)', p.stderr)
        line = int(m.group(1)) if m else 0
        # which theorem encloses the failing line
        cur = None
        for i, l in enumerate(src.split("\n"), 1):
            mm = re.match(r"\s*(?:Theorem|Example|Corollary)\s+(\w+)", l)
            if mm:
                cur = mm.group(1)
            if i >= line:
                break
        res["failed_theorem"] = cur
    return res


# ---------------------------------------------------------------- harness + Coq side

def run_hx(args, timeout=1800):
    p = sh([os.path.join(BIN, "hx")] + [str(a) for a in args], env=GO_ENV, timeout=timeout)
    return p


PAIR = re.compile(r"\((\d+),\s*\((\d+),\s*(\d+)\)\)")


def coq_eval_cases(cases_v, timeout=900):
    """coqc the generated case file (vm_compute inside); returns [(case, code, step)]."""
    d = os.path.dirname(cases_v)
    p = sh(["timeout", str(timeout), "coqc", "-noglob", "-Q", COQ, "PT", os.path.basename(cases_v)], cwd=d, timeout=timeout + 30)
    if p.returncode != 0:
        raise RuntimeError("coqc failed on %s:\n%s" % (cases_v, (p.stdout + p.stderr)[-3000:]))
    txt = re.sub(r"\s+", "", p.stdout).replace("%nat", "")
    m = re.search(r"M=\[(.*?)\]:list\(nat\*\(nat\*nat\)\)", txt)
    if not m:
        raise RuntimeError("unexpected coqc output for %s: %s" % (cases_v, p.stdout[-1500:]))
    body = m.group(1)
    out = []
    if body:
        for item in body.split(";"):
            mm = re.fullmatch(r"\((\d+),\((\d+),(\d+)\)\)", item)
            if not mm:
                raise RuntimeError("unparsable result item %r in %s" % (item, cases_v))
            out.append((int(mm.group(1)), int(mm.group(2)), int(mm.group(3))))
    return out, p.wall


# ---------------------------------------------------------------- known findings

def known_findings(prop):
    path = os.path.join(ROOT, "known_findings.json")
    if not os.path.exists(path):
        return []
    return [f for f in json.load(open(path)) if f.get("property") == prop and f.get("status") == "open"]


# ---------------------------------------------------------------- evidence / verdict

class Result:
    def __init__(self, prop, tier, seed):
        self.prop, self.tier, self.seed = prop, tier, seed
        self.t0 = time.time()
        self.violations = []      # dicts: {what, replay, no_input}
        self.known = []           # strings
        self.coverage = {}
        self.assumptions = []
        self.notes = []

    def violation(self, what, replay_obj, no_input=False):
        os.makedirs(REPLAYS, exist_ok=True)
        n = len(self.violations)
        path = os.path.join(REPLAYS, "%s_%s_%d_%d.json" % (self.prop, self.tier, self.seed, n))
        replay_obj = dict(replay_obj)
        replay_obj.setdefault("property", self.prop)
        replay_obj["what"] = what
        json.dump(replay_obj, open(path, "w"), indent=1)
        # one line of explanation travels with the VIOLATION line (the replay file may not be at hand where the output is read)
        why = what
        for k in ("failing_clause", "panic", "correspondence"):
            if replay_obj.get(k):
                why += " | %s: %s" % (k, str(replay_obj[k]).replace("\n", " ")[:300])
        if replay_obj.get("broken"):
            why += " | " + "; ".join(replay_obj["broken"])[:300]
        self.violations.append({"what": what, "replay": path, "no_input": no_input, "why": why})

    def finish(self, level="proof"):
        os.makedirs(EVID, exist_ok=True)
        ev = {
            "property_id": self.prop, "tier": self.tier, "seed": self.seed, "level": level,
            "coverage": self.coverage, "assumptions": self.assumptions,
            "wall_s": round(time.time() - self.t0, 2), "violations": len(self.violations),
        }
        if self.notes:
            ev["coverage"]["notes"] = self.notes
        if self.known:
            ev["coverage"]["known_findings_reproduced"] = self.known
        json.dump(ev, open(os.path.join(EVID, "%s.json" % self.prop), "w"), indent=1)
        for k in self.known:
            print("KNOWN-FINDING: property=%s %s" % (self.prop, k))
        for v in self.violations:
            tail = " no-failing-input-found" if v["no_input"] else ""
            print("VIOLATION property=%s replay=%s%s" % (self.prop, v["replay"], tail))
            print("  (reason: %s)" % v.get("why", v["what"]))
        sys.stdout.flush()
        return 1 if self.violations else 0


def proof_coverage(res, builds, props, extra_obligations=None):
    """Fill the proof-level evidence keys from what was actually built on this run."""
    obl = list(props["theorems"])
    dis = list(props["theorems"]) if props["ok"] else []
    for name, ok in (extra_obligations or []):
        obl.append(name)
        if ok:
            dis.append(name)
    tb = ["Coq 8.16.1 kernel; vm_compute (witnesses, finite checks, model runs of the correspondence); no native_compute",
          "Print Assumptions: %d of %d statements 'Closed under the global context'" % (props["closed"], len(re.findall(r"Print Assumptions", open(os.path.join(COQ, props["file"])).read())))]
    for a in props["axioms"]:
        tb.append("axiom reported by Print Assumptions: " + a)
    tb.append("hand-written model in coq/Model tied to /repo by the correspondence run of this check (harness/*.go, -tags verif)")
    if len(dis) == 0:
        # nothing checks any more: the schema's proof keys require discharged >= 1, so report the
        # numbers under other names and let the exploration-style counts describe this run
        res.coverage.update({"obligations_total": len(obl), "obligations_discharged": 0, "obligation_names": obl})
        return False
    res.coverage.update({
        "obligations": len(obl), "discharged": len(dis),
        "obligation_names": obl,
        "checker_cmd": "coq_makefile -f _CoqProject -o Makefile.coq && make -f Makefile.coq -j16 (full .vo) ; coqc -Q . PT %s" % props["file"],
        "trusted_base": tb,
    })
    return len(obl) == len(dis)

"""C12 - a hand is played at the blinds in force when it opened."""
from .lifebase import run_life, replay_life

CL = {1: "the level published for the hand / the options given to the hand engine / the blinds the hand charges differ from the level in force when it opened",
      2: "the running hand's level or charges changed"}


def run(res, replay=None):
    return run_life(res, 5, CL, replay=replay)


def replay(res, path):
    return replay_life(res, path, run)

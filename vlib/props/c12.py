"""C12 - a hand is played at the blinds in force when it opened."""
from .lifebase import run_life, replay_life, NH

CL = {1: "the level published for the hand / the options given to the hand engine / the blinds the hand charges differ from the level in force when it opened",
      2: "the running hand's level or charges changed",
      3: "the level in force after UpdateBlind is not the level announced",
      9: "the status right after CreateTable is not the model's (a table created on a break starts paused; an MTT table handed its players starts balancing)"}


def run(res, replay=None):
    q = res.tier == "quick"
    plans = [("gen", None, NH[res.tier], 10 if q else 100, None), ("late", "late_level", 12 if q else 150, 6 if q else 50, None), ("create", "create", 18 if q else 54, 18, None)]
    return run_life(res, 5, CL, replay=replay, plans=plans)


def replay(res, path):
    return replay_life(res, path, run)

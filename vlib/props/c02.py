"""C02 - a hand's seat numbers denote the same players from open to settlement."""
from .openbase import run_open, replay_open

CL = {1: "the hand's player list names a player twice", 2: "the list contains somebody who is not dealt in",
      3: "a dealt-in player is missing from the list", 4: "the list is not in clockwise seat order",
      5: "the first entry is not the dealer-seat player (or, with a dead button, the nearest dealt-in player before the small blind)",
      6: "the stack handed to the hand engine is not that player's bankroll at open"}


def signature(case, step):
    if step == 4 and case.get("rule") == "short_deck":
        return "c02_sig_short_deck_join_order"
    return None


def run(res, replay=None):
    return run_open(res, (2, 3), signature, CL, replay=replay)


def replay(res, path):
    return replay_open(res, path, run)

"""C02 - a hand's seat numbers denote the same players from open to settlement."""
from .openbase import run_open, replay_open

CL = {1: "the hand's player list names a player twice", 2: "the list contains somebody who is not dealt in",
      3: "a dealt-in player is missing from the list", 4: "the list is not in clockwise seat order",
      5: "the first entry is not the dealer-seat player (or, with a dead button, the nearest dealt-in player before the small blind)",
      6: "the stack handed to the hand engine is not that player's bankroll at open"}


def signature(case, step):
    if step == 4 and case.get("rule") == "short_deck":
        return "c02_sig_short_deck_join_order"
    return None


def stability(res, cases):
    """the list stays fixed while the hand runs: hands of the in-hand harness during which a bystander (seated, never joined)
    leaves the table; the hand's entries must denote the same players before and after (Hand_spec.entries_stable)"""
    from ..flow import explore, confirm
    from .handbase import unit as hunit
    n = 50 if res.tier == "quick" else 1000
    c1, b1 = explore(res, "hand", "Hand_run", n, res.seed + 17, "stab", shard=12 if res.tier == "quick" else 120)
    bad = [(c, code, step) for (c, code, step) in b1 if code == 9]
    # a DEALT-IN player leaving mid-hand is the recorded finding F9; anything else (a bystander leaving, no departure at all) is not
    from .. import core
    f9 = [f for f in core.known_findings("C02") if f.get("signature") == "c02_sig_participant_left_mid_hand"]

    def is_f9(c, step):
        st = c.get("steps") or []
        return step < len(st) and st[step]["call"]["action"] == "leave" and st[step]["call"]["why"] == "participant"
    if f9 and any(is_f9(c, step) for (c, code, step) in bad):
        line = "%s (%s)" % (f9[0]["what"], f9[0]["id"])
        if line not in res.known:
            res.known.append(line)
    if f9:
        bad = [(c, code, step) for (c, code, step) in bad if not is_f9(c, step)]
    if bad:
        bad = [(c, code, step) for (c, code, step) in confirm(res, "hand", "Hand_run", bad, unit=hunit) if code == 9]
    leaves = sum(1 for c in c1 for s in c.get("steps") or [] if s["call"]["action"] == "leave")
    res.coverage["stability_histories"] = len(c1)
    res.coverage["bystander_departures_mid_hand"] = leaves
    for c, code, step in bad[:3]:
        steps = c.get("steps") or []
        res.violation("the hand's entries no longer denote the same players after a bystander left mid-hand",
                      {"replay_kind": "hand", "replay_case": hunit(c), "failing_step": step, "steps_up_to_failure": steps[max(0, step - 1): step + 1]})


def run(res, replay=None):
    return run_open(res, (2, 3), signature, CL, replay=replay, extra=None if replay else stability,
                    extra_assumptions=["stability while a hand runs is exercised for departures of players who are NOT dealt in; a dealt-in player leaving "
                                       "mid-hand is not explored (DESIGN.md 9)"])


def replay(res, path):
    import json
    data = json.load(open(path))
    if data.get("replay_kind") == "hand":
        from ..flow import explore
        tmp = path + ".case.json"
        json.dump([data["replay_case"]], open(tmp, "w"))
        from ..flow import standard_flow  # noqa: F401
        from .. import core
        core.build_all()
        c1, b1 = explore(res, "hand", "Hand_run", 0, res.seed, "replay", replay=tmp)
        for c, code, step in b1:
            if code == 9:
                res.violation("the hand's entries no longer denote the same players after a bystander left mid-hand", {"replay_kind": "hand", "replay_case": data["replay_case"], "failing_step": step})
        res.coverage.update({"evaluations": len(c1), "distinct": len(c1), "distinct_nontrivial": len(c1), "rule": "replay of one in-hand history"})
        return res.finish("proof")
    return replay_open(res, path, run)

"""Shared by C02, C05, C06: the opened-hand harness (hx open / Corr/OH_run.v)."""
import json
import os

from ..flow import standard_flow

NH = {"quick": 140, "thorough": 4000}


def _history(case):
    try:
        for h in json.load(open(os.path.join(case["_dir"], "histories.json"))):
            if h["index"] == case["hist"]:
                return h
    except Exception:
        pass
    return None


def stats(cases):
    st = {"opens": len(cases), "rules": {}, "seat_counts": {}, "dealt_in": {}, "heads_up": 0, "dead_button": 0, "dead_small_blind": 0,
          "with_sitting_out_or_busted_between": 0, "with_waiting_newcomer": 0, "newcomer_dealt_in": 0, "max_missed": 0}
    st["next_bb_snapshots"] = sum(1 for c in cases if c.get("kind") == "next_bb")
    cases = [c for c in cases if c.get("kind") != "next_bb"]
    st["opens"] = len(cases)
    for c in cases:
        st["rules"][c["rule"]] = st["rules"].get(c["rule"], 0) + 1
        st["seat_counts"][c["max"]] = st["seat_counts"].get(c["max"], 0) + 1
        parts = [p for p in c["players"] if p["part"]]
        st["dealt_in"][len(parts)] = st["dealt_in"].get(len(parts), 0) + 1
        seats = {p["seat"] for p in parts}
        if len(parts) == 2:
            st["heads_up"] += 1
        if c["rule"] == "default":
            if c["dealer"] not in seats:
                st["dead_button"] += 1
            if c["sb"] not in seats and c["sb"] != c["dealer"]:
                st["dead_small_blind"] += 1
        if any(not p["part"] for p in c["players"]):
            st["with_sitting_out_or_busted_between"] += 1
        if any(p["waiting"] and not p["part"] for p in c["players"]):
            st["with_waiting_newcomer"] += 1
        if any(p["fresh"] and p["part"] for p in c["players"]):
            st["newcomer_dealt_in"] += 1
        st["max_missed"] = max([st["max_missed"]] + [p["missed"] for p in c["players"]])
    return st


def run_open(res, codes, signature, clause_names, replay=None, extra_assumptions=(), extra=None):
    def relevant(case, code, step):
        if case.get("kind") == "next_bb" and case.get("rule") != "default":
            return False
        return code in codes

    def describe(case, step, code):
        d = {"code": {2: "model-vs-implementation", 3: "C02 monitor", 4: "C05 monitor", 6: "C06 monitor", 7: "model-vs-implementation (next-BB order)"}.get(code, code),
             "history_index": case.get("hist"), "game_count": case.get("game_count"),
             "opened_hand": {k: case[k] for k in ("kind", "max", "rule", "seat_map", "players", "gpi", "dealer", "sb", "bb", "settings", "next_bb") if k in case}}
        if code != 2:
            d["failing_clause"] = clause_names.get(step, step)
        h = _history(case)
        if h:
            d["history"] = h
        return d

    return standard_flow(
        res, hx="open", corr="OH_run", n=0 if replay else NH[res.tier], shard=12 if res.tier == "quick" else 150, replay=replay,
        signature=signature, describe=describe, stats=stats, relevant=relevant, unit=_history,
        rule="opened hands of real tables (2..10 seats, default and short-deck) driven for 6..15 hands with explicit seat layouts, players "
             "who reserve without joining, busts, re-buys from zero, arrivals and departures between hands; one case per opened hand; "
             "distinct = distinct (seat layout, flags, button seats); non-trivial = dead button / dead small blind / sitting-out or waiting "
             "player present / heads-up",
        nontrivial=lambda c: c.get("kind") == "next_bb" or any(not p["part"] for p in c["players"]) or sum(1 for p in c["players"] if p["part"]) == 2
        or c["dealer"] not in {p["seat"] for p in c["players"] if p["part"]},
        key=lambda c: json.dumps([c.get("kind"), c["max"], c["rule"], c["seat_map"], [(p["seat"], p["in"], p["bankroll"] > 0, p["part"]) for p in c["players"]],
                                  c["dealer"], c["sb"], c["bb"]]),
        extra=extra,
        assumptions=["the seat manager's rotation itself is C04's subject: the model starts from the seat manager's state after it moved",
                     "newcomer / waiting / missed-hand bookkeeping of the monitor is computed by the harness from the history it drives"] + list(extra_assumptions))


def replay_open(res, path, run):
    data = json.load(open(path))
    hist = data.get("history")
    if hist is None:
        raise RuntimeError("replay file has no history")
    tmp = path + ".hist.json"
    json.dump([hist], open(tmp, "w"))
    return run(res, replay=tmp)

"""Shared by C10, C11, C13, C14, C15: the in-hand harness (hx hand / Corr/Hand_run.v)."""
import json

from ..flow import standard_flow

NH = {"quick": 70, "thorough": 1500}
INPUT = ("index", "seed", "max", "players", "ante", "dealer_blind", "sb", "bb", "action_time", "fault_pct", "auto_fault", "auto_at",
         "illegal_pct", "extend_pct", "hands", "first_dealer", "withhold", "started_backend", "late_extend_pct", "pause_pct", "withhold_at", "state_with_error", "bystander_leave_pct", "participant_leave_pct", "slow_listener_pct")
CODES = {2: "model-vs-implementation", 3: "C10 monitor", 4: "C13 monitor", 5: "C14 monitor", 6: "C15 monitor", 7: "C11 monitor"}
STATS_BASE = 5000


def unit(c):
    return {k: c[k] for k in INPUT if k in c}


def stats(cases):
    why, acts, be = {}, {}, {}
    acc = ref = failed = ext = closed = wedged = withheld = 0
    for c in cases:
        for s in c.get("steps") or []:
            w = s["call"]["why"]
            why[w] = why.get(w, 0) + 1
            a = s["call"]["action"]
            acts[a] = acts.get(a, 0) + 1
            if a == "extend":
                ext += 1
            elif w == "withheld":
                withheld += 1
            elif s["ok"]:
                acc += 1
            else:
                ref += 1
            for b in s.get("backend_calls") or []:
                be[b] = be.get(b, 0) + 1
                if b.endswith("!"):
                    failed += 1
            closed += 1 if s.get("hand_closed") else 0
            wedged += 1 if s.get("wedged") else 0
    return {"attempts_by_reason": why, "attempts_by_action": acts, "accepted": acc, "refused": ref, "deadline_extensions": ext,
            "withheld_answers_waited_out": withheld, "backend_calls": be, "backend_calls_failed": failed, "hands_settled": closed,
            "steps_not_quiescent_in_time": wedged, "histories_with_fault_free_twin": sum(1 for c in cases if c.get("twin")),
            "histories_ending_in_an_engine_step_fault": sum(1 for c in cases if c.get("note") == "auto-fault"),
            "players_per_table": sorted({c["players"] for c in cases})}


def run_hand(res, codes, clause_names, replay=None, signature=lambda c, s: None, plans=None, stats_model=False, decide_model=False,
             extra_assumptions=()):
    def relevant(case, c, step):
        if c == 2:
            return (stats_model and step >= STATS_BASE) or (decide_model and step < STATS_BASE)
        return c in codes

    def describe(case, step, c):
        if c == 9:
            idx = step
            what = "the hand's entries no longer denote the same players (C02 stability): actions are attributed to / accepted from the wrong player"
        elif c == 2:
            idx = step - STATS_BASE if step >= STATS_BASE else step
            what = "statistics after an accepted action differ from the model's interpretation of the regenerated update statements" if step >= STATS_BASE \
                else "accept/refuse verdict differs from the model (decide)"
        else:
            idx = step // 10
            what = CODES.get(c, c)
        steps = case.get("steps") or []
        d = {"code": what, "history_index": case["index"], "failing_step": idx, "config": unit(case)}
        if c not in (2, 9):
            d["failing_clause"] = clause_names.get((c, step % 10), step % 10)
        d["steps_up_to_failure"] = steps[max(0, idx - 2): idx + 1]
        return d

    n = 0 if replay else NH[res.tier]
    return standard_flow(
        res, hx="hand", corr="Hand_run", n=n, shard=12 if res.tier == "quick" else 120, replay=replay, plans=None if replay else plans,
        signature=signature, describe=describe, stats=stats, relevant=relevant, unit=unit,
        rule="real tables of 2..6 players (2..9 seats; ante / no-SB / dealer-blind structures, stacks from 1 chip, seeded decks) played action by "
             "action for 2..4 hands; before legal actions batches of illegal attempts (out of turn, kind not allowed, not dealt in, stranger, no "
             "hand); readiness and payments in random order with repeats; backend calls made to fail once..three times before the retry; engine "
             "steps (ReadyForAll/PayAnte/PayBlinds/Next) made to fail; deadline extensions; a fault-free twin run for faulted histories; every "
             "attempt is an observation (table before/after/at quiescence incl. full-JSON hashes, events, backend calls, clock); distinct = "
             "distinct sequences of (action, reason, result); non-trivial = a hand settled and a refusal or a failure observed",
        nontrivial=lambda c: any(s.get("hand_closed") for s in c.get("steps") or []) and any((not s["ok"]) for s in c.get("steps") or []),
        key=lambda c: json.dumps([(s["call"]["player"], s["call"]["action"], s["call"]["why"], s["ok"]) for s in c.get("steps") or []] + [c.get("started_backend", False)]),
        assumptions=["the hand engine's own verdict on a betting action and its state after it enter the model as observed oracle values "
                     "(pokerface v0.1.10 is outside this repository)",
                     "quiescence is detected from engine state through the verif hooks (hand ready group, queue of undelivered hand states)",
                     "GameContinueInterval = 0"] + list(extra_assumptions))


def replay_hand(res, path, run):
    data = json.load(open(path))
    rc = data["replay_case"]
    tmp = path + ".case.json"
    json.dump([unit(rc)], open(tmp, "w"))
    return run(res, replay=tmp)

"""C10 - only the player whose turn it is can act; refused actions leave no trace."""
from .handbase import run_hand, replay_hand

CL = {(3, 1): "a refused action changed the table, the hand, or produced an action event",
      (3, 2): "an action was accepted from a player the hand was not waiting on, or of a kind it did not allow",
      (3, 3): "an accepted action is not the table's last player action",
      (3, 4): "an accepted betting action / pass was not published as exactly one action event naming player, action, round and hand",
      (3, 5): "an accepted betting action / pass was not applied exactly once (backend calls of its kind != 1)",
      (3, 6): "an accepted readiness signal was not published as an action event",
      (3, 7): "an accepted payment was not published as an action event when the collection completed",
      (3, 8): "an API call panicked"}


def signature(case, step, code=3):
    steps = case.get("steps") or []
    if code == 9:
        if step < len(steps) and steps[step]["call"]["action"] == "leave" and steps[step]["call"]["why"] == "participant":
            return "c02_sig_participant_left_mid_hand"
        return None
    if code != 3:
        return None
    d, i = step % 10, step // 10
    if i >= len(steps):
        return None
    s = steps[i]
    if d == 6 and s["call"]["action"] == "ready":
        return "c10_sig_ready_not_published"
    if d == 7 and s["call"]["action"] == "pay":
        # the payer of a dealer blind who holds neither blind position
        for e in s["pre"]["entries"] or []:
            if e["id"] == s["call"]["player"] and "dealer" in e["pos"] and "sb" not in e["pos"] and "bb" not in e["pos"] \
                    and s["pre"]["event"] == "BlindsRequested":
                return "c10_sig_dealer_blind_pay_not_published"
    return None


def run(res, replay=None):
    return run_hand(res, (3, 9), CL, replay=replay, signature=signature, decide_model=True,
                    extra_assumptions=["concurrent submission of actions from many goroutines is C16's subject (engine lock); here attempts are sequential"])


def replay(res, path):
    return replay_hand(res, path, run)

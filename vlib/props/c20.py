"""C20 - observers never see hidden cards, and each actor gets its own copy."""
from .actorbase import run_actor, replay_actor

CL = {(5, 1): "a non-system observer was shown the deck, burned cards, hole cards or hand strength it must not see",
      (5, 3): "the engine's own table changed while actors were handed it",
      (5, 4): "what one actor hid or changed showed up in another actor's view",
      (2, 5): "the observer's view differs from the model's (AsObserver in playing / settled unless system mode)"}


def run(res, replay=None):
    return run_actor(res, (5,), CL, (5, 9), replay=replay,
                     extra_assumptions=["'no hidden card' is checked structurally: deck and burned empty; hole cards and combination absent for every player, except non-folded players once the hand is closed"])


def replay(res, path):
    return replay_actor(res, path, run)

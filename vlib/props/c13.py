"""C13 - a failing game backend never corrupts a hand."""
from .handbase import run_hand, replay_hand

CL = {(4, 1): "the backend failed while applying a player's action but the call did not return an error with table and hand unchanged",
      (4, 2): "a failure of a step the engine performs by itself did not reach the table's error callback",
      (4, 3): "the same action, submitted again after a backend failure, was refused",
      (4, 4): "final bankrolls differ from those of the same history without the injected failures"}


def run(res, replay=None):
    plans = [("gen", None, 70 if res.tier == "quick" else 1500, 12 if res.tier == "quick" else 120, None),
             ("faults", "faults", 40 if res.tier == "quick" else 1000, 10 if res.tier == "quick" else 100, None)]
    return run_hand(res, (4,), CL, replay=replay, plans=plans, decide_model=True,
                    extra_assumptions=["twin comparison needs the same first dealer (drawn by the seat manager from math/rand): the twin is re-run until it draws it"])


def replay(res, path):
    return replay_hand(res, path, run)

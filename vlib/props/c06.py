"""C06 - position labels and next-BB order agree with the button seats."""
from .openbase import run_open, replay_open

CL = {1: "labels clockwise from the big blind are not the standard order for the number of slots (dead button / dead small blind skipped)",
      2: "a player who is not dealt in carries a label", 4: "the published next-big-blind order is not the players with chips clockwise from the seat after the big blind", 3: "the hand engine did not receive the table's labels (up to the synthetic dealer on entry 0)",
      5: "a player's labels changed between the opened snapshot and a later snapshot of the same hand (playing / settled)"}


def run(res, replay=None):
    return run_open(res, (2, 6, 7), lambda c, s: None, CL, replay=replay)


def replay(res, path):
    return replay_open(res, path, run)

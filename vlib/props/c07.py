"""C07 - table status follows its life cycle; one hand at a time; hands are numbered."""
from .lifebase import run_life, replay_life, NH

CL = {1: "a status edge outside the life cycle", 2: "the hand count changed other than +1 on an opened hand",
      3: "a hand opened while another was unsettled", 4: "per-hand fields not reset between hands",
      5: "a hand opened after close/release, on a break level, or before blinds were set", 6: "a game id was reused", 8: "a notification published while the table stands by still carries a hand", 7: "the level in force after UpdateBlind is not the level announced"}


def run(res, replay=None):
    q = res.tier == "quick"
    # "late": the blinds are missing when the game starts, and a level - one time in three a break - arrives while the first open is being retried
    plans = [("gen", None, NH[res.tier], 10 if q else 100, None), ("late", "late_level", 12 if q else 150, 6 if q else 50, None),
             # the first open is refused because only one of the two players has sat in; the other sits in during the retry wait
             ("latejoin", "late_join", 6 if q else 60, 6 if q else 30, None)]
    return run_life(res, 3, CL, replay=replay, plans=plans)


def replay(res, path):
    return replay_life(res, path, run)

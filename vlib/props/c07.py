"""C07 - table status follows its life cycle; one hand at a time; hands are numbered."""
from .lifebase import run_life, replay_life

CL = {1: "a status edge outside the life cycle", 2: "the hand count changed other than +1 on an opened hand",
      3: "a hand opened while another was unsettled", 4: "per-hand fields not reset between hands",
      5: "a hand opened after close/release, on a break level, or before blinds were set", 6: "a game id was reused"}


def run(res, replay=None):
    return run_life(res, 3, CL, replay=replay)


def replay(res, path):
    return replay_life(res, path, run)

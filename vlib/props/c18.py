"""C18 - bots only ever make legal moves, and bot tables play out."""
from .actorbase import run_actor, replay_actor

CL = {(3, 1): "a bot acted although it was not asked / not at the table / shown a stale view / the table was not playing",
      (3, 2): "a bot's move was refused by the hand engine or carried an illegal amount",
      (3, 3): "a freshly asked bot did not submit exactly one action",
      (3, 4): "a call made by a bot on a bots-only table was refused",
      (3, 5): "a hand played by bots only did not reach settlement",
      (2, 1): "auto-join request count differs from the model", (2, 2): "the move is not one the bot model can make",
      (2, 3): "the model's hand-engine fragment disagrees with the hand engine about accepting the move",
      (1, 0): "a state in which a player was asked does not satisfy the theorem's premise asked_ok"}


def run(res, replay=None):
    q = res.tier == "quick"
    plans = [("gen", None, 28 if q else 600, 7 if q else 60, None), ("bots", "bots", 8 if q else 200, 8 if q else 40, None)]
    return run_actor(res, (3,), CL, (1, 2, 3, 9), replay=replay, plans=plans,
                     extra_assumptions=["'bot tables play out' is decided on bots-only tables (PARTIAL: needs the hand engine to close every betting round)"])


def replay(res, path):
    return replay_actor(res, path, run)

"""C19 - auto-play for an unresponsive player never volunteers chips."""
from .actorbase import run_actor, replay_actor

CL = {(4, 1): "the player runner called, bet, raised or moved all-in on the player's behalf",
      (4, 2): "the player runner paid something other than the posted ante / blind",
      (4, 3): "the player runner acted before the thinking time had elapsed (or not at once when suspended / passing)",
      (4, 4): "the player runner acted where the model does nothing",
      (4, 6): "the player runner answered one request more than once (a late copy of an earlier request was taken for a new one, or a wait was armed twice)",
      (4, 5): "the player runner did not submit the most conservative action (pass when that is the only option, otherwise ready or check, otherwise fold, otherwise the mandatory payment) - another action, or none",
      (2, 4): "the player runner's move differs from the model's (pass > [suspended: at once] ready > check > fold > mandatory payment)"}


def run(res, replay=None):
    return run_actor(res, (4,), CL, (4, 9), replay=replay,
                     extra_assumptions=["timing is checked with the configured thinking time of 1 s: a call must arrive within [1.0 s - 20 ms, 1.45 s] (or within 450 ms when immediate)"])


def replay(res, path):
    return replay_actor(res, path, run)

"""C03 - seat bookkeeping stays exclusive, consistent and all-or-nothing."""
import json
import os

from ..flow import standard_flow

CLAUSE = {1: "seat map / player list / seat manager disagree, a seat or player is doubly booked, or a seat is outside the table",
          2: "an operation that reported an error changed the bookkeeping", 3: "the operation panicked",
          4: "a reserve for a new player naming an empty seat (or any seat) of a table that is not full was refused"}


def signature(case, step):
    if step == 102:
        return "c03_sig_update_leaves_applied_joins_refused"
    return None


def _history(case):
    try:
        hs = json.load(open(os.path.join(case["_dir"], "histories.json")))
        for h in hs:
            if h["index"] == case["hist"]:
                return h
    except Exception:
        pass
    return None


def describe(case, step, code):
    d = {"code": {2: "model-vs-implementation", 3: "C03 specification monitor"}.get(code, code),
         "history_index": case.get("hist"), "failing_step": case.get("step"),
         "transition": {k: case[k] for k in ("pre", "op", "res", "post") if k in case}}
    if "err" in case:
        d["error_text"] = case["err"]
    if code == 3:
        d["failing_clause"] = CLAUSE.get(step % 100, step)
    h = _history(case)
    if h:
        d["history"] = h
    return d


def stats(cases):
    kinds, res, status, maxes = {}, {}, {}, {}
    for c in cases:
        if "op" not in c:
            continue
        k = c["op"]["kind"]
        kinds[k] = kinds.get(k, 0) + 1
        res[c["res"]] = res.get(c["res"], 0) + 1
        st = c["pre"].get("status", "?")
        status[st] = status.get(st, 0) + 1
        m = c["pre"]["sm"]["max"] if "sm" in c["pre"] else c["pre"]["max"]
        maxes[m] = maxes.get(m, 0) + 1
    return {"op_kinds": kinds, "results": res, "status_before_op": status, "seat_counts": maxes}


NH = {"quick": 220, "thorough": 5000}


def relevant(case, code, step):
    return True


def run(res, replay=None):
    return standard_flow(
        res, hx="tm", corr="TM_run", n=0 if replay else NH[res.tier], shard=60 if res.tier == "quick" else 400, replay=replay,
        signature=signature, describe=describe, stats=stats, relevant=relevant, unit=_history,
        rule="histories of reserve(fixed/any seat) / join / redeem / leave / batch update, valid and invalid (taken, out-of-range and duplicate "
             "seats, duplicate and unknown ids, over-capacity batches), on real tables of 2..10 seats, before the first hand and between hands "
             "(a hand is played now and then); one case per operation; distinct = distinct (state, op); non-trivial = the operation changes the "
             "bookkeeping or is refused",
        nontrivial=lambda c: c["res"] != "ok" or json.dumps(c["pre"]["players"]) != json.dumps(c["post"]["players"]),
        key=lambda c: json.dumps([c["pre"]["players"], c["pre"]["seat_map"], c["op"]], sort_keys=True),
        assumptions=["random seat draws enter the model as observed oracle values",
                     "Go map iteration order only selects which of several applicable errors is returned; ok/error is compared"])


def replay(res, path):
    data = json.load(open(path))
    hist = data.get("history")
    if hist is None:
        raise RuntimeError("replay file has no history")
    tmp = path + ".hist.json"
    json.dump([hist], open(tmp, "w"))
    return run(res, replay=tmp)

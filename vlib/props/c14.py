"""C14 - per-hand player statistics describe what the player actually did."""
from .handbase import run_hand, replay_hand

CL = {(5, 1): "at settlement a participant's counters / fold flag / fold round / flag pairs do not describe the accepted actions",
      (5, 2): "more than one player holds the 3-bet flag",
      (5, 3): "statistics were not cleared before the next hand",
      (5, 4): "a 'had the chance' flag that sits behind the Started/Acted gate was observed set (the model's assumption on the hand engine fails)"}


def run(res, replay=None):
    q = res.tier == "quick"
    plans = [("gen", None, 70 if q else 1500, 12 if q else 120, None),
             ("started", "started", 24 if q else 600, 12 if q else 120, None)]
    return run_hand(res, (5,), CL, replay=replay, plans=plans, stats_model=True,
                    extra_assumptions=["the hand engine asks only players whose Acted flag is clear and names the betting event RoundStarted "
                                       "(pokerface v0.1.10): the gated 'had the chance' flags are never marked; watched on every settlement, and "
                                       "also run against a backend that names the event Started"])


def replay(res, path):
    return replay_hand(res, path, run)
